/-! feasibility: string quoting round trip through a scanString-like lexer, over List Char -/

def hexDigit (n : Nat) : Char :=
  if n < 10 then Char.ofNat (48 + n) else Char.ofNat (87 + n)   -- '0'.. / 'a'..

def hexVal (c : Char) : Option Nat :=
  if '0' ≤ c ∧ c ≤ '9' then some (c.toNat - 48)
  else if 'a' ≤ c ∧ c ≤ 'f' then some (c.toNat - 87)
  else if 'A' ≤ c ∧ c ≤ 'F' then some (c.toNat - 55)
  else none

theorem hexVal_hexDigit (n : Nat) (h : n < 16) : hexVal (hexDigit n) = some n := by
  have : n = 0 ∨ n = 1 ∨ n = 2 ∨ n = 3 ∨ n = 4 ∨ n = 5 ∨ n = 6 ∨ n = 7 ∨ n = 8 ∨ n = 9 ∨
      n = 10 ∨ n = 11 ∨ n = 12 ∨ n = 13 ∨ n = 14 ∨ n = 15 := by omega
  rcases this with h | h | h | h | h | h | h | h | h | h | h | h | h | h | h | h <;> subst h <;> decide

/-- strconv.Quote-like, with `isPrint` abstract; only BMP handled in this experiment -/
def quoteChar (isPrint : Char → Bool) (c : Char) : List Char :=
  if c = '"' then ['\\', '"']
  else if c = '\\' then ['\\', '\\']
  else if c = '\n' then ['\\', 'n']
  else if c = '\t' then ['\\', 't']
  else if isPrint c ∧ c ≠ '\r' then [c]
  else
    let n := c.toNat
    ['\\', 'u', hexDigit (n / 4096 % 16), hexDigit (n / 256 % 16), hexDigit (n / 16 % 16), hexDigit (n % 16)]

def quoteBody (isPrint : Char → Bool) (s : List Char) : List Char :=
  s.flatMap (quoteChar isPrint)

/-- the lexer's scanString loop after the opening quote: returns the decoded string and the rest -/
def scanString : (fuel : Nat) → List Char → List Char → Option (List Char × List Char)
  | 0, _, _ => none
  | _+1, [], _ => none
  | fuel+1, c :: rest, acc =>
    if c = '"' then some (acc.reverse, rest)
    else if c = '\n' then none
    else if c = '\\' then
      match rest with
      | 'n' :: rest' => scanString fuel rest' ('\n' :: acc)
      | 't' :: rest' => scanString fuel rest' ('\t' :: acc)
      | 'u' :: a :: b :: c' :: d :: rest' =>
        match hexVal a, hexVal b, hexVal c', hexVal d with
        | some a, some b, some c', some d =>
          let n := ((a * 16 + b) * 16 + c') * 16 + d
          if n = 0 then none else scanString fuel rest' (Char.ofNat n :: acc)
        | _, _, _, _ => none
      | x :: rest' => scanString fuel rest' (x :: acc)      -- everything else is literal
      | [] => none
    else scanString fuel rest (c :: acc)

theorem scan_quote (isPrint : Char → Bool) (s : List Char) :
    ∀ (acc rest : List Char) (fuel : Nat),
      (∀ c ∈ s, c.toNat ≠ 0 ∧ c.toNat < 65536) →
      fuel > (quoteBody isPrint s).length →
      scanString fuel (quoteBody isPrint s ++ '"' :: rest) acc = some (acc.reverse ++ s, rest) := by
  induction s with
  | nil =>
    intro acc rest fuel _ hf
    cases fuel with
    | zero => simp at hf
    | succ k => simp [quoteBody, scanString]
  | cons c s ih =>
    intro acc rest fuel hs hf
    have hc := hs c (by simp)
    have hs' : ∀ c ∈ s, c.toNat ≠ 0 ∧ c.toNat < 65536 := fun x hx => hs x (by simp [hx])
    simp only [quoteBody, List.flatMap_cons] at hf ⊢
    by_cases h1 : c = '"'
    · subst h1
      simp only [quoteChar, if_true, List.cons_append, List.nil_append, List.length_append, List.length_cons] at hf ⊢
      obtain ⟨k, rfl⟩ : ∃ k, fuel = k + 1 := ⟨fuel - 1, by simp at hf; omega⟩
      have := ih ('"' :: acc) rest k hs' (by simp [quoteBody] at hf ⊢; omega)
      simp [scanString, quoteBody] at this ⊢; simp [this]
    · by_cases h2 : c = '\\'
      · subst h2
        simp only [quoteChar, h1, if_false, if_true, List.cons_append, List.nil_append, List.length_append, List.length_cons] at hf ⊢
        obtain ⟨k, rfl⟩ : ∃ k, fuel = k + 1 := ⟨fuel - 1, by simp at hf; omega⟩
        have := ih ('\\' :: acc) rest k hs' (by simp [quoteBody] at hf ⊢; omega)
        simp [scanString, quoteBody] at this ⊢; simp [this]
      · by_cases h3 : c = '\n'
        · subst h3
          simp only [quoteChar, h1, h2, if_false, if_true, List.cons_append, List.nil_append, List.length_append, List.length_cons] at hf ⊢
          obtain ⟨k, rfl⟩ : ∃ k, fuel = k + 1 := ⟨fuel - 1, by simp at hf; omega⟩
          have := ih ('\n' :: acc) rest k hs' (by simp [quoteBody] at hf ⊢; omega)
          simp [scanString, quoteBody] at this ⊢; simp [this]
        · by_cases h4 : c = '\t'
          · subst h4
            simp only [quoteChar, h1, h2, h3, if_false, if_true, List.cons_append, List.nil_append, List.length_append, List.length_cons] at hf ⊢
            obtain ⟨k, rfl⟩ : ∃ k, fuel = k + 1 := ⟨fuel - 1, by simp at hf; omega⟩
            have := ih ('\t' :: acc) rest k hs' (by simp [quoteBody] at hf ⊢; omega)
            simp [scanString, quoteBody] at this ⊢; simp [this]
          · by_cases h5 : isPrint c = true ∧ c ≠ '\r'
            · have hq : quoteChar isPrint c = [c] := by
                simp [quoteChar, h1, h2, h3, h4, h5.1, h5.2]
              rw [hq] at hf ⊢
              obtain ⟨k, rfl⟩ : ∃ k, fuel = k + 1 := ⟨fuel - 1, by simp at hf; omega⟩
              have := ih (c :: acc) rest k hs' (by simp [quoteBody] at hf ⊢; omega)
              simp [scanString, quoteBody, h1, h2, h3] at this ⊢; simp [this]
            · have hq : quoteChar isPrint c = ['\\', 'u', hexDigit (c.toNat / 4096 % 16), hexDigit (c.toNat / 256 % 16),
                  hexDigit (c.toNat / 16 % 16), hexDigit (c.toNat % 16)] := by
                simp only [quoteChar, h1, h2, h3, h4, if_false]
                rw [if_neg h5]
              rw [hq] at hf ⊢
              obtain ⟨k, rfl⟩ : ∃ k, fuel = k + 1 := ⟨fuel - 1, by simp at hf; omega⟩
              have hn : ((c.toNat / 4096 % 16 * 16 + c.toNat / 256 % 16) * 16 + c.toNat / 16 % 16) * 16 + c.toNat % 16 = c.toNat := by
                have := hc.2; omega
              have := ih (c :: acc) rest k hs' (by simp [quoteBody] at hf ⊢; omega)
              simp [scanString, quoteBody, hexVal_hexDigit, Nat.mod_lt, hn, hc.1] at this ⊢; simp [this]

#print axioms scan_quote
