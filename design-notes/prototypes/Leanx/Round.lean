/-! feasibility: rounding a dyadic value that is already a canonical binary64 gives it back
    (the lemma behind `parse (format x) = x`).  Rounding from a pair of naturals, no `Rat`. -/

namespace R

def minExp : Int := -1074
def maxExp : Int := 971

/-- quotient, remainder and divisor of num/den scaled by 2^(-e) -/
def qr (num den : Nat) (e : Int) : Nat × Nat × Nat :=
  if e ≥ 0 then (num / (den * 2 ^ e.toNat), num % (den * 2 ^ e.toNat), den * 2 ^ e.toNat)
  else (num * 2 ^ (-e).toNat / den, num * 2 ^ (-e).toNat % den, den)

/-- exponent at which the quotient has 53 significant bits, clamped at the subnormal exponent -/
def pickExp (num den : Nat) : Int :=
  let e0 : Int := (Nat.log2 num : Int) - (Nat.log2 den : Int) - 52
  let e1 := if (qr num den e0).1 ≥ 2 ^ 53 then e0 + 1 else if (qr num den e0).1 < 2 ^ 52 then e0 - 1 else e0
  if e1 < minExp then minExp else e1

def halfEven (q r d : Nat) : Nat :=
  if 2 * r > d then q + 1 else if 2 * r < d then q else (if q % 2 = 1 then q + 1 else q)

def finish (m : Nat) (e : Int) : Option (Nat × Int) := if e > maxExp then none else some (m, e)

/-- round num/den (num > 0, den > 0) to nearest-even binary64: mantissa and exponent, or overflow -/
def roundPos (num den : Nat) : Option (Nat × Int) :=
  let e := pickExp num den
  let t := qr num den e
  let q' := halfEven t.1 t.2.1 t.2.2
  if q' = 2 ^ 53 then finish (2 ^ 52) (e + 1) else finish q' e

/-- canonical normal number -/
def Normal (m : Nat) (e : Int) : Prop := 2 ^ 52 ≤ m ∧ m < 2 ^ 53 ∧ minExp ≤ e ∧ e ≤ maxExp

theorem log2_scaled (m k : Nat) (h1 : 2 ^ 52 ≤ m) (h2 : m < 2 ^ 53) : Nat.log2 (m * 2 ^ k) = 52 + k := by
  have hpow : 0 < 2 ^ k := Nat.two_pow_pos k
  have hpos : m * 2 ^ k ≠ 0 := Nat.ne_of_gt (Nat.mul_pos (by omega) hpow)
  rw [Nat.log2_eq_iff hpos]
  constructor
  · rw [Nat.pow_add]; exact Nat.mul_le_mul_right _ h1
  · rw [show 52 + k + 1 = 53 + k by omega, Nat.pow_add]
    exact Nat.mul_lt_mul_of_lt_of_le h2 (Nat.le_refl _) hpow

theorem log2_normal (m : Nat) (h1 : 2 ^ 52 ≤ m) (h2 : m < 2 ^ 53) : Nat.log2 m = 52 := by
  have := log2_scaled m 0 h1 h2
  simpa using this

theorem log2_one : Nat.log2 1 = 0 := by
  rw [Nat.log2_eq_iff (by omega)]; omega

theorem halfEven_exact (q d : Nat) (hd : 0 < d) : halfEven q 0 d = q := by
  simp [halfEven, hd]

/-- non-negative exponent: the value is the integer m·2^k -/
theorem round_normal_nonneg (m : Nat) (k : Nat) (h : Normal m k) :
    roundPos (m * 2 ^ k) 1 = some (m, (k : Int)) := by
  obtain ⟨h1, h2, _, h4⟩ := h
  have hpow : 0 < 2 ^ k := Nat.two_pow_pos k
  have hqr : qr (m * 2 ^ k) 1 (k : Int) = (m, 0, 2 ^ k) := by
    simp [qr, Nat.mul_div_cancel m hpow]
  have hpick : pickExp (m * 2 ^ k) 1 = (k : Int) := by
    have he0 : ((Nat.log2 (m * 2 ^ k) : Int) - (Nat.log2 1 : Int) - 52) = (k : Int) := by
      rw [log2_scaled m k h1 h2, log2_one]; omega
    unfold pickExp
    simp only [he0, hqr]
    have : ¬ m ≥ 2 ^ 53 := by omega
    have : ¬ m < 2 ^ 52 := by omega
    have : ¬ ((k : Int) < minExp) := by simp [minExp]
    simp [*]
  unfold roundPos
  simp only [hpick, hqr, halfEven_exact m _ hpow]
  have hne : m ≠ 2 ^ 53 := by omega
  have hmax : ¬ ((k : Int) > maxExp) := by omega
  simp [hne, finish, hmax]

/-- negative exponent: the value is m / 2^k -/
theorem round_normal_neg (m : Nat) (k : Nat) (hk : 0 < k) (h : Normal m (-(k : Int))) :
    roundPos m (2 ^ k) = some (m, -(k : Int)) := by
  obtain ⟨h1, h2, h3, _⟩ := h
  have hpow : 0 < 2 ^ k := Nat.two_pow_pos k
  have hneg : ¬ (-(k : Int) ≥ 0) := by omega
  have htn : (-(-(k : Int))).toNat = k := by simp
  have hqr : qr m (2 ^ k) (-(k : Int)) = (m, 0, 2 ^ k) := by
    unfold qr
    rw [if_neg hneg, htn, Nat.mul_div_cancel m hpow, Nat.mul_mod_left]
  have hpick : pickExp m (2 ^ k) = -(k : Int) := by
    have he0 : ((Nat.log2 m : Int) - (Nat.log2 (2 ^ k) : Int) - 52) = -(k : Int) := by
      rw [log2_normal m h1 h2, Nat.log2_two_pow]; omega
    unfold pickExp
    simp only [he0, hqr]
    have : ¬ m ≥ 2 ^ 53 := by omega
    have : ¬ m < 2 ^ 52 := by omega
    have : ¬ (-(k : Int) < minExp) := by omega
    simp [*]
  unfold roundPos
  simp only [hpick, hqr, halfEven_exact m _ hpow]
  have hne : m ≠ 2 ^ 53 := by omega
  have hmax : ¬ (-(k : Int) > maxExp) := by simp [maxExp]
  simp [hne, finish, hmax]

#print axioms round_normal_nonneg
#print axioms round_normal_neg

end R
