import Leanx.Exec

/-! refinement experiment: collect mode, full fragment -/

def envOf (s : St) : Env := { lax := s.lax, root := s.root, cur := s.cur }

def visible (verbose : Bool) : Option Err → Option Err
  | some (.verbose t) => if verbose then some (.verbose t) else none
  | e => e

/-- relation between an exec result (collect mode) and the trace -/
structure SimC (s : St) (acc : List Item) (tr : Trace) (r : Res) : Prop where
  found : r.found = some (acc ++ tr.1)
  cur : r.cur = s.cur
  vb : r.verbose = s.verbose
  failed : r.st = .failed ↔ tr.2.isSome
  err : r.err = visible s.verbose tr.2

theorem after_eq (s : St) (r : Res) (h1 : r.cur = s.cur) (h2 : r.verbose = s.verbose) : s.after r = s := by
  cases s; simp_all [St.after]

theorem loop_sim (s : St) (step : St → Item → Option (List Item) → Res) (ev : Item → Trace)
    (hstep : ∀ x acc, SimC s acc (ev x) (step s x (some acc))) :
    ∀ xs acc, SimC s acc (traceLoop ev xs) (xLoop step s xs (some acc)) := by
  intro xs
  induction xs with
  | nil => intro acc; constructor <;> simp [xLoop, traceLoop, done, visible]
  | cons x rest ih =>
    intro acc
    simp only [xLoop, traceLoop]
    have h1 := hstep x acc
    generalize step s x (some acc) = r at h1 ⊢
    generalize ev x = tr at h1 ⊢
    obtain ⟨ys, e⟩ := tr
    cases e with
    | some e =>
      have hf : r.st = .failed := h1.failed.mpr rfl
      simpa [hf] using h1
    | none =>
      have hnf : r.st ≠ .failed := fun h => by simpa using h1.failed.mp h
      have hs : s.after r = s := after_eq s r h1.cur h1.vb
      have h2 := ih (acc ++ ys)
      simp only [hnf, hs, h1.found, Option.isNone_some, false_or, and_false, if_false, Bool.false_eq_true]
      generalize xLoop step s rest (some (acc ++ ys)) = r2 at h2 ⊢
      generalize traceLoop ev rest = tr2 at h2 ⊢
      obtain ⟨zs, e2⟩ := tr2
      have hfound := h2.found; have hcur := h2.cur; have hvb := h2.vb; have herr := h2.err; have hfail := h2.failed
      simp only at hfound herr hfail ⊢
      split <;> constructor <;> simp_all [List.append_assoc]

/-- predicate results: outcome, error (hard errors only; operands run silently), verbose restored -/
structure SimP (s : St) (tr : Tri × Option Err) (r : Tri × Option Err × Bool) : Prop where
  out : r.1 = tr.1
  err : r.2.1 = tr.2
  vb : r.2.2 = s.verbose

/-! ## probe mode (found = nil) -/

structure SimN (s : St) (tr : Trace) (r : Res) : Prop where
  found : r.found = none
  cur : r.cur = s.cur
  vb : r.verbose = s.verbose
  ok : r.st = .ok ↔ tr.1 ≠ []
  failed : r.st = .failed ↔ (tr.1 = [] ∧ tr.2.isSome)
  err : r.err = if r.st = .failed then visible s.verbose tr.2 else none

theorem loop_simN (s : St) (step : St → Item → Option (List Item) → Res) (ev : Item → Trace)
    (hstep : ∀ x, SimN s (ev x) (step s x none)) :
    ∀ xs, SimN s (traceLoop ev xs) (xLoop step s xs none) := by
  intro xs
  induction xs with
  | nil => constructor <;> simp [xLoop, traceLoop, done, visible]
  | cons x rest ih =>
    simp only [xLoop, traceLoop]
    have h1 := hstep x
    generalize step s x none = r at h1 ⊢
    generalize ev x = tr at h1 ⊢
    obtain ⟨ys, e⟩ := tr
    obtain ⟨hfo, hcu, hvb, hok, hfa, her⟩ := h1
    simp only at hok hfa her
    by_cases hys : ys = []
    · subst hys
      cases e with
      | some e =>
        have hf : r.st = .failed := hfa.mpr ⟨rfl, rfl⟩
        simp only [hf, true_or, if_true]
        constructor <;> simp_all
      | none =>
        have hnf : r.st ≠ .failed := fun h => by simpa using (hfa.mp h).2
        have hnok : r.st ≠ .ok := fun h => by simpa using hok.mp h
        have hs : s.after r = s := after_eq s r hcu hvb
        simp only [hnf, hnok, hs, hfo, false_or, false_and, if_false, and_false]
        simpa using ih
    · have hok' : r.st = .ok := hok.mpr hys
      simp only [hok', Option.isNone_none, and_self, or_true, if_true]
      cases e with
      | some e => constructor <;> simp_all
      | none =>
        generalize traceLoop ev rest = tr2
        obtain ⟨zs, e2⟩ := tr2
        constructor <;> simp_all

/-! ## predicates return hard errors only -/

def HardOnly (e : Option Err) : Prop := ∀ t, e ≠ some (.verbose t)

theorem visible_hard {e : Option Err} (h : HardOnly e) (b : Bool) : visible b e = e := by
  cases e with
  | none => rfl
  | some e =>
    cases e with
    | verbose t => exact absurd rfl (h t)
    | hard t => rfl

theorem evalPred_hard (fuel : Nat) : ∀ env p, HardOnly (evalPred fuel env p).2 := by
  induction fuel with
  | zero => intro env p; simp [evalPred, HardOnly]
  | succ k ih =>
    intro env p
    cases p with
    | eq l r =>
      simp only [evalPred]
      rcases hl : evalNode k env l env.cur env.lax with ⟨ls, _ | ⟨_ | _⟩⟩ <;> simp [HardOnly]
      rcases hr : evalNode k env r env.cur env.lax with ⟨rs, _ | ⟨_ | _⟩⟩ <;> simp [HardOnly]
      split <;> simp
    | and l r =>
      simp only [evalPred]
      have h1 := ih env l
      have h2 := ih env r
      rcases hl : evalPred k env l with ⟨a, e⟩
      rw [hl] at h1
      cases e with
      | some e => cases a <;> simpa using h1
      | none =>
        cases a with
        | f => simp [HardOnly]
        | _ =>
          simp only
          rcases hr : evalPred k env r with ⟨b, e2⟩
          rw [hr] at h2
          cases b <;> simpa using h2
    | not p =>
      simp only [evalPred]
      have h1 := ih env p
      rcases hp : evalPred k env p with ⟨a, e⟩
      rw [hp] at h1
      cases e with
      | some e => cases a <;> simpa using h1
      | none => cases a <;> simp [HardOnly]
    | isUnknown p =>
      simp only [evalPred]
      split <;> simp [HardOnly]
    | exists_ n =>
      simp only [evalPred]
      split <;> simp [HardOnly]

/-- an error only ever comes with the outcome `unknown` -/
theorem evalPred_errU (fuel : Nat) : ∀ env p, (evalPred fuel env p).2.isSome → (evalPred fuel env p).1 = .u := by
  induction fuel with
  | zero => intro env p; simp [evalPred]
  | succ k ih =>
    intro env p
    cases p with
    | eq l r =>
      simp only [evalPred]
      rcases hl : evalNode k env l env.cur env.lax with ⟨ls, _ | ⟨_ | _⟩⟩ <;> simp
      rcases hr : evalNode k env r env.cur env.lax with ⟨rs, _ | ⟨_ | _⟩⟩ <;> simp
      split <;> simp
    | and l r =>
      simp only [evalPred]
      have h1 := ih env l
      have h2 := ih env r
      rcases hl : evalPred k env l with ⟨a, e⟩
      rw [hl] at h1
      cases e with
      | some e => cases a <;> simp_all
      | none =>
        cases a with
        | f => simp
        | _ =>
          simp only
          rcases hr : evalPred k env r with ⟨b, e2⟩
          rw [hr] at h2
          cases b <;> cases e2 <;> simp_all
    | not p =>
      simp only [evalPred]
      have h1 := ih env p
      rcases hp : evalPred k env p with ⟨a, e⟩
      rw [hp] at h1
      cases e <;> cases a <;> simp_all
    | isUnknown p =>
      simp only [evalPred]
      split <;> simp
    | exists_ n =>
      simp only [evalPred]
      split <;> simp

/-! ## the full simulation for the fragment -/

theorem st_restore (s : St) : ({ s with cur := s.cur, verbose := s.verbose } : St) = s := by cases s; rfl

theorem refine_full (fuel : Nat) :
    (∀ s n v acc unwrap, SimC s acc (evalNode fuel (envOf s) n v unwrap) (xNode fuel s n v (some acc) unwrap)) ∧
    (∀ s next v acc, SimC s acc (evalNext fuel (envOf s) next v) (xNext fuel s next v (some acc))) ∧
    (∀ s n v unwrap, SimN s (evalNode fuel (envOf s) n v unwrap) (xNode fuel s n v none unwrap)) ∧
    (∀ s next v, SimN s (evalNext fuel (envOf s) next v) (xNext fuel s next v none)) ∧
    (∀ s p, SimP s (evalPred fuel (envOf s) p) (xPred fuel s p)) := by
  induction fuel with
  | zero =>
    refine ⟨?_, ?_, ?_, ?_, ?_⟩
    · intros; constructor <;> simp [evalNode, xNode, visible]
    · intro s next v acc; cases next <;> constructor <;> simp [evalNext, xNext, done, visible]
    · intros; constructor <;> simp [evalNode, xNode, visible]
    · intro s next v; cases next <;> constructor <;> simp [evalNext, xNext, done, visible]
    · intros; constructor <;> simp [evalPred, xPred]
  | succ k ih =>
    obtain ⟨ihN, ihX, ihNp, ihXp, ihP⟩ := ih
    have filterC : ∀ s p next v acc, SimC s acc
        (filterTrace (evalPred k { envOf s with cur := v } p) (evalNext k (envOf s) next v))
        (filterCont s (xPred k { s with cur := v } p) (some acc) (fun s' => xNext k s' next v (some acc))) := by
      intro s p next v acc
      have hp := ihP { s with cur := v } p
      have hh := evalPred_hard k { envOf s with cur := v } p
      have henv : envOf { s with cur := v } = { envOf s with cur := v } := rfl
      rw [henv] at hp
      generalize evalPred k { envOf s with cur := v } p = tp at hp hh ⊢
      generalize xPred k { s with cur := v } p = rp at hp ⊢
      obtain ⟨t, e⟩ := tp
      obtain ⟨t', e', vb'⟩ := rp
      obtain ⟨h1, h2, h3⟩ := hp
      simp only at h1 h2 h3 hh
      subst h1 h2 h3
      cases e' with
      | some e =>
        have := visible_hard hh s.verbose
        cases t' <;> (constructor <;> simp_all [filterCont, filterTrace])
      | none =>
        cases t' with
        | t => exact ihX s next v acc
        | f => constructor <;> simp [filterCont, filterTrace, done, visible]
        | u => constructor <;> simp [filterCont, filterTrace, done, visible]
    have filterN : ∀ s p next v, SimN s
        (filterTrace (evalPred k { envOf s with cur := v } p) (evalNext k (envOf s) next v))
        (filterCont s (xPred k { s with cur := v } p) none (fun s' => xNext k s' next v none)) := by
      intro s p next v
      have hp := ihP { s with cur := v } p
      have hh := evalPred_hard k { envOf s with cur := v } p
      have henv : envOf { s with cur := v } = { envOf s with cur := v } := rfl
      rw [henv] at hp
      generalize evalPred k { envOf s with cur := v } p = tp at hp hh ⊢
      generalize xPred k { s with cur := v } p = rp at hp ⊢
      obtain ⟨t, e⟩ := tp
      obtain ⟨t', e', vb'⟩ := rp
      obtain ⟨h1, h2, h3⟩ := hp
      simp only at h1 h2 h3 hh
      subst h1 h2 h3
      cases e' with
      | some e =>
        have := visible_hard hh s.verbose
        cases t' <;> (constructor <;> simp_all [filterCont, filterTrace])
      | none =>
        cases t' with
        | t => exact ihXp s next v
        | f => constructor <;> simp [filterCont, filterTrace, done, visible]
        | u => constructor <;> simp [filterCont, filterTrace, done, visible]
    refine ⟨?_, ?_, ?_, ?_, ?_⟩
    · -- collect mode, nodes
      intro s n v acc unwrap
      cases n with
      | root next => simpa [evalNode, xNode, envOf] using ihX s next s.root acc
      | cur next => simpa [evalNode, xNode, envOf] using ihX s next s.cur acc
      | lit i next =>
        cases next <;> simpa [evalNode, xNode, envOf] using ihX s _ (.int i) acc
      | key k' next =>
        cases v with
        | obj kvs =>
          simp only [evalNode, xNode, envOf]
          cases hl : lookup k' kvs with
          | some x => simpa [envOf] using ihX s next x acc
          | none => by_cases hlax : s.lax <;> constructor <;> simp [hlax, done, retVerbose, visible]
        | arr xs =>
          simp only [evalNode, xNode, envOf]
          by_cases hu : unwrap
          · simp only [hu, if_true]
            exact loop_sim s _ _ (fun x acc => by simpa [envOf] using ihN s (.key k' next) x acc false) xs acc
          · by_cases hlax : s.lax <;> constructor <;> simp [hu, hlax, done, retVerbose, visible]
        | _ =>
          simp only [evalNode, xNode, envOf]
          by_cases hlax : s.lax <;> constructor <;> simp [hlax, done, retVerbose, visible]
      | anyArr next =>
        cases v with
        | arr xs =>
          simp only [evalNode, xNode, envOf]
          exact loop_sim s _ _ (fun x acc => by simpa [envOf] using ihX s next x acc) xs acc
        | _ =>
          simp only [evalNode, xNode, envOf]
          by_cases hlax : s.lax
          · simpa [hlax, envOf] using ihX s next _ acc
          · constructor <;> simp [hlax, retVerbose, visible]
      | filter p next =>
        have hloop : ∀ xs, SimC s acc (traceLoop (fun x => evalNode k (envOf s) (.filter p next) x false) xs)
            (xLoop (fun s x f => xNode k s (.filter p next) x f false) s xs (some acc)) := fun xs =>
          loop_sim s _ _ (fun x acc => by simpa [envOf] using ihN s (.filter p next) x acc false) xs acc
        cases v with
        | arr xs =>
          cases unwrap with
          | true => simpa [evalNode, xNode, envOf] using hloop xs
          | false => simpa [evalNode, xNode, envOf] using filterC s p next _ acc
        | _ => simpa [evalNode, xNode, envOf] using filterC s p next _ acc
    · intro s next v acc
      cases next with
      | none => constructor <;> simp [evalNext, xNext, done, visible]
      | some n => simpa [evalNext, xNext, envOf] using ihN s n v acc s.lax
    · -- probe mode, nodes
      intro s n v unwrap
      cases n with
      | root next => simpa [evalNode, xNode, envOf] using ihXp s next s.root
      | cur next => simpa [evalNode, xNode, envOf] using ihXp s next s.cur
      | lit i next =>
        cases next with
        | none => constructor <;> simp [evalNode, xNode, evalNext, done, visible]
        | some n => simpa [evalNode, xNode, envOf] using ihXp s (some n) (.int i)
      | key k' next =>
        cases v with
        | obj kvs =>
          simp only [evalNode, xNode, envOf]
          cases hl : lookup k' kvs with
          | some x => simpa [envOf] using ihXp s next x
          | none => by_cases hlax : s.lax <;> constructor <;> simp [hlax, done, retVerbose, visible]
        | arr xs =>
          simp only [evalNode, xNode, envOf]
          by_cases hu : unwrap
          · simp only [hu, if_true]
            exact loop_simN s _ _ (fun x => by simpa [envOf] using ihNp s (.key k' next) x false) xs
          · by_cases hlax : s.lax <;> constructor <;> simp [hu, hlax, done, retVerbose, visible]
        | _ =>
          simp only [evalNode, xNode, envOf]
          by_cases hlax : s.lax <;> constructor <;> simp [hlax, done, retVerbose, visible]
      | anyArr next =>
        cases v with
        | arr xs =>
          simp only [evalNode, xNode, envOf]
          exact loop_simN s _ _ (fun x => by simpa [envOf] using ihXp s next x) xs
        | _ =>
          simp only [evalNode, xNode, envOf]
          by_cases hlax : s.lax
          · simpa [hlax, envOf] using ihXp s next _
          · constructor <;> simp [hlax, retVerbose, visible]
      | filter p next =>
        have hloop : ∀ xs, SimN s (traceLoop (fun x => evalNode k (envOf s) (.filter p next) x false) xs)
            (xLoop (fun s x f => xNode k s (.filter p next) x f false) s xs none) := fun xs =>
          loop_simN s _ _ (fun x => by simpa [envOf] using ihNp s (.filter p next) x false) xs
        cases v with
        | arr xs =>
          cases unwrap with
          | true => simpa [evalNode, xNode, envOf] using hloop xs
          | false => simpa [evalNode, xNode, envOf] using filterN s p next _
        | _ => simpa [evalNode, xNode, envOf] using filterN s p next _
    · intro s next v
      cases next with
      | none => constructor <;> simp [evalNext, xNext, done, visible]
      | some n => simpa [evalNext, xNext, envOf] using ihNp s n v s.lax
    · -- predicates
      intro s p
      -- silent operand evaluation in collect mode (executeItemOptUnwrapResultSilent)
      have operand : ∀ (n : Node),
          let r := xNode k { s with verbose := false } n s.cur (some []) s.lax
          let tr := evalNode k (envOf s) n s.cur s.lax
          r.found = some tr.1 ∧ r.cur = s.cur ∧ (r.st = .failed ↔ tr.2.isSome) ∧ r.err = visible false tr.2 := by
        intro n
        have h := ihN { s with verbose := false } n s.cur [] s.lax
        have he : envOf { s with verbose := false } = envOf s := rfl
        rw [he] at h
        obtain ⟨h1, h2, _, h4, h5⟩ := h
        exact ⟨by simpa using h1, h2, h4, h5⟩
      cases p with
      | eq l r =>
        simp only [evalPred, xPred]
        have hl := operand l
        have hcur : (envOf s).cur = s.cur := rfl
        have hlax : (envOf s).lax = s.lax := rfl
        simp only [hcur, hlax]
        generalize xNode k { s with verbose := false } l s.cur (some []) s.lax = rl at hl ⊢
        generalize evalNode k (envOf s) l s.cur s.lax = tl at hl ⊢
        obtain ⟨ls, el⟩ := tl
        obtain ⟨hlf, hlc, hlfail, hlerr⟩ := hl
        simp only at hlf hlfail hlerr
        cases el with
        | some e =>
          have : rl.st = .failed := hlfail.mpr rfl
          cases e <;> constructor <;> simp_all [visible]
        | none =>
          have hnf : rl.st ≠ .failed := fun h => by simpa using hlfail.mp h
          simp only [hnf, if_false, hlc]
          have hr := operand r
          generalize xNode k { s with verbose := false } r s.cur (some []) s.lax = rr at hr ⊢
          generalize evalNode k (envOf s) r s.cur s.lax = tr at hr ⊢
          obtain ⟨rs, er⟩ := tr
          obtain ⟨hrf, hrc, hrfail, hrerr⟩ := hr
          simp only at hrf hrfail hrerr
          cases er with
          | some e =>
            have : rr.st = .failed := hrfail.mpr rfl
            cases e <;> constructor <;> simp_all [visible]
          | none =>
            have hnf2 : rr.st ≠ .failed := fun h => by simpa using hrfail.mp h
            simp only [hnf2, if_false, hlf, hrf, Option.getD_some]
            split <;> constructor <;> simp_all
      | and l r =>
        simp only [evalPred, xPred]
        have h1 := ihP s l
        generalize xPred k s l = r1 at h1 ⊢
        generalize evalPred k (envOf s) l = t1 at h1 ⊢
        obtain ⟨a, e⟩ := t1
        obtain ⟨a', e', vb'⟩ := r1
        obtain ⟨ha, he, hv⟩ := h1
        simp only at ha he hv
        subst ha he hv
        have hs : ({ s with verbose := s.verbose } : St) = s := rfl
        cases e' with
        | some e => cases a' <;> constructor <;> simp
        | none =>
          cases a' with
          | f => constructor <;> simp
          | t =>
            simp only [hs]
            have h2 := ihP s r
            generalize xPred k s r = r2 at h2 ⊢
            generalize evalPred k (envOf s) r = t2 at h2 ⊢
            obtain ⟨b, e2⟩ := t2
            obtain ⟨b', e2', vb2⟩ := r2
            obtain ⟨hb, he2, hv2⟩ := h2
            simp only at hb he2 hv2
            subst hb he2 hv2
            cases e2' <;> cases b' <;> constructor <;> simp
          | u =>
            simp only [hs]
            have h2 := ihP s r
            generalize xPred k s r = r2 at h2 ⊢
            generalize evalPred k (envOf s) r = t2 at h2 ⊢
            obtain ⟨b, e2⟩ := t2
            obtain ⟨b', e2', vb2⟩ := r2
            obtain ⟨hb, he2, hv2⟩ := h2
            simp only at hb he2 hv2
            subst hb he2 hv2
            cases e2' <;> cases b' <;> constructor <;> simp
      | not q =>
        simp only [evalPred, xPred]
        have h1 := ihP s q
        generalize xPred k s q = r1 at h1 ⊢
        generalize ht1 : evalPred k (envOf s) q = t1 at h1 ⊢
        obtain ⟨a, e⟩ := t1
        obtain ⟨a', e', vb'⟩ := r1
        obtain ⟨ha, he, hv⟩ := h1
        simp only at ha he hv
        subst ha he hv
        have hu := evalPred_errU k (envOf s) q
        rw [ht1] at hu
        cases e' <;> cases a' <;> constructor <;> simp_all
      | isUnknown q =>
        simp only [evalPred, xPred]
        have h1 := ihP s q
        generalize xPred k s q = r1 at h1 ⊢
        generalize evalPred k (envOf s) q = t1 at h1 ⊢
        obtain ⟨a, e⟩ := t1
        obtain ⟨a', e', vb'⟩ := r1
        obtain ⟨ha, he, hv⟩ := h1
        simp only at ha he hv
        subst ha he hv
        cases a' <;> constructor <;> simp
      | exists_ n =>
        simp only [evalPred, xPred]
        have h := ihNp { s with verbose := false } n s.cur s.lax
        have he : envOf { s with verbose := false } = envOf s := rfl
        rw [he] at h
        have hcur : (envOf s).cur = s.cur := rfl
        have hlax : (envOf s).lax = s.lax := rfl
        simp only [hcur, hlax]
        generalize xNode k { s with verbose := false } n s.cur none s.lax = r at h ⊢
        generalize evalNode k (envOf s) n s.cur s.lax = tr at h ⊢
        obtain ⟨xs, e⟩ := tr
        obtain ⟨_, _, _, hok, hfa, her⟩ := h
        simp only at hok hfa her
        cases xs with
        | cons x rest =>
          have h1 : r.st = .ok := hok.mpr (by simp)
          constructor <;> simp [h1]
        | nil =>
          have hnok : r.st ≠ .ok := fun h => by simpa using hok.mp h
          cases e with
          | none =>
            have hnf : r.st ≠ .failed := fun h => by simpa using (hfa.mp h).2
            constructor <;> simp [hnok, hnf]
          | some e =>
            have hf : r.st = .failed := hfa.mpr ⟨rfl, rfl⟩
            cases e <;> constructor <;> simp_all [visible]

