import Leanx.Refine

/-! API-level corollaries (C06/C08/C09 shapes) from the simulation -/

inductive Out (α : Type) where
  | ok (a : α) | null | err (e : Err)
deriving Repr

def St.init (lax verbose : Bool) (doc : Item) : St := { lax, root := doc, cur := doc, verbose }

def apiQuery (fuel : Nat) (lax verbose : Bool) (p : Node) (doc : Item) : Out (List Item) :=
  let r := xNode fuel (St.init lax verbose doc) p doc (some []) lax
  match r.err with
  | some e => .err e
  | none => .ok (r.found.getD [])

def apiExists (fuel : Nat) (lax verbose : Bool) (p : Node) (doc : Item) : Out Bool :=
  let r := xNode fuel (St.init lax verbose doc) p doc none lax
  match r.err with
  | some e => .err e
  | none => if r.st = .failed then .null else .ok (r.st = .ok)

def specTrace (fuel : Nat) (lax : Bool) (p : Node) (doc : Item) : Trace :=
  evalNode fuel { lax, root := doc, cur := doc } p doc lax

theorem query_spec (fuel lax verbose p doc) :
    apiQuery fuel lax verbose p doc =
      (match visible verbose (specTrace fuel lax p doc).2 with
       | some e => .err e
       | none => .ok (specTrace fuel lax p doc).1) := by
  have h := (refine_full fuel).1 (St.init lax verbose doc) p doc [] lax
  simp only [apiQuery, specTrace]
  have he : envOf (St.init lax verbose doc) = { lax, root := doc, cur := doc } := rfl
  rw [he] at h
  rw [h.err, h.found]
  simp [St.init]

/-- C06 shape: a successful verbose Query determines Exists -/
theorem exists_of_query (fuel lax p doc items)
    (h : apiQuery fuel lax true p doc = .ok items) :
    apiExists fuel lax true p doc = .ok (items ≠ []) := by
  have hq := query_spec fuel lax true p doc
  rw [h] at hq
  have hn := (refine_full fuel).2.2.1 (St.init lax true doc) p doc lax
  have he : envOf (St.init lax true doc) = { lax, root := doc, cur := doc } := rfl
  rw [he] at hn
  generalize htr : specTrace fuel lax p doc = tr at hq
  simp only [specTrace] at htr
  rw [htr] at hn
  obtain ⟨xs, e⟩ := tr
  cases e with
  | some e => cases e <;> simp [visible] at hq
  | none =>
    simp [visible] at hq
    subst hq
    have hnf : (xNode fuel (St.init lax true doc) p doc none lax).st ≠ .failed := fun hf => by
      simpa using (hn.failed.mp hf).2
    simp only [apiExists, hn.err, hnf, if_false]
    simp [hn.ok]

/-- C06 shape: Exists never says true unless the trace has an item -/
theorem exists_true_sound (fuel lax verbose p doc)
    (h : apiExists fuel lax verbose p doc = .ok true) :
    (specTrace fuel lax p doc).1 ≠ [] := by
  have hn := (refine_full fuel).2.2.1 (St.init lax verbose doc) p doc lax
  have he : envOf (St.init lax verbose doc) = { lax, root := doc, cur := doc } := rfl
  rw [he] at hn
  simp only [apiExists] at h
  split at h
  · cases h
  · split at h
    · cases h
    · have : (xNode fuel (St.init lax verbose doc) p doc none lax).st = .ok := by simpa using h
      exact hn.ok.mp this

/-- C08 shape: silent Query returns the items found before a suppressible failure, hard errors unchanged -/
theorem silent_query (fuel lax p doc) :
    apiQuery fuel lax false p doc =
      (match (specTrace fuel lax p doc).2 with
       | some (.hard t) => .err (.hard t)
       | _ => .ok (specTrace fuel lax p doc).1) := by
  rw [query_spec]
  generalize specTrace fuel lax p doc = tr
  obtain ⟨xs, e⟩ := tr
  cases e with
  | none => simp [visible]
  | some e => cases e <;> simp [visible]

#print axioms exists_of_query
#print axioms silent_query
