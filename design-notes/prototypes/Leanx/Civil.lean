/-! feasibility (C17/C18): civil date ↔ day number, the arithmetic under `time.Date`, `In`, `Round` -/

namespace Civil

def isLeap (y : Int) : Bool := (y % 4 == 0 && y % 100 != 0) || y % 400 == 0

def daysIn (y m : Int) : Int :=
  if m = 2 then (if isLeap y then 29 else 28)
  else if m = 4 ∨ m = 6 ∨ m = 9 ∨ m = 11 then 30 else 31

def Valid (y m d : Int) : Prop := 1 ≤ m ∧ m ≤ 12 ∧ 1 ≤ d ∧ d ≤ daysIn y m

/-- days since 1970-01-01 (proleptic Gregorian), Hinnant's algorithm -/
def daysFromCivil (y m d : Int) : Int :=
  let y' := if m ≤ 2 then y - 1 else y
  let era := y' / 400
  let yoe := y' - era * 400
  let mp := (m + 9) % 12
  let doy := (153 * mp + 2) / 5 + d - 1
  let doe := yoe * 365 + yoe / 4 - yoe / 100 + doy
  era * 146097 + doe - 719468

def civilFromDays (z0 : Int) : Int × Int × Int :=
  let z := z0 + 719468
  let era := z / 146097
  let doe := z - era * 146097
  let yoe := (doe - doe / 1460 + doe / 36524 - doe / 146096) / 365
  let y := yoe + era * 400
  let doy := doe - (365 * yoe + yoe / 4 - yoe / 100)
  let mp := (5 * doy + 2) / 153
  let d := doy - (153 * mp + 2) / 5 + 1
  let m := if mp < 10 then mp + 3 else mp - 9
  (if m ≤ 2 then y + 1 else y, m, d)

#eval daysFromCivil 1970 1 1
#eval daysFromCivil 2000 2 29
#eval civilFromDays 11016
#eval civilFromDays (daysFromCivil 9999 12 31)
#eval civilFromDays (daysFromCivil 0 1 1)

/-! `omega` cannot do the inverse direction (it fails on the nested divisions by 1460, 36524,
    146096 even with the exact leap hypothesis), but within one 400-year era everything is a finite
    table: 400 shifted years × up to 366 days = 146,097 entries. -/

def yoeOk (yoe doy : Nat) : Bool :=
  let doe := yoe * 365 + yoe / 4 - yoe / 100 + doy
  (doe - doe / 1460 + doe / 36524 - doe / 146096) / 365 == yoe

/-- the shifted year `yoe` (1 March … end of February) has 366 days iff year `yoe+1` of the era is leap -/
def longYear (yoe : Nat) : Bool := (yoe + 1) % 4 == 0 && ((yoe + 1) % 100 != 0 || yoe + 1 == 400)

def eraTable : Bool :=
  (List.range 400).all fun yoe =>
    (List.range (365 + (if longYear yoe then 1 else 0))).all fun doy => yoeOk yoe doy

/-- the whole table, checked by the kernel (≈ 40 s, no axioms) -/
theorem eraTable_true : eraTable = true := by decide +kernel

/-- lifted: for every day of every shifted year of an era, the year-of-era formula of
    `civilFromDays` recovers the year -/
theorem yoe_of_doe (yoe doy : Nat) (h1 : yoe < 400) (h2 : doy < 365 + (if longYear yoe then 1 else 0)) :
    yoeOk yoe doy = true := by
  have h := eraTable_true
  simp only [eraTable, List.all_eq_true, List.mem_range] at h
  exact h yoe h1 doy h2

#print axioms yoe_of_doe

end Civil
