import Leanx.Exec

/-! feasibility (C20): the same mirror with a poll budget.  A failed poll is never lost:
    either no poll failed and the run equals the unbudgeted one, or the final outcome is the
    cancellation error.  `is unknown` is modelled as repaired (it passes a cancellation on);
    the pinned behaviour is refuted by `decide` at the end. -/

def cancelled : Err := .hard 7

structure CSt where
  lax : Bool
  root : Item
  cur : Item
  verbose : Bool
  budget : Option Nat      -- none: the context is never done
  saw : Bool               -- a poll has failed

structure CRes where
  st : Status
  err : Option Err
  found : Option (List Item)
  cur : Item
  verbose : Bool
  budget : Option Nat
  saw : Bool

def CSt.erase (s : CSt) : St := { lax := s.lax, root := s.root, cur := s.cur, verbose := s.verbose }

def cdone (s : CSt) (st : Status) (found : Option (List Item)) : CRes :=
  { st, err := none, found, cur := s.cur, verbose := s.verbose, budget := s.budget, saw := s.saw }

def cretVerbose (s : CSt) (found : Option (List Item)) (e : Err) : CRes :=
  { st := .failed, err := if s.verbose then some e else none, found, cur := s.cur, verbose := s.verbose,
    budget := s.budget, saw := s.saw }

def CSt.after (s : CSt) (r : CRes) : CSt :=
  { s with cur := r.cur, verbose := r.verbose, budget := r.budget, saw := r.saw }

def cLoop (step : CSt → Item → Option (List Item) → CRes) (s : CSt) : List Item → Option (List Item) → CRes
  | [], f => cdone s .notFound f
  | x :: rest, f =>
    let r := step s x f
    if r.st = .failed ∨ (r.st = .ok ∧ f.isNone) then r else
    let r2 := cLoop step (s.after r) rest r.found
    if r2.st = .notFound ∧ r.st = .ok then { r2 with st := .ok } else r2

structure PRes where
  out : Tri
  err : Option Err
  verbose : Bool
  budget : Option Nat
  saw : Bool

def cfilterCont (s : CSt) (rp : PRes) (found : Option (List Item)) (k : CSt → CRes) : CRes :=
  let s' := { s with verbose := rp.verbose, budget := rp.budget, saw := rp.saw }
  match rp.out, rp.err with
  | .t, none => k s'
  | _, some e => { st := .failed, err := some e, found, cur := s'.cur, verbose := s'.verbose, budget := s'.budget, saw := s'.saw }
  | _, none => cdone s' .notFound found

/-- the dispatch after the poll; non-recursive, the recursive calls come in as parameters -/
def cBody (kNext : CSt → Option Node → Item → Option (List Item) → CRes)
    (kSelf : CSt → Item → Option (List Item) → CRes) (kPred : CSt → Pred → PRes)
    (s : CSt) (n : Node) (v : Item) (found : Option (List Item)) (unwrap : Bool) : CRes :=
  match n with
  | .root next => kNext s next s.root found
  | .cur next => kNext s next s.cur found
  | .lit i next =>
    match next, found with
    | none, none => cdone s .ok found
    | _, _ => kNext s next (.int i) found
  | .key k next =>
    match v with
    | .obj kvs =>
      match lookup k kvs with
      | some x => kNext s next x found
      | none => if s.lax then cdone s .notFound found else cretVerbose s found (.verbose 1)
    | .arr xs =>
      if unwrap then cLoop kSelf s xs found else
      if s.lax then cdone s .notFound found else cretVerbose s found (.verbose 2)
    | _ => if s.lax then cdone s .notFound found else cretVerbose s found (.verbose 2)
  | .anyArr next =>
    match v with
    | .arr xs => cLoop (fun s x f => kNext s next x f) s xs found
    | _ => if s.lax then kNext s next v found else cretVerbose s found (.verbose 3)
  | .filter p next =>
    match v, unwrap with
    | .arr xs, true => cLoop kSelf s xs found
    | _, _ => cfilterCont s (kPred { s with cur := v } p) found (fun s' => kNext s' next v found)

/-- the poll: select on ctx.Done() -/
def poll (s : CSt) : Option CSt :=
  match s.budget with
  | some 0 => none
  | b => some { s with budget := b.map (· - 1) }

mutual
def cNode (fuel : Nat) (s : CSt) (n : Node) (v : Item) (found : Option (List Item)) (unwrap : Bool) : CRes :=
  match fuel with
  | 0 => { st := .failed, err := some (.hard 99), found, cur := s.cur, verbose := s.verbose, budget := s.budget, saw := s.saw }
  | fuel+1 =>
  match poll s with
  | none => { st := .failed, err := some cancelled, found, cur := s.cur, verbose := s.verbose, budget := some 0, saw := true }
  | some s' =>
    cBody (fun s nx v f => cNext fuel s nx v f) (fun s x f => cNode fuel s n x f false) (fun s p => cPred fuel s p)
      s' n v found unwrap

def cNext (fuel : Nat) (s : CSt) (next : Option Node) (v : Item) (found : Option (List Item)) : CRes :=
  match next with
  | none => cdone s .ok (found.map (· ++ [v]))
  | some n =>
    match fuel with
    | 0 => { st := .failed, err := some (.hard 99), found, cur := s.cur, verbose := s.verbose, budget := s.budget, saw := s.saw }
    | fuel+1 => cNode fuel s n v found s.lax

def cPred (fuel : Nat) (s : CSt) (p : Pred) : PRes :=
  match fuel with
  | 0 => ⟨.u, some (.hard 99), s.verbose, s.budget, s.saw⟩
  | fuel+1 =>
  match p with
  | .eq l r =>
    let vb := s.verbose
    let rl := cNode fuel { s with verbose := false } l s.cur (some []) s.lax
    if rl.st = .failed then ⟨.u, rl.err, vb, rl.budget, rl.saw⟩ else
    let rr := cNode fuel { s with verbose := false, cur := rl.cur, budget := rl.budget, saw := rl.saw } r s.cur (some []) s.lax
    if rr.st = .failed then ⟨.u, rr.err, vb, rr.budget, rr.saw⟩ else
    if anyPair (rl.found.getD []) (rr.found.getD []) then ⟨.t, none, vb, rr.budget, rr.saw⟩ else ⟨.f, none, vb, rr.budget, rr.saw⟩
  | .and l r =>
    let a := cPred fuel s l
    if a.out = .f ∨ a.err.isSome then a else
    let b := cPred fuel { s with verbose := a.verbose, budget := a.budget, saw := a.saw } r
    if b.out = .t then { b with out := a.out } else b
  | .not p =>
    let a := cPred fuel s p
    match a.out with
    | .u => a
    | .t => { a with out := .f, err := none }
    | .f => { a with out := .t, err := none }
  | .isUnknown p =>
    let a := cPred fuel s p
    -- repaired: a cancellation passes through; every other error still means "unknown"
    if a.saw then a else { a with out := (if a.out = .u then .t else .f), err := none }
  | .exists_ n =>
    let vb := s.verbose
    let r := cNode fuel { s with verbose := false } n s.cur none s.lax
    if r.st = .failed then ⟨.u, r.err, vb, r.budget, r.saw⟩ else
    if r.st = .ok then ⟨.t, none, vb, r.budget, r.saw⟩ else ⟨.f, none, vb, r.budget, r.saw⟩
end

/-- what the invariant says about a result `r` of the budgeted run, given the unbudgeted result `r0` -/
structure NeverLost (s : CSt) (r : CRes) (r0 : Res) : Prop where
  cancelled : r.saw = true → r.st = .failed ∧ r.err = some cancelled
  same : r.saw = false → r.st = r0.st ∧ r.err = r0.err ∧ r.found = r0.found ∧ r.cur = r0.cur ∧ r.verbose = r0.verbose

structure NeverLostP (r : PRes) (r0 : Tri × Option Err × Bool) : Prop where
  cancelled : r.saw = true → r.err = some cancelled ∧ r.out = .u
  same : r.saw = false → r.out = r0.1 ∧ r.err = r0.2.1 ∧ r.verbose = r0.2.2

-- sanity: cancelling at every k on a small query
def q : Node := .root (some (.anyArr (some (.filter (.isUnknown (.eq (.cur none) (.lit 2 none))) none))))
def doc : Item := .arr [.int 1, .int 2]
def runAt (k : Option Nat) : CRes :=
  cNode 100 { lax := true, root := doc, cur := doc, verbose := true, budget := k, saw := false } q doc (some []) true
#eval (List.range 12).map fun k => let r := runAt (some k); (k, r.saw, r.err.isSome, (r.found.getD []).length)
#eval let r := runAt none; (r.saw, r.err.isSome, (r.found.getD []).length)

/-! ## the proof -/

theorem erase_after (s : CSt) (r : CRes) (r0 : Res) (h : r.cur = r0.cur ∧ r.verbose = r0.verbose) :
    (s.after r).erase = s.erase.after r0 := by
  simp [CSt.after, CSt.erase, St.after, h.1, h.2]

theorem loop_never_lost (step : CSt → Item → Option (List Item) → CRes) (step0 : St → Item → Option (List Item) → Res)
    (hstep : ∀ s x f, s.saw = false → NeverLost s (step s x f) (step0 s.erase x f)) :
    ∀ xs s f, s.saw = false → NeverLost s (cLoop step s xs f) (xLoop step0 s.erase xs f) := by
  intro xs
  induction xs with
  | nil =>
    intro s f hs
    constructor <;> simp [cLoop, xLoop, cdone, done, hs, CSt.erase]
  | cons x rest ih =>
    intro s f hs
    simp only [cLoop, xLoop]
    have h1 := hstep s x f hs
    generalize step s x f = r at h1 ⊢
    generalize step0 s.erase x f = r0 at h1 ⊢
    by_cases hsaw : r.saw = true
    · -- a poll failed inside this step: the loop stops with it
      have hc := h1.cancelled hsaw
      simp only [hc.1, true_or, if_true]
      constructor
      · intro _; exact hc
      · intro h; rw [hsaw] at h; cases h
    · have hsaw' : r.saw = false := by simpa using hsaw
      obtain ⟨e1, e2, e3, e4, e5⟩ := h1.same hsaw'
      by_cases hstop : r0.st = .failed ∨ (r0.st = .ok ∧ f.isNone)
      · have hstop' : r.st = .failed ∨ (r.st = .ok ∧ f.isNone) := by rw [e1]; exact hstop
        simp only [hstop, hstop', if_true]
        exact h1
      · have hstop' : ¬ (r.st = .failed ∨ (r.st = .ok ∧ f.isNone)) := by rw [e1]; exact hstop
        simp only [hstop, hstop', if_false]
        have hafter : (s.after r).saw = false := by simp [CSt.after, hsaw']
        have h2 := ih (s.after r) r.found hafter
        rw [erase_after s r r0 ⟨e4, e5⟩, e3] at h2
        rw [e3]
        generalize cLoop step (s.after r) rest r0.found = r2 at h2 ⊢
        generalize xLoop step0 (s.erase.after r0) rest r0.found = r20 at h2 ⊢
        rw [e1]
        constructor
        · intro hs2
          have hs2' : r2.saw = true := by split at hs2 <;> simpa using hs2
          have hc := h2.cancelled hs2'
          split <;> simp_all
        · intro hs2
          have hs2' : r2.saw = false := by split at hs2 <;> simpa using hs2
          obtain ⟨f1, f2, f3, f4, f5⟩ := h2.same hs2'
          rw [f1]
          split <;> simp_all

theorem poll_erase (s s' : CSt) (h : poll s = some s') : s'.erase = s.erase ∧ s'.saw = s.saw := by
  unfold poll at h
  split at h
  · cases h
  · cases h; exact ⟨rfl, rfl⟩

/-- the dispatch body: if the recursive calls never lose a cancellation, neither does the body -/
theorem body_never_lost
    (kNext : CSt → Option Node → Item → Option (List Item) → CRes) (kNext0 : St → Option Node → Item → Option (List Item) → Res)
    (kSelf : CSt → Item → Option (List Item) → CRes) (kSelf0 : St → Item → Option (List Item) → Res)
    (kPred : CSt → Pred → PRes) (kPred0 : St → Pred → Tri × Option Err × Bool)
    (hNext : ∀ s nx v f, s.saw = false → NeverLost s (kNext s nx v f) (kNext0 s.erase nx v f))
    (hSelf : ∀ s x f, s.saw = false → NeverLost s (kSelf s x f) (kSelf0 s.erase x f))
    (hPred : ∀ s p, s.saw = false → NeverLostP (kPred s p) (kPred0 s.erase p))
    (s : CSt) (hs : s.saw = false) (p : Pred) (next : Option Node) (v : Item) (found : Option (List Item)) :
    NeverLost s
      (cfilterCont s (kPred { s with cur := v } p) found (fun s' => kNext s' next v found))
      (filterCont s.erase (kPred0 { s.erase with cur := v } p) found (fun s' => kNext0 s' next v found)) := by
  have hp := hPred { s with cur := v } p hs
  have he : ({ s with cur := v } : CSt).erase = { s.erase with cur := v } := rfl
  rw [he] at hp
  generalize kPred { s with cur := v } p = rp at hp ⊢
  generalize kPred0 { s.erase with cur := v } p = rp0 at hp ⊢
  obtain ⟨t0, e0, vb0⟩ := rp0
  by_cases hsaw : rp.saw = true
  · have hc := hp.cancelled hsaw
    constructor
    · intro _; simp [cfilterCont, hc]
    · intro h; simp [cfilterCont, hc] at h; cases hout : rp.out <;> simp_all
  · have hsaw' : rp.saw = false := by simpa using hsaw
    obtain ⟨h1, h2, h3⟩ := hp.same hsaw'
    simp only at h1 h2 h3
    simp only [cfilterCont, filterCont, h1, h2, h3]
    cases e0 with
    | some e => cases t0 <;> constructor <;> simp_all [CSt.erase]
    | none =>
      cases t0 with
      | t =>
        have := hNext { s with verbose := vb0, budget := rp.budget, saw := rp.saw } next v found hsaw'
        constructor
        · intro h; exact this.cancelled h
        · intro h; simpa [CSt.erase] using this.same h
      | f => constructor <;> simp_all [cdone, done, CSt.erase]
      | u => constructor <;> simp_all [cdone, done, CSt.erase]

theorem never_lost (fuel : Nat) :
    (∀ s n v found unwrap, s.saw = false →
      NeverLost s (cNode fuel s n v found unwrap) (xNode fuel s.erase n v found unwrap)) ∧
    (∀ s next v found, s.saw = false →
      NeverLost s (cNext fuel s next v found) (xNext fuel s.erase next v found)) ∧
    (∀ s p, s.saw = false → NeverLostP (cPred fuel s p) (xPred fuel s.erase p)) := by
  induction fuel with
  | zero =>
    refine ⟨?_, ?_, ?_⟩
    · intro s n v found unwrap hs; constructor <;> simp [cNode, xNode, hs, CSt.erase]
    · intro s next v found hs
      cases next <;> constructor <;> simp [cNext, xNext, cdone, done, hs, CSt.erase]
    · intro s p hs; constructor <;> simp [cPred, xPred, hs, CSt.erase]
  | succ k ih =>
    obtain ⟨ihN, ihX, ihP⟩ := ih
    refine ⟨?_, ?_, ?_⟩
    · intro s n v found unwrap hs
      rw [cNode]
      cases hpoll : poll s with
      | none =>
        constructor
        · intro _; exact ⟨rfl, rfl⟩
        · intro h; simp at h
      | some s' =>
        obtain ⟨he, hsaw⟩ := poll_erase s s' hpoll
        have hs' : s'.saw = false := by rw [hsaw]; exact hs
        simp only
        rw [← he]
        -- results are stated relative to s', whose erasure and flag equal s's
        suffices h : NeverLost s'
            (cBody (fun s nx v f => cNext k s nx v f) (fun s x f => cNode k s n x f false) (fun s p => cPred k s p) s' n v found unwrap)
            (xNode (k + 1) s'.erase n v found unwrap) from ⟨h.cancelled, h.same⟩
        have hloopSelf : ∀ xs, NeverLost s' (cLoop (fun s x f => cNode k s n x f false) s' xs found)
            (xLoop (fun s x f => xNode k s n x f false) s'.erase xs found) :=
          fun xs => loop_never_lost _ _ (fun s x f hs => ihN s n x f false hs) xs s' found hs'
        cases n with
        | root next => simpa [cBody, xNode, CSt.erase] using ihX s' next s'.root found hs'
        | cur next => simpa [cBody, xNode, CSt.erase] using ihX s' next s'.cur found hs'
        | lit i next =>
          cases next with
          | none =>
            cases found with
            | none => constructor <;> simp [cBody, xNode, cdone, done, hs', CSt.erase]
            | some acc => simpa [cBody, xNode, CSt.erase] using ihX s' none (.int i) (some acc) hs'
          | some nx => simpa [cBody, xNode, CSt.erase] using ihX s' (some nx) (.int i) found hs'
        | key k' next =>
          cases v with
          | obj kvs =>
            simp only [cBody, xNode]
            cases hl : lookup k' kvs with
            | some x => simpa [CSt.erase] using ihX s' next x found hs'
            | none => by_cases hlax : s'.lax <;> constructor <;> simp [hlax, cdone, done, cretVerbose, retVerbose, hs', CSt.erase]
          | arr xs =>
            simp only [cBody, xNode]
            by_cases hu : unwrap
            · simp only [hu, if_true]; exact hloopSelf xs
            · by_cases hlax : s'.lax <;> constructor <;> simp [hu, hlax, cdone, done, cretVerbose, retVerbose, hs', CSt.erase]
          | _ =>
            simp only [cBody, xNode]
            by_cases hlax : s'.lax <;> constructor <;> simp [hlax, cdone, done, cretVerbose, retVerbose, hs', CSt.erase]
        | anyArr next =>
          cases v with
          | arr xs =>
            simp only [cBody, xNode]
            exact loop_never_lost _ _ (fun s x f hs => ihX s next x f hs) xs s' found hs'
          | _ =>
            simp only [cBody, xNode]
            by_cases hlax : s'.lax
            · simpa [hlax, CSt.erase] using ihX s' next _ found hs'
            · constructor <;> simp [hlax, cretVerbose, retVerbose, hs', CSt.erase]
        | filter p next =>
          have hf := fun v => body_never_lost (fun s nx v f => cNext k s nx v f) (fun s nx v f => xNext k s nx v f)
            (fun s x f => cNode k s (.filter p next) x f false) (fun s x f => xNode k s (.filter p next) x f false)
            (fun s p => cPred k s p) (fun s p => xPred k s p)
            (fun s nx v f hs => ihX s nx v f hs) (fun s x f hs => ihN s (.filter p next) x f false hs)
            (fun s p hs => ihP s p hs) s' hs' p next v found
          cases v with
          | arr xs =>
            cases unwrap with
            | true => simpa [cBody, xNode] using hloopSelf xs
            | false => simpa [cBody, xNode] using hf _
          | _ => simpa [cBody, xNode] using hf _
    · intro s next v found hs
      cases next with
      | none => constructor <;> simp [cNext, xNext, cdone, done, hs, CSt.erase]
      | some n => simpa [cNext, xNext, CSt.erase] using ihN s n v found s.lax hs
    · intro s p hs
      cases p with
      | eq l r =>
        simp only [cPred, xPred]
        have hl := ihN { s with verbose := false } l s.cur (some []) s.lax hs
        simp only [CSt.erase] at hl ⊢
        generalize cNode k { s with verbose := false } l s.cur (some []) s.lax = rl at hl ⊢
        by_cases hsawl : rl.saw = true
        · have hc := hl.cancelled hsawl
          simp only [hc.1, if_true]
          exact ⟨fun _ => ⟨hc.2, rfl⟩, fun h => by simp [hsawl] at h⟩
        · have hsawl' : rl.saw = false := by simpa using hsawl
          obtain ⟨a1, a2, a3, a4, a5⟩ := hl.same hsawl'
          have hr := ihN { s with verbose := false, cur := rl.cur, budget := rl.budget, saw := rl.saw } r s.cur (some []) s.lax hsawl'
          simp only [CSt.erase] at hr
          simp only [a1, a2, a3, ← a4]
          split
          · constructor <;> simp_all
          · generalize cNode k { s with verbose := false, cur := rl.cur, budget := rl.budget, saw := rl.saw } r s.cur (some []) s.lax = rr at hr ⊢
            by_cases hsawr : rr.saw = true
            · have hc := hr.cancelled hsawr
              simp only [hc.1, if_true]
              exact ⟨fun _ => ⟨hc.2, rfl⟩, fun h => by simp [hsawr] at h⟩
            · have hsawr' : rr.saw = false := by simpa using hsawr
              obtain ⟨b1, b2, b3, b4, b5⟩ := hr.same hsawr'
              simp only [b1, b2, b3]
              split
              · constructor <;> simp_all
              · split <;> constructor <;> simp_all
      | and l r =>
        simp only [cPred, xPred]
        have h1 := ihP s l hs
        generalize cPred k s l = a at h1 ⊢
        generalize xPred k s.erase l = a0 at h1 ⊢
        obtain ⟨t0, e0, vb0⟩ := a0
        by_cases hsa : a.saw = true
        · have hc := h1.cancelled hsa
          simp only [hc.1, Option.isSome_some, or_true, if_true]
          constructor
          · intro _; exact hc
          · intro h; simp [hsa] at h
        · have hsa' : a.saw = false := by simpa using hsa
          obtain ⟨c1, c2, c3⟩ := h1.same hsa'
          simp only at c1 c2 c3
          by_cases hstop : t0 = .f ∨ e0.isSome
          · have : a.out = .f ∨ a.err.isSome := by rw [c1, c2]; exact hstop
            simp only [this, hstop, if_true]
            constructor
            · intro h; simp [hsa'] at h
            · intro _; exact ⟨c1, c2, c3⟩
          · have : ¬ (a.out = .f ∨ a.err.isSome) := by rw [c1, c2]; exact hstop
            simp only [this, hstop, if_false]
            have h2 := ihP { s with verbose := a.verbose, budget := a.budget, saw := a.saw } r hsa'
            have he : ({ s with verbose := a.verbose, budget := a.budget, saw := a.saw } : CSt).erase = { s.erase with verbose := vb0 } := by
              simp [CSt.erase, c3]
            rw [he] at h2
            generalize cPred k { s with verbose := a.verbose, budget := a.budget, saw := a.saw } r = b at h2 ⊢
            generalize xPred k { s.erase with verbose := vb0 } r = b0 at h2 ⊢
            obtain ⟨t1, e1, vb1⟩ := b0
            by_cases hsb : b.saw = true
            · have hc := h2.cancelled hsb
              have hnt : ¬ b.out = .t := by rw [hc.2]; simp
              simp only [hnt, if_false]
              exact ⟨fun _ => hc, fun h => by simp [hsb] at h⟩
            · have hsb' : b.saw = false := by simpa using hsb
              obtain ⟨d1, d2, d3⟩ := h2.same hsb'
              simp only at d1 d2 d3
              constructor
              · intro h; split at h <;> simp [hsb'] at h
              · intro _; rw [d1]; split <;> simp_all
      | not q =>
        simp only [cPred, xPred]
        have h1 := ihP s q hs
        generalize cPred k s q = a at h1 ⊢
        generalize xPred k s.erase q = a0 at h1 ⊢
        obtain ⟨t0, e0, vb0⟩ := a0
        by_cases hsa : a.saw = true
        · have hc := h1.cancelled hsa
          simp only [hc.2]
          exact ⟨fun _ => hc, fun h => by simp [hsa] at h⟩
        · have hsa' : a.saw = false := by simpa using hsa
          obtain ⟨c1, c2, c3⟩ := h1.same hsa'
          simp only at c1 c2 c3
          rw [c1]
          cases t0 <;> constructor <;> simp_all
      | isUnknown q =>
        simp only [cPred, xPred]
        have h1 := ihP s q hs
        generalize cPred k s q = a at h1 ⊢
        generalize xPred k s.erase q = a0 at h1 ⊢
        obtain ⟨t0, e0, vb0⟩ := a0
        by_cases hsa : a.saw = true
        · have hc := h1.cancelled hsa
          simp only [hsa, if_true]
          exact ⟨fun _ => hc, fun h => by simp [hsa] at h⟩
        · have hsa' : a.saw = false := by simpa using hsa
          obtain ⟨c1, c2, c3⟩ := h1.same hsa'
          simp only at c1 c2 c3
          simp only [hsa', Bool.false_eq_true, if_false]
          constructor
          · intro h; simp [hsa'] at h
          · intro _; simp [c1, c3]
      | exists_ n =>
        simp only [cPred, xPred]
        have h := ihN { s with verbose := false } n s.cur none s.lax hs
        simp only [CSt.erase] at h ⊢
        generalize cNode k { s with verbose := false } n s.cur none s.lax = r at h ⊢
        by_cases hsr : r.saw = true
        · have hc := h.cancelled hsr
          simp only [hc.1, if_true]
          exact ⟨fun _ => ⟨hc.2, rfl⟩, fun h' => by simp [hsr] at h'⟩
        · have hsr' : r.saw = false := by simpa using hsr
          obtain ⟨a1, a2, a3, a4, a5⟩ := h.same hsr'
          simp only [a1, a2]
          split
          · constructor <;> simp_all
          · split <;> constructor <;> simp_all

/-- C20 for this fragment: started with any poll budget, either no poll failed and the outcome is
    that of the run whose context is never done, or the outcome is the cancellation error -/
theorem cancel_never_a_result (fuel : Nat) (s : CSt) (hs : s.saw = false) (n : Node) (v : Item)
    (found : Option (List Item)) (unwrap : Bool) :
    let r := cNode fuel s n v found unwrap
    let r0 := xNode fuel s.erase n v found unwrap
    (r.st = .failed ∧ r.err = some cancelled) ∨
    (r.st = r0.st ∧ r.err = r0.err ∧ r.found = r0.found) := by
  have h := (never_lost fuel).1 s n v found unwrap hs
  by_cases hsaw : (cNode fuel s n v found unwrap).saw = true
  · exact Or.inl (h.cancelled hsaw)
  · have := h.same (by simpa using hsaw)
    exact Or.inr ⟨this.1, this.2.1, this.2.2.1⟩

#print axioms cancel_never_a_result

/-! the pinned `is unknown` (error discarded) loses the cancellation: witness by evaluation -/

def pinnedIsUnknown (a : PRes) : PRes := { a with out := (if a.out = .u then .t else .f), err := none }

/-- `($ == 2) is unknown` cancelled at the second poll: operand is cancelled, the pinned rule answers `true` -/
theorem d10_witness :
    let s : CSt := { lax := true, root := .int 1, cur := .int 1, verbose := true, budget := some 1, saw := false }
    let a := cPred 10 s (.eq (.root none) (.lit 2 none))
    a.saw = true ∧ (pinnedIsUnknown a).err = none ∧ (pinnedIsUnknown a).out = .t := by
  decide
