import Leanx.Basic

/-! operational model mirroring the Go executor: status codes, optional found list, mutable cur -/

inductive Status where | ok | notFound | failed
deriving Repr, DecidableEq

structure St where
  lax : Bool
  root : Item
  cur : Item
  verbose : Bool

structure Res where
  st : Status
  err : Option Err
  found : Option (List Item)
  cur : Item          -- mutable state after the call
  verbose : Bool

def retVerbose (s : St) (found : Option (List Item)) (e : Err) : Res :=
  { st := .failed, err := if s.verbose then some e else none, found, cur := s.cur, verbose := s.verbose }

def done (s : St) (st : Status) (found : Option (List Item)) : Res :=
  { st, err := none, found, cur := s.cur, verbose := s.verbose }

def St.after (s : St) (r : Res) : St := { s with cur := r.cur, verbose := r.verbose }

/-- executeAnyItem-style loop over values (level bounds elided in this fragment) -/
def xLoop (step : St → Item → Option (List Item) → Res) (s : St) : List Item → Option (List Item) → Res
  | [], f => done s .notFound f
  | x :: rest, f =>
    let r := step s x f
    if r.st = .failed ∨ (r.st = .ok ∧ f.isNone) then r else
    let r2 := xLoop step (s.after r) rest r.found
    if r2.st = .notFound ∧ r.st = .ok then { r2 with st := .ok } else r2

/-- body of the filter case after the nested boolean item has been evaluated -/
def filterCont (s : St) (rp : Tri × Option Err × Bool) (found : Option (List Item)) (k : St → Res) : Res :=
  let s' := { s with verbose := rp.2.2 }      -- cur restored by the deferred pop
  match rp.1, rp.2.1 with
  | .t, none => k s'
  | _, some e => { st := .failed, err := some e, found, cur := s'.cur, verbose := s'.verbose }
  | _, none => done s' .notFound found

mutual
def xNode (fuel : Nat) (s : St) (n : Node) (v : Item) (found : Option (List Item)) (unwrap : Bool) : Res :=
  match fuel with
  | 0 => { st := .failed, err := some (.hard 99), found, cur := s.cur, verbose := s.verbose }
  | fuel+1 =>
  match n with
  | .root next => xNext fuel s next s.root found
  | .cur next => xNext fuel s next s.cur found
  | .lit i next =>
    match next, found with
    | none, none => done s .ok found
    | _, _ => xNext fuel s next (.int i) found
  | .key k next =>
    match v with
    | .obj kvs =>
      match lookup k kvs with
      | some x => xNext fuel s next x found
      | none => if s.lax then done s .notFound found else retVerbose s found (.verbose 1)
    | .arr xs =>
      if unwrap then xLoop (fun s x f => xNode fuel s n x f false) s xs found else
      if s.lax then done s .notFound found else retVerbose s found (.verbose 2)
    | _ => if s.lax then done s .notFound found else retVerbose s found (.verbose 2)
  | .anyArr next =>
    match v with
    | .arr xs => xLoop (fun s x f => xNext fuel s next x f) s xs found
    | _ => if s.lax then xNext fuel s next v found else retVerbose s found (.verbose 3)
  | .filter p next =>
    match v, unwrap with
    | .arr xs, true => xLoop (fun s x f => xNode fuel s n x f false) s xs found
    | _, _ =>
      -- executeNestedBoolItem: push cur, restore after
      filterCont s (xPred fuel { s with cur := v } p) found (fun s' => xNext fuel s' next v found)

def xNext (fuel : Nat) (s : St) (next : Option Node) (v : Item) (found : Option (List Item)) : Res :=
  match next with
  | none => done s .ok (found.map (· ++ [v]))
  | some n =>
    match fuel with
    | 0 => { st := .failed, err := some (.hard 99), found, cur := s.cur, verbose := s.verbose }
    | fuel+1 => xNode fuel s n v found s.lax

/-- returns outcome, error, and verbose flag after the call -/
def xPred (fuel : Nat) (s : St) (p : Pred) : Tri × Option Err × Bool :=
  match fuel with
  | 0 => (.u, some (.hard 99), s.verbose)
  | fuel+1 =>
  match p with
  | .eq l r =>
    -- executeItemOptUnwrapResultSilent: verbose := false; restore
    let vb := s.verbose
    let rl := xNode fuel { s with verbose := false } l s.cur (some []) s.lax
    if rl.st = .failed then (.u, rl.err, vb) else
    let rr := xNode fuel { s with verbose := false, cur := rl.cur } r s.cur (some []) s.lax
    if rr.st = .failed then (.u, rr.err, vb) else
    let ls := rl.found.getD []
    let rs := rr.found.getD []
    if anyPair ls rs then (.t, none, vb) else (.f, none, vb)
  | .and l r =>
    let (a, e, vb) := xPred fuel s l
    if a = .f ∨ e.isSome then (a, e, vb) else
    let (b, e2, vb2) := xPred fuel { s with verbose := vb } r
    if b = .t then (a, e2, vb2) else (b, e2, vb2)
  | .not p =>
    let (a, e, vb) := xPred fuel s p
    match a with
    | .u => (.u, e, vb)
    | .t => (.f, none, vb)
    | .f => (.t, none, vb)
  | .isUnknown p =>
    let (a, _, vb) := xPred fuel s p
    (if a = .u then .t else .f, none, vb)
  | .exists_ n =>
    let vb := s.verbose
    let r := xNode fuel { s with verbose := false } n s.cur none s.lax
    if r.st = .failed then (.u, r.err, vb) else
    if r.st = .ok then (.t, none, vb) else (.f, none, vb)
end

#eval (xNode 100 { lax := true, root := .arr [.int 1, .int 2, .obj [("a", .int 3)]], cur := .null, verbose := true }
  (.root (some (.anyArr (some (.filter (.eq (.cur none) (.lit 2 none)) none))))) .null (some []) true).found
