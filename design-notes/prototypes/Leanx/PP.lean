/-! feasibility: printer with minimal parentheses vs precedence-climbing parser (C02 tree level) -/

inductive Op where | add | sub | mul
deriving DecidableEq, Repr

def Op.prec : Op → Nat
  | .add => 3 | .sub => 3 | .mul => 4

inductive Tok where
  | dollar | num (n : Nat) | op (o : Op) | minus1   -- minus1 is unused; '-' is `op .sub` in both roles
  | lp | rp | acc                                      -- acc = one accessor step such as `.abs()`
deriving DecidableEq, Repr

/-- mirror of the Go AST: every node may carry a trailing accessor chain (`next`), here just its length -/
inductive E where
  | root (chain : Nat)
  | num (n : Nat) (chain : Nat)
  | bin (o : Op) (l r : E) (chain : Nat)
  | neg (e : E) (chain : Nat)
deriving DecidableEq, Repr

def E.prio : E → Nat
  | .bin o _ _ _ => o.prec
  | .neg _ _ => 5
  | _ => 6

def E.chain : E → Nat
  | .root c | .num _ c | .bin _ _ _ c | .neg _ c => c

def E.addChain (k : Nat) : E → E
  | .root c => .root (c + k)
  | .num n c => .num n (c + k)
  | .bin o l r c => .bin o l r (c + k)
  | .neg e c => .neg e (c + k)

def accs (k : Nat) : List Tok := List.replicate k .acc

/-- writeTo with the D3 repair: a node that carries a chain is parenthesised whatever its parent -/
def pr : E → Bool → List Tok
  | .root c, _ => .dollar :: accs c
  | .num n c, _ => if c = 0 then [.num n] else [.lp, .num n, .rp] ++ accs c
  | .bin o l r c, wp =>
    let body := pr l (decide (l.prio ≤ o.prec)) ++ [.op o] ++ pr r (decide (r.prio ≤ o.prec))
    (if wp ∨ c ≠ 0 then [.lp] ++ body ++ [.rp] else body) ++ accs c
  | .neg e c, wp =>
    let body := [.op .sub] ++ pr e (decide (e.prio ≤ 5))
    (if wp ∨ c ≠ 0 then [.lp] ++ body ++ [.rp] else body) ++ accs c

def printTop (e : E) : List Tok := pr e true

/-- count leading accessor tokens -/
def takeAccs : List Tok → Nat × List Tok
  | .acc :: rest => let (k, r) := takeAccs rest; (k + 1, r)
  | ts => (0, ts)

mutual
/-- expr at minimum binary precedence `π` -/
def pExpr : (fuel : Nat) → Nat → List Tok → Option (E × List Tok)
  | 0, _, _ => none
  | fuel+1, π, ts =>
    match pPrefix fuel ts with
    | none => none
    | some (lhs, rest) => pLoop fuel π lhs rest

/-- the operator loop: left associative -/
def pLoop : (fuel : Nat) → Nat → E → List Tok → Option (E × List Tok)
  | 0, _, _, _ => none
  | fuel+1, π, lhs, ts =>
    match ts with
    | .op o :: rest =>
      if o.prec ≥ π then
        match pExpr fuel (o.prec + 1) rest with
        | none => none
        | some (rhs, rest') => pLoop fuel π (.bin o lhs rhs 0) rest'
      else some (lhs, ts)
    | _ => some (lhs, ts)

def pPrefix : (fuel : Nat) → List Tok → Option (E × List Tok)
  | 0, _ => none
  | fuel+1, ts =>
    match ts with
    | .dollar :: rest => let (k, r) := takeAccs rest; some (.root k, r)
    | .num n :: rest => let (k, r) := takeAccs rest; some (.num n k, r)
    | .op .sub :: rest =>
      -- '-' expr %prec UMINUS: operand is a prefix-level expression
      match pPrefix fuel rest with
      | none => none
      | some (e, r) => some (.neg e 0, r)
    | .lp :: rest =>
      match pExpr fuel 0 rest with
      | some (e, .rp :: r) => let (k, r') := takeAccs r; some (e.addChain k, r')
      | _ => none
    | _ => none
end

def parse (ts : List Tok) : Option E :=
  match pExpr (2 * ts.length + 2) 0 ts with
  | some (e, []) => some e
  | _ => none

#eval parse (printTop (.bin .add (.bin .mul (.num 2 0) (.num 3 0) 1) (.num 1 0) 0))
#eval printTop (.bin .add (.bin .mul (.num 2 0) (.num 3 0) 1) (.num 1 0) 0)
#eval parse (printTop (.neg (.neg (.bin .sub (.root 2) (.bin .sub (.num 1 0) (.num 2 1) 0) 0) 0) 3))
#eval parse (printTop (.bin .sub (.bin .sub (.root 0) (.num 1 0) 0) (.bin .sub (.num 1 0) (.num 2 0) 0) 0))

/-! ## fuel monotonicity -/

theorem mono (n : Nat) :
    (∀ π ts res, pExpr n π ts = some res → pExpr (n+1) π ts = some res) ∧
    (∀ π lhs ts res, pLoop n π lhs ts = some res → pLoop (n+1) π lhs ts = some res) ∧
    (∀ ts res, pPrefix n ts = some res → pPrefix (n+1) ts = some res) := by
  induction n with
  | zero => refine ⟨?_, ?_, ?_⟩ <;> intros <;> simp_all [pExpr, pLoop, pPrefix]
  | succ k ih =>
    obtain ⟨ihE, ihL, ihP⟩ := ih
    refine ⟨?_, ?_, ?_⟩
    · intro π ts res h
      simp only [pExpr] at h ⊢
      cases hp : pPrefix k ts with
      | none => simp [hp] at h
      | some pr =>
        obtain ⟨lhs, rest⟩ := pr
        simp only [hp] at h
        simp only [ihP _ _ hp]
        exact ihL _ _ _ _ h
    · intro π lhs ts res h
      cases ts with
      | nil => simpa [pLoop] using h
      | cons t rest =>
        cases t with
        | op o =>
          simp only [pLoop] at h ⊢
          by_cases hπ : o.prec ≥ π
          · simp only [hπ, if_true] at h ⊢
            cases he : pExpr k (o.prec + 1) rest with
            | none => simp [he] at h
            | some pr =>
              obtain ⟨rhs, rest'⟩ := pr
              simp only [he] at h
              simp only [ihE _ _ _ he]
              exact ihL _ _ _ _ h
          · simpa [hπ] using h
        | _ => simpa [pLoop] using h
    · intro ts res h
      cases ts with
      | nil => simp [pPrefix] at h
      | cons t rest =>
        cases t with
        | dollar => simpa [pPrefix] using h
        | num n => simpa [pPrefix] using h
        | op o =>
          cases o with
          | sub =>
            rw [pPrefix] at h ⊢
            cases hp : pPrefix k rest with
            | none => simp [hp] at h
            | some pr =>
              obtain ⟨e, r⟩ := pr
              simp only [hp] at h
              simp only [ihP _ _ hp]
              exact h
          | _ => simp [pPrefix] at h
        | lp =>
          rw [pPrefix] at h ⊢
          cases he : pExpr k 0 rest with
          | none => simp [he] at h
          | some pr =>
            obtain ⟨e, r⟩ := pr
            simp only [he] at h
            simp only [ihE _ _ _ he]
            exact h
        | _ => simp [pPrefix] at h

theorem mono_le {n m : Nat} (h : n ≤ m) :
    (∀ π ts res, pExpr n π ts = some res → pExpr m π ts = some res) ∧
    (∀ π lhs ts res, pLoop n π lhs ts = some res → pLoop m π lhs ts = some res) ∧
    (∀ ts res, pPrefix n ts = some res → pPrefix m ts = some res) := by
  induction h with
  | refl => exact ⟨fun _ _ _ h => h, fun _ _ _ _ h => h, fun _ _ h => h⟩
  | step _ ih =>
    obtain ⟨a, b, c⟩ := ih
    obtain ⟨a', b', c'⟩ := mono _
    exact ⟨fun π ts res h => a' _ _ _ (a _ _ _ h), fun π l ts res h => b' _ _ _ _ (b _ _ _ _ h),
      fun ts res h => c' _ _ (c _ _ h)⟩

/-! ## round trip -/

def startsAcc : List Tok → Bool
  | .acc :: _ => true
  | _ => false

def startsOpGe (p : Nat) : List Tok → Bool
  | .op o :: _ => decide (o.prec ≥ p)
  | _ => false

/-- printed as a bare binary expression (no parentheses of its own) -/
def Open : E → Bool → Bool
  | .bin _ _ _ c, wp => !wp && c == 0
  | _, _ => false

theorem takeAccs_accs (c : Nat) (rest : List Tok) (h : startsAcc rest = false) :
    takeAccs (accs c ++ rest) = (c, rest) := by
  induction c with
  | zero =>
    cases rest with
    | nil => simp [accs, takeAccs]
    | cons t r => cases t <;> simp_all [accs, takeAccs, startsAcc]
  | succ k ih =>
    simp only [accs, List.replicate_succ, List.cons_append, takeAccs] at ih ⊢
    rw [ih]

theorem pLoop_stop (f π : Nat) (e : E) (rest : List Tok) (h : startsOpGe π rest = false) :
    pLoop (f+1) π e rest = some (e, rest) := by
  cases rest with
  | nil => simp [pLoop]
  | cons t r =>
    cases t with
    | op o =>
      have : ¬ o.prec ≥ π := by simpa [startsOpGe] using h
      simp [pLoop, this]
    | _ => simp [pLoop]

theorem startsOpGe_mono {p q : Nat} (hpq : p ≤ q) (rest : List Tok) (h : startsOpGe p rest = false) :
    startsOpGe q rest = false := by
  cases rest with
  | nil => rfl
  | cons t r =>
    cases t with
    | op o =>
      simp only [startsOpGe, decide_eq_false_iff_not] at h ⊢
      omega
    | _ => rfl

/-- eventually (in the fuel) -/
def Ev (P : Nat → Prop) : Prop := ∃ n, ∀ f, f ≥ n → P f

theorem Ev.and {P Q : Nat → Prop} (hp : Ev P) (hq : Ev Q) : Ev (fun f => P f ∧ Q f) := by
  obtain ⟨n, hn⟩ := hp
  obtain ⟨m, hm⟩ := hq
  exact ⟨max n m, fun f hf => ⟨hn f (by omega), hm f (by omega)⟩⟩

theorem ev_pLoop {fR π e rest res} (h : pLoop fR π e rest = some res) : Ev (fun f => pLoop f π e rest = some res) :=
  ⟨fR, fun f hf => (mono_le hf).2.1 _ _ _ _ h⟩

/-- the statement proved by induction on the expression -/
def Good (e : E) : Prop :=
  (∀ wp rest, Open e wp = false → startsAcc rest = false →
      Ev (fun f => pPrefix f (pr e wp ++ rest) = some (e, rest))) ∧
  (∀ wp π rest res fR, (Open e wp = true → e.prio ≥ π) → startsAcc rest = false →
      (Open e wp = true → startsOpGe e.prio rest = false) →
      pLoop fR π e rest = some res →
      Ev (fun f => pExpr f π (pr e wp ++ rest) = some res))

/-- an atom is also an expression at any level -/
theorem good_of_atom (e : E)
    (hA : ∀ wp rest, Open e wp = false → startsAcc rest = false →
      Ev (fun f => pPrefix f (pr e wp ++ rest) = some (e, rest)))
    (wp : Bool) (π : Nat) (rest : List Tok) (res : E × List Tok) (fR : Nat)
    (hopen : Open e wp = false) (hacc : startsAcc rest = false)
    (hloop : pLoop fR π e rest = some res) :
    Ev (fun f => pExpr f π (pr e wp ++ rest) = some res) := by
  obtain ⟨n, hn⟩ := (hA wp rest hopen hacc).and (ev_pLoop hloop)
  refine ⟨n + 1, fun f hf => ?_⟩
  obtain ⟨k, rfl⟩ : ∃ k, f = k + 1 := ⟨f - 1, by omega⟩
  have := hn k (by omega)
  simp [pExpr, this.1, this.2]

/-- wrapping a body in parentheses followed by a chain: the `'(' expr ')' accessor_op*` production -/
theorem paren_atom (e0 : E) (body rest : List Tok) (c : Nat) (hacc : startsAcc rest = false)
    (hbody : Ev (fun f => pExpr f 0 (body ++ (.rp :: accs c ++ rest)) = some (e0, .rp :: accs c ++ rest))) :
    Ev (fun f => pPrefix f (.lp :: body ++ .rp :: accs c ++ rest) = some (e0.addChain c, rest)) := by
  obtain ⟨n, hn⟩ := hbody
  refine ⟨n + 1, fun f hf => ?_⟩
  obtain ⟨k, rfl⟩ : ∃ k, f = k + 1 := ⟨f - 1, by omega⟩
  have h := hn k (by omega)
  have ht := takeAccs_accs c rest hacc
  simp only [List.cons_append, List.append_assoc] at h ⊢
  rw [pPrefix]
  simp [h, ht]

theorem good (e : E) : Good e := by
  induction e with
  | root c =>
    have hA : ∀ wp rest, Open (.root c) wp = false → startsAcc rest = false →
        Ev (fun f => pPrefix f (pr (.root c) wp ++ rest) = some (.root c, rest)) := by
      intro wp rest _ hacc
      refine ⟨1, fun f hf => ?_⟩
      obtain ⟨k, rfl⟩ : ∃ k, f = k + 1 := ⟨f - 1, by omega⟩
      simp [pr, pPrefix, takeAccs_accs c rest hacc]
    exact ⟨hA, fun wp π rest res fR _ hacc _ hloop => good_of_atom _ hA wp π rest res fR rfl hacc hloop⟩
  | num n c =>
    have hA : ∀ wp rest, Open (.num n c) wp = false → startsAcc rest = false →
        Ev (fun f => pPrefix f (pr (.num n c) wp ++ rest) = some (.num n c, rest)) := by
      intro wp rest _ hacc
      by_cases hc : c = 0
      · subst hc
        refine ⟨1, fun f hf => ?_⟩
        obtain ⟨k, rfl⟩ : ∃ k, f = k + 1 := ⟨f - 1, by omega⟩
        have := takeAccs_accs 0 rest hacc
        simp [accs] at this
        simp [pr, pPrefix, this]
      · have hb : Ev (fun f => pExpr f 0 ([.num n] ++ (.rp :: accs c ++ rest)) = some (.num n 0, .rp :: accs c ++ rest)) := by
          refine ⟨2, fun f hf => ?_⟩
          obtain ⟨k, rfl⟩ : ∃ k, f = k + 2 := ⟨f - 2, by omega⟩
          simp [pExpr, pPrefix, takeAccs, pLoop]
        have := paren_atom (.num n 0) [.num n] rest c hacc hb
        simpa [pr, hc, E.addChain] using this
    exact ⟨hA, fun wp π rest res fR _ hacc _ hloop => good_of_atom _ hA wp π rest res fR rfl hacc hloop⟩
  | neg e' c ih =>
    obtain ⟨ihA, _⟩ := ih
    have hopen' : Open e' (decide (e'.prio ≤ 5)) = false := by
      cases e' with
      | bin o l r c' => cases o <;> simp [Open, E.prio, Op.prec]
      | _ => simp [Open]
    -- bare `- operand`
    have hbare : ∀ rest, startsAcc rest = false →
        Ev (fun f => pPrefix f (.op .sub :: pr e' (decide (e'.prio ≤ 5)) ++ rest) = some (.neg e' 0, rest)) := by
      intro rest hacc
      obtain ⟨n, hn⟩ := ihA _ rest hopen' hacc
      refine ⟨n + 1, fun f hf => ?_⟩
      obtain ⟨k, rfl⟩ : ∃ k, f = k + 1 := ⟨f - 1, by omega⟩
      have := hn k (by omega)
      rw [List.cons_append, pPrefix]
      simp [this]
    have hA : ∀ wp rest, Open (.neg e' c) wp = false → startsAcc rest = false →
        Ev (fun f => pPrefix f (pr (.neg e' c) wp ++ rest) = some (.neg e' c, rest)) := by
      intro wp rest _ hacc
      by_cases hp : wp = true ∨ c ≠ 0
      · -- parenthesised
        have hb : Ev (fun f => pExpr f 0 ((.op .sub :: pr e' (decide (e'.prio ≤ 5))) ++ (.rp :: accs c ++ rest))
            = some (.neg e' 0, .rp :: accs c ++ rest)) := by
          obtain ⟨n, hn⟩ := hbare (.rp :: accs c ++ rest) rfl
          refine ⟨n + 2, fun f hf => ?_⟩
          obtain ⟨k, rfl⟩ : ∃ k, f = k + 2 := ⟨f - 2, by omega⟩
          have := hn (k + 1) (by omega)
          simp only [List.cons_append] at this ⊢
          rw [pExpr]
          simp only [this]
          exact pLoop_stop k 0 _ _ rfl
        have := paren_atom (.neg e' 0) _ rest c hacc hb
        simpa [pr, hp, E.addChain] using this
      · have hwp : wp = false := by cases wp <;> simp_all
        have hc : c = 0 := by
          false_or_by_contra; rename_i h; exact hp (Or.inr h)
        subst hwp hc
        have := hbare rest hacc
        simpa [pr, accs] using this
    exact ⟨hA, fun wp π rest res fR _ hacc _ hloop => good_of_atom _ hA wp π rest res fR rfl hacc hloop⟩
  | bin o l r c ihl ihr =>
    obtain ⟨_, ihlG⟩ := ihl
    obtain ⟨_, ihrG⟩ := ihr
    let wl := decide (l.prio ≤ o.prec)
    let wr := decide (r.prio ≤ o.prec)
    have openPrio : ∀ (x : E) , Open x (decide (x.prio ≤ o.prec)) = true → x.prio > o.prec := by
      intro x hx
      cases x with
      | bin o' l' r' c' =>
        simp only [Open, Bool.and_eq_true, Bool.not_eq_true', decide_eq_false_iff_not] at hx
        omega
      | _ => simp [Open] at hx
    -- the body `l op r` parsed at any level π ≤ prec(op), continuing the operator loop with the result
    have hB : ∀ π rest res fR, π ≤ o.prec → startsAcc rest = false → startsOpGe o.prec rest = false →
        pLoop fR π (.bin o l r 0) rest = some res →
        Ev (fun f => pExpr f π ((pr l wl ++ [.op o] ++ pr r wr) ++ rest) = some res) := by
      intro π rest res fR hπ hacc hop hloop
      -- right operand at level prec+1 stops at `rest`
      have hr : Ev (fun f => pExpr f (o.prec + 1) (pr r wr ++ rest) = some (r, rest)) := by
        refine ihrG wr (o.prec + 1) rest (r, rest) 1 ?_ hacc ?_ ?_
        · intro h; have := openPrio r h; omega
        · intro h
          have := openPrio r h
          exact startsOpGe_mono (by omega) rest hop
        · exact pLoop_stop 0 _ _ _ (startsOpGe_mono (by omega) rest hop)
      obtain ⟨n, hn⟩ := hr.and (ev_pLoop hloop)
      -- so the loop started with lhs = l consumes `op r` and continues with the binary node
      have hl : pLoop (n + 1) π l ([.op o] ++ pr r wr ++ rest) = some res := by
        have h := hn n (by omega)
        simp only [List.cons_append, List.nil_append, List.append_assoc, pLoop]
        have hge : o.prec ≥ π := hπ
        simp only [hge, if_true]
        simp only [List.append_assoc] at h
        rw [h.1]
        exact h.2
      have := ihlG wl π ([.op o] ++ pr r wr ++ rest) res (n + 1) ?_ rfl ?_ hl
      · simpa [List.append_assoc] using this
      · intro h; have := openPrio l h; omega
      · intro h
        have := openPrio l h
        simp only [List.cons_append, List.nil_append, startsOpGe, decide_eq_false_iff_not]
        omega
    have hA : ∀ wp rest, Open (.bin o l r c) wp = false → startsAcc rest = false →
        Ev (fun f => pPrefix f (pr (.bin o l r c) wp ++ rest) = some (.bin o l r c, rest)) := by
      intro wp rest hopen hacc
      have hp : wp = true ∨ c ≠ 0 := by
        cases wp <;> simp_all [Open]
      have hb := hB 0 (.rp :: accs c ++ rest) (.bin o l r 0, .rp :: accs c ++ rest) 1 (by omega) rfl rfl
        (pLoop_stop 0 _ _ _ rfl)
      have := paren_atom (.bin o l r 0) _ rest c hacc hb
      simpa [pr, hp, E.addChain, wl, wr] using this
    refine ⟨hA, ?_⟩
    intro wp π rest res fR hprio hacc hfol hloop
    by_cases hopen : Open (.bin o l r c) wp = true
    · have hc : c = 0 := by simp [Open] at hopen; exact hopen.2
      have hwp : wp = false := by simp [Open] at hopen; exact hopen.1
      subst hc hwp
      have := hB π rest res fR (by simpa [E.prio] using hprio hopen) hacc (by simpa [E.prio] using hfol hopen) hloop
      simpa [pr, accs, wl, wr] using this
    · have hopen' : Open (.bin o l r c) wp = false := by simpa using hopen
      exact good_of_atom _ hA wp π rest res fR hopen' hacc hloop


/-- C02, tree level, for this fragment: parsing the printed tokens gives the tree back -/
theorem parse_print (e : E) : ∃ n, ∀ f, f ≥ n → pExpr f 0 (printTop e) = some (e, []) := by
  have h := (good e).2 true 0 [] (e, []) 1 (by intro h; cases e <;> simp [Open] at h) rfl
    (by intro h; cases e <;> simp [Open] at h) (pLoop_stop 0 _ _ _ rfl)
  simpa [printTop, Ev] using h

#print axioms parse_print

/-! ## the pinned printer (no parentheses for a chained operand) fails: D3's witness -/

def prGo : E → Bool → List Tok
  | .root c, _ => .dollar :: accs c
  | .num n c, _ => if c = 0 then [.num n] else [.lp, .num n, .rp] ++ accs c
  | .bin o l r c, wp =>
    let body := prGo l (decide (l.prio ≤ o.prec)) ++ [.op o] ++ prGo r (decide (r.prio ≤ o.prec))
    (if wp then [.lp] ++ body ++ [.rp] else body) ++ accs c
  | .neg e c, wp =>
    let body := [.op .sub] ++ prGo e (decide (e.prio ≤ 5))
    (if wp then [.lp] ++ body ++ [.rp] else body) ++ accs c

/-- `(2 * 3).abs() + 1` -/
def d3 : E := .bin .add (.bin .mul (.num 2 0) (.num 3 0) 1) (.num 1 0) 0

theorem d3_counterexample : parse (prGo d3 true) ≠ some d3 := by decide

#eval parse (prGo d3 true)
#print axioms d3_counterexample
