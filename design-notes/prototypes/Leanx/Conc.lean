/-! feasibility: schedule independence when every call writes only its own locations (C19) -/

abbrev Loc := Nat
abbrev Val := Nat
abbrev Store := Loc → Val

/-- one call = a deterministic small-step program over the store and a control state of type κ -/
structure Prog (κ : Type) where
  init : κ
  /-- one micro-step: read the store, maybe write one location, move on; `none` = finished -/
  step : κ → Store → Option (κ × Option (Loc × Val))

def Store.set (σ : Store) (l : Loc) (v : Val) : Store := fun l' => if l' = l then v else σ l'

variable {κ : Type} {n : Nat}

/-- configuration of n calls sharing a store -/
structure Cfg (κ : Type) (n : Nat) where
  store : Store
  ctl : Fin n → κ

/-- call i takes one step (no-op if finished) -/
def Cfg.stepAt (ps : Fin n → Prog κ) (c : Cfg κ n) (i : Fin n) : Cfg κ n :=
  match (ps i).step (c.ctl i) c.store with
  | none => c
  | some (k', none) => { c with ctl := fun j => if j = i then k' else c.ctl j }
  | some (k', some (l, v)) => { store := c.store.set l v, ctl := fun j => if j = i then k' else c.ctl j }

def Cfg.run (ps : Fin n → Prog κ) (c : Cfg κ n) : List (Fin n) → Cfg κ n
  | [] => c
  | i :: sched => Cfg.run ps (c.stepAt ps i) sched

/-- running one call alone for m steps from control state k and store σ -/
def solo (p : Prog κ) : Nat → κ → Store → κ × Store
  | 0, k, σ => (k, σ)
  | m+1, k, σ =>
    match p.step k σ with
    | none => (k, σ)
    | some (k', none) => solo p m k' σ
    | some (k', some (l, v)) => solo p m k' (σ.set l v)

/-- ownership discipline: `own i` are the locations call i may write; a call's steps depend
    only on locations that no other call owns (shared read-only data and its own locations) -/
structure Discipline (ps : Fin n → Prog κ) where
  own : Fin n → Loc → Prop
  writes : ∀ i k σ k' l v, (ps i).step k σ = some (k', some (l, v)) → own i l
  reads : ∀ i k σ σ', (∀ l, (∀ j, j ≠ i → ¬ own j l) → σ l = σ' l) → (ps i).step k σ = (ps i).step k σ'

def AgreeFor {ps : Fin n → Prog κ} (d : Discipline ps) (i : Fin n) (σ σ' : Store) : Prop :=
  ∀ l, (∀ j, j ≠ i → ¬ d.own j l) → σ l = σ' l

def count (i : Fin n) : List (Fin n) → Nat
  | [] => 0
  | j :: s => (if j = i then 1 else 0) + count i s

theorem solo_done (p : Prog κ) (k : κ) (σ : Store) (h : p.step k σ = none) : ∀ m, solo p m k σ = (k, σ) := by
  intro m; cases m <;> simp [solo, h]

/-- Under the discipline, after ANY schedule, call i's control state is what it would be after
    running alone for as many steps as the schedule gave it, and the two stores agree on
    everything call i can see. -/
theorem noninterference (ps : Fin n → Prog κ) (d : Discipline ps) (i : Fin n) :
    ∀ (sched : List (Fin n)) (c : Cfg κ n) (k : κ) (σ : Store),
      c.ctl i = k → AgreeFor d i c.store σ →
      (Cfg.run ps c sched).ctl i = (solo (ps i) (count i sched) k σ).1 ∧
      AgreeFor d i (Cfg.run ps c sched).store (solo (ps i) (count i sched) k σ).2 := by
  intro sched
  induction sched with
  | nil =>
    intro c k σ hk ha
    exact ⟨by simpa [Cfg.run, count, solo] using hk, by simpa [Cfg.run, count, solo] using ha⟩
  | cons j sched ih =>
    intro c k σ hk ha
    simp only [Cfg.run, count]
    by_cases hj : j = i
    · subst hj
      simp only [if_true]
      have hstep : (ps j).step (c.ctl j) c.store = (ps j).step k σ := by
        rw [hk]; exact d.reads j k c.store σ ha
      rw [Nat.add_comm, solo]
      cases hs : (ps j).step k σ with
      | none =>
        have hsame : c.stepAt ps j = c := by simp [Cfg.stepAt, hstep, hs]
        rw [hsame]
        have := ih c k σ hk ha
        rw [solo_done _ _ _ hs] at this
        simpa using this
      | some r =>
        obtain ⟨k', w⟩ := r
        cases w with
        | none =>
          have hc : (c.stepAt ps j).ctl j = k' := by simp [Cfg.stepAt, hstep, hs]
          have hst : (c.stepAt ps j).store = c.store := by simp [Cfg.stepAt, hstep, hs]
          exact ih (c.stepAt ps j) k' σ hc (by rw [hst]; exact ha)
        | some lv =>
          obtain ⟨l, v⟩ := lv
          have hc : (c.stepAt ps j).ctl j = k' := by simp [Cfg.stepAt, hstep, hs]
          have hst : (c.stepAt ps j).store = c.store.set l v := by simp [Cfg.stepAt, hstep, hs]
          refine ih (c.stepAt ps j) k' (σ.set l v) hc ?_
          rw [hst]
          intro l' hl'
          simp only [Store.set]
          split
          · rfl
          · exact ha l' hl'
    · -- another call steps: it writes only its own locations, which call i cannot see
      have hne : (if j = i then 1 else 0) + count i sched = count i sched := by simp [hj]
      rw [hne]
      have hij : ¬ i = j := fun h => hj h.symm
      have hc : (c.stepAt ps j).ctl i = k := by
        simp only [Cfg.stepAt]
        split <;> simp [hij, hk]
      have hagree : AgreeFor d i (c.stepAt ps j).store σ := by
        intro l hl
        simp only [Cfg.stepAt]
        split
        · exact ha l hl
        · exact ha l hl
        · rename_i k' l0 v hs
          have hown := d.writes j _ _ _ _ _ hs
          simp only [Store.set]
          split
          · rename_i heq
            subst heq
            exact absurd hown (hl j hj)
          · exact ha l hl
      exact ih (c.stepAt ps j) k σ hc hagree

#print axioms noninterference
