/-! soft float64 prototype: value = (-1)^neg * mant * 2^exp, mant < 2^53, canonical -/

inductive F64 where
  | nan
  | inf (neg : Bool)
  | fin (neg : Bool) (mant : Nat) (exp : Int)   -- canonical: mant = 0 → exp = 0; else mant odd ... no: normalized so that either exp = -1074 or 2^52 ≤ mant
deriving Repr, DecidableEq, Inhabited

namespace F64

def minExp : Int := -1074
def maxExp : Int := 971      -- largest exponent with 53-bit mantissa: (2^53-1)*2^971

/-- round a positive rational num/den (den > 0) to nearest-even binary64 -/
def roundPos (neg : Bool) (num den : Nat) : F64 :=
  if num = 0 then .fin neg 0 minExp else
  -- choose e such that 2^52 ≤ num/den / 2^e < 2^53, but e ≥ minExp
  let ln := Nat.log2 num
  let ld := Nat.log2 den
  let e0 : Int := (ln : Int) - (ld : Int) - 52
  -- q(e) = floor(num / (den * 2^e))
  let qr (e : Int) : Nat × Nat × Nat :=   -- quotient, remainder, divisor
    if e ≥ 0 then
      let d := den * 2 ^ e.toNat
      (num / d, num % d, d)
    else
      let n := num * 2 ^ (-e).toNat
      (n / den, n % den, den)
  let e1 := if (qr e0).1 ≥ 2 ^ 53 then e0 + 1 else if (qr e0).1 < 2 ^ 52 then e0 - 1 else e0
  let e := if e1 < minExp then minExp else e1
  let (q, r, d) := qr e
  -- round half even
  let q' := if 2 * r > d then q + 1 else if 2 * r < d then q else (if q % 2 = 1 then q + 1 else q)
  let (m, e) := if q' = 2 ^ 53 then (2 ^ 52, e + 1) else (q', e)
  if e > maxExp then .inf neg else .fin neg m e

def ofRat (q : Rat) (negZero : Bool := false) : F64 :=
  if q.num = 0 then .fin negZero 0 minExp
  else roundPos (q.num < 0) q.num.natAbs q.den

def toRat : F64 → Rat
  | .fin neg m e =>
    let v : Rat := if e ≥ 0 then (m * 2 ^ e.toNat : Nat) else (m : Rat) / ((2 ^ (-e).toNat : Nat) : Rat)
    if neg then -v else v
  | _ => 0

def toBits : F64 → UInt64
  | .nan => 0x7FF8000000000001
  | .inf neg => (if neg then 0xFFF0000000000000 else 0x7FF0000000000000)
  | .fin neg m e =>
    let s : UInt64 := if neg then 0x8000000000000000 else 0
    if m < 2 ^ 52 then s ||| m.toUInt64   -- subnormal or zero (e = minExp)
    else s ||| (((e + 1075).toNat.toUInt64) <<< 52) ||| ((m - 2 ^ 52).toUInt64)

def add (a b : F64) : F64 :=
  match a, b with
  | .nan, _ | _, .nan => .nan
  | .inf x, .inf y => if x = y then .inf x else .nan
  | .inf x, _ => .inf x
  | _, .inf y => .inf y
  | .fin na ma _, .fin nb mb _ =>
    if ma = 0 ∧ mb = 0 then .fin (na && nb) 0 minExp
    else ofRat (toRat a + toRat b)

def mul (a b : F64) : F64 :=
  match a, b with
  | .nan, _ | _, .nan => .nan
  | .inf x, .inf y => .inf (x != y)
  | .inf x, .fin ny my _ => if my = 0 then .nan else .inf (x != ny)
  | .fin nx mx _, .inf y => if mx = 0 then .nan else .inf (nx != y)
  | .fin na _ _, .fin nb _ _ => ofRat (toRat a * toRat b) (na != nb)

def div (a b : F64) : F64 :=
  match a, b with
  | .nan, _ | _, .nan => .nan
  | .inf _, .inf _ => .nan
  | .inf x, .fin ny _ _ => .inf (x != ny)
  | .fin nx _ _, .inf y => .fin (nx != y) 0 minExp
  | .fin na ma _, .fin nb mb _ =>
    if mb = 0 then (if ma = 0 then .nan else .inf (na != nb))
    else ofRat (toRat a / toRat b) (na != nb)

theorem add_comm (a b : F64) : add a b = add b a := by
  cases a <;> cases b <;> simp [add, Rat.add_comm, Bool.and_comm]
  · rename_i x y; by_cases h : x = y <;> simp [h, eq_comm]
  · rename_i na ma ea nb mb eb
    by_cases h : ma = 0 ∧ mb = 0
    · simp [h]
    · have : ¬ (mb = 0 ∧ ma = 0) := fun h' => h ⟨h'.2, h'.1⟩
      simp [h, this]

end F64

def native (x : Float) : UInt64 := x.toBits

#eval (F64.ofRat ((1 : Rat) / 10)).toBits == (0.1 : Float).toBits
#eval (F64.add (F64.ofRat ((1 : Rat) / 10)) (F64.ofRat ((2 : Rat) / 10))).toBits == ((0.1 : Float) + 0.2).toBits
#eval (F64.mul (F64.ofRat ((1 : Rat) / 10)) (F64.ofRat (3 : Rat))).toBits == ((0.1 : Float) * 3).toBits
#eval (F64.div (F64.ofRat (1 : Rat)) (F64.ofRat (3 : Rat))).toBits == ((1 : Float) / 3).toBits
#eval (F64.ofRat ((1 : Rat) / (10 ^ 320 : Nat))).toBits == (1e-320 : Float).toBits
#eval (F64.ofRat ((17976931348623157 * 10 ^ 292 : Nat) : Rat)).toBits == (1.7976931348623157e308 : Float).toBits
#eval (F64.ofRat ((10 ^ 309 : Nat) : Rat)).toBits == (1e309 : Float).toBits
#eval (F64.ofRat ((9007199254740993 : Nat) : Rat)).toBits == (9007199254740993 : Float).toBits

theorem bne_comm' (x y : Bool) : (x != y) = (y != x) := by cases x <;> cases y <;> rfl

theorem F64.mul_comm (a b : F64) : F64.mul a b = F64.mul b a := by
  cases a <;> cases b <;> simp [F64.mul, Rat.mul_comm, bne_comm' _ _] <;>
    (rename_i x _ y _ _; rw [bne_comm' x y])

#print axioms F64.add_comm
#print axioms F64.mul_comm
