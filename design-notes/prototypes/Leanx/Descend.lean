/-! feasibility (C15): the level-bounded traversal of `executeAnyItem` / `execAnyNode`
    equals "document pre-order, filtered by depth".  Collect mode, no following step,
    leaf test by kind (i.e. with D19 repaired). -/

inductive J where
  | leaf (n : Nat)
  | arr (xs : List J)
  | obj (kvs : List (String × J))

/-- children in the order the executor ranges over them (member order = list order here) -/
def J.kids : J → List J
  | .leaf _ => []
  | .arr xs => xs
  | .obj kvs => kvs.map (·.2)

def J.isContainer : J → Bool
  | .leaf _ => false
  | _ => true

/-- a `.**` bound: `none` is the keyword `last` (MaxUint32 in the code) -/
abbrev Bound := Option Nat

def geFirst (level : Nat) : Bound → Bool
  | some f => decide (level ≥ f)
  | none => false

def gtLast (level : Nat) : Bound → Bool
  | some l => decide (level > l)
  | none => false

def ltLast (level : Nat) : Bound → Bool
  | some l => decide (level < l)
  | none => true

def leafMode (first last : Bound) : Bool := first.isNone && last.isNone

/-- mirror of `executeAnyItem(node = nil, found ≠ nil)`; one unit of fuel per level -/
def anyItem : (fuel : Nat) → List J → (level : Nat) → (first last : Bound) → List J
  | 0, _, _, _, _ => []
  | fuel+1, vs, level, first, last =>
    if gtLast level last then [] else
    vs.flatMap fun v =>
      (if geFirst level first || (leafMode first last && !v.isContainer) then [v] else []) ++
      (if ltLast level last then anyItem fuel v.kids (level + 1) first last else [])

/-- mirror of `execAnyNode`: level 0 is the item itself -/
def anyNode (fuel : Nat) (v : J) (first last : Bound) : List J :=
  (if first = some 0 then [v] else []) ++ anyItem fuel v.kids 1 first last

/-! the specification: pre-order with depths, then a filter -/

def preorderL : (fuel : Nat) → List J → Nat → List (J × Nat)
  | 0, _, _ => []
  | fuel+1, vs, d => vs.flatMap fun v => (v, d) :: preorderL fuel v.kids (d + 1)

def selects (first last : Bound) (p : J × Nat) : Bool :=
  (geFirst p.2 first && !gtLast p.2 last) || (leafMode first last && !p.1.isContainer && decide (p.2 ≥ 1))

def specL (fuel : Nat) (vs : List J) (d : Nat) (first last : Bound) : List J :=
  ((preorderL fuel vs d).filter (selects first last)).map (·.1)

def spec (fuel : Nat) (v : J) (first last : Bound) : List J :=
  ((((v, 0) :: preorderL fuel v.kids 1)).filter (selects first last)).map (·.1)

-- sanity
def sample : J := .obj [("a", .leaf 1), ("b", .arr [.obj [("a", .leaf 2)], .leaf 3, .arr []]), ("c", .obj [])]
def show' : J → String
  | .leaf n => toString n
  | .arr xs => "[" ++ toString xs.length ++ "]"
  | .obj kvs => "{" ++ toString kvs.length ++ "}"
#eval (anyNode 100 sample (some 0) none).map show'
#eval (spec 100 sample (some 0) none).map show'
#eval (anyNode 100 sample (some 1) (some 2)).map show'
#eval (spec 100 sample (some 1) (some 2)).map show'
#eval (anyNode 100 sample none none).map show'
#eval (spec 100 sample none none).map show'

/-- nodes deeper than `last` contribute nothing -/
theorem spec_beyond (fuel : Nat) : ∀ (vs : List J) (d : Nat) (first : Bound) (l : Nat), d > l →
    specL fuel vs d first (some l) = [] := by
  induction fuel with
  | zero => intros; simp [specL, preorderL]
  | succ k ih =>
    intro vs d first l hd
    induction vs with
    | nil => simp [specL, preorderL]
    | cons v rest ihv =>
      simp only [specL, preorderL, List.flatMap_cons, List.filter_append, List.map_append,
        List.filter_cons] at ihv ⊢
      have hsel : selects first (some l) (v, d) = false := by
        simp [selects, gtLast, leafMode]; intro _; omega
      have hk := ih v.kids (d + 1) first l (by omega)
      simp only [specL] at hk
      simp [hsel, hk, ihv]

theorem anyItem_spec (fuel : Nat) : ∀ (vs : List J) (level : Nat) (first last : Bound), level ≥ 1 →
    anyItem fuel vs level first last = specL fuel vs level first last := by
  induction fuel with
  | zero => intros; simp [anyItem, specL, preorderL]
  | succ k ih =>
    intro vs level first last hlevel
    by_cases hgt : gtLast level last = true
    · -- beyond the upper bound: nothing on either side
      cases last with
      | none => simp [gtLast] at hgt
      | some l =>
        have : level > l := by simpa [gtLast] using hgt
        simp [anyItem, hgt, spec_beyond (k + 1) vs level first l this]
    · have hgt' : gtLast level last = false := by simpa using hgt
      simp only [anyItem, hgt', Bool.false_eq_true, if_false]
      induction vs with
      | nil => simp [specL, preorderL]
      | cons v rest ihv =>
        simp only [specL, preorderL, List.flatMap_cons, List.filter_append, List.map_append,
          List.filter_cons] at ihv ⊢
        rw [ihv]
        congr 1
        -- the node itself
        have hhere : (if geFirst level first || (leafMode first last && !v.isContainer) then [v] else []) =
            ((if selects first last (v, level) = true then [(v, level)] else []).map (·.1)) := by
          have h1 : decide (level ≥ 1) = true := by simpa using hlevel
          simp only [selects, hgt', Bool.not_false, Bool.and_true, h1]
          split <;> simp
        -- its descendants
        have hbelow : (if ltLast level last then anyItem k v.kids (level + 1) first last else []) =
            ((preorderL k v.kids (level + 1)).filter (selects first last)).map (·.1) := by
          by_cases hlt : ltLast level last = true
          · simp only [hlt, if_true]; exact ih _ _ _ _ (by omega)
          · cases last with
            | none => simp [ltLast] at hlt
            | some l =>
              have hl : level + 1 > l := by
                have : ¬ level < l := by simpa [ltLast] using hlt
                omega
              have := spec_beyond k v.kids (level + 1) first l hl
              simp only [specL] at this
              simp [hlt, this]
        rw [hhere, hbelow]
        split <;> simp

/-- C15 for this fragment: `.**{first to last}` = pre-order filtered by depth (and, for `{last}`,
    by being a leaf); in particular every selected node appears exactly as often as in the pre-order -/
theorem anyNode_spec (fuel : Nat) (v : J) (first last : Bound) :
    anyNode fuel v first last = spec fuel v first last := by
  simp only [anyNode, spec, List.filter_cons, anyItem_spec _ _ _ _ _ (Nat.le_refl 1)]
  cases first with
  | none => cases last <;> simp [selects, geFirst, gtLast, leafMode, specL]
  | some f =>
    by_cases hf : f = 0
    · subst hf
      cases last <;> simp [selects, geFirst, gtLast, leafMode, specL]
    · cases last <;> simp [selects, geFirst, gtLast, leafMode, specL, hf]

#print axioms anyNode_spec
