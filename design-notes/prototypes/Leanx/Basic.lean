/-! feasibility experiment: nested inductives, wf recursion, trace semantics -/

inductive Item where
  | null
  | bool (b : Bool)
  | int (i : Int)
  | str (s : String)
  | arr (xs : List Item)
  | obj (kvs : List (String × Item))
deriving Repr, Inhabited

inductive Err where
  | verbose (tag : Nat)
  | hard (tag : Nat)
deriving Repr, DecidableEq

inductive Tri where | f | t | u
deriving Repr, DecidableEq

mutual
inductive Node where
  | root (next : Option Node)
  | cur (next : Option Node)
  | key (k : String) (next : Option Node)
  | anyArr (next : Option Node)
  | lit (v : Int) (next : Option Node)
  | filter (p : Pred) (next : Option Node)
inductive Pred where
  | eq (l r : Node)
  | and (l r : Pred)
  | not (p : Pred)
  | isUnknown (p : Pred)
  | exists_ (n : Node)
end

structure Env where
  lax : Bool
  root : Item
  cur : Item

/-- trace: items produced before the first error, and that error -/
abbrev Trace := List Item × Option Err

def Trace.bind (t : Trace) (k : Item → Trace) : Trace :=
  match t with
  | (xs, some e) =>
    -- run k on xs until first error
    let r := xs.foldl (fun (acc : Trace) x => match acc with
      | (ys, some e') => (ys, some e')
      | (ys, none) => let (zs, e') := k x; (ys ++ zs, e')) ([], none)
    match r with
    | (ys, some e') => (ys, some e')
    | (ys, none) => (ys, some e)
  | (xs, none) =>
    xs.foldl (fun (acc : Trace) x => match acc with
      | (ys, some e') => (ys, some e')
      | (ys, none) => let (zs, e') := k x; (ys ++ zs, e')) ([], none)

def lookup (k : String) : List (String × Item) → Option Item
  | [] => none
  | (k', v) :: rest => if k = k' then some v else lookup k rest

def traceLoop (ev : Item → Trace) : List Item → Trace
  | [] => ([], none)
  | x :: rest =>
    match ev x with
    | (ys, some e) => (ys, some e)
    | (ys, none) => let (zs, e) := traceLoop ev rest; (ys ++ zs, e)

/-- comparison callback shared by spec and mirror -/
def eqItems (a b : Item) : Bool :=
  match a, b with
  | .int x, .int y => x == y
  | _, _ => false

def anyPair (ls rs : List Item) : Bool := ls.any (fun a => rs.any (fun b => eqItems a b))

def filterTrace (tp : Tri × Option Err) (k : Trace) : Trace :=
  match tp with
  | (.t, none) => k
  | (_, some e) => ([], some e)
  | (_, none) => ([], none)

mutual
def evalNode (fuel : Nat) (env : Env) (n : Node) (v : Item) (unwrap : Bool) : Trace :=
  match fuel with
  | 0 => ([], some (.hard 99))
  | fuel+1 =>
  match n with
  | .root next => evalNext fuel env next env.root
  | .cur next => evalNext fuel env next env.cur
  | .lit i next => evalNext fuel env next (.int i)
  | .key k next =>
    match v with
    | .obj kvs =>
      match lookup k kvs with
      | some x => evalNext fuel env next x
      | none => if env.lax then ([], none) else ([], some (.verbose 1))
    | .arr xs =>
      if unwrap then traceLoop (fun x => evalNode fuel env n x false) xs else
      if env.lax then ([], none) else ([], some (.verbose 2))
    | _ => if env.lax then ([], none) else ([], some (.verbose 2))
  | .anyArr next =>
    match v with
    | .arr xs => traceLoop (fun x => evalNext fuel env next x) xs
    | _ => if env.lax then evalNext fuel env next v else ([], some (.verbose 3))
  | .filter p next =>
    match v, unwrap with
    | .arr xs, true => traceLoop (fun x => evalNode fuel env n x false) xs
    | _, _ =>
      filterTrace (evalPred fuel { env with cur := v } p) (evalNext fuel env next v)

def evalNext (fuel : Nat) (env : Env) (next : Option Node) (v : Item) : Trace :=
  match next with
  | none => ([v], none)
  | some n =>
    match fuel with
    | 0 => ([], some (.hard 99))
    | fuel+1 => evalNode fuel env n v env.lax

def evalPred (fuel : Nat) (env : Env) (p : Pred) : Tri × Option Err :=
  match fuel with
  | 0 => (.u, some (.hard 99))
  | fuel+1 =>
  match p with
  | .eq l r =>
    match evalNode fuel env l env.cur env.lax with
    | (_, some (.hard t)) => (.u, some (.hard t))
    | (_, some (.verbose _)) => (.u, none)
    | (ls, none) =>
      match evalNode fuel env r env.cur env.lax with
      | (_, some (.hard t)) => (.u, some (.hard t))
      | (_, some (.verbose _)) => (.u, none)
      | (rs, none) =>
        if anyPair ls rs then (.t, none) else (.f, none)
  | .and l r =>
    match evalPred fuel env l with
    | (.f, none) => (.f, none)
    | (x, some e) => (x, some e)
    | (a, none) =>
      match evalPred fuel env r with
      | (.t, e) => (a, e)
      | (b, e) => (b, e)
  | .not p =>
    match evalPred fuel env p with
    | (.t, none) => (.f, none)
    | (.f, none) => (.t, none)
    | r => r
  | .isUnknown p =>
    match evalPred fuel env p with
    | (.u, _) => (.t, none)
    | (_, _) => (.f, none)
  | .exists_ n =>
    -- lax: first event decides
    match evalNode fuel env n env.cur env.lax with
    | (_ :: _, _) => (.t, none)
    | ([], some (.hard t)) => (.u, some (.hard t))
    | ([], some (.verbose _)) => (.u, none)
    | ([], none) => (.f, none)
end

#eval evalNode 100 { lax := true, root := .arr [.int 1, .int 2, .obj [("a", .int 3)]], cur := .null }
  (.root (some (.anyArr (some (.filter (.eq (.cur none) (.lit 2 none)) none))))) .null true

-- a sample theorem: isUnknown never yields u without error
theorem isUnknown_two_valued (fuel : Nat) (env : Env) (p : Pred) :
    (evalPred fuel env (.isUnknown p)).2 = none → (evalPred fuel env (.isUnknown p)).1 ≠ .u := by
  cases fuel with
  | zero => simp [evalPred]
  | succ n =>
    simp only [evalPred]
    split <;> simp
