import Leanx.Basic
import Leanx.Exec
import Leanx.Refine
import Leanx.Api
import Leanx.F64
import Leanx.Quote
import Leanx.PP
import Leanx.Conc
