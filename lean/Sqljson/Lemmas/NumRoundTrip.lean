import Sqljson.Lemmas.Layout
import Sqljson.Lemmas.FloatText
/-!
# Round trip `Parse(p.String()) = p` for trees with numeric (non-integer) literal nodes

Lemma layer of `Props/C02c`.  `Lemmas/RoundTrip` proves the print/parse round trip for the class `RT5`,
which excludes `NumericNode`s; this file adds them (class `RT6 ⊇ RT5`).  Contents, in order:

1. **The printed text.**  `ast.NumericNode.String()` is `json.Marshal(float64)` (`Decimal.jsonFloat`): the
   shortest digits `c · 10^p` laid out as `%f`, or as `%e` with the exponent cleaned (`1e-7`, `1e+21`) below
   `1e-6` and from `1e21` on.  `absTxt`, `jsonFloat_eq`; `shapeOK` (the text has a fraction or an exponent);
   `floatForm_layoutE`, `floatForm_layoutF`, `floatForm_layoutJ`: the text is one of the non-integer number
   forms of the path language (`Layout.FloatForm`); `tokAt_layoutJ`, `seg2_layoutJ`: it is ONE `NUMERIC_P`
   token with exactly that text whatever tolerated character follows (from `Layout.tokAt_float`).
2. **`strconv.ParseFloat` reads it back.**  `parseFloat_jchars`, `takeExp_ex`, `dec_layoutE`, `parse_layoutE`
   (the `%e` layout; `FloatText.parse_layoutF` is the `%f` one), `parse_txt`, `parseFloatFinite_txt`: the text,
   with its sign, converts back to the same `F64` — from the 17-digit theorem `FloatText.shortest_roundtrips`.
3. **The fork.**  The operand / expression / predicate layer of `Lemmas/RoundTrip` is stated over `evOf`, the value
   the parser builds for a node, which there records the literal text of integer nodes only, and over
   `isOpdStart`, which does not list `NUMERIC_P`.  The 80 declarations that depend on these two are repeated
   verbatim over the extended definitions; everything else is used from `RoundTrip`.
4. **Numeric literals in the calculus.**  `numOK`; `unaryT_num`, `opdOK_num` (positive literal: an operand),
   `neg_opdSpec_num`, `exprOK_negNum` (negative literal: `-` and the token of the absolute value, folded by
   `ast.NewUnaryOrNumber`), `exprOK_num`; `parenTail_num_chain`, `exprOK_numChain` (`(1.5).abs()`).
5. **The class** `okExpr6` / `okPred6` / `okStep6` / `RT6`, the induction `allOK6`, `roundtrip_stage6'`.
6. `sub56`, `RT5_RT6`: stage 5 ⊆ stage 6.
7. `Integral`, `roundPos_nat_integral`, `numOK_of_not_integral`: every canonical finite double that is not an
   integer is in the class; `layoutJ_digits_of_not_shape`: outside the class the text is a digit string (D5).
-/

namespace Sqljson
namespace NumRT
open Parse Lex ParseLemmas RoundTrip
open JNum (AllDig allDig_nil allDig_cons allDig_head allDig_tail)
open Layout (DigsFrom Digs IntPart FracOpt ExpSuffix Suffix AfterInt FloatForm EndsNumeric)
set_option linter.unusedSimpArgs false
set_option linter.unusedSectionVars false
set_option linter.unusedVariables false

/-! ## The text `json.Marshal` writes for a non-zero finite double -/

/-- decimal exponent of the leading digit of `digs · 10^p` -/
def lead (digs : List Char) (p : Int) : Int := p + (digs.length : Int) - 1

/-- the layout `encoding/json` chooses: `%e` below `1e-6` and from `1e21` on, `%f` otherwise -/
def layoutJ (digs : List Char) (p : Int) : List Char :=
  if lead digs p < -6 ∨ lead digs p ≥ 21 then Decimal.layoutE digs p else Decimal.layoutF digs p

/-- the text of `|x|` for `x = ± m · 2^e`, `m ≠ 0` -/
def absTxt (m : Nat) (e : Int) : List Char :=
  layoutJ (Decimal.formatNat (Decimal.shortest m e).1) (Decimal.shortest m e).2

def signTxt (neg : Bool) : List Char := if neg then ['-'] else []

theorem jsonFloat_eq (neg : Bool) (m : Nat) (e : Int) (hm : m ≠ 0) :
    Decimal.jsonFloat (.fin neg m e) = some (signTxt neg ++ absTxt m e) := by
  unfold Decimal.jsonFloat absTxt layoutJ lead signTxt
  simp only [hm, if_false]
  split <;> rfl

/-- the printed text is not that of an integer literal: it has a fraction (`p < 0`) or is in
    exponent form (`≥ 1e21`; below `1e-6` there is always a fraction) -/
def shapeOK (digs : List Char) (p : Int) : Bool := decide (p < 0) || decide (lead digs p ≥ 21)

/-! ### digit strings -/

theorem isDigit_eq (c : Char) : Decimal.isDigit c = isDecimal c := rfl

theorem digsFrom_of_allDig : ∀ {l : List Char}, AllDig l → DigsFrom l
  | [], _ => DigsFrom.nil
  | _ :: _, h => DigsFrom.digit (allDig_head h) (digsFrom_of_allDig (allDig_tail h))

theorem digs_of_allDig {l : List Char} (h : AllDig l) (hne : l ≠ []) : Digs l := by
  cases l with
  | nil => exact absurd rfl hne
  | cons c cs => exact Digs.mk (allDig_head h) (digsFrom_of_allDig (allDig_tail h))

theorem allDig_formatNat (n : Nat) : AllDig (Decimal.formatNat n) := FloatText.formatNat_allDig n

theorem formatNat_ne_nil (n : Nat) : Decimal.formatNat n ≠ [] := by
  intro h
  have := FloatText.formatNat_length_pos n
  rw [h] at this
  exact absurd this (by decide)

/-- the exponent digits of `layoutE` -/
def exDigits (x : Int) : List Char :=
  if x.natAbs < 10 then (if x < 0 then Decimal.formatNat x.natAbs else '0' :: Decimal.formatNat x.natAbs)
  else Decimal.formatNat x.natAbs

theorem exDigits_allDig (x : Int) : AllDig (exDigits x) := by
  unfold exDigits
  split
  · split
    · exact allDig_formatNat _
    · exact allDig_cons (by decide) (allDig_formatNat _)
  · exact allDig_formatNat _

theorem exDigits_ne_nil (x : Int) : exDigits x ≠ [] := by
  unfold exDigits
  split
  · split
    · exact formatNat_ne_nil _
    · simp
  · exact formatNat_ne_nil _

def exSign (x : Int) : Char := if x < 0 then '-' else '+'

theorem layoutE_one (d : Char) (p : Int) :
    Decimal.layoutE [d] p = d :: 'e' :: exSign (lead [d] p) :: exDigits (lead [d] p) := by
  unfold Decimal.layoutE lead exSign exDigits
  simp

theorem layoutE_more (d d2 : Char) (ds : List Char) (p : Int) :
    Decimal.layoutE (d :: d2 :: ds) p
      = d :: '.' :: (d2 :: ds) ++ 'e' :: exSign (lead (d :: d2 :: ds) p) :: exDigits (lead (d :: d2 :: ds) p) := by
  unfold Decimal.layoutE lead exSign exDigits
  simp

theorem expSuffix_ex (x : Int) : ExpSuffix ('e' :: exSign x :: exDigits x) := by
  have h := ExpSuffix.mk (x := 'e') (sg := [exSign x]) (ds := exDigits x) (Or.inl rfl)
    (by unfold exSign; split <;> simp) (digs_of_allDig (exDigits_allDig x) (exDigits_ne_nil x))
  simpa using h

/-- the `%e` layout is a non-integer number literal of the path language -/
theorem floatForm_layoutE (digs : List Char) (p : Int) (hall : AllDig digs) (hne : digs ≠ []) :
    ∃ d ds, Decimal.layoutE digs p = d :: ds ∧ isDecimal d = true ∧ FloatForm (d :: ds) := by
  cases digs with
  | nil => exact absurd rfl hne
  | cons d rest =>
    have hd : isDecimal d = true := allDig_head hall
    cases rest with
    | nil =>
      refine ⟨d, _, layoutE_one d p, hd, ?_⟩
      have := FloatForm.intExp (d := d) (ds := []) ⟨hd, DigsFrom.nil, fun _ => rfl⟩ (expSuffix_ex (lead [d] p))
      simpa using this
    | cons d2 ds =>
      refine ⟨d, _, layoutE_more d d2 ds p, hd, ?_⟩
      have := FloatForm.point (d := d) (ds := []) (fr := d2 :: ds) ⟨hd, DigsFrom.nil, fun _ => rfl⟩
        (FracOpt.some (digs_of_allDig (allDig_tail hall) (by simp)))
        (Suffix.some (expSuffix_ex (lead (d :: d2 :: ds) p)))
      simpa using this

theorem allDig_take {l : List Char} (h : AllDig l) (k : Nat) : AllDig (l.take k) :=
  fun x hx => h x (List.mem_of_mem_take hx)
theorem allDig_drop {l : List Char} (h : AllDig l) (k : Nat) : AllDig (l.drop k) :=
  fun x hx => h x (List.mem_of_mem_drop hx)

/-- the `%f` layout with a fraction is a non-integer number literal of the path language -/
theorem floatForm_layoutF (d0 : Char) (rest : List Char) (p : Int) (hall : AllDig (d0 :: rest)) (h0 : d0 ≠ '0')
    (hp : p < 0) :
    ∃ d ds, Decimal.layoutF (d0 :: rest) p = d :: ds ∧ isDecimal d = true ∧ FloatForm (d :: ds) := by
  unfold Decimal.layoutF
  rw [if_neg (by omega)]
  simp only
  by_cases hl : (d0 :: rest).length > (-p).toNat
  · rw [if_pos hl]
    obtain ⟨k, hk⟩ : ∃ k, (d0 :: rest).length - (-p).toNat = k + 1 := ⟨(d0 :: rest).length - (-p).toNat - 1, by omega⟩
    rw [hk, List.take_succ_cons, List.drop_succ_cons]
    have hklt : k < rest.length := by simp only [List.length_cons] at hk; omega
    refine ⟨d0, _, rfl, allDig_head hall, ?_⟩
    have := FloatForm.point (d := d0) (ds := rest.take k) (fr := rest.drop k) (e := [])
      ⟨allDig_head hall, digsFrom_of_allDig (allDig_take (allDig_tail hall) k), fun h => absurd h h0⟩
      (FracOpt.some (digs_of_allDig (allDig_drop (allDig_tail hall) k)
        (by intro h; have := congrArg List.length h; simp at this; omega)))
      Suffix.none
    simpa using this
  · rw [if_neg hl]
    refine ⟨'0', _, rfl, by decide, ?_⟩
    have hz : AllDig (Decimal.zeros ((-p).toNat - (d0 :: rest).length) ++ (d0 :: rest)) :=
      FloatText.allDig_append (FloatText.zeros_allDig _) hall
    have := FloatForm.point (d := '0') (ds := []) (fr := Decimal.zeros ((-p).toNat - (d0 :: rest).length) ++ (d0 :: rest))
      (e := []) ⟨by decide, DigsFrom.nil, fun _ => rfl⟩
      (FracOpt.some (digs_of_allDig hz (by simp))) Suffix.none
    simpa using this

/-- the digits of a non-zero natural: all digits, the first one not `0` -/
theorem formatNat_shape (c : Nat) (hc : c ≠ 0) :
    ∃ d0 rest, Decimal.formatNat c = d0 :: rest ∧ AllDig (d0 :: rest) ∧ d0 ≠ '0' := by
  obtain ⟨d0, rest, h, h0⟩ := toDigits_head c (by omega)
  refine ⟨d0, rest, h, ?_, h0⟩
  have := allDig_formatNat c
  unfold Decimal.formatNat at this
  rwa [h] at this

/-- **the text of a literal in the class is a non-integer number literal** -/
theorem floatForm_layoutJ (c : Nat) (p : Int) (hc : c ≠ 0) (hs : shapeOK (Decimal.formatNat c) p = true) :
    ∃ d ds, layoutJ (Decimal.formatNat c) p = d :: ds ∧ isDecimal d = true ∧ FloatForm (d :: ds) := by
  unfold layoutJ
  split
  · exact floatForm_layoutE _ p (allDig_formatNat c) (formatNat_ne_nil c)
  · rename_i hx
    obtain ⟨d0, rest, h, hall, h0⟩ := formatNat_shape c hc
    rw [h] at hs hx ⊢
    have hp : p < 0 := by
      simp only [shapeOK, Bool.or_eq_true, decide_eq_true_eq] at hs
      rcases hs with hs | hs
      · exact hs
      · exact absurd (Or.inr hs) hx
    exact floatForm_layoutF d0 rest p hall h0 hp

section
variable (o : Oracles) (ok : OrOK o)
include ok

theorem brk_endsNumeric {y : Option Char} (h : brk y) : EndsNumeric o y :=
  Layout.EndsNumber.endsNumeric (brk_endsNumber o ok h)

/-- **token level**: the scanner started on the first character of the text returns `NUMERIC_P` with
    exactly that text and stops right after it, provided the next character does not continue a number
    (`Layout.EndsNumeric`: not a digit, `_`, `e`/`E` or an identifier start — a dot is allowed) -/
theorem tokAt_layoutJ (c : Nat) (p : Int) (hc : c ≠ 0) (hs : shapeOK (Decimal.formatNat c) p = true) :
    ∃ d ds, layoutJ (Decimal.formatNat c) p = d :: ds ∧ d.toNat ≠ 0 ∧ NoNul ds ∧ isWhitespace d = false ∧
      TokAt o (EndsNumeric o) d ds (.numeric, d :: ds) := by
  obtain ⟨d, ds, h, hd, hf⟩ := floatForm_layoutJ c p hc hs
  have hdd := isDecimal_facts d hd
  exact ⟨d, ds, h, hdd.1, (NoNul.of_cons (Layout.FloatForm.noNul hf)).2, hdd.2.2.2.1, Layout.tokAt_float o ok hf hd⟩

/-- in the calculus of `Lemmas/RoundTrip`: the text is one `NUMERIC_P` token carrying exactly that text, with
    or without a blank before it, when the end, a blank, `)`, `]`, `,` or `}` follows -/
theorem seg2_layoutJ (c : Nat) (p : Int) (hc : c ≠ 0) (hs : shapeOK (Decimal.formatNat c) p = true) :
    Seg2 o brk (layoutJ (Decimal.formatNat c) p) [(.numeric, layoutJ (Decimal.formatNat c) p)] := by
  obtain ⟨d, ds, h, hd, hf⟩ := floatForm_layoutJ c p hc hs
  rw [h]
  have hdd := isDecimal_facts d hd
  have hnn := Layout.FloatForm.noNul hf
  have ht := Layout.tokAt_float o ok hf hd
  exact (seg2_tokAt o ok ht hdd.1 (NoNul.of_cons hnn).2 (by simp) hdd.2.2.2.1).mono o
    (fun y hy => brk_endsNumeric o ok hy)

end


/-! ## `strconv.ParseFloat` reads the text back -/

theorem shortest_signed (neg : Bool) {m : Nat} {e : Int} (hm : m ≠ 0) (hwf : F64.WF (.fin neg m e)) :
    Decimal.scale10 neg (Decimal.shortest m e).1 (Decimal.shortest m e).2 = .fin neg m e := by
  have h := FloatText.shortest_roundtrips (m := m) (e := e) hm hwf
  cases neg
  · exact h
  · rw [ParseLemmas.scale10_neg, h]; rfl

/-- a decimal that rounds to a non-zero finite double is non-zero and its exponent is moderate -/
theorem scale10_fin_bounds {neg neg' : Bool} {c : Nat} {p : Int} {m : Nat} {e : Int}
    (h : Decimal.scale10 neg c p = .fin neg' m e) (hm : m ≠ 0) :
    c ≠ 0 ∧ -330 ≤ (Decimal.digitCount c : Int) + p ∧ (Decimal.digitCount c : Int) + p ≤ 310 := by
  unfold Decimal.scale10 at h
  split at h
  · injection h with _ h2 _; exact absurd h2.symm hm
  · rename_i hc
    simp only at h
    split at h
    · cases h
    · split at h
      · injection h with _ h2 _; exact absurd h2.symm hm
      · exact ⟨hc, by omega, by omega⟩

theorem shortest_facts {neg : Bool} {m : Nat} {e : Int} (hm : m ≠ 0) (hwf : F64.WF (.fin neg m e)) :
    (Decimal.shortest m e).1 ≠ 0 ∧
    (lead (Decimal.formatNat (Decimal.shortest m e).1) (Decimal.shortest m e).2).natAbs ≤ 100000 := by
  have h := scale10_fin_bounds (shortest_signed neg hm hwf) hm
  refine ⟨h.1, ?_⟩
  unfold lead
  have : ((Decimal.formatNat (Decimal.shortest m e).1).length : Int) = (Decimal.digitCount (Decimal.shortest m e).1 : Int) := rfl
  rw [this]
  omega

open JNum in
/-- a text of number characters that starts with a digit, with an optional minus sign, goes through the
    decimal branch of `ParseFloat` -/
theorem parseFloat_jchars (neg : Bool) (d : Char) (rest : List Char) (hd : Decimal.isDigit d = true)
    (hrest : ∀ x ∈ rest, JChar x) :
    Decimal.parseFloat (signTxt neg ++ d :: rest) = Decimal.parseFloatNoUnderscore.dec neg (d :: rest) := by
  have hdn := digit_ne hd
  have hx : ∀ x ∈ rest, Decimal.lowerC x ≠ 'x' := fun x hx => (jchar_ok (hrest x hx)).2
  have hu : (signTxt neg ++ d :: rest).contains '_' = false := by
    apply no_underscore
    intro x hx
    have hbody : ∀ y ∈ d :: rest, y ≠ '_' := by
      intro y hy
      rcases List.mem_cons.mp hy with rfl | hy
      · exact hdn.2.2.2.2.2.1
      · exact (jchar_ok (hrest y hy)).1
    cases neg
    · exact hbody x hx
    · rcases List.mem_cons.mp hx with rfl | hx
      · decide
      · exact hbody x hx
  unfold Decimal.parseFloat
  rw [hu]
  simp only [Bool.false_eq_true, if_false]
  cases neg
  · show Decimal.parseFloatNoUnderscore (d :: rest) = _
    rw [JNum.pfnu_plain d _ hdn.2.2.2.1 hdn.2.2.2.2.1]
    refine JNum.pfBody_dec false d _ _ hd ?_ hx
    exact JNum.eqFold_head_false d _ "nan" 'n' ['a', 'n'] (by decide)
      (by rw [digit_lowerC hd]; exact hdn.2.2.2.2.2.2.2.2)
  · show Decimal.parseFloatNoUnderscore ('-' :: d :: rest) = _
    rw [JNum.pfnu_minus]
    refine JNum.pfBody_dec true d _ _ hd ?_ hx
    exact JNum.eqFold_head_false '-' _ "nan" 'n' ['a', 'n'] (by decide) (by decide)

theorem ofDigitChars_exDigits (x : Int) : Nat.ofDigitChars 10 (exDigits x) 0 = x.natAbs := by
  unfold exDigits
  split
  · split
    · exact FloatText.formatNat_value _
    · rw [Nat.ofDigitChars_cons]
      exact FloatText.formatNat_value _
  · exact FloatText.formatNat_value _

/-- the exponent `e±dd` of the `%e` layout read by `ParseFloat` -/
theorem takeExp_ex (x : Int) (hx : x.natAbs ≤ 100000) :
    Decimal.takeExp 'e' ('e' :: exSign x :: exDigits x) = some (x, []) := by
  have hd := FloatText.takeDigits_allDig (exDigits x) (exDigits_allDig x) 0 0
  have hlen : ¬ (0 + (exDigits x).length = 0) := by
    have := exDigits_ne_nil x
    cases hh : exDigits x with
    | nil => exact absurd hh this
    | cons _ _ => simp
  have hcap : ¬ (x.natAbs > 100000) := by omega
  have hl : Decimal.lowerC 'e' = 'e' := by decide
  unfold exSign
  by_cases hneg : x < 0
  · have e1 : -((x.natAbs : Nat) : Int) = x := by omega
    rw [if_pos hneg, Decimal.takeExp, if_pos hl]
    simp only [hd, ofDigitChars_exDigits, hlen, if_false, hcap, if_true, e1]
  · have e1 : ((x.natAbs : Nat) : Int) = x := by omega
    rw [if_neg hneg, Decimal.takeExp, if_pos hl]
    simp only [hd, ofDigitChars_exDigits, hlen, if_false, hcap, Bool.false_eq_true, e1]

theorem takeMant_e (cs : List Char) (acc nd nf : Nat) (dot : Bool) :
    Decimal.takeMant ('e' :: cs) acc nd nf dot = (acc, nd, nf, dot, 'e' :: cs) := by
  rw [Decimal.takeMant]
  have h1 : Decimal.isDigit 'e' = false := by decide
  simp [h1]

/-- what the decimal branch of `ParseFloat` computes on the `%e` layout of `c · 10^p` -/
theorem dec_layoutE (neg : Bool) (c : Nat) (p : Int)
    (hb : (lead (Decimal.formatNat c) p).natAbs ≤ 100000)
    (hfin : (Decimal.scale10 neg c p).isInf = false) :
    Decimal.parseFloatNoUnderscore.dec neg (Decimal.layoutE (Decimal.formatNat c) p)
      = .ok (Decimal.scale10 neg c p) := by
  have hall := allDig_formatNat c
  have hne := formatNat_ne_nil c
  have hval := FloatText.formatNat_value c
  generalize Decimal.formatNat c = digs at *
  cases digs with
  | nil => exact absurd rfl hne
  | cons d rest =>
    cases rest with
    | nil =>
      rw [layoutE_one]
      unfold Decimal.parseFloatNoUnderscore.dec
      have h1 := FloatText.takeMant_allDig [d] ('e' :: exSign (lead [d] p) :: exDigits (lead [d] p)) hall 0 0 0 false
      simp only [List.singleton_append] at h1
      rw [h1, takeMant_e, hval]
      simp only [List.length_singleton, Nat.zero_add, Nat.reduceAdd, Bool.false_eq_true, if_false,
        Nat.one_ne_zero, takeExp_ex _ hb]
      have : lead [d] p - ((0 : Nat) : Int) = p := by simp [lead]
      rw [this, hfin]
      simp
    | cons d2 ds =>
      rw [layoutE_more]
      unfold Decimal.parseFloatNoUnderscore.dec
      have hd1 : AllDig [d] := allDig_cons (allDig_head hall) allDig_nil
      have h1 := FloatText.takeMant_allDig [d] ('.' :: (d2 :: ds) ++ 'e' :: exSign (lead (d :: d2 :: ds) p) ::
        exDigits (lead (d :: d2 :: ds) p)) hd1 0 0 0 false
      simp only [List.singleton_append] at h1
      have h2 := FloatText.takeMant_allDig (d2 :: ds) ('e' :: exSign (lead (d :: d2 :: ds) p) ::
        exDigits (lead (d :: d2 :: ds) p)) (allDig_tail hall) (Nat.ofDigitChars 10 [d] 0) (0 + [d].length) 0 true
      have hv : Nat.ofDigitChars 10 (d2 :: ds) (Nat.ofDigitChars 10 [d] 0) = c := by
        rw [← Nat.ofDigitChars_append]; exact hval
      rw [List.cons_append] at h1
      simp only [Bool.false_eq_true, if_false] at h1
      rw [List.cons_append, List.cons_append, h1, JNum.takeMant_dot, h2, takeMant_e, hv]
      simp only [List.length_singleton, Nat.zero_add, if_true, takeExp_ex _ hb]
      have hnd : ¬ (1 + (d2 :: ds).length = 0) := by omega
      simp only [hnd, if_false]
      have : lead (d :: d2 :: ds) p - (((d2 :: ds).length : Nat) : Int) = p := by
        simp only [lead, List.length_cons]; omega
      rw [this, hfin]
      simp

open JNum in
theorem layoutE_jchars (digs : List Char) (p : Int) (hall : AllDig digs) (hne : digs ≠ []) :
    ∃ d rest, Decimal.layoutE digs p = d :: rest ∧ Decimal.isDigit d = true ∧ ∀ x ∈ rest, JChar x := by
  have hex : ∀ (x : Int) (y : Char), y ∈ 'e' :: exSign x :: exDigits x → JChar y := by
    intro x y hy
    rcases List.mem_cons.mp hy with rfl | hy
    · exact Or.inr (Or.inr (Or.inl rfl))
    · rcases List.mem_cons.mp hy with rfl | hy
      · unfold exSign; split
        · exact Or.inr (Or.inr (Or.inr (Or.inr (Or.inr rfl))))
        · exact Or.inr (Or.inr (Or.inr (Or.inr (Or.inl rfl))))
      · exact Or.inl (exDigits_allDig x y hy)
  cases digs with
  | nil => exact absurd rfl hne
  | cons d rest =>
    cases rest with
    | nil => exact ⟨d, _, layoutE_one d p, allDig_head hall, hex _⟩
    | cons d2 ds =>
      refine ⟨d, _, layoutE_more d d2 ds p, allDig_head hall, ?_⟩
      intro y hy
      rcases List.mem_cons.mp hy with rfl | hy
      · exact Or.inr (Or.inl rfl)
      · rcases List.mem_append.mp hy with hy | hy
        · exact Or.inl (allDig_tail hall y hy)
        · exact hex _ y hy

/-- **the `%e` text of `c · 10^p` parses to `scale10 c p`** -/
theorem parse_layoutE (neg : Bool) (c : Nat) (p : Int)
    (hb : (lead (Decimal.formatNat c) p).natAbs ≤ 100000)
    (hfin : (Decimal.scale10 neg c p).isInf = false) :
    Decimal.parseFloat (signTxt neg ++ Decimal.layoutE (Decimal.formatNat c) p) = .ok (Decimal.scale10 neg c p) := by
  obtain ⟨d, rest, e, hd, hrest⟩ := layoutE_jchars (Decimal.formatNat c) p (allDig_formatNat c) (formatNat_ne_nil c)
  have h := dec_layoutE neg c p hb hfin
  rw [e] at h ⊢
  rw [parseFloat_jchars neg d rest hd hrest, h]

/-- **`ParseFloat` of the printed text is the value**, sign included -/
theorem parse_txt (neg : Bool) {m : Nat} {e : Int} (hm : m ≠ 0) (hwf : F64.WF (.fin neg m e)) :
    Decimal.parseFloat (signTxt neg ++ absTxt m e) = .ok (.fin neg m e) := by
  have hr := shortest_signed neg hm hwf
  obtain ⟨hc, hb⟩ := shortest_facts hm hwf
  have hfin : (Decimal.scale10 neg (Decimal.shortest m e).1 (Decimal.shortest m e).2).isInf = false := by
    rw [hr]; rfl
  unfold absTxt layoutJ
  split
  · rw [parse_layoutE neg _ _ hb hfin, hr]
  · have := FloatText.parse_layoutF neg _ _ hc hfin
    rw [hr] at this
    exact this

/-- the parser's `parseFloatFinite` (what `ast.NewNumeric` accepts) on the printed text -/
theorem parseFloatFinite_txt (neg : Bool) {m : Nat} {e : Int} (hm : m ≠ 0) (hwf : F64.WF (.fin neg m e)) :
    parseFloatFinite (signTxt neg ++ absTxt m e) = some (.fin neg m e) := by
  unfold parseFloatFinite
  rw [parse_txt neg hm hwf]
  simp only [jsonFloat_eq neg m e hm, Option.isSome_some, if_true]

/-! ## The fork: the operand / expression / predicate layer of `Lemmas/RoundTrip` over values that carry
the literal text of numeric nodes too

`RoundTrip.evOf n` (the value the parser's actions build for the node `n`) records the literal text of
integer nodes only, and `RoundTrip.isOpdStart` does not list `NUMERIC_P`.  The declarations of
`Lemmas/RoundTrip` that depend on these two are repeated here verbatim over the extended definitions
(`litOf`, `evOf`, `isOpdStart`, and with them `isPredStart`, `PHead`, `OpdOK`, `OpdSpec`, `PredOK`, `HeadA`,
`ELoop`, `MulR`, `ESpec`, `ExprOK`, `SubOK`, `SubsOK` and the lemmas about them); everything else — the
lexer calculus `Seg` / `TokAt`, the parser calculus `RunsV`, `StepOK`, `ChainOK`, `AtomSpec`,
`LeftSpec`, … — is used from `RoundTrip`. -/

section
variable {o : Oracles}

/-- the literal text a value carries: that of an integer literal (accessors attached to it later do
    not change it), nothing otherwise -/
def litOf : Node → List Char
  | .integer i _ => Decimal.formatInt i
  | .numeric f _ => (Decimal.jsonFloat f).getD []
  | _ => []

/-- the value (`EV`) the parser's actions build for the node `n` -/
def evOf (n : Node) : EV := { node := n, lit := litOf n }

@[simp] theorem evOf_node (n : Node) : (evOf n).node = n := rfl

theorem headOf_lit {tk : TT} {hn : Node} (h : headOf tk = some hn) (nx : Option Node) :
    litOf (hn.setNext nx) = [] := by
  obtain ⟨t, txt⟩ := tk
  cases t <;> simp only [headOf, reduceCtorEq] at h <;> injection h with h <;> subst h <;> rfl

/-- head token, then a chain: exactly the value of the operand `hn` with the chain attached -/
theorem unaryT_chain' (tk : TT) (hn : Node) (h : headOf tk = some hn) {nx : Option Node} (hc : ChainOK o nx) :
    ∃ txt toks, Print.writeNext o.isPrint nx = some txt ∧ Seg o brk txt toks ∧
      (∀ r, brk r.head? → brkS (txt ++ r).head?) ∧
      ∀ f rest, 16 * toks.length + 4 ≤ f → isAccessorStart (hd rest).1 = false → (hd rest).1 ≠ .lbrace →
        RunsV (StP o (tk :: toks ++ rest)) (parseUnaryT o f tk) (evOf (hn.setNext nx)) (StA o rest) := by
  obtain ⟨txt, toks, L, hw, hseg, hhead, _, hL, hloop⟩ := hc
  refine ⟨txt, toks, hw, hseg, hhead, ?_⟩
  intro f rest hf h1 h2
  obtain ⟨f', rfl⟩ : ∃ f', f = f' + 2 := ⟨f - 2, by omega⟩
  have hev : linkNodes { node := hn } L = evOf (hn.setNext nx) := by
    have h1 := linkNodes_node { node := hn } L (headOf_next h)
    have h2 := linkNodes_lit { node := hn } L
    rw [hL] at h1
    cases hh : linkNodes { node := hn } L with
    | mk nd lt =>
      rw [hh] at h1 h2
      simp only at h1 h2
      simp only [evOf, h1, headOf_lit h nx]
      rw [h2]
  rw [parseUnaryT_head f' tk hn h]
  simp only [List.cons_append]
  rstep (consume_spec _ _)
  have := hloop f' { node := hn } [] rest (by omega) h1 h2
  rw [← hev]
  simpa using this

end

/-- the token kinds with which a stage-2 operand starts -/
def isOpdStart (t : Tok) : Bool :=
  t == .dollar || t == .at || t == .string || t == .null || t == .true_ || t == .false_ || t == .int
    || t == .variable || t == .numeric

/-- an operand (an `expr` of the grammar): text, tokens, and what `parseUnaryT` makes of them -/
def OpdOK (o : Oracles) (n : Node) : Prop :=
  ∃ (txt : List Char) (tk : TT) (ts : List TT),
    (∀ wp, Print.writeTo o.isPrint n false wp = some txt) ∧ Seg2 o brk txt (tk :: ts) ∧
    isOpdStart tk.1 = true ∧
    ∀ f rest, 16 * (ts.length + 1) + 4 ≤ f → isAccessorStart (hd rest).1 = false → (hd rest).1 ≠ .lbrace →
      RunsV (StP o (tk :: ts ++ rest)) (parseUnaryT o f tk) (evOf n) (StA o rest)

/-- the token kinds with which a predicate starts -/
def isPredStart (t : Tok) : Bool :=
  isOpdStart t || t == .lparen || t == .not || t == .exists || t == .minus || t == .plus || t == .last

def PHead (toks : List TT) : Prop := ∃ tk ts, toks = tk :: ts ∧ isPredStart tk.1 = true

/-- a predicate: text and tokens for either value of the printer's `withParens`, and what the parser
    makes of the tokens in the positions where they can stand -/
def PredOK (o : Oracles) (p : Node) : Prop :=
  ∀ wp : Bool, ∃ (txt : List Char) (toks : List TT),
    Print.writeTo o.isPrint p false wp = some txt ∧ Seg2 o brk txt toks ∧ PHead toks ∧
    ((wp = true ∨ isAndOr p = false) → AtomSpec o p toks) ∧
    ((wp = true ∨ isOr p = false) → LeftSpec o p toks 1 ∧ RightSpec o p toks) ∧
    LeftSpec o p toks 2

section
variable {o : Oracles}

/-- what `parseUnaryT` makes of the tokens `tk :: ts` of the operand `n` -/
def OpdSpec (o : Oracles) (n : Node) (tk : TT) (ts : List TT) : Prop :=
  ∀ f rest, 16 * (ts.length + 1) + 4 ≤ f → isAccessorStart (hd rest).1 = false → (hd rest).1 ≠ .lbrace →
    RunsV (StP o (tk :: ts ++ rest)) (parseUnaryT o f tk) (evOf n) (StA o rest)

theorem opdStart_facts {t : Tok} (h : isOpdStart t = true) :
    t ≠ .not ∧ t ≠ .exists ∧ t ≠ .lparen ∧ t ≠ .stop := by
  simp only [isOpdStart, Bool.or_eq_true, beq_iff_eq] at h
  rcases h with (((((((h | h) | h) | h) | h) | h) | h) | h) | h <;> subst h <;> decide

end

section
variable {o : Oracles} (ok : OrOK o)
include ok

/-- a node whose text is wrapped in parentheses when `withParens` is set -/
theorem predOK_binary {p : Node} {txt : List Char} {toks : List TT}
    (hpr : ∀ wp, Print.writeTo o.isPrint p false wp = some (Print.parenIf wp txt))
    (hseg : Seg2 o brk txt toks) (hhead : PHead toks)
    (hatom : isAndOr p = false → AtomSpec o p toks)
    (hlr : isOr p = false → LeftSpec o p toks 1 ∧ RightSpec o p toks)
    (hl2 : LeftSpec o p toks 2) : PredOK o p := by
  intro wp
  cases wp with
  | false =>
    refine ⟨txt, toks, by simpa [Print.parenIf] using hpr false, hseg, hhead, ?_, ?_, hl2⟩
    · intro h; exact hatom (h.resolve_left (by simp))
    · intro h; exact hlr (h.resolve_left (by simp))
  | true =>
    have hat := paren_atom (full_of_left (by decide) hl2)
    refine ⟨'(' :: (txt ++ [')']), tLp :: toks ++ [tRp], by simpa [Print.parenIf] using hpr true,
      seg2_paren ok hseg, ⟨tLp, _, rfl, rfl⟩, fun _ => hat, fun _ => ⟨left_of_atom hat 1, right_of_atom hat⟩, left_of_atom hat 2⟩

/-- a node that is an atom however it is printed -/
theorem predOK_unary {p : Node} {txt : List Char} {toks : List TT}
    (hpr : ∀ wp, Print.writeTo o.isPrint p false wp = some txt)
    (hseg : Seg2 o brk txt toks) (hhead : PHead toks) (hatom : AtomSpec o p toks) : PredOK o p := by
  intro wp
  exact ⟨txt, toks, hpr wp, hseg, hhead, fun _ => hatom, fun _ => ⟨left_of_atom hatom 1, right_of_atom hatom⟩,
    left_of_atom hatom 2⟩

theorem opdOK_int (i : Int) (h : intOK i = true) : OpdOK o (.integer i none) := by
  have hl : okIdx (.integer i none) = true := h
  refine ⟨Nat.toDigits 10 i.toNat, tInt i.toNat, [], ?_, seg2_nat o ok _, rfl, ?_⟩
  · intro wp
    simp only [intOK, Bool.and_eq_true, decide_eq_true_eq] at h
    have hneg : ¬ i < 0 := by omega
    have : i.natAbs = i.toNat := by omega
    simp [Print.writeTo, Print.writeNext, Print.parenIf, Decimal.formatInt, Decimal.formatNat, hneg, this]
  · intro f rest hf h1 _
    obtain ⟨f', rfl⟩ : ∃ f', f = f' + 3 := ⟨f - 3, by omega⟩
    have hev : evIdx (.integer i none) = evOf (.integer i none) := by
      simp only [intOK, Bool.and_eq_true, decide_eq_true_eq] at h
      have hneg : ¬ i < 0 := by omega
      have : i.natAbs = i.toNat := by omega
      simp [evIdx, evOf, litOf, Decimal.formatInt, Decimal.formatNat, hneg, this]
    rw [← hev]
    simpa [idxTok] using unaryT_idx f' _ hl rest h1

/-- a head token (`$`, `@`, a string, `null`, `true`, `false`) with a chain -/
theorem opdOK_head (tk : TT) (hn : Node) (hh : headOf tk = some hn) (hst : isOpdStart tk.1 = true)
    {htxt : List Char} (hseg : Seg2 o brkS htxt [tk]) {nx : Option Node} (hc : ChainOK o nx)
    (hpr : ∀ wp tl, Print.writeNext o.isPrint nx = some tl →
      Print.writeTo o.isPrint (hn.setNext nx) false wp = some (htxt ++ tl)) :
    OpdOK o (hn.setNext nx) := by
  obtain ⟨ctxt, ctoks, hw, hcseg, hhead, hrun⟩ := unaryT_chain' (o := o) tk hn hh hc
  refine ⟨htxt ++ ctxt, tk, ctoks, fun wp => hpr wp ctxt hw, ?_, hst, ?_⟩
  · have := Seg2.app o hseg hcseg hhead
    simpa using this
  · intro f rest hf h1 h2
    exact hrun f rest (by omega) h1 h2

theorem opdOK_const (k : Const) (hk : isOpdConst k = true) {nx : Option Node} (hc : ChainOK o nx) :
    OpdOK o (.const k nx) := by
  have hpr : ∀ wp tl, Print.writeNext o.isPrint nx = some tl →
      Print.writeTo o.isPrint (.const k nx) false wp = some (Print.constStr k ++ tl) := by
    intro wp tl htl
    rw [Print.writeTo]; simp [htl]
  have kwc : ∀ (c : Char) (w : List Char) (t : Tok), (c :: w, t) ∈ kwList → t ≠ .stop →
      Seg2 o brkS (c :: w) [(t, c :: w)] := fun c w t hp ht =>
    (seg2_kw o ok c w t hp ht).mono o (fun _ h => brkS_identCont o ok h)
  cases k <;> simp [isOpdConst] at hk
  · exact opdOK_head ok tDollar (.const .root none) rfl rfl (seg2_dollar o ok) hc
      (by intro wp tl h; simpa [Print.constStr, Node.setNext] using hpr wp tl h)
  · exact opdOK_head ok tAt (.const .current none) rfl rfl ((seg2_at o ok).mono o (fun _ _ => trivial)) hc
      (by intro wp tl h; simpa [Print.constStr, Node.setNext] using hpr wp tl h)
  · exact opdOK_head ok (.true_, ['t', 'r', 'u', 'e']) (.const .true_ none) rfl rfl
      (kwc 't' ['r', 'u', 'e'] .true_ (by decide) (by decide)) hc
      (by intro wp tl h; simpa [Print.constStr, Node.setNext] using hpr wp tl h)
  · exact opdOK_head ok (.false_, ['f', 'a', 'l', 's', 'e']) (.const .false_ none) rfl rfl
      (kwc 'f' ['a', 'l', 's', 'e'] .false_ (by decide) (by decide)) hc
      (by intro wp tl h; simpa [Print.constStr, Node.setNext] using hpr wp tl h)
  · exact opdOK_head ok (.null, ['n', 'u', 'l', 'l']) (.const .null none) rfl rfl
      (kwc 'n' ['u', 'l', 'l'] .null (by decide) (by decide)) hc
      (by intro wp tl h; simpa [Print.constStr, Node.setNext] using hpr wp tl h)

theorem opdOK_str (s : List Char) (hs : NoNul s) {nx : Option Node} (hc : ChainOK o nx) :
    OpdOK o (.str s nx) := by
  refine opdOK_head ok (.string, s) (.str s none) rfl rfl ((seg2_string o ok s hs).mono o (fun _ _ => trivial)) hc ?_
  intro wp tl htl
  simp only [Node.setNext]
  rw [Print.writeTo]; simp [htl]

/-- `l && r`, `l || r` -/
theorem predOK_logic (op : BinOp) (l r : Node) (hop : isLogic op = true)
    (hsl : decide (Print.priority l ≤ Print.binPriority .and) = isAndOr l ∧
      decide (Print.priority l ≤ Print.binPriority .or) = isOr l)
    (hsr : decide (Print.priority r ≤ Print.binPriority .and) = isAndOr r ∧
      decide (Print.priority r ≤ Print.binPriority .or) = isOr r)
    (hl : PredOK o l) (hr : PredOK o r) : PredOK o (.binary op (some l) (some r) none) := by
  have hop' : op = .and ∨ op = .or := by
    cases op <;> simp [isLogic] at hop <;> simp
  rcases hop' with rfl | rfl
  · obtain ⟨ltxt, ltoks, hprl, hsegl, ⟨tkh, tsh, hh1, hh2⟩, hatl, _, _⟩ := hl (isAndOr l)
    obtain ⟨rtxt, rtoks, hprr, hsegr, _, hatr, _, _⟩ := hr (isAndOr r)
    have hal : AtomSpec o l ltoks := hatl (by cases isAndOr l <;> simp)
    have har : AtomSpec o r rtoks := hatr (by cases isAndOr r <;> simp)
    refine predOK_binary ok (txt := ltxt ++ ' ' :: (Print.binStr .and ++ ' ' :: rtxt))
      (toks := ltoks ++ tAnd :: rtoks) ?_ ?_ ⟨tkh, tsh ++ tAnd :: rtoks, by simp [hh1], hh2⟩
      (fun h => by simp [isAndOr] at h)
      (fun _ => ⟨and_left hal har, and_right hal har⟩) ((and_left hal har).mono (by decide))
    · intro wp
      simp only [Print.writeTo, Print.writeOpd, Print.writeNext]
      rw [hsl.1, hsr.1, hprl, hprr]
      simp
    · have h1 := Seg.app_cons o (seg_sp_op o ok .and (Or.inr rfl)) hsegr.2 rfl
      have h2 := Seg2.app_cons o hsegl h1 brk_sp
      simpa [opTok, tAnd] using h2
  · obtain ⟨ltxt, ltoks, hprl, hsegl, ⟨tkh, tsh, hh1, hh2⟩, _, hlrl, _⟩ := hl (isOr l)
    obtain ⟨rtxt, rtoks, hprr, hsegr, _, _, hlrr, _⟩ := hr (isOr r)
    have hll := (hlrl (by cases isOr l <;> simp)).1
    have hrr := (hlrr (by cases isOr r <;> simp)).2
    refine predOK_binary ok (txt := ltxt ++ ' ' :: (Print.binStr .or ++ ' ' :: rtxt))
      (toks := ltoks ++ tOr :: rtoks) ?_ ?_ ⟨tkh, tsh ++ tOr :: rtoks, by simp [hh1], hh2⟩
      (fun h => by simp [isAndOr] at h)
      (fun h => by simp [isOr] at h) (or_left hll hrr)
    · intro wp
      simp only [Print.writeTo, Print.writeOpd, Print.writeNext]
      rw [hsl.2, hsr.2, hprl, hprr]
      simp
    · have h1 := Seg.app_cons o (seg_sp_op o ok .or (Or.inr rfl)) hsegr.2 rfl
      have h2 := Seg2.app_cons o hsegl h1 brk_sp
      simpa [opTok, tOr] using h2

/-- `!(p)` -/
theorem predOK_not (p : Node) (hp : PredOK o p) : PredOK o (.unary .not (some p) none) := by
  obtain ⟨ptxt, ptoks, hpr, hseg, _, _, _, hl2⟩ := hp false
  have hat := not_atom (full_of_left (by decide) hl2)
  refine predOK_unary ok (txt := '!' :: '(' :: (ptxt ++ [')'])) (toks := tNot :: tLp :: ptoks ++ [tRp]) ?_ ?_ ⟨tNot, _, rfl, rfl⟩ hat
  · intro wp
    simp [Print.writeTo, Print.writeOpd, Print.writeNext, hpr, unStr_not]
  · have h1 := Seg.app_cons o hseg.1 (seg_rp o ok) brk_rp
    have h2 := Seg.app o (seg_lp o ok) h1 (fun _ _ => trivial)
    have h3 := Seg2.app_cons o (seg2_bang o ok) h2 (by decide)
    have := Seg2.mono o h3 (C' := brk) (fun _ _ => trivial)
    simpa [tNot] using this

/-- `(p) is unknown` -/
theorem predOK_isUnknown (p : Node) (hp : PredOK o p) : PredOK o (.unary .isUnknown (some p) none) := by
  obtain ⟨ptxt, ptoks, hpr, hseg, _, _, _, hl2⟩ := hp false
  have hat := isUnknown_atom (full_of_left (by decide) hl2)
  refine predOK_unary ok
    (txt := '(' :: (ptxt ++ ')' :: ' ' :: 'i' :: 's' :: ' ' :: 'u' :: 'n' :: 'k' :: 'n' :: 'o' :: 'w' :: 'n' :: []))
    (toks := tLp :: ptoks ++ [tRp, tIs, tUnknown]) ?_ ?_ ⟨tLp, _, rfl, rfl⟩ hat
  · intro wp
    have : ") is unknown".toList = [')', ' ', 'i', 's', ' ', 'u', 'n', 'k', 'n', 'o', 'w', 'n'] := by decide
    simp [Print.writeTo, Print.writeOpd, Print.writeNext, hpr, this]
  · have h0 := (seg_sp_kw o ok 'u' ['n', 'k', 'n', 'o', 'w', 'n'] .unknown (by decide) (by decide)).mono o
      (C' := brk) (fun _ h => brk_identCont ok h)
    have h1 := Seg.app_cons o (seg_sp_kw o ok 'i' ['s'] .is (by decide) (by decide)) h0
      (identCont_punct o ok ' ' (by decide))
    have h2 := Seg.app o (seg_rp o ok) h1 (fun _ _ => trivial)
    have h3 := Seg.app_cons o hseg.1 h2 brk_rp
    have h4 := Seg2.app o (seg2_lp o ok) h3 (fun _ _ => trivial)
    simpa [tIs, tUnknown] using h4

/-- the filter accessor `?(p)` -/
theorem stepOK_filter (p : Node) (nx : Option Node) (hp : PredOK o p) :
    StepOK o (.unary .filter (some p) nx) := by
  obtain ⟨ptxt, ptoks, hpr, hseg, _, _, _, hl2⟩ := hp false
  have hfull := full_of_left (by decide) hl2
  refine ⟨'?' :: '(' :: (ptxt ++ [')']), .question, ['?'], tLp :: ptoks ++ [tRp], '?', _, ?_, ?_, rfl,
    Or.inr (Or.inr (Or.inr rfl)), rfl, ?_⟩
  · intro wp
    rw [Print.writeTo]
    simp only [Node.next, Print.writeOpd, hpr, unStr_filter]
    generalize Print.writeNext o.isPrint nx = w
    cases w <;> simp
  · have h1 := Seg.app_cons o hseg.1 (seg_rp o ok) brk_rp
    have h2 := Seg.app o (seg_lp o ok) h1 (fun _ _ => trivial)
    have h3 := Seg.app o (seg_q o ok) h2 (fun _ _ => trivial)
    have := h3.mono o (C' := brkS) (fun _ _ => trivial)
    simpa [tQ] using this
  · intro rest f hr hf
    simp only [List.length_cons, List.length_append, List.length_nil] at hf
    obtain ⟨f', rfl⟩ : ∃ f', f = f' + 1 := ⟨f - 1, by omega⟩
    obtain ⟨v0, mid, h1, h2⟩ := hfull f' .pred (tRp :: rest) (by omega) (Or.inl rfl)
    rw [accessorOp]
    simp only [List.cons_append, List.append_assoc, List.nil_append]
    rstep (consume_spec _ _)
    simp only [↓reduceIte]
    rstep (expect_spec _ _ _)
    rstep h1
    rstep h2
    simp only [hd, tRp, ne_eq, not_true_eq_false, ↓reduceIte]
    rstep (consume_spec _ _)
    exact RunsV.pure _

end

section
variable {o : Oracles}

theorem opdStart_mode {t : Tok} (h : isOpdStart t = true) : t ≠ .strict ∧ t ≠ .lax := by
  simp only [isOpdStart, Bool.or_eq_true, beq_iff_eq] at h
  rcases h with (((((((h | h) | h) | h) | h) | h) | h) | h) | h <;> subst h <;> decide

theorem predStart_mode {t : Tok} (h : isPredStart t = true) : t ≠ .strict ∧ t ≠ .lax := by
  simp only [isPredStart, Bool.or_eq_true, beq_iff_eq] at h
  rcases h with (((((h | h) | h) | h) | h) | h) | h
  · exact opdStart_mode h
  all_goals (subst h; decide)

/-- the round trip for a predicate at the top level -/
theorem roundtrip_pred (ok : OrOK o) {p : Node} (hp : PredOK o p) (hv : validate p = true) (lax : Bool) :
    ∃ txt, Print.toString o.isPrint ⟨p, lax, true⟩ = some txt ∧
      ∀ bytes, decodeAll bytes = txt.map Src.ch → parse o bytes = .ok ⟨p, lax, true⟩ := by
  obtain ⟨txt, toks, hpr, hseg, ⟨tk, ts, htoks, hst⟩, _, _, hl2⟩ := hp true
  subst htoks
  have hm := predStart_mode hst
  have hfull := full_of_left (by decide) hl2
  have key : ∀ f, 16 * (ts.length + 1) + 8 ≤ f →
      ∃ txt' toks', txt' = modeTxt lax ++ txt ∧ Lexes o txt' toks' ∧
        toks'.length ≤ txt'.length ∧ toks'.length ≤ ts.length + 2 ∧
        RunsV (StE o toks') (parseBody o f) (lax, true, { node := p }) (StE o []) := by
    intro f hf'
    obtain ⟨v0, mid, h1, h2⟩ := hfull f .top [] (by simpa using hf') (Or.inr rfl)
    refine body_mode ok lax hseg hm.1 hm.2 ⟨.pred v0, mid, by simpa using h1, ?_⟩
    simp only []
    rstep h2
    exact RunsV.pure' rfl (fun _ h => StE.ofA h)
  obtain ⟨txt', _, htxt', _, _, _, _⟩ := key _ (Nat.le_refl _)
  refine ⟨txt', by rw [htxt']; exact toString_eq _ _ _ _ _ hpr, ?_⟩
  intro bytes hb
  have hl : txt'.length ≤ bytes.length := by
    have := decodeAll_length bytes
    rw [hb] at this
    simpa using this
  have hlen : txt.length ≤ txt'.length := by rw [htxt']; simp
  have hts : ts.length + 1 ≤ txt.length := hseg.1.2.1
  obtain ⟨txt'', toks', htxt'', hlex, hlen1, hlen2, hr⟩ := key (fuelFor bytes) (by unfold fuelFor; omega)
  subst htxt''
  subst htxt'
  exact parse_of_body bytes _ toks' lax true { node := p } hb hlex hr hv

end

section
variable {o : Oracles} (ok : OrOK o)
include ok

theorem opdOK_var (s : List Char) (hs : NoNul s) {nx : Option Node} (hc : ChainOK o nx) :
    OpdOK o (.var s nx) := by
  refine opdOK_head ok (tVar s) (.var s none) rfl rfl ((seg2_variable o ok s hs).mono o (fun _ _ => trivial)) hc ?_
  intro wp tl htl
  simp only [Node.setNext]
  rw [Print.writeTo]; simp [htl]

end

/-- `parseAtom`, where an expression may start, on the tokens of the unit `x`: it goes on with
    `exprTail` applied to `x` -/
def HeadA (o : Oracles) (x : Node) (tk : TT) (ts : List TT) : Prop :=
  ∀ f ctx rest (w : AtomR) (post : PS → Prop), 16 * (ts.length + 1) + 8 ≤ f + 1 →
    isAccessorStart (hd rest).1 = false → (hd rest).1 ≠ .lbrace →
    RunsV (StA o rest) (exprTail o f ctx (evOf x)) w post →
    RunsV (StE o (tk :: ts ++ rest)) (parseAtom o (f + 1) ctx) w post

/-- `arithLoop` with the head unit `x` as left operand, standing before the tokens `M`: it comes to
    stand before `rest` with the whole expression `e` as left operand, having used at most `k`
    units of fuel -/
def ELoop (o : Oracles) (x e : Node) (M : List TT) (k : Nat) : Prop :=
  ∀ g rest (w : EV × Tok) (post : PS → Prop), 16 * M.length + 4 ≤ g →
    isAccessorStart (hd rest).1 = false → (hd rest).1 ≠ .lbrace → mulOp (hd rest).1 = none →
    (∀ g', g' ≤ g → g ≤ g' + k → RunsV (StE o rest) (arithLoop o g' (evOf e)) w post) →
    RunsV (StA o (M ++ rest)) (arithLoop o g (evOf x)) w post

/-- the right operand of `+` / `-`: `parseUnary` followed by `mulLoop` -/
def MulR (o : Oracles) (e : Node) (tk : TT) (ts : List TT) : Prop :=
  ∀ g rest, 16 * (ts.length + 1) + 8 ≤ g → isAccessorStart (hd rest).1 = false → (hd rest).1 ≠ .lbrace →
    mulOp (hd rest).1 = none →
    ∃ (u0 : EV) (mid : List TT),
      RunsV (StE o (tk :: ts ++ rest)) (parseUnary o g) u0 (StA o mid) ∧
      RunsV (StA o mid) (mulLoop o g u0) (evOf e) (StA o rest)

/-- the parser on the tokens `tk :: ts` of the expression `e` -/
def ESpec (o : Oracles) (e : Node) (tk : TT) (ts : List TT) (unitOK mulOK : Prop) : Prop :=
  (∃ (x : Node) (tsH M : List TT), ts = tsH ++ M ∧ MHead M ∧ OpdSpec o x tk tsH ∧ HeadA o x tk tsH ∧
      ELoop o x e M 2 ∧ (mulOK → ELoop o x e M 1)) ∧
  (mulOK → MulR o e tk ts) ∧ (unitOK → OpdSpec o e tk ts ∧ HeadA o e tk ts)

section
variable {o : Oracles}

theorem headA_of_opdSpec {x : Node} {tk : TT} {ts : List TT} (h : OpdSpec o x tk ts)
    (h1 : tk.1 ≠ .not) (h2 : tk.1 ≠ .exists) (h3 : tk.1 ≠ .lparen) (h4 : tk.1 ≠ .stop) : HeadA o x tk ts := by
  intro f ctx rest w post hf ha hb hk
  have hrun := h f rest (by omega) ha hb
  obtain ⟨t, xt⟩ := tk
  simp only at h1 h2 h3 h4
  rw [parseAtom]
  rstep (peek_cons _ _)
  simp only [h1, h2, h3, h4, ↓reduceIte]
  rstep hrun
  exact hk

theorem eloop_unit (x : Node) : ELoop o x x [] 0 := by
  intro g rest w post hg _ _ _ hk
  simp only [List.nil_append]
  exact RunsV.ofA (hk g (Nat.le_refl _) (by omega))

theorem ELoop.mono {x e : Node} {M : List TT} {k k' : Nat} (h : ELoop o x e M k) (hk : k ≤ k') :
    ELoop o x e M k' := by
  intro g rest w post hg ha hb hm hc
  exact h g rest w post hg ha hb hm (fun g' h1 h2 => hc g' h1 (by omega))

theorem mulR_unit {x : Node} {tk : TT} {ts : List TT} (h : OpdSpec o x tk ts) : MulR o x tk ts := by
  intro g rest hg ha hb hm
  obtain ⟨g', rfl⟩ : ∃ g', g = g' + 1 := ⟨g - 1, by omega⟩
  have hrun := h g' rest (by omega) ha hb
  exact ⟨evOf x, rest, unary_of_unaryT hrun, RunsV.ofA (mulLoop_nil g' _ rest hm)⟩

/-- a unit is an expression -/
theorem espec_unit {x : Node} {tk : TT} {ts : List TT} (h : OpdSpec o x tk ts) (ha : HeadA o x tk ts)
    (p q : Prop) : ESpec o x tk ts p q :=
  ⟨⟨x, ts, [], by simp, mhead_nil, h, ha, (eloop_unit x).mono (by decide),
      fun _ => (eloop_unit x).mono (by decide)⟩,
    fun _ => mulR_unit h, fun _ => ⟨h, ha⟩⟩

theorem evOf_binary (op : BinOp) (l r : Node) :
    binary op (evOf l) (evOf r) = evOf (.binary op (some l) (some r) none) := rfl

/-- `l op r` for `* / %` with units `l`, `r` -/
theorem espec_mul {l r : Node} {tkl tkr : TT} {tsl tsr : List TT} {op : BinOp} (hop : isMulOp op = true)
    (hl : OpdSpec o l tkl tsl) (hal : HeadA o l tkl tsl) (hr : OpdSpec o r tkr tsr) (p : Prop) :
    ESpec o (.binary op (some l) (some r) none) tkl (tsl ++ arithTok op :: tkr :: tsr) False p := by
  have hf := mul_facts hop
  have har : isArith op = true := by cases op <;> simp [isMulOp] at hop <;> rfl
  have hloop : ELoop o l (.binary op (some l) (some r) none) (arithTok op :: tkr :: tsr) 1 := by
    intro g rest w post hg ha hb _ hk
    simp only [List.length_cons] at hg
    obtain ⟨g', rfl⟩ : ∃ g', g = g' + 2 := ⟨g - 2, by omega⟩
    have hrun := hr g' rest (by omega) ha hb
    rw [arithLoop]
    simp only [List.cons_append]
    rstep (peek_cons _ _)
    simp only [hf.1, hf.2.1]
    rstep (consume_spec _ _)
    rstep (unary_of_unaryT hrun)
    rw [evOf_binary]
    exact RunsV.ofA (hk (g' + 1) (by omega) (by omega))
  refine ⟨⟨l, tsl, arithTok op :: tkr :: tsr, rfl, mhead_op op har _, hl, hal, hloop.mono (by decide),
    fun _ => hloop⟩, ?_, fun h => absurd h id⟩
  intro _ g rest hg ha hb hm
  simp only [List.length_cons, List.length_append] at hg
  obtain ⟨g', rfl⟩ : ∃ g', g = g' + 3 := ⟨g - 3, by omega⟩
  have hrunl := hl (g' + 2) (arithTok op :: tkr :: tsr ++ rest) (by omega) hf.2.2.1 hf.2.2.2
  have hrunr := hr (g' + 1) rest (by omega) ha hb
  refine ⟨evOf l, arithTok op :: tkr :: tsr ++ rest, ?_, ?_⟩
  · have := unary_of_unaryT hrunl
    simpa using this
  · rw [mulLoop]
    simp only [List.cons_append]
    rstep (peek_cons _ _)
    simp only [hf.2.1]
    rstep (consume_spec _ _)
    rstep (unary_of_unaryT hrunr)
    rw [evOf_binary]
    exact RunsV.ofA (mulLoop_nil (g' + 1) _ rest hm)

/-- `X op Y` for `+ -`: `X` with its loop, `Y` a right operand -/
theorem espec_add {X Y : Node} {tkx tky : TT} {tsx tsy : List TT} {op : BinOp} {p q : Prop} (hop : isAddOp op = true)
    (hx : ESpec o X tkx tsx p q) (hq : q) (hy : MulR o Y tky tsy) :
    ESpec o (.binary op (some X) (some Y) none) tkx (tsx ++ arithTok op :: tky :: tsy) False False := by
  have hf := add_facts hop
  have har : isArith op = true := by cases op <;> simp [isAddOp] at hop <;> rfl
  obtain ⟨⟨x, tsH, M, hts, hmh, hopd, hha, _, hl1⟩, _, _⟩ := hx
  have hl1 := hl1 hq
  refine ⟨⟨x, tsH, M ++ arithTok op :: tky :: tsy, by simp [hts], ?_, hopd, hha, ?_, fun h => absurd h id⟩,
    fun h => absurd h id, fun h => absurd h id⟩
  · intro rest h1 h2
    have := hmh (arithTok op :: tky :: tsy ++ rest) hf.2.2.1 (by simpa [hd] using hf.2.2.2)
    simpa using this
  · intro g rest w post hg ha hb hm hk
    simp only [List.length_cons, List.length_append] at hg
    have := hl1 g (arithTok op :: tky :: tsy ++ rest) w post (by omega) hf.2.2.1 (by simpa [hd] using hf.2.2.2)
      (by simpa [hd] using hf.2.1) ?_
    · simpa using this
    · intro g1 h1 h2
      obtain ⟨g2, rfl⟩ : ∃ g2, g1 = g2 + 1 := ⟨g1 - 1, by omega⟩
      obtain ⟨u0, mid, hr1, hr2⟩ := hy g2 rest (by omega) ha hb hm
      rw [arithLoop]
      simp only [List.cons_append]
      rstep (peek_cons _ _)
      simp only [hf.1]
      rstep (consume_spec _ _)
      rstep hr1
      rstep hr2
      rw [evOf_binary]
      exact RunsV.ofA (hk g2 (by omega) (by omega))

/-- where an expression may start, `parseAtom` on the tokens of `e` goes on with the part of
    `exprTail` after the arithmetic -/
theorem atom_of_expr {e : Node} {tk : TT} {ts : List TT} {p q : Prop} (h : ESpec o e tk ts p q)
    (F : Nat) (ctx : Ctx) (rest : List TT) (w : AtomR) (post : PS → Prop)
    (hF : 16 * (ts.length + 1) + 8 ≤ F + 2) (hfol : EFollow (hd rest).1)
    (hk : RunsV (StA o rest) (exprTailK o F ctx (evOf e) (hd rest).1) w post) :
    RunsV (StE o (tk :: ts ++ rest)) (parseAtom o (F + 2) ctx) w post := by
  obtain ⟨⟨x, tsH, M, hts, hmh, _, hha, hl2, _⟩, _, _⟩ := h
  subst hts
  simp only [List.length_append] at hF
  have hm := hmh rest hfol.1 hfol.2.1
  have := hha (F + 1) ctx (M ++ rest) w post (by omega) hm.1 hm.2 ?_
  · simpa using this
  · rw [exprTail_eq]
    refine RunsV.bind (hl2 F rest (evOf e, (hd rest).1) (StA o rest) (by omega) hfol.1 hfol.2.1 hfol.2.2.2 ?_) hk
    intro g' h1 h2
    obtain ⟨g'', rfl⟩ : ∃ g'', g' = g'' + 1 := ⟨g' - 1, by omega⟩
    exact arith_nil g'' _ rest hfol.2.2.1 hfol.2.2.2

/-- an expression in a position where only an expression may stand: `parseUnary` then `arithLoop` -/
theorem expr_full {e : Node} {tk : TT} {ts : List TT} {p q : Prop} (h : ESpec o e tk ts p q)
    (g : Nat) (rest : List TT) (hg : 16 * (ts.length + 1) + 8 ≤ g) (hfol : EFollow (hd rest).1) :
    ∃ (u : EV) (mid : List TT),
      RunsV (StE o (tk :: ts ++ rest)) (parseUnary o g) u (StA o mid) ∧
      RunsV (StA o mid) (arithLoop o g u) (evOf e, (hd rest).1) (StA o rest) := by
  obtain ⟨⟨x, tsH, M, hts, hmh, hopd, _, hl2, _⟩, _, _⟩ := h
  subst hts
  simp only [List.length_append] at hg
  have hm := hmh rest hfol.1 hfol.2.1
  obtain ⟨g', rfl⟩ : ∃ g', g = g' + 1 := ⟨g - 1, by omega⟩
  have hrun := hopd g' (M ++ rest) (by omega) hm.1 hm.2
  refine ⟨evOf x, M ++ rest, by simpa using unary_of_unaryT hrun, ?_⟩
  refine hl2 (g' + 1) rest _ _ (by omega) hfol.1 hfol.2.1 hfol.2.2.2 ?_
  intro g1 h1 h2
  obtain ⟨g2, rfl⟩ : ∃ g2, g1 = g2 + 1 := ⟨g1 - 1, by omega⟩
  exact arith_nil g2 _ rest hfol.2.2.1 hfol.2.2.2

/-- `l op r`, comparison of two expressions, is an atom -/
theorem cmpE_atom {l r : Node} {tkl tkr : TT} {tsl tsr : List TT} {op : BinOp} {p q p' q' : Prop}
    (hl : ESpec o l tkl tsl p q) (hr : ESpec o r tkr tsr p' q') (hop : isCmp op = true) :
    AtomSpec o (.binary op (some l) (some r) none) (tkl :: tsl ++ opTok op :: tkr :: tsr) := by
  intro f ctx rest hf hfol
  simp only [List.length_cons, List.length_append] at hf
  obtain ⟨f', rfl⟩ : ∃ f', f = f' + 2 := ⟨f - 2, by omega⟩
  have hc := cmp_facts hop
  obtain ⟨u, mid, hr1, hr2⟩ := expr_full hr f' rest (by omega) hfol.efollow
  have := atom_of_expr hl f' ctx (opTok op :: tkr :: (tsr ++ rest)) (.pred { node := .binary op (some l) (some r) none })
    (StE o rest) (by omega) ⟨hc.2.2.2.1, hc.2.2.2.2, hc.1, hc.2.1⟩ ?_
  · simpa using this
  · simp only [hd, exprTailK, hc.2.2.1]
    rstep (consume_spec _ _)
    simp only [List.cons_append] at hr1
    rstep hr1
    rstep hr2
    exact RunsV.pure' rfl (fun _ h => StE.ofA h)

/-- `l starts with "s"` / `l starts with $"s"` with an expression `l` -/
theorem startsE_atom {l : Node} {tkl : TT} {tsl : List TT} {p q : Prop} (s : List Char) (isVar : Bool)
    (hl : ESpec o l tkl tsl p q) :
    AtomSpec o (.binary .startsWith (some l) (some (if isVar then .var s none else .str s none)) none)
      (tkl :: tsl ++ [tStarts, tWith, if isVar then tVar s else (.string, s)]) := by
  intro f ctx rest hf hfol
  simp only [List.length_cons, List.length_append, List.length_nil] at hf
  obtain ⟨f', rfl⟩ : ∃ f', f = f' + 2 := ⟨f - 2, by omega⟩
  have := atom_of_expr hl f' ctx (tStarts :: tWith :: (if isVar then tVar s else (.string, s)) :: rest)
    (.pred { node := .binary .startsWith (some l) (some (if isVar then .var s none else .str s none)) none })
    (StE o rest) (by omega) ⟨rfl, by simp [hd, tStarts], rfl, rfl⟩ ?_
  · simpa using this
  · simp only [hd, List.cons_append, List.nil_append, tStarts, exprTailK, compOp, ↓reduceIte]
    rstep (consume_spec _ _)
    rstep (expect_spec _ _ _)
    cases isVar with
    | false =>
      simp only [Bool.false_eq_true, ↓reduceIte]
      rstep (peek_cons _ _)
      simp only [↓reduceIte]
      rstep (consume_spec _ _)
      exact RunsV.pure' rfl (fun _ h => h)
    | true =>
      simp only [↓reduceIte]
      rstep (peek_cons _ _)
      simp only [tVar, reduceCtorEq, ↓reduceIte]
      rstep (consume_spec _ _)
      exact RunsV.pure' rfl (fun _ h => h)

/-- `x like_regex "pat" [flag "…"]` with an expression `x` -/
theorem regexE_atom {x : Node} {tk : TT} {ts : List TT} {p q : Prop} (pat : List Char) (fl : Nat)
    (hx : ESpec o x tk ts p q) (hfl : fl < 32) (hok : okFlags fl = true)
    (hacc : o.regexAccepts pat fl = true) :
    AtomSpec o (.regex x pat fl none) (tk :: ts ++ tLike :: (.string, pat) :: flagToks fl) := by
  intro f ctx rest hf hfol
  have hlen : (flagToks fl).length ≤ 2 := by unfold flagToks; split <;> simp
  simp only [List.length_cons, List.length_append] at hf
  obtain ⟨f', rfl⟩ : ∃ f', f = f' + 2 := ⟨f - 2, by omega⟩
  have := atom_of_expr hx f' ctx (tLike :: (.string, pat) :: (flagToks fl ++ rest))
    (.pred { node := .regex x pat fl none }) (StE o rest) (by omega) ⟨rfl, by simp [hd, tLike], rfl, rfl⟩ ?_
  · simpa using this
  · simp only [hd, List.cons_append, tLike, exprTailK, compOp, reduceCtorEq, ↓reduceIte]
    rstep (consume_spec _ _)
    rstep (peek_cons _ _)
    simp only [ne_eq, not_true_eq_false, ↓reduceIte]
    rstep (consume_spec _ _)
    unfold flagToks
    by_cases h0 : fl = 0
    · subst h0
      simp only [↓reduceIte, List.nil_append]
      rstep (peek_any rest)
      simp only [hfol.notFlag, ↓reduceIte]
      have : regexFlags [] = some 0 := by decide
      simp only [mkRegex, this, hacc, ↓reduceIte]
      exact RunsV.pure' rfl (fun _ h => StE.ofA h)
    · simp only [h0, ↓reduceIte, List.cons_append, List.nil_append]
      rstep (peek_cons _ _)
      simp only [tFlag, ↓reduceIte]
      rstep (consume_spec _ _)
      rstep (peek_cons _ _)
      simp only [ne_eq, not_true_eq_false, ↓reduceIte]
      rstep (consume_spec _ _)
      simp only [mkRegex, regexFlags_flagChars fl hfl hok, hacc, ↓reduceIte]
      exact RunsV.pure' rfl (fun _ h => h)

/-- `exists (e)` with an expression `e` -/
theorem existsE_atom {x : Node} {tk : TT} {ts : List TT} {p q : Prop} (hx : ESpec o x tk ts p q) :
    AtomSpec o (.unary .exists (some x) none) (tExists :: tLp :: tk :: ts ++ [tRp]) := by
  intro f ctx rest hf hfol
  simp only [List.length_cons, List.length_append, List.length_nil] at hf
  obtain ⟨f', rfl⟩ : ∃ f', f = f' + 3 := ⟨f - 3, by omega⟩
  obtain ⟨u, mid, hr1, hr2⟩ := expr_full hx (f' + 1) (tRp :: rest) (by omega) ⟨rfl, by simp [hd, tRp], rfl, rfl⟩
  have hex : RunsV (StE o (tLp :: tk :: ts ++ tRp :: rest)) (existsTail o (f' + 2)) (unary .exists (evOf x))
      (StE o rest) := by
    rw [existsTail]
    rstep (expect_spec _ _ _)
    simp only [List.cons_append] at hr1
    rstep hr1
    rstep hr2
    simp only [hd, tRp, ne_eq, not_true_eq_false, ↓reduceIte]
    rstep (consume_spec _ _)
    exact RunsV.pure _
  rw [parseAtom]
  simp only [List.cons_append, List.append_assoc, List.nil_append]
  rstep (peek_cons _ _)
  simp only [tExists, reduceCtorEq, ↓reduceIte]
  rstep (consume_spec _ _)
  simp only [List.cons_append, List.append_assoc, List.nil_append] at hex
  rstep hex
  exact RunsV.pure' rfl (fun _ h => h)

/-- after `(`: an expression and `)`, followed by something that is not an accessor -/
theorem parenTail_expr {e : Node} {tk : TT} {ts : List TT} {p q : Prop} (h : ESpec o e tk ts p q)
    (F : Nat) (ctx : Ctx) (hctx : ctx ≠ .pred) (rest : List TT) (hF : 16 * (ts.length + 1) + 8 ≤ F + 2)
    (ha : isAccessorStart (hd rest).1 = false) :
    RunsV (StE o (tk :: ts ++ tRp :: rest)) (parenTail o (F + 3) ctx) (.expr (evOf e)) (StA o rest) := by
  rw [parenTail]
  have h1 := atom_of_expr h F ctx (tRp :: rest) (.expr (evOf e) .rparen) (StA o (tRp :: rest)) hF
    ⟨rfl, by simp [hd, tRp], rfl, rfl⟩ (exprK_end F ctx hctx (evOf e) (tRp :: rest) (Or.inl rfl))
  rstep h1
  simp only [ne_eq, not_true_eq_false, ↓reduceIte]
  rstep (consume_spec _ _)
  rstep (peek_any rest)
  simp only [ha, Bool.false_eq_true, ↓reduceIte]
  exact RunsV.pure _

/-- `(e)` is a unit for `parseUnaryT` … -/
theorem paren_opdSpec {e : Node} {tk : TT} {ts : List TT} {p q : Prop} (h : ESpec o e tk ts p q) :
    OpdSpec o e tLp (tk :: ts ++ [tRp]) := by
  intro f rest hf ha _
  simp only [List.length_cons, List.length_append, List.length_nil] at hf
  obtain ⟨F, rfl⟩ : ∃ F, f = F + 4 := ⟨f - 4, by omega⟩
  rw [parseUnaryT]
  simp only [tLp, reduceCtorEq, ↓reduceIte]
  simp only [List.cons_append, List.append_assoc, List.nil_append]
  rstep (consume_spec _ _)
  rstep (parenTail_expr h F .parenE (by decide) rest (by omega) ha)
  exact RunsV.pure _

/-- … and for `parseAtom` -/
theorem paren_headA {e : Node} {tk : TT} {ts : List TT} {p q : Prop} (h : ESpec o e tk ts p q) :
    HeadA o e tLp (tk :: ts ++ [tRp]) := by
  intro f ctx rest w post hf ha _ hk
  simp only [List.length_cons, List.length_append, List.length_nil] at hf
  obtain ⟨F, rfl⟩ : ∃ F, f = F + 3 := ⟨f - 3, by omega⟩
  rw [parseAtom]
  simp only [List.cons_append, List.append_assoc, List.nil_append]
  rstep (peek_cons _ _)
  simp only [tLp, reduceCtorEq, ↓reduceIte]
  rstep (consume_spec _ _)
  rstep (parenTail_expr h F .paren (by decide) rest (by omega) ha)
  exact hk

theorem newUnaryOrNumber_other (op : UnOp) (x : Node) (h : notNumLit x = true) :
    newUnaryOrNumber op (evOf x) = pure (evOf (.unary op (some x) none)) := by
  unfold newUnaryOrNumber
  by_cases hc : (evOf x).node.next.isNone = true
  · rw [if_pos hc]
    cases x <;> simp [notNumLit] at h <;> rfl
  · rw [if_neg hc]
    rfl

/-- `-x` / `+x` for a unit `x` that is not a number literal -/
theorem sign_opdSpec {x : Node} {tk : TT} {ts : List TT} (op : UnOp) (hop : isSign op = true)
    (hx : OpdSpec o x tk ts) (hn : notNumLit x = true) :
    OpdSpec o (.unary op (some x) none) (signTok op) (tk :: ts) := by
  intro f rest hf ha hb
  simp only [List.length_cons] at hf
  obtain ⟨f', rfl⟩ : ∃ f', f = f' + 2 := ⟨f - 2, by omega⟩
  have hrun := hx f' rest (by omega) ha hb
  rw [parseUnaryT]
  cases op <;> simp [isSign] at hop
  · simp only [signTok, tPlus, ↓reduceIte]
    rstep (consume_spec _ _)
    simp only [List.cons_append] at hrun ⊢
    rstep (unary_of_unaryT hrun)
    rw [newUnaryOrNumber_other _ _ hn]
    exact RunsV.pure' rfl (fun _ h => h)
  · simp only [signTok, tMinus, reduceCtorEq, ↓reduceIte]
    rstep (consume_spec _ _)
    simp only [List.cons_append] at hrun ⊢
    rstep (unary_of_unaryT hrun)
    rw [newUnaryOrNumber_other _ _ hn]
    exact RunsV.pure' rfl (fun _ h => h)

theorem signTok_facts (op : UnOp) :
    (signTok op).1 ≠ .not ∧ (signTok op).1 ≠ .exists ∧ (signTok op).1 ≠ .lparen ∧ (signTok op).1 ≠ .stop ∧
      isPredStart (signTok op).1 = true := by
  cases op <;> decide

theorem neg_opdSpec (i : Int) (h : negOK i = true) :
    OpdSpec o (.integer i none) tMinus [tInt i.natAbs] := by
  intro f rest hf ha hb
  simp only [negOK, Bool.and_eq_true, decide_eq_true_eq] at h
  obtain ⟨f', rfl⟩ : ∃ f', f = f' + 5 := ⟨f - 5, by simp at hf; omega⟩
  have hl : okIdx (.integer (i.natAbs : Int) none) = true := by
    simp only [okIdx, intOK, Bool.and_eq_true, decide_eq_true_eq]; omega
  have hrun := unaryT_idx (o := o) f' (.integer (i.natAbs : Int) none) hl rest ha
  have e1 : idxTok (.integer (i.natAbs : Int) none) = tInt i.natAbs := by simp [idxTok]
  rw [e1] at hrun
  rw [parseUnaryT]
  simp only [tMinus, reduceCtorEq, ↓reduceIte]
  rstep (consume_spec _ _)
  rstep (unary_of_unaryT hrun)
  have e2 : evIdx (.integer (i.natAbs : Int) none)
      = { node := .integer (i.natAbs : Int) none, lit := Nat.toDigits 10 i.natAbs } := by simp [evIdx]
  rw [e2]
  unfold newUnaryOrNumber
  simp only [Node.next, Option.isNone_none, ↓reduceIte, reduceCtorEq]
  unfold astNewInteger
  rw [negLit_toDigits, parseInt0_neg_toDigits _ (by omega)]
  have e3 : -(i.natAbs : Int) = i := by omega
  have hneg : i < 0 := h.1
  refine RunsV.pure' ?_ (fun _ h => h)
  simp [evOf, litOf, Decimal.formatInt, Decimal.formatNat, hneg, e3]

end

/-- an arithmetic expression: text and tokens for either value of `withParens`, and the parser -/
def ExprOK (o : Oracles) (e : Node) : Prop :=
  ∀ wp : Bool, ∃ (txt : List Char) (tk : TT) (ts : List TT),
    Print.writeTo o.isPrint e false wp = some txt ∧ Seg2 o brk txt (tk :: ts) ∧ isPredStart tk.1 = true ∧
    ESpec o e tk ts (wp = true ∨ isBin e = false) (wp = true ∨ isAddLevel e = false)

section
variable {o : Oracles} (ok : OrOK o)
include ok

theorem opdStart_pred {t : Tok} (h : isOpdStart t = true) : isPredStart t = true := by
  simp [isPredStart, h]

/-- an operand of stage 2/3 is an expression -/
theorem exprOK_opd {n : Node} (h : OpdOK o n) : ExprOK o n := by
  intro wp
  obtain ⟨txt, tk, ts, hpr, hseg, hst, hrun⟩ := h
  have hf := opdStart_facts hst
  exact ⟨txt, tk, ts, hpr wp, hseg, opdStart_pred ok hst,
    espec_unit hrun (headA_of_opdSpec hrun hf.1 hf.2.1 hf.2.2.1 hf.2.2.2) _ _⟩

/-- the parenthesised form of an expression -/
theorem espec_paren {e : Node} {tk : TT} {ts : List TT} {p q : Prop} (h : ESpec o e tk ts p q) (p' q' : Prop) :
    ESpec o e tLp (tk :: ts ++ [tRp]) p' q' :=
  espec_unit (paren_opdSpec h) (paren_headA h) _ _

/-- from the unparenthesised form of a node that `parenIf` wraps -/
theorem exprOK_wrap {e : Node} {txt : List Char} {tk : TT} {ts : List TT}
    (hpr : ∀ wp, Print.writeTo o.isPrint e false wp = some (Print.parenIf wp txt))
    (hseg : Seg2 o brk txt (tk :: ts)) (hst : isPredStart tk.1 = true)
    (hsp : ESpec o e tk ts (isBin e = false) (isAddLevel e = false)) : ExprOK o e := by
  intro wp
  cases wp with
  | false =>
    refine ⟨txt, tk, ts, by simpa [Print.parenIf] using hpr false, hseg, hst, ?_⟩
    obtain ⟨h1, h2, h3⟩ := hsp
    exact ⟨h1 |> fun ⟨x, tsH, M, a, b, c, d, e1, e2⟩ =>
        ⟨x, tsH, M, a, b, c, d, e1, fun hh => e2 (hh.resolve_left (by simp))⟩,
      fun hh => h2 (hh.resolve_left (by simp)), fun hh => h3 (hh.resolve_left (by simp))⟩
  | true =>
    have := seg2_paren ok hseg
    exact ⟨'(' :: (txt ++ [')']), tLp, tk :: ts ++ [tRp], by simpa [Print.parenIf] using hpr true,
      by simpa using this, rfl, espec_paren ok hsp _ _⟩

/-- a negative integer literal -/
theorem exprOK_neg (i : Int) (h : negOK i = true) : ExprOK o (.integer i none) := by
  intro wp
  have hneg : i < 0 := by
    simp only [negOK, Bool.and_eq_true, decide_eq_true_eq] at h; exact h.1
  have hs := neg_opdSpec (o := o) i h
  refine ⟨'-' :: Nat.toDigits 10 i.natAbs, tMinus, [tInt i.natAbs], ?_, ?_, rfl,
    espec_unit hs (headA_of_opdSpec hs (by decide) (by decide) (by decide) (by decide)) _ _⟩
  · simp [Print.writeTo, Print.writeNext, Print.parenIf, Decimal.formatInt, Decimal.formatNat, hneg]
  · have := Seg2.app o (seg2_minus o ok) (seg_nat o ok i.natAbs) (fun _ _ => trivial)
    simpa using this

omit ok in
theorem ESpec.imp {e : Node} {tk : TT} {ts : List TT} {p q p' q' : Prop} (h : ESpec o e tk ts p q)
    (hp : p' → p) (hq : q' → q) : ESpec o e tk ts p' q' := by
  obtain ⟨⟨x, tsH, M, a, b, c, d, e1, e2⟩, h2, h3⟩ := h
  exact ⟨⟨x, tsH, M, a, b, c, d, e1, fun hh => e2 (hq hh)⟩, fun hh => h2 (hq hh), fun hh => h3 (hp hh)⟩

/-- `+x`, `-x` -/
theorem exprOK_sign (op : UnOp) (x : Node) (hop : isSign op = true) (hx : ExprOK o x) (hn : notNumLit x = true)
    (hu : decide (Print.priority x ≤ Print.unPriority op) = true ∨ isBin x = false) :
    ExprOK o (.unary op (some x) none) := by
  obtain ⟨xtxt, tk, ts, hpr, hseg, hst, _, _, hunit⟩ := hx (decide (Print.priority x ≤ Print.unPriority op))
  obtain ⟨hopd, _⟩ := hunit hu
  have hs := sign_opdSpec (o := o) op hop hopd hn
  have hf := signTok_facts op
  refine exprOK_wrap ok (txt := (signTok op).2 ++ xtxt) (tk := signTok op) (ts := tk :: ts) ?_ ?_ hf.2.2.2.2
    (espec_unit hs (headA_of_opdSpec hs hf.1 hf.2.1 hf.2.2.1 hf.2.2.2.1) _ _)
  · intro wp
    cases op <;> simp [isSign] at hop
    · simp [Print.writeTo, Print.writeOpd, Print.writeNext, hpr, unStr_plus, signTok, tPlus]
    · simp [Print.writeTo, Print.writeOpd, Print.writeNext, hpr, unStr_minus, signTok, tMinus]
  · cases op <;> simp [isSign] at hop
    · have := Seg2.app o (seg2_plus o ok) hseg.1 (fun _ _ => trivial)
      simpa [signTok, tPlus] using this
    · have := Seg2.app o (seg2_minus o ok) hseg.1 (fun _ _ => trivial)
      simpa [signTok, tMinus] using this

/-- `l * r`, `l / r`, `l % r` -/
theorem exprOK_mul (op : BinOp) (l r : Node) (hop : isMulOp op = true) (hl : ExprOK o l) (hr : ExprOK o r)
    (hul : decide (Print.priority l ≤ Print.binPriority op) = true ∨ isBin l = false)
    (hur : decide (Print.priority r ≤ Print.binPriority op) = true ∨ isBin r = false) :
    ExprOK o (.binary op (some l) (some r) none) := by
  obtain ⟨ltxt, tkl, tsl, hprl, hsegl, hstl, _, _, hunitl⟩ := hl (decide (Print.priority l ≤ Print.binPriority op))
  obtain ⟨rtxt, tkr, tsr, hprr, hsegr, _, _, _, hunitr⟩ := hr (decide (Print.priority r ≤ Print.binPriority op))
  obtain ⟨hol, hal⟩ := hunitl hul
  obtain ⟨hor, _⟩ := hunitr hur
  have har : isArith op = true := by cases op <;> simp [isMulOp] at hop <;> rfl
  refine exprOK_wrap ok (txt := ltxt ++ ' ' :: (Print.binStr op ++ ' ' :: rtxt)) (tk := tkl)
    (ts := tsl ++ arithTok op :: tkr :: tsr) ?_ ?_ hstl
    ((espec_mul hop hol hal hor (isAddLevel (.binary op (some l) (some r) none) = false)).imp
      (fun h => by simp [isBin] at h) id)
  · intro wp
    cases op <;> simp [isMulOp] at hop <;>
      simp [Print.writeTo, Print.writeOpd, Print.writeNext, hprl, hprr]
  · have h1 := Seg.app_cons o (seg_sp_arith o ok op har) hsegr.2 rfl
    have h2 := Seg2.app_cons o hsegl h1 brk_sp
    simpa using h2

/-- `l + r`, `l - r` -/
theorem exprOK_add (op : BinOp) (l r : Node) (hop : isAddOp op = true) (hl : ExprOK o l) (hr : ExprOK o r)
    (hml : decide (Print.priority l ≤ Print.binPriority op) = true ∨ isAddLevel l = false)
    (hmr : decide (Print.priority r ≤ Print.binPriority op) = true ∨ isAddLevel r = false) :
    ExprOK o (.binary op (some l) (some r) none) := by
  obtain ⟨ltxt, tkl, tsl, hprl, hsegl, hstl, hspl⟩ := hl (decide (Print.priority l ≤ Print.binPriority op))
  obtain ⟨rtxt, tkr, tsr, hprr, hsegr, _, _, hmulr, _⟩ := hr (decide (Print.priority r ≤ Print.binPriority op))
  have har : isArith op = true := by cases op <;> simp [isAddOp] at hop <;> rfl
  refine exprOK_wrap ok (txt := ltxt ++ ' ' :: (Print.binStr op ++ ' ' :: rtxt)) (tk := tkl)
    (ts := tsl ++ arithTok op :: tkr :: tsr) ?_ ?_ hstl
    ((espec_add hop hspl hml (hmulr hmr)).imp (fun h => by simp [isBin] at h)
      (fun h => by cases op <;> simp [isAddOp] at hop <;> simp [isAddLevel] at h))
  · intro wp
    cases op <;> simp [isAddOp] at hop <;>
      simp [Print.writeTo, Print.writeOpd, Print.writeNext, hprl, hprr]
  · have h1 := Seg.app_cons o (seg_sp_arith o ok op har) hsegr.2 rfl
    have h2 := Seg2.app_cons o hsegl h1 brk_sp
    simpa using h2

/-- `l op r` with a comparison operator -/
theorem predOK_cmpE (op : BinOp) (l r : Node) (hop : isCmp op = true) (hl : ExprOK o l) (hr : ExprOK o r)
    (hpl : decide (Print.priority l ≤ Print.binPriority op) = false)
    (hpr' : decide (Print.priority r ≤ Print.binPriority op) = false) :
    PredOK o (.binary op (some l) (some r) none) := by
  obtain ⟨ltxt, tkl, tsl, hprl, hsegl, hstl, hspl⟩ := hl false
  obtain ⟨rtxt, tkr, tsr, hprr, hsegr, _, hspr⟩ := hr false
  have hat := cmpE_atom (o := o) hspl hspr hop
  refine predOK_binary ok (txt := ltxt ++ ' ' :: (Print.binStr op ++ ' ' :: rtxt))
    (toks := tkl :: tsl ++ opTok op :: tkr :: tsr) ?_ ?_ ⟨tkl, _, rfl, hstl⟩ (fun _ => hat)
    (fun _ => ⟨left_of_atom hat 1, right_of_atom hat⟩) (left_of_atom hat 2)
  · intro wp
    have e1 : Print.writeOpd o.isPrint (some l) (some (Print.binPriority op)) = some ltxt := by
      simp only [Print.writeOpd, hpl, hprl]
    have e2 : Print.writeOpd o.isPrint (some r) (some (Print.binPriority op)) = some rtxt := by
      simp only [Print.writeOpd, hpr', hprr]
    cases op <;> simp [isCmp] at hop <;> (simp only [Print.writeTo, e1, e2]; simp [Print.writeNext])
  · have h1 := Seg.app_cons o (seg_sp_op o ok op (Or.inl hop)) hsegr.2 rfl
    have h2 := Seg2.app_cons o hsegl h1 brk_sp
    simpa using h2

/-- `l starts with "s"` / `l starts with $"s"` -/
theorem predOK_startsE (l : Node) (s : List Char) (isVar : Bool) (hl : ExprOK o l) (hs : NoNul s)
    (hpl : decide (Print.priority l ≤ Print.binPriority .startsWith) = false) :
    PredOK o (.binary .startsWith (some l) (some (if isVar then .var s none else .str s none)) none) := by
  obtain ⟨ltxt, tkl, tsl, hprl, hsegl, hstl, hspl⟩ := hl false
  have hat := startsE_atom (o := o) s isVar hspl
  refine predOK_binary ok
    (txt := ltxt ++ ' ' :: 's' :: 't' :: 'a' :: 'r' :: 't' :: 's' :: ' ' :: 'w' :: 'i' :: 't' :: 'h' :: ' ' ::
      (if isVar then '$' :: Print.quote o.isPrint s else Print.quote o.isPrint s))
    (toks := tkl :: tsl ++ [tStarts, tWith, if isVar then tVar s else (.string, s)]) ?_ ?_ ⟨tkl, _, rfl, hstl⟩
    (fun _ => hat) (fun _ => ⟨left_of_atom hat 1, right_of_atom hat⟩) (left_of_atom hat 2)
  · intro wp
    have e1 : Print.writeOpd o.isPrint (some l) (some (Print.binPriority .startsWith)) = some ltxt := by
      simp only [Print.writeOpd, hpl, hprl]
    simp only [Print.writeTo, e1]
    cases isVar <;> simp [Print.writeTo, Print.writeOpd, Print.writeNext, binStr_startsWith]
  · have h0 : Seg o brk (' ' :: (if isVar then '$' :: Print.quote o.isPrint s else Print.quote o.isPrint s))
        [if isVar then tVar s else (.string, s)] := by
      cases isVar
      · exact (seg2_string o ok s hs).2.mono o (fun _ _ => trivial)
      · exact (seg2_variable o ok s hs).2.mono o (fun _ _ => trivial)
    have h1 := Seg.app_cons o (seg_sp_kw o ok 'w' ['i', 't', 'h'] .with_ (by decide) (by decide)) h0
      (identCont_punct o ok ' ' (by decide))
    have h2 := Seg.app_cons o (seg_sp_kw o ok 's' ['t', 'a', 'r', 't', 's'] .starts (by decide) (by decide)) h1
      (identCont_punct o ok ' ' (by decide))
    have h3 := Seg2.app_cons o hsegl h2 brk_sp
    simpa [tStarts, tWith] using h3

/-- `exists (e)` -/
theorem predOK_existsE (x : Node) (hx : ExprOK o x) : PredOK o (.unary .exists (some x) none) := by
  obtain ⟨xtxt, tk, ts, hpr, hseg, hst, hsp⟩ := hx false
  have hat := existsE_atom (o := o) hsp
  refine predOK_unary ok (txt := 'e' :: 'x' :: 'i' :: 's' :: 't' :: 's' :: ' ' :: '(' :: (xtxt ++ [')']))
    (toks := tExists :: tLp :: tk :: ts ++ [tRp]) ?_ ?_ ⟨tExists, _, rfl, rfl⟩ hat
  · intro wp
    have : "exists (".toList = ['e', 'x', 'i', 's', 't', 's', ' ', '('] := by decide
    simp [Print.writeTo, Print.writeOpd, Print.writeNext, hpr, this]
  · have h1 := Seg.app_cons o hseg.1 (seg_rp o ok) brk_rp
    have h2 := Seg.app o (seg2_lp o ok).2 h1 (fun _ _ => trivial)
    have h3 := Seg2.app_cons o (seg2_kw o ok 'e' ['x', 'i', 's', 't', 's'] .exists (by decide) (by decide)) h2
      (identCont_punct o ok ' ' (by decide))
    have := Seg2.mono o h3 (C' := brk) (fun _ _ => trivial)
    simpa [tExists] using this

/-- `x like_regex "pat" [flag "…"]` -/
theorem predOK_regexE (x : Node) (pat : List Char) (fl : Nat) (hx : ExprOK o x) (hp : NoNul pat) (hfl : fl < 32)
    (hok : okFlags fl = true) (hacc : o.regexAccepts pat fl = true)
    (hpx : decide (Print.priority x ≤ 6) = true) :
    PredOK o (.regex x pat fl none) := by
  obtain ⟨xtxt, tk, ts, hpr, hseg, hst, hsp⟩ := hx true
  have hat := regexE_atom (o := o) pat fl hsp hfl hok hacc
  have hfs : Seg o brk (Print.flagsStr fl) (flagToks fl) := by
    rw [flagsStr_eq fl hfl]
    unfold flagToks
    split
    · exact Seg.nil o _
    · have hn : NoNul (flagChars fl) := fun c hc => (isLow_facts c (flagChars_low fl hfl c hc)).1
      have h0 := (seg2_string o ok (flagChars fl) hn).2
      rw [quote_flagChars ok fl hfl] at h0
      have h1 := Seg.app_cons o (seg_sp_kw o ok 'f' ['l', 'a', 'g'] .flag (by decide) (by decide)) h0
        (identCont_punct o ok ' ' (by decide))
      exact (by simpa [tFlag] using h1.mono o (C' := brk) (fun _ _ => trivial))
  refine predOK_binary ok
    (txt := xtxt ++ ' ' :: 'l' :: 'i' :: 'k' :: 'e' :: '_' :: 'r' :: 'e' :: 'g' :: 'e' :: 'x' :: ' ' ::
      (Print.quote o.isPrint pat ++ Print.flagsStr fl))
    (toks := tk :: ts ++ tLike :: (.string, pat) :: flagToks fl) ?_ ?_ ⟨tk, _, rfl, hst⟩
    (fun _ => hat) (fun _ => ⟨left_of_atom hat 1, right_of_atom hat⟩) (left_of_atom hat 2)
  · intro wp
    rw [Print.writeTo]
    simp only [hpx] 
    simp [hpr, Print.writeNext, likeRegex_txt]
  · have h0 := Seg.app o ((seg2_string o ok pat hp).2) hfs (fun _ _ => trivial)
    have h1 := Seg.app_cons o
      (seg_sp_kw o ok 'l' ['i', 'k', 'e', '_', 'r', 'e', 'g', 'e', 'x'] .likeRegex (by decide) (by decide)) h0
      (identCont_punct o ok ' ' (by decide))
    have h2 := Seg2.app_cons o hseg h1 brk_sp
    simpa [tLike] using h2

/-- the round trip for an expression at the top level -/
theorem roundtrip_expr {n : Node} (hn : ExprOK o n) (hv : validate n = true) (lax : Bool) :
    ∃ txt, Print.toString o.isPrint ⟨n, lax, false⟩ = some txt ∧
      ∀ bytes, decodeAll bytes = txt.map Src.ch → parse o bytes = .ok ⟨n, lax, false⟩ := by
  obtain ⟨txt, tk, ts, hpr, hseg, hst, _, _, hunit⟩ := hn true
  obtain ⟨_, hha⟩ := hunit (Or.inl rfl)
  have hm := predStart_mode hst
  have key : ∀ f, 16 * (ts.length + 1) + 8 ≤ f →
      ∃ txt' toks', txt' = modeTxt lax ++ txt ∧ Lexes o txt' toks' ∧
        toks'.length ≤ txt'.length ∧ toks'.length ≤ ts.length + 2 ∧
        RunsV (StE o toks') (parseBody o f) (lax, false, evOf n) (StE o []) := by
    intro f hf'
    obtain ⟨f', rfl⟩ : ∃ f', f = f' + 3 := ⟨f - 3, by omega⟩
    refine body_mode ok lax hseg hm.1 hm.2 ⟨.expr (evOf n) .stop, [], ?_, RunsV.pure _⟩
    have := hha (f' + 2) .top [] (.expr (evOf n) .stop) (StE o []) (by omega) rfl (by decide) ?_
    · simpa using this
    · rw [exprTail_eq]
      rstep (arith_nil f' (evOf n) [] rfl rfl)
      exact (exprK_end (f' + 1) .top (by decide) (evOf n) [] (Or.inr rfl)).toE
  obtain ⟨txt', _, htxt', _, _, _, _⟩ := key _ (Nat.le_refl _)
  refine ⟨txt', by rw [htxt']; exact toString_eq _ _ _ _ _ hpr, ?_⟩
  intro bytes hb
  have hl : txt'.length ≤ bytes.length := by
    have := decodeAll_length bytes
    rw [hb] at this
    simpa using this
  have hlen : txt.length ≤ txt'.length := by rw [htxt']; simp
  have hts : ts.length + 1 ≤ txt.length := hseg.1.2.1
  obtain ⟨txt'', toks', htxt'', hlex, hlen1, hlen2, hr⟩ := key (fuelFor bytes) (by unfold fuelFor; omega)
  subst htxt''
  subst htxt'
  exact parse_of_body bytes _ toks' lax false (evOf n) hb hlex hr hv

end

section
variable {o : Oracles}

/-- the head unit with `parseUnaryT`, then the loop -/
theorem expr_fullT {e : Node} {tk : TT} {ts : List TT} {p q : Prop} (h : ESpec o e tk ts p q)
    (g : Nat) (rest : List TT) (hg : 16 * (ts.length + 1) + 8 ≤ g) (hfol : EFollow (hd rest).1) :
    ∃ (u : EV) (mid : List TT),
      RunsV (StP o (tk :: ts ++ rest)) (parseUnaryT o g tk) u (StA o mid) ∧
      RunsV (StA o mid) (arithLoop o g u) (evOf e, (hd rest).1) (StA o rest) := by
  obtain ⟨⟨x, tsH, M, hts, hmh, hopd, _, hl2, _⟩, _, _⟩ := h
  subst hts
  simp only [List.length_append] at hg
  have hm := hmh rest hfol.1 hfol.2.1
  have hrun := hopd g (M ++ rest) (by omega) hm.1 hm.2
  refine ⟨evOf x, M ++ rest, by simpa using hrun, ?_⟩
  refine hl2 g rest _ _ (by omega) hfol.1 hfol.2.1 hfol.2.2.2 ?_
  intro g1 h1 h2
  obtain ⟨g2, rfl⟩ : ∃ g2, g1 = g2 + 1 := ⟨g1 - 1, by omega⟩
  exact arith_nil g2 _ rest hfol.2.2.1 hfol.2.2.2

/-- a single bound -/
theorem subRun_one {l : Node} {tk : TT} {ts : List TT} {p q : Prop} (hl : ESpec o l tk ts p q) :
    SubRun o (.binary .subscript (some l) none none) tk ts := by
  intro f acc more w post hf hsep hk
  have hs := sepFollow hsep
  obtain ⟨u, mid, h1, h2⟩ := expr_fullT hl f more hf hs.1
  rw [indexList_eq]
  rstep h1
  rstep h2
  simp only [indexElemK, hs.2, ↓reduceIte, evOf_node]
  exact hk

/-- a range `l to r` -/
theorem subRun_two {l r : Node} {tkl tkr : TT} {tsl tsr : List TT} {p q p' q' : Prop}
    (hl : ESpec o l tkl tsl p q) (hr : ESpec o r tkr tsr p' q') :
    SubRun o (.binary .subscript (some l) (some r) none) tkl (tsl ++ tTo :: tkr :: tsr) := by
  intro f acc more w post hf hsep hk
  simp only [List.length_cons, List.length_append] at hf
  have hs := sepFollow hsep
  obtain ⟨u, mid, h1, h2⟩ := expr_fullT hl f (tTo :: tkr :: (tsr ++ more)) (by omega) ⟨rfl, by simp [hd, tTo], rfl, rfl⟩
  obtain ⟨u2, mid2, h3, h4⟩ := expr_full hr f more (by omega) hs.1
  rw [indexList_eq]
  simp only [List.cons_append, List.append_assoc] at h1 ⊢
  rstep h1
  rstep h2
  simp only [hd, tTo, indexElemK, ↓reduceIte, evOf_node]
  rstep (consume_spec _ _)
  simp only [List.cons_append] at h3
  rstep h3
  rstep h4
  exact hk

end

/-- a subscript: text, tokens, and `indexList` on them -/
def SubOK (o : Oracles) (s : Node) : Prop :=
  ∃ (txt : List Char) (tk : TT) (ts : List TT),
    Print.writeTo o.isPrint s false false = some txt ∧ Seg o brk txt (tk :: ts) ∧ isPredStart tk.1 = true ∧
    SubRun o s tk ts

theorem predStart_sub {t : Tok} (h : isPredStart t = true) : t ≠ .star ∧ t ≠ .stop := by
  constructor <;> (intro hh; subst hh; revert h; decide)

section
variable {o : Oracles} (ok : OrOK o)
include ok

theorem subOK_one (l : Node) (hl : ExprOK o l) : SubOK o (.binary .subscript (some l) none none) := by
  obtain ⟨txt, tk, ts, hpr, hseg, hst, hsp⟩ := hl false
  refine ⟨txt, tk, ts, ?_, hseg.1, hst, subRun_one hsp⟩
  simp [Print.writeTo, Print.writeOpd, Print.writeNext, hpr]

theorem subOK_two (l r : Node) (hl : ExprOK o l) (hr : ExprOK o r) :
    SubOK o (.binary .subscript (some l) (some r) none) := by
  obtain ⟨ltxt, tkl, tsl, hprl, hsegl, hstl, hspl⟩ := hl false
  obtain ⟨rtxt, tkr, tsr, hprr, hsegr, _, hspr⟩ := hr false
  refine ⟨ltxt ++ ' ' :: 't' :: 'o' :: ' ' :: rtxt, tkl, tsl ++ tTo :: tkr :: tsr, ?_, ?_, hstl, subRun_two hspl hspr⟩
  · have e : " to ".toList = [' ', 't', 'o', ' '] := by decide
    simp [Print.writeTo, Print.writeOpd, Print.writeNext, hprl, hprr, e]
  · have h2 := Seg.app_cons o (seg_sp_to o ok) hsegr.2 (identCont_punct o ok ' ' (by decide))
    have h3 := Seg.app_cons o hsegl.1 h2 brk_sp
    simpa using h3

end

section
variable {o : Oracles}

/-- all subscripts of a list: text, tokens, and `indexList` -/
def SubsOK (o : Oracles) (subs : List Node) : Prop :=
  ∃ (txt : List Char) (tk : TT) (ts : List TT),
    Print.writeSubs o.isPrint subs true = some txt ∧
    Print.writeSubs o.isPrint subs false = some (',' :: txt) ∧
    Seg o brk txt (tk :: ts) ∧ isPredStart tk.1 = true ∧
    ∀ f acc rest, 16 * (ts.length + 1) + 8 ≤ f →
      RunsV (StP o (tk :: ts ++ tRb :: rest)) (indexList o (f + 1) tk acc) (acc ++ subs) (StE o rest)

theorem subsOK_of (ok : OrOK o) : ∀ (subs : List Node), subs ≠ [] → (∀ s ∈ subs, SubOK o s) → SubsOK o subs := by
  intro subs
  induction subs with
  | nil => intro h; exact absurd rfl h
  | cons s ss ih =>
    intro _ hs
    obtain ⟨txt, tk, ts, hpr, hseg, hst, hrun⟩ := hs s (by simp)
    cases ss with
    | nil =>
      refine ⟨txt, tk, ts, by simp [Print.writeSubs, hpr], by simp [Print.writeSubs, hpr], hseg, hst, ?_⟩
      intro f acc rest hf
      exact hrun f acc (tRb :: rest) _ _ hf (Or.inr rfl) (indexK_last f acc s rest)
    | cons s2 ss2 =>
      obtain ⟨txt2, tk2, ts2, hpr2a, hpr2b, hseg2, hst2, hrun2⟩ :=
        ih (by simp) (fun x hx => hs x (by simp at hx ⊢; right; exact hx))
      refine ⟨txt ++ ',' :: txt2, tk, ts ++ tComma :: tk2 :: ts2, ?_, ?_, ?_, hst, ?_⟩
      · rw [Print.writeSubs]; simp [hpr, hpr2b]
      · rw [Print.writeSubs]; simp [hpr, hpr2b]
      · have h2 := Seg.app o (seg_comma o ok) hseg2 (fun _ _ => trivial)
        have h3 := Seg.app_cons o hseg h2 (Or.inr (Or.inr (Or.inr (Or.inr (Or.inl rfl)))))
        simpa using h3
      · intro f acc rest hf
        simp only [List.length_cons, List.length_append] at hf
        obtain ⟨f', rfl⟩ : ∃ f', f = f' + 1 := ⟨f - 1, by omega⟩
        have h2 := hrun2 f' (acc ++ [s]) rest (by omega)
        have h3 := indexK_more (o := o) (f' + 1) acc s tk2 (ts2 ++ tRb :: rest) (predStart_sub hst2).2 _ _
          (by simpa using h2)
        have := hrun (f' + 1) acc (tComma :: tk2 :: (ts2 ++ tRb :: rest)) _ _ (by omega) (Or.inl rfl) h3
        simpa using this

/-- `[s₁,…,sₙ]` as an accessor -/
theorem stepOK_index5 (ok : OrOK o) (subs : List Node) (nx : Option Node) (hne : subs ≠ [])
    (hs : ∀ s ∈ subs, SubOK o s) : StepOK o (.arrayIndex subs nx) := by
  obtain ⟨txt, tk, ts, hpr, _, hseg, hst, hrun⟩ := subsOK_of ok subs hne hs
  have hss := predStart_sub hst
  refine ⟨'[' :: (txt ++ [']']), .lbrack, ['['], tk :: ts ++ [tRb], '[', _, ?_, ?_, rfl,
    Or.inr (Or.inr (Or.inl rfl)), rfl, ?_⟩
  · intro wp
    rw [Print.writeTo]; simp only [Node.next, hpr]
    generalize Print.writeNext o.isPrint nx = w
    cases w <;> simp
  · have h1 := Seg.app_cons o hseg (seg_rb o ok) (Or.inr (Or.inr (Or.inr (Or.inl rfl))))
    have h2 := Seg.app o (seg_lb o ok) h1 (fun _ _ => trivial)
    have := h2.mono o (C' := brkS) (fun _ _ => trivial)
    simpa [tLb] using this
  · intro rest f _ hf
    simp only [List.length_cons, List.length_append, List.length_nil] at hf
    obtain ⟨f', rfl⟩ : ∃ f', f = f' + 2 := ⟨f - 2, by omega⟩
    have h1 := hrun f' [] rest (by omega)
    obtain ⟨t, x⟩ := tk
    simp only at hss
    rw [accessorOp]
    simp only [List.cons_append, List.append_assoc, List.nil_append]
    rstep (consume_spec _ _)
    simp only [reduceCtorEq, ↓reduceIte]
    rstep (peek_cons _ _)
    simp only [hss.1, hss.2, ↓reduceIte]
    simp only [List.cons_append, List.nil_append] at h1
    rstep h1
    exact RunsV.pure _

theorem linkNodes_int (i : Int) (n : Node) (L : List Node) (hL : chainOf L = n.next) :
    linkNodes (evOf (.integer i none)) ([n.setNext none] ++ L) = evOf (.integer i (some n)) := by
  simp only [List.singleton_append, linkNodes, chainOf, hL, setNext_setNext, setNext_next]
  rfl

/-- after `(`: the literal, `)`, and its accessors -/
theorem parenTail_lit_chain (i : Int) (n : Node) {tk0 : TT} {ts0 : List TT} {p q : Prop}
    (hsp : ESpec o (.integer i none) tk0 ts0 p q)
    {t : Tok} {x : List Char} {ts ctoks : List TT} {L : List Node}
    (hacc : isAccessorStart t = true)
    (hop : ∀ rest f, (hd rest).1 ≠ .lbrace → 16 * (ts.length + 1) + 1 ≤ f →
      RunsV (StP o ((t, x) :: ts ++ rest)) (accessorOp o f t) (n.setNext none) (StE o rest))
    (hheadT : HeadT ctoks) (hL : chainOf L = n.next)
    (hloop : ∀ f head ops rest, 16 * ctoks.length + 2 ≤ f → isAccessorStart (hd rest).1 = false →
      (hd rest).1 ≠ .lbrace →
      RunsV (StE o (ctoks ++ rest)) (accessorLoop o f head ops) (linkNodes head (ops ++ L)) (StA o rest))
    (F : Nat) (ctx : Ctx) (hctx : ctx ≠ .pred) (rest : List TT)
    (hF : 16 * (ts0.length + ts.length + ctoks.length + 3) + 8 ≤ F + 2)
    (ha : isAccessorStart (hd rest).1 = false) (hb : (hd rest).1 ≠ .lbrace) :
    RunsV (StE o (tk0 :: ts0 ++ tRp :: (t, x) :: (ts ++ (ctoks ++ rest)))) (parenTail o (F + 3) ctx)
      (.expr (evOf (.integer i (some n)))) (StA o rest) := by
  rw [parenTail]
  have h1 := atom_of_expr hsp F ctx (tRp :: (t, x) :: (ts ++ (ctoks ++ rest))) (.expr (evOf (.integer i none)) .rparen)
    (StA o (tRp :: (t, x) :: (ts ++ (ctoks ++ rest)))) (by omega) ⟨rfl, by simp [hd, tRp], rfl, rfl⟩
    (exprK_end F ctx hctx _ (tRp :: (t, x) :: (ts ++ (ctoks ++ rest))) (Or.inl rfl))
  rstep h1
  simp only [ne_eq, not_true_eq_false, ↓reduceIte]
  rstep (consume_spec _ _)
  rstep (peek_cons _ _)
  simp only [hacc, ↓reduceIte]
  have h2 := hop (ctoks ++ rest) (F + 2) (hheadT.lbrace hb) (by omega)
  simp only [List.cons_append] at h2
  rstep h2
  have h3 := hloop (F + 2) (evOf (.integer i none)) [n.setNext none] rest (by omega) ha hb
  rstep h3
  exact RunsV.pure' (by rw [linkNodes_int i n L hL]) (fun _ h => h)

end

section
variable {o : Oracles} (ok : OrOK o)
include ok

/-- an integer literal (of either sign) with accessors: printed `(i)` followed by the accessors -/
theorem exprOK_intChain (i : Int) (n : Node) (hlit : ExprOK o (.integer i none)) (hs : StepOK o n)
    (hc : ChainOK o n.next) : ExprOK o (.integer i (some n)) := by
  obtain ⟨txt0, tk0, ts0, hpr0, hseg0, _, hsp⟩ := hlit false
  obtain ⟨stxt, t, x, ts, c, cs, hw, hseg, hcs, hbc, hacc, hop⟩ := hs
  obtain ⟨ctxt, ctoks, L, hw', hseg', hhead, hheadT, hL, hloop⟩ := hc
  have htxt0 : txt0 = Decimal.formatInt i := by
    have : Print.writeTo o.isPrint (.integer i none) false false = some (Decimal.formatInt i) := by
      simp [Print.writeTo, Print.writeNext, Print.parenIf]
    rw [this] at hpr0
    injection hpr0 with h
    exact h.symm
  have hopd : OpdSpec o (.integer i (some n)) tLp (tk0 :: ts0 ++ tRp :: (t, x) :: (ts ++ ctoks)) := by
    intro f rest hf ha hb
    simp only [List.length_cons, List.length_append] at hf
    obtain ⟨F, rfl⟩ : ∃ F, f = F + 4 := ⟨f - 4, by omega⟩
    rw [parseUnaryT]
    simp only [tLp, reduceCtorEq, ↓reduceIte]
    simp only [List.cons_append, List.append_assoc]
    rstep (consume_spec _ _)
    rstep (parenTail_lit_chain i n hsp hacc hop hheadT hL hloop F .parenE (by decide) rest (by omega) ha hb)
    exact RunsV.pure _
  have hha : HeadA o (.integer i (some n)) tLp (tk0 :: ts0 ++ tRp :: (t, x) :: (ts ++ ctoks)) := by
    intro f ctx rest w post hf ha hb hk
    simp only [List.length_cons, List.length_append] at hf
    obtain ⟨F, rfl⟩ : ∃ F, f = F + 3 := ⟨f - 3, by omega⟩
    rw [parseAtom]
    simp only [List.cons_append, List.append_assoc]
    rstep (peek_cons _ _)
    simp only [tLp, reduceCtorEq, ↓reduceIte]
    rstep (consume_spec _ _)
    rstep (parenTail_lit_chain i n hsp hacc hop hheadT hL hloop F .paren (by decide) rest (by omega) ha hb)
    exact hk
  intro wp
  refine ⟨'(' :: (txt0 ++ ')' :: (stxt ++ ctxt)), tLp, tk0 :: ts0 ++ tRp :: (t, x) :: (ts ++ ctoks), ?_, ?_, rfl,
    espec_unit hopd hha _ _⟩
  · rw [Print.writeTo]
    simp [Print.writeNext, hw true, hw', Print.parenIf, htxt0]
  · have h1 := Seg.app o hseg hseg' hhead
    have h2 := Seg.app_cons o (seg_rp o ok) (by rw [hcs] at h1; exact h1) trivial
    have h3 := Seg.app_cons o hseg0.1 h2 brk_rp
    have h4 := Seg2.app o (seg2_lp o ok) h3 (fun _ _ => trivial)
    rw [hcs]
    simpa using h4

/-- `last` (valid inside subscripts only) with its accessors -/
theorem exprOK_last {nx : Option Node} (hc : ChainOK o nx) : ExprOK o (.const .last nx) := by
  intro wp
  obtain ⟨ctxt, ctoks, hw, hcseg, hhead, hrun⟩ := unaryT_chain' (o := o) tLast (.const .last none) rfl hc
  have hopd : OpdSpec o (.const .last nx) tLast ctoks := by
    intro f rest hf h1 h2
    exact hrun f rest (by omega) h1 h2
  refine ⟨lastTxt ++ ctxt, tLast, ctoks, ?_, ?_, rfl,
    espec_unit hopd (headA_of_opdSpec hopd (by decide) (by decide) (by decide) (by decide)) _ _⟩
  · rw [Print.writeTo]; simp [hw, Print.constStr, lastTxt]
  · have h1 := (seg2_kw o ok 'l' ['a', 's', 't'] .last (by decide) (by decide)).mono o
      (C' := brkS) (fun _ h => brkS_identCont o ok h)
    have := Seg2.app o h1 hcseg hhead
    simpa [lastTxt, tLast] using this

end


/-! ## Numeric literals as operands -/

/-- `F64.WF` as a Boolean -/
def wfB (m : Nat) (e : Int) : Bool :=
  (decide (m < 2 ^ 52) && decide (e = F64.minExp)) ||
  (decide (2 ^ 52 ≤ m) && decide (m < 2 ^ 53) && decide (F64.minExp ≤ e) && decide (e ≤ F64.maxExp))

theorem wf_of_wfB {neg : Bool} {m : Nat} {e : Int} (h : wfB m e = true) : F64.WF (.fin neg m e) := by
  simp only [wfB, Bool.or_eq_true, Bool.and_eq_true, decide_eq_true_eq] at h
  unfold F64.WF
  rcases h with h | h
  · exact ⟨fun _ => h.2, fun h2 => by omega⟩
  · exact ⟨fun h2 => by omega, fun _ => ⟨h.1.1.2, h.1.2, h.2⟩⟩

/-- **the numeric literals of the class**: a finite non-zero double in canonical form whose printed text is
    not that of an integer literal — the shortest decimal `c · 10^p` that identifies it has a fraction
    (`p < 0`: the value is not integral) or is printed in exponent form (`≥ 1e21`).  Exactly the finite
    doubles that `D5` does not concern. -/
def numOK : F64 → Bool
  | .fin _ m e =>
    decide (m ≠ 0) && wfB m e &&
      shapeOK (Decimal.formatNat (Decimal.shortest m e).1) (Decimal.shortest m e).2
  | _ => false

theorem numOK_cases {g : F64} (h : numOK g = true) :
    ∃ neg m e, g = .fin neg m e ∧ m ≠ 0 ∧ F64.WF (.fin neg m e) ∧
      shapeOK (Decimal.formatNat (Decimal.shortest m e).1) (Decimal.shortest m e).2 = true := by
  cases g with
  | nan => simp [numOK] at h
  | inf _ => simp [numOK] at h
  | fin neg m e =>
    simp only [numOK, Bool.and_eq_true, decide_eq_true_eq] at h
    exact ⟨neg, m, e, rfl, h.1.1, wf_of_wfB h.1.2, h.2⟩

section
variable {o : Oracles}

theorem newNumeric_txt (neg : Bool) {m : Nat} {e : Int} (hm : m ≠ 0) (hwf : F64.WF (.fin neg m e)) :
    newNumeric (signTxt neg ++ absTxt m e)
      = pure { node := .numeric (.fin neg m e) none, lit := signTxt neg ++ absTxt m e } := by
  unfold newNumeric
  rw [parseFloatFinite_txt neg hm hwf]

theorem evOf_num (neg : Bool) (m : Nat) (e : Int) (hm : m ≠ 0) (nx : Option Node) :
    evOf (.numeric (.fin neg m e) nx) = { node := .numeric (.fin neg m e) nx, lit := signTxt neg ++ absTxt m e } := by
  simp only [evOf, litOf, jsonFloat_eq neg m e hm, Option.getD_some]

/-- the parser on the token of a positive numeric literal -/
theorem unaryT_num {m : Nat} {e : Int} (hm : m ≠ 0) (hwf : F64.WF (.fin false m e)) (f : Nat) (rest : List TT)
    (hr : isAccessorStart (hd rest).1 = false) :
    RunsV (StP o ((.numeric, absTxt m e) :: rest)) (parseUnaryT o (f + 3) (.numeric, absTxt m e))
      (evOf (.numeric (.fin false m e) none)) (StA o rest) := by
  have h := newNumeric_txt false hm hwf
  simp only [signTxt, Bool.false_eq_true, if_false, List.nil_append] at h
  rw [evOf_num false m e hm]
  simp only [signTxt, Bool.false_eq_true, if_false, List.nil_append]
  rw [parseUnaryT]
  simp only [reduceCtorEq, ↓reduceIte]
  rw [parseScalar]
  rstep (consume_spec _ _)
  rw [h]
  rstep (RunsV.pure _)
  exact accLoop_nil f _ [] rest hr

end

section
variable {o : Oracles} (ok : OrOK o)
include ok

theorem writeTo_num (neg : Bool) (m : Nat) (e : Int) (hm : m ≠ 0) (wp : Bool) :
    Print.writeTo o.isPrint (.numeric (.fin neg m e) none) false wp = some (signTxt neg ++ absTxt m e) := by
  rw [Print.writeTo]
  simp [jsonFloat_eq neg m e hm, Print.writeNext, Print.parenIf]

/-- a positive numeric literal of the class is an operand -/
theorem opdOK_num {m : Nat} {e : Int} (hm : m ≠ 0) (hwf : F64.WF (.fin false m e))
    (hs : shapeOK (Decimal.formatNat (Decimal.shortest m e).1) (Decimal.shortest m e).2 = true) :
    OpdOK o (.numeric (.fin false m e) none) := by
  have hc := (shortest_facts hm hwf).1
  refine ⟨absTxt m e, (.numeric, absTxt m e), [], ?_, seg2_layoutJ o ok _ _ hc hs, rfl, ?_⟩
  · intro wp
    have := writeTo_num (o := o) ok false m e hm wp
    simpa [signTxt] using this
  · intro f rest hf h1 _
    obtain ⟨f', rfl⟩ : ∃ f', f = f' + 3 := ⟨f - 3, by simp at hf; omega⟩
    exact unaryT_num hm hwf f' rest h1

omit ok in
theorem negLit_absTxt {m : Nat} {e : Int} (hc : (Decimal.shortest m e).1 ≠ 0)
    (hs : shapeOK (Decimal.formatNat (Decimal.shortest m e).1) (Decimal.shortest m e).2 = true) :
    negLit (absTxt m e) = '-' :: absTxt m e := by
  obtain ⟨d, ds, h, hd, _⟩ := floatForm_layoutJ _ _ hc hs
  unfold absTxt
  rw [h]
  have : d ≠ '-' := by intro hh; subst hh; revert hd; decide
  unfold negLit
  split
  · rename_i r heq
    injection heq with h1 _
    exact absurd h1 this
  · rfl

omit ok in
/-- `-` and the token of the absolute value: the parser folds the sign into the literal -/
theorem neg_opdSpec_num {m : Nat} {e : Int} (hm : m ≠ 0) (hwf : F64.WF (.fin true m e))
    (hs : shapeOK (Decimal.formatNat (Decimal.shortest m e).1) (Decimal.shortest m e).2 = true) :
    OpdSpec o (.numeric (.fin true m e) none) tMinus [(.numeric, absTxt m e)] := by
  intro f rest hf ha hb
  obtain ⟨f', rfl⟩ : ∃ f', f = f' + 5 := ⟨f - 5, by simp at hf; omega⟩
  have hwf' : F64.WF (.fin false m e) := hwf
  have hc := (shortest_facts hm hwf).1
  have hrun := unaryT_num (o := o) hm hwf' f' rest ha
  rw [parseUnaryT]
  simp only [tMinus, reduceCtorEq, ↓reduceIte]
  rstep (consume_spec _ _)
  rstep (unary_of_unaryT hrun)
  rw [evOf_num false m e hm, evOf_num true m e hm]
  unfold newUnaryOrNumber
  simp only [Node.next, Option.isNone_none, ↓reduceIte, reduceCtorEq]
  unfold astNewNumeric
  simp only [signTxt, Bool.false_eq_true, if_false, List.nil_append, negLit_absTxt hc hs]
  have h2 := parseFloatFinite_txt true hm hwf
  simp only [signTxt, if_true, List.singleton_append] at h2
  rw [h2]
  exact RunsV.pure' (by simp [signTxt]) (fun _ h => h)

/-- a negative numeric literal of the class is an expression -/
theorem exprOK_negNum {m : Nat} {e : Int} (hm : m ≠ 0) (hwf : F64.WF (.fin true m e))
    (hs : shapeOK (Decimal.formatNat (Decimal.shortest m e).1) (Decimal.shortest m e).2 = true) :
    ExprOK o (.numeric (.fin true m e) none) := by
  intro wp
  have hc := (shortest_facts hm hwf).1
  have hsp := neg_opdSpec_num (o := o) hm hwf hs
  refine ⟨'-' :: absTxt m e, tMinus, [(.numeric, absTxt m e)], ?_, ?_, rfl,
    espec_unit hsp (headA_of_opdSpec hsp (by decide) (by decide) (by decide) (by decide)) _ _⟩
  · have := writeTo_num (o := o) ok true m e hm wp
    simpa [signTxt] using this
  · have := Seg2.app o (seg2_minus o ok) (seg2_layoutJ o ok _ _ hc hs).1 (fun _ _ => trivial)
    simpa [absTxt] using this

/-- **a numeric literal of the class, of either sign, is an expression** -/
theorem exprOK_num {g : F64} (h : numOK g = true) : ExprOK o (.numeric g none) := by
  obtain ⟨neg, m, e, rfl, hm, hwf, hs⟩ := numOK_cases h
  cases neg
  · exact exprOK_opd ok (opdOK_num ok hm hwf hs)
  · exact exprOK_negNum ok hm hwf hs

end

/-! ## A numeric literal with accessors — `(1.5).abs()`, `(-2.5e-7)."k"` -/

section
variable {o : Oracles}

theorem linkNodes_num (g : F64) (n : Node) (L : List Node) (hL : chainOf L = n.next) :
    linkNodes (evOf (.numeric g none)) ([n.setNext none] ++ L) = evOf (.numeric g (some n)) := by
  simp only [List.singleton_append, linkNodes, chainOf, hL, setNext_setNext, setNext_next]
  rfl

/-- after `(`: the literal, `)`, and its accessors -/
theorem parenTail_num_chain (g : F64) (n : Node) {tk0 : TT} {ts0 : List TT} {p q : Prop}
    (hsp : ESpec o (.numeric g none) tk0 ts0 p q)
    {t : Tok} {x : List Char} {ts ctoks : List TT} {L : List Node}
    (hacc : isAccessorStart t = true)
    (hop : ∀ rest f, (hd rest).1 ≠ .lbrace → 16 * (ts.length + 1) + 1 ≤ f →
      RunsV (StP o ((t, x) :: ts ++ rest)) (accessorOp o f t) (n.setNext none) (StE o rest))
    (hheadT : HeadT ctoks) (hL : chainOf L = n.next)
    (hloop : ∀ f head ops rest, 16 * ctoks.length + 2 ≤ f → isAccessorStart (hd rest).1 = false →
      (hd rest).1 ≠ .lbrace →
      RunsV (StE o (ctoks ++ rest)) (accessorLoop o f head ops) (linkNodes head (ops ++ L)) (StA o rest))
    (F : Nat) (ctx : Ctx) (hctx : ctx ≠ .pred) (rest : List TT)
    (hF : 16 * (ts0.length + ts.length + ctoks.length + 3) + 8 ≤ F + 2)
    (ha : isAccessorStart (hd rest).1 = false) (hb : (hd rest).1 ≠ .lbrace) :
    RunsV (StE o (tk0 :: ts0 ++ tRp :: (t, x) :: (ts ++ (ctoks ++ rest)))) (parenTail o (F + 3) ctx)
      (.expr (evOf (.numeric g (some n)))) (StA o rest) := by
  rw [parenTail]
  have h1 := atom_of_expr hsp F ctx (tRp :: (t, x) :: (ts ++ (ctoks ++ rest))) (.expr (evOf (.numeric g none)) .rparen)
    (StA o (tRp :: (t, x) :: (ts ++ (ctoks ++ rest)))) (by omega) ⟨rfl, by simp [hd, tRp], rfl, rfl⟩
    (exprK_end F ctx hctx _ (tRp :: (t, x) :: (ts ++ (ctoks ++ rest))) (Or.inl rfl))
  rstep h1
  simp only [ne_eq, not_true_eq_false, ↓reduceIte]
  rstep (consume_spec _ _)
  rstep (peek_cons _ _)
  simp only [hacc, ↓reduceIte]
  have h2 := hop (ctoks ++ rest) (F + 2) (hheadT.lbrace hb) (by omega)
  simp only [List.cons_append] at h2
  rstep h2
  have h3 := hloop (F + 2) (evOf (.numeric g none)) [n.setNext none] rest (by omega) ha hb
  rstep h3
  exact RunsV.pure' (by rw [linkNodes_num g n L hL]) (fun _ h => h)

end

section
variable {o : Oracles} (ok : OrOK o)
include ok

/-- a numeric literal (of either sign) with accessors: printed `(text)` followed by the accessors -/
theorem exprOK_numChain (g : F64) (n : Node) (hlit : ExprOK o (.numeric g none)) (hs : StepOK o n)
    (hc : ChainOK o n.next) : ExprOK o (.numeric g (some n)) := by
  obtain ⟨txt0, tk0, ts0, hpr0, hseg0, _, hsp⟩ := hlit false
  obtain ⟨stxt, t, x, ts, c, cs, hw, hseg, hcs, hbc, hacc, hop⟩ := hs
  obtain ⟨ctxt, ctoks, L, hw', hseg', hhead, hheadT, hL, hloop⟩ := hc
  have htxt0 : Decimal.jsonFloat g = some txt0 := by
    rw [Print.writeTo] at hpr0
    cases hj : Decimal.jsonFloat g with
    | none => simp [hj] at hpr0
    | some t0 =>
      simp [hj, Print.writeNext, Print.parenIf] at hpr0
      rw [hpr0]
  have hopd : OpdSpec o (.numeric g (some n)) tLp (tk0 :: ts0 ++ tRp :: (t, x) :: (ts ++ ctoks)) := by
    intro f rest hf ha hb
    simp only [List.length_cons, List.length_append] at hf
    obtain ⟨F, rfl⟩ : ∃ F, f = F + 4 := ⟨f - 4, by omega⟩
    rw [parseUnaryT]
    simp only [tLp, reduceCtorEq, ↓reduceIte]
    simp only [List.cons_append, List.append_assoc]
    rstep (consume_spec _ _)
    rstep (parenTail_num_chain g n hsp hacc hop hheadT hL hloop F .parenE (by decide) rest (by omega) ha hb)
    exact RunsV.pure _
  have hha : HeadA o (.numeric g (some n)) tLp (tk0 :: ts0 ++ tRp :: (t, x) :: (ts ++ ctoks)) := by
    intro f ctx rest w post hf ha hb hk
    simp only [List.length_cons, List.length_append] at hf
    obtain ⟨F, rfl⟩ : ∃ F, f = F + 3 := ⟨f - 3, by omega⟩
    rw [parseAtom]
    simp only [List.cons_append, List.append_assoc]
    rstep (peek_cons _ _)
    simp only [tLp, reduceCtorEq, ↓reduceIte]
    rstep (consume_spec _ _)
    rstep (parenTail_num_chain g n hsp hacc hop hheadT hL hloop F .paren (by decide) rest (by omega) ha hb)
    exact hk
  intro wp
  refine ⟨'(' :: (txt0 ++ ')' :: (stxt ++ ctxt)), tLp, tk0 :: ts0 ++ tRp :: (t, x) :: (ts ++ ctoks), ?_, ?_, rfl,
    espec_unit hopd hha _ _⟩
  · rw [Print.writeTo]
    simp [Print.writeNext, hw true, hw', Print.parenIf, htxt0]
  · have h1 := Seg.app o hseg hseg' hhead
    have h2 := Seg.app_cons o (seg_rp o ok) (by rw [hcs] at h1; exact h1) trivial
    have h3 := Seg.app_cons o hseg0.1 h2 brk_rp
    have h4 := Seg2.app o (seg2_lp o ok) h3 (fun _ _ => trivial)
    rw [hcs]
    simpa using h4

end

/-! ## Stage 6: the class of stage 5 with numeric literals -/

mutual
  /-- an expression: an operand of stage 3, an integer literal of either sign, **a numeric literal of
      the class `numOK` of either sign**, each possibly with accessors, a sign applied to an expression
      that is not a number literal, or `+ - * / %` between expressions -/
  def okExpr6 (o : Oracles) : Node → Bool
    | .const k nx => (isOpdConst k || k == .last) && okNext6 o nx
    | .str s nx => noNulB s && okNext6 o nx
    | .var s nx => noNulB s && okNext6 o nx
    | .integer i none => litOK i
    | .integer i (some n) => litOK i && okStep6 o n
    | .numeric g none => numOK g
    | .numeric g (some n) => numOK g && okStep6 o n
    | .unary op (some x) none => isSign op && okExpr6 o x && notNumLit x
    | .binary op (some l) (some r) none => isArith op && okExpr6 o l && okExpr6 o r
    | _ => false
  def okPred6 (o : Oracles) : Node → Bool
    | .binary op (some l) (some r) none =>
      if isCmp op then okExpr6 o l && okExpr6 o r
      else if isLogic op then okPred6 o l && okPred6 o r
      else if op = .startsWith then
        okExpr6 o l && (match strOrVar? r with | some (_, s) => noNulB s | none => false)
      else false
    | .unary .not (some p) none => okPred6 o p
    | .unary .exists (some x) none => okExpr6 o x
    | .unary .isUnknown (some p) none => okPred6 o p
    | .regex x pat fl none => okExpr6 o x && noNulB pat && okFlags fl && o.regexAccepts pat fl
    | _ => false
  /-- one subscript: `e` or `e to e'` with expressions (in which `last` may occur) -/
  def okSub6 (o : Oracles) : Node → Bool
    | .binary .subscript (some l) none none => okExpr6 o l
    | .binary .subscript (some l) (some r) none => okExpr6 o l && okExpr6 o r
    | _ => false
  def okSubs6 (o : Oracles) : List Node → Bool
    | [] => true
    | s :: ss => okSub6 o s && okSubs6 o ss
  def okStep6 (o : Oracles) : Node → Bool
    | .unary .filter (some p) nx => okPred6 o p && okNext6 o nx
    | .arrayIndex subs nx => !subs.isEmpty && okSubs6 o subs && okNext6 o nx
    | .key s nx => noNulB s && okNext6 o nx
    | .const .anyKey nx => okNext6 o nx
    | .const .anyArray nx => okNext6 o nx
    | .any a b nx => lvlOK a && lvlOK b && okNext6 o nx
    | .method _ nx => okNext6 o nx
    | .unary .datetime (some (.str t none)) nx => noNulB t && okNext6 o nx
    | .unary op none nx => (op == .date || op == .datetime || isTimeOp op) && okNext6 o nx
    | .unary op (some (.integer p none)) nx => isTimeOp op && intOK p && okNext6 o nx
    | .binary .decimal l r nx => okDecArgs l r && okNext6 o nx
    | _ => false
  def okNext6 (o : Oracles) : Option Node → Bool
    | none => true
    | some n => okStep6 o n
end

inductive StepShape6 (o : Oracles) : Node → Prop
  | simple (n : Node) (h : StepShape n) (hnx : okNext6 o n.next = true) : StepShape6 o n
  | filter (p : Node) (nx : Option Node) (hp : okPred6 o p = true) (hnx : okNext6 o nx = true) :
      StepShape6 o (.unary .filter (some p) nx)
  | index (subs : List Node) (nx : Option Node) (hne : subs ≠ []) (hs : okSubs6 o subs = true)
      (hnx : okNext6 o nx = true) : StepShape6 o (.arrayIndex subs nx)
  | time0 (op : UnOp) (nx : Option Node) (hop : isTimeOp op = true) (hnx : okNext6 o nx = true) :
      StepShape6 o (.unary op none nx)
  | time1 (op : UnOp) (p : Int) (nx : Option Node) (hop : isTimeOp op = true) (hp : intOK p = true)
      (hnx : okNext6 o nx = true) : StepShape6 o (.unary op (some (.integer p none)) nx)
  | decimal (l r nx : Option Node) (h : okDecArgs l r = true) (hnx : okNext6 o nx = true) :
      StepShape6 o (.binary .decimal l r nx)

theorem okStep6_cases {o : Oracles} {n : Node} (h : okStep6 o n = true) : StepShape6 o n := by
  unfold okStep6 at h
  split at h
  · simp only [Bool.and_eq_true] at h; exact .filter _ _ h.1 h.2
  · simp only [Bool.and_eq_true, Bool.not_eq_true', List.isEmpty_eq_false_iff] at h
    exact .index _ _ h.1.1 h.1.2 h.2
  · simp only [Bool.and_eq_true] at h; exact .simple _ (.key _ _ (noNul_of_B h.1)) h.2
  · exact .simple _ (.anyKey _) h
  · exact .simple _ (.anyArray _) h
  · simp only [Bool.and_eq_true] at h; exact .simple _ (.any _ _ _ h.1.1 h.1.2) h.2
  · exact .simple _ (.method _ _) h
  · simp only [Bool.and_eq_true] at h; exact .simple _ (.datetime1 _ _ (noNul_of_B h.1)) h.2
  · rename_i op nx
    simp only [Bool.and_eq_true, Bool.or_eq_true, beq_iff_eq] at h
    rcases h.1 with (h1 | h1) | h1
    · subst h1; exact .simple _ (.date _) h.2
    · subst h1; exact .simple _ (.datetime0 _) h.2
    · exact .time0 _ _ h1 h.2
  · simp only [Bool.and_eq_true] at h; exact .time1 _ _ _ h.1.1 h.1.2 h.2
  · simp only [Bool.and_eq_true] at h; exact .decimal _ _ _ h.1 h.2
  · simp at h

inductive ExprShape6 (o : Oracles) : Node → Prop
  | const (k : Const) (nx : Option Node) (hk : isOpdConst k = true) (h : okNext6 o nx = true) : ExprShape6 o (.const k nx)
  | last (nx : Option Node) (h : okNext6 o nx = true) : ExprShape6 o (.const .last nx)
  | str (s : List Char) (nx : Option Node) (hs : NoNul s) (h : okNext6 o nx = true) : ExprShape6 o (.str s nx)
  | var (s : List Char) (nx : Option Node) (hs : NoNul s) (h : okNext6 o nx = true) : ExprShape6 o (.var s nx)
  | nat (i : Int) (h : intOK i = true) : ExprShape6 o (.integer i none)
  | neg (i : Int) (h : negOK i = true) : ExprShape6 o (.integer i none)
  | intChain (i : Int) (n : Node) (hi : litOK i = true) (hn : okStep6 o n = true) : ExprShape6 o (.integer i (some n))
  | num (g : F64) (hg : numOK g = true) : ExprShape6 o (.numeric g none)
  | numChain (g : F64) (n : Node) (hg : numOK g = true) (hn : okStep6 o n = true) : ExprShape6 o (.numeric g (some n))
  | sign (op : UnOp) (x : Node) (hop : isSign op = true) (hx : okExpr6 o x = true) (hn : notNumLit x = true) :
      ExprShape6 o (.unary op (some x) none)
  | arith (op : BinOp) (l r : Node) (hop : isArith op = true) (hl : okExpr6 o l = true) (hr : okExpr6 o r = true) :
      ExprShape6 o (.binary op (some l) (some r) none)

theorem okExpr6_cases {o : Oracles} {n : Node} (h : okExpr6 o n = true) : ExprShape6 o n := by
  unfold okExpr6 at h
  split at h
  · rename_i k nx
    simp only [Bool.and_eq_true, Bool.or_eq_true, beq_iff_eq] at h
    rcases h.1 with h1 | h1
    · exact .const _ _ h1 h.2
    · subst h1; exact .last _ h.2
  · simp only [Bool.and_eq_true] at h; exact .str _ _ (noNul_of_B h.1) h.2
  · simp only [Bool.and_eq_true] at h; exact .var _ _ (noNul_of_B h.1) h.2
  · rename_i i
    simp only [litOK, Bool.and_eq_true, decide_eq_true_eq] at h
    by_cases hi : 0 ≤ i
    · exact .nat i (by simp only [intOK, Bool.and_eq_true, decide_eq_true_eq]; omega)
    · exact .neg i (by simp only [negOK, Bool.and_eq_true, decide_eq_true_eq]; omega)
  · simp only [Bool.and_eq_true] at h; exact .intChain _ _ h.1 h.2
  · exact .num _ h
  · simp only [Bool.and_eq_true] at h; exact .numChain _ _ h.1 h.2
  · simp only [Bool.and_eq_true] at h; exact .sign _ _ h.1.1 h.1.2 h.2
  · simp only [Bool.and_eq_true] at h; exact .arith _ _ _ h.1.1 h.1.2 h.2
  · simp at h

theorem exprPrio6 {o : Oracles} {e : Node} (h : ExprShape6 o e) :
    3 ≤ Print.priority e ∧ Print.priority e ≤ 6 ∧ (isBin e = true → Print.priority e ≤ 4) ∧
      (isAddLevel e = true → Print.priority e = 3) := by
  cases h with
  | const => refine ⟨?_, ?_, ?_, ?_⟩ <;> simp [Print.priority, isBin, isAddLevel]
  | last => refine ⟨?_, ?_, ?_, ?_⟩ <;> simp [Print.priority, isBin, isAddLevel]
  | str => refine ⟨?_, ?_, ?_, ?_⟩ <;> simp [Print.priority, isBin, isAddLevel]
  | var => refine ⟨?_, ?_, ?_, ?_⟩ <;> simp [Print.priority, isBin, isAddLevel]
  | nat => refine ⟨?_, ?_, ?_, ?_⟩ <;> simp [Print.priority, isBin, isAddLevel]
  | neg => refine ⟨?_, ?_, ?_, ?_⟩ <;> simp [Print.priority, isBin, isAddLevel]
  | intChain => refine ⟨?_, ?_, ?_, ?_⟩ <;> simp [Print.priority, isBin, isAddLevel]
  | num => refine ⟨?_, ?_, ?_, ?_⟩ <;> simp [Print.priority, isBin, isAddLevel]
  | numChain => refine ⟨?_, ?_, ?_, ?_⟩ <;> simp [Print.priority, isBin, isAddLevel]
  | sign op x hop _ _ =>
    cases op <;> simp [isSign] at hop <;>
      (refine ⟨?_, ?_, ?_, ?_⟩ <;> simp [Print.priority, Print.unPriority, isBin, isAddLevel])
  | arith op l r hop _ _ =>
    cases op <;> simp [isArith] at hop <;>
      (refine ⟨?_, ?_, ?_, ?_⟩ <;> simp [Print.priority, Print.binPriority, isBin, isAddLevel])

inductive PredShape6 (o : Oracles) : Node → Prop
  | cmp (op : BinOp) (l r : Node) (hop : isCmp op = true) (hl : okExpr6 o l = true) (hr : okExpr6 o r = true) :
      PredShape6 o (.binary op (some l) (some r) none)
  | logic (op : BinOp) (l r : Node) (hop : isLogic op = true) (hl : okPred6 o l = true) (hr : okPred6 o r = true) :
      PredShape6 o (.binary op (some l) (some r) none)
  | starts (l : Node) (s : List Char) (isVar : Bool) (hl : okExpr6 o l = true) (hs : NoNul s) :
      PredShape6 o (.binary .startsWith (some l) (some (if isVar then .var s none else .str s none)) none)
  | not (p : Node) (h : okPred6 o p = true) : PredShape6 o (.unary .not (some p) none)
  | exists_ (x : Node) (h : okExpr6 o x = true) : PredShape6 o (.unary .exists (some x) none)
  | isUnknown (p : Node) (h : okPred6 o p = true) : PredShape6 o (.unary .isUnknown (some p) none)
  | regex (x : Node) (pat : List Char) (fl : Nat) (hx : okExpr6 o x = true) (hp : NoNul pat) (hfl : fl < 32)
      (hok : okFlags fl = true) (hacc : o.regexAccepts pat fl = true) : PredShape6 o (.regex x pat fl none)

theorem okPred6_cases {o : Oracles} {p : Node} (h : okPred6 o p = true) : PredShape6 o p := by
  unfold okPred6 at h
  split at h
  · rename_i op l r
    split at h
    · rename_i hc; simp only [Bool.and_eq_true] at h; exact .cmp op l r hc h.1 h.2
    · split at h
      · rename_i hc; simp only [Bool.and_eq_true] at h; exact .logic op l r hc h.1 h.2
      · split at h
        · rename_i hc
          subst hc
          simp only [Bool.and_eq_true] at h
          obtain ⟨h1, h2⟩ := h
          split at h2
          · rename_i b s hs
            rcases strOrVar?_some hs with ⟨hb, hr⟩ | ⟨hb, hr⟩
            · rw [hr]; exact .starts l s false h1 (noNul_of_B h2)
            · rw [hr]; exact .starts l s true h1 (noNul_of_B h2)
          · simp at h2
        · simp at h
  · exact .not _ h
  · exact .exists_ _ h
  · exact .isUnknown _ h
  · rename_i x pat fl
    simp only [Bool.and_eq_true] at h
    obtain ⟨⟨⟨h1, h2⟩, h3⟩, h4⟩ := h
    have hfl : fl < 32 := by
      simp only [okFlags, Bool.and_eq_true, decide_eq_true_eq] at h3
      exact h3.1
    exact .regex x pat fl h1 (noNul_of_B h2) hfl h3 h4
  · simp at h

theorem prio_facts6 {o : Oracles} {p : Node} (h : PredShape6 o p) :
    decide (Print.priority p ≤ Print.binPriority .and) = isAndOr p ∧
      decide (Print.priority p ≤ Print.binPriority .or) = isOr p := by
  cases h with
  | cmp op l r hop _ _ => cases op <;> simp [isCmp] at hop <;> exact ⟨rfl, rfl⟩
  | logic op l r hop _ _ => cases op <;> simp [isLogic] at hop <;> exact ⟨rfl, rfl⟩
  | starts l s isVar => exact ⟨rfl, rfl⟩
  | not => exact ⟨rfl, rfl⟩
  | exists_ => exact ⟨rfl, rfl⟩
  | isUnknown => exact ⟨rfl, rfl⟩
  | regex => exact ⟨rfl, rfl⟩

/-! ## Stage 6: the induction -/

structure AllOK6 (o : Oracles) (k : Nat) : Prop where
  expr : ∀ n : Node, sizeOf n ≤ k → okExpr6 o n = true → ExprOK o n
  pred : ∀ p : Node, sizeOf p ≤ k → okPred6 o p = true → PredOK o p
  step : ∀ n : Node, sizeOf n ≤ k → okStep6 o n = true → StepOK o n
  chain : ∀ nx : Option Node, sizeOf nx ≤ k → okNext6 o nx = true → ChainOK o nx

theorem okStep6_next {o : Oracles} {n : Node} (h : okStep6 o n = true) : okNext6 o n.next = true := by
  cases okStep6_cases h with
  | simple _ _ hnx => exact hnx
  | filter _ _ _ hnx => exact hnx
  | index _ _ _ _ hnx => exact hnx
  | time0 _ _ _ hnx => exact hnx
  | time1 _ _ _ _ _ hnx => exact hnx
  | decimal _ _ _ _ hnx => exact hnx

theorem okSubs6_mem {o : Oracles} : ∀ (subs : List Node), okSubs6 o subs = true → ∀ s ∈ subs, okSub6 o s = true := by
  intro subs
  induction subs with
  | nil => intro _ s hs; simp at hs
  | cons a ss ih =>
    intro h s hs
    simp only [okSubs6, Bool.and_eq_true] at h
    simp only [List.mem_cons] at hs
    rcases hs with rfl | hs
    · exact h.1
    · exact ih h.2 s hs

theorem okSub6_cases {o : Oracles} {s : Node} (h : okSub6 o s = true) :
    (∃ l, s = .binary .subscript (some l) none none ∧ okExpr6 o l = true) ∨
    (∃ l r, s = .binary .subscript (some l) (some r) none ∧ okExpr6 o l = true ∧ okExpr6 o r = true) := by
  unfold okSub6 at h
  split at h
  · exact Or.inl ⟨_, rfl, h⟩
  · simp only [Bool.and_eq_true] at h; exact Or.inr ⟨_, _, rfl, h.1, h.2⟩
  · simp at h

section
variable {o : Oracles} (ok : OrOK o)
include ok

theorem allOK6 : ∀ k, AllOK6 o k := by
  intro k
  induction k with
  | zero =>
    refine ⟨?_, ?_, ?_, ?_⟩
    · intro n hk _; have := sizeOf_node_pos n; omega
    · intro n hk _; have := sizeOf_node_pos n; omega
    · intro n hk _; have := sizeOf_node_pos n; omega
    · intro nx hk _
      cases nx with
      | none => exact chain_nil
      | some n => simp at hk
  | succ k ih =>
    refine ⟨?_, ?_, ?_, ?_⟩
    · intro n hk h
      cases okExpr6_cases h with
      | const c nx hc hnx =>
        simp only [Node.const.sizeOf_spec] at hk
        exact exprOK_opd ok (opdOK_const ok c hc (ih.chain nx (by omega) hnx))
      | last nx hnx =>
        simp only [Node.const.sizeOf_spec] at hk
        exact exprOK_last ok (ih.chain nx (by omega) hnx)
      | str s nx hs hnx =>
        simp only [Node.str.sizeOf_spec] at hk
        exact exprOK_opd ok (opdOK_str ok s hs (ih.chain nx (by omega) hnx))
      | var s nx hs hnx =>
        simp only [Node.var.sizeOf_spec] at hk
        exact exprOK_opd ok (opdOK_var ok s hs (ih.chain nx (by omega) hnx))
      | nat i hi => exact exprOK_opd ok (opdOK_int ok i hi)
      | neg i hi => exact exprOK_neg ok i hi
      | intChain i n hi hn =>
        simp only [Node.integer.sizeOf_spec, Option.some.sizeOf_spec] at hk
        have hlt := sizeOf_next_lt n
        have hlit : ExprOK o (.integer i none) := by
          simp only [litOK, Bool.and_eq_true, decide_eq_true_eq] at hi
          by_cases h0 : 0 ≤ i
          · exact exprOK_opd ok (opdOK_int ok i (by simp only [intOK, Bool.and_eq_true, decide_eq_true_eq]; omega))
          · exact exprOK_neg ok i (by simp only [negOK, Bool.and_eq_true, decide_eq_true_eq]; omega)
        exact exprOK_intChain ok i n hlit (ih.step n (by omega) hn) (ih.chain n.next (by omega) (okStep6_next hn))
      | num g hg => exact exprOK_num ok hg
      | numChain g n hg hn =>
        simp only [Node.numeric.sizeOf_spec, Option.some.sizeOf_spec] at hk
        have hlt := sizeOf_next_lt n
        exact exprOK_numChain ok g n (exprOK_num ok hg) (ih.step n (by omega) hn)
          (ih.chain n.next (by omega) (okStep6_next hn))
      | sign op x hop hx hn =>
        simp only [Node.unary.sizeOf_spec, Option.some.sizeOf_spec] at hk
        have hp := exprPrio6 (okExpr6_cases hx)
        refine exprOK_sign ok op x hop (ih.expr x (by omega) hx) hn ?_
        rw [sign_prio hop]
        cases hb : isBin x with
        | false => exact Or.inr rfl
        | true => left; have := hp.2.2.1 hb; simp only [decide_eq_true_eq]; omega
      | arith op l r hop hl hr =>
        simp only [Node.binary.sizeOf_spec, Option.some.sizeOf_spec] at hk
        have hpl := exprPrio6 (okExpr6_cases hl)
        have hpr := exprPrio6 (okExpr6_cases hr)
        rcases arith_split hop with hm | ha
        · refine exprOK_mul ok op l r hm (ih.expr l (by omega) hl) (ih.expr r (by omega) hr) ?_ ?_
          · rw [mul_prio hm]
            cases hb : isBin l with
            | false => exact Or.inr rfl
            | true => left; have := hpl.2.2.1 hb; simp only [decide_eq_true_eq]; omega
          · rw [mul_prio hm]
            cases hb : isBin r with
            | false => exact Or.inr rfl
            | true => left; have := hpr.2.2.1 hb; simp only [decide_eq_true_eq]; omega
        · refine exprOK_add ok op l r ha (ih.expr l (by omega) hl) (ih.expr r (by omega) hr) ?_ ?_
          · rw [add_prio ha]
            cases hb : isAddLevel l with
            | false => exact Or.inr rfl
            | true => left; have := hpl.2.2.2 hb; simp only [decide_eq_true_eq]; omega
          · rw [add_prio ha]
            cases hb : isAddLevel r with
            | false => exact Or.inr rfl
            | true => left; have := hpr.2.2.2 hb; simp only [decide_eq_true_eq]; omega
    · intro p hk h
      cases okPred6_cases h with
      | cmp op l r hop hl hr =>
        simp only [Node.binary.sizeOf_spec, Option.some.sizeOf_spec] at hk
        have hpl := exprPrio6 (okExpr6_cases hl)
        have hpr := exprPrio6 (okExpr6_cases hr)
        refine predOK_cmpE ok op l r hop (ih.expr l (by omega) hl) (ih.expr r (by omega) hr) ?_ ?_
        · rw [cmp_prio hop]; simp only [decide_eq_false_iff_not]; omega
        · rw [cmp_prio hop]; simp only [decide_eq_false_iff_not]; omega
      | logic op l r hop hl hr =>
        simp only [Node.binary.sizeOf_spec, Option.some.sizeOf_spec] at hk
        exact predOK_logic ok op l r hop (prio_facts6 (okPred6_cases hl)) (prio_facts6 (okPred6_cases hr))
          (ih.pred l (by omega) hl) (ih.pred r (by omega) hr)
      | starts l s isVar hl hs =>
        simp only [Node.binary.sizeOf_spec, Option.some.sizeOf_spec] at hk
        have hpl := exprPrio6 (okExpr6_cases hl)
        refine predOK_startsE ok l s isVar (ih.expr l (by omega) hl) hs ?_
        have : Print.binPriority .startsWith = 2 := rfl
        rw [this]; simp only [decide_eq_false_iff_not]; omega
      | not q hq =>
        simp only [Node.unary.sizeOf_spec, Option.some.sizeOf_spec] at hk
        exact predOK_not ok q (ih.pred q (by omega) hq)
      | exists_ x hx =>
        simp only [Node.unary.sizeOf_spec, Option.some.sizeOf_spec] at hk
        exact predOK_existsE ok x (ih.expr x (by omega) hx)
      | isUnknown q hq =>
        simp only [Node.unary.sizeOf_spec, Option.some.sizeOf_spec] at hk
        exact predOK_isUnknown ok q (ih.pred q (by omega) hq)
      | regex x pat fl hx hp hfl hok hacc =>
        simp only [Node.regex.sizeOf_spec] at hk
        have hpx := exprPrio6 (okExpr6_cases hx)
        exact predOK_regexE ok x pat fl (ih.expr x (by omega) hx) hp hfl hok hacc
          (by simp only [decide_eq_true_eq]; omega)
    · intro n hk h
      cases okStep6_cases h with
      | simple _ hs hnx => exact stepOK_simple ok hs
      | filter p nx' hp hnx =>
        simp only [Node.unary.sizeOf_spec, Option.some.sizeOf_spec] at hk
        exact stepOK_filter ok p nx' (ih.pred p (by omega) hp)
      | index subs nx' hne hs hnx =>
        simp only [Node.arrayIndex.sizeOf_spec] at hk
        refine stepOK_index5 ok subs nx' hne ?_
        intro s hsm
        have hlt := List.sizeOf_lt_of_mem hsm
        rcases okSub6_cases (okSubs6_mem subs hs s hsm) with ⟨l, rfl, hl⟩ | ⟨l, r, rfl, hl, hr⟩
        · simp only [Node.binary.sizeOf_spec, Option.some.sizeOf_spec] at hlt
          exact subOK_one ok l (ih.expr l (by omega) hl)
        · simp only [Node.binary.sizeOf_spec, Option.some.sizeOf_spec] at hlt
          exact subOK_two ok l r (ih.expr l (by omega) hl) (ih.expr r (by omega) hr)
      | time0 op nx' hop hnx => exact stepOK_time0 ok op hop nx'
      | time1 op p nx' hop hp hnx => exact stepOK_time1 ok op hop p hp nx'
      | decimal l r nx' hd' hnx => exact stepOK_decimal ok l r nx' hd'
    · intro nx hk h
      cases nx with
      | none => exact chain_nil
      | some n =>
        simp only [Option.some.sizeOf_spec] at hk
        have hs : okStep6 o n = true := by simpa [okNext6] using h
        have hlt := sizeOf_next_lt n
        have hstep : StepOK o n := ih.step n (by omega) hs
        exact chain_cons hstep (ih.chain n.next (by omega) (okStep6_next hs))

end

/-- **stage 6**: a valid tree that is a stage-6 predicate (`pred = true`) or a stage-6 expression
    (`pred = false`), in either mode.  Stage 6 is stage 5 (`RoundTrip.RT5`) with, in addition, numeric
    literals satisfying `numOK` wherever an integer literal may stand as an operand: alone, negative,
    or followed by accessors. -/
def RT6 (o : Oracles) (a : AST) : Bool :=
  validate a.root && (if a.pred then okPred6 o a.root else okExpr6 o a.root)

section
variable {o : Oracles}

/-- **Stage 6.** -/
theorem roundtrip_stage6' (ok : OrOK o) (a : AST) (h : RT6 o a = true) :
    ∃ txt, Print.toString o.isPrint a = some txt ∧
      ∀ bytes, decodeAll bytes = txt.map Src.ch → parse o bytes = .ok a := by
  obtain ⟨root, lax, pred⟩ := a
  simp only [RT6, Bool.and_eq_true] at h
  obtain ⟨hv, hr⟩ := h
  cases pred with
  | true =>
    simp only [if_true] at hr
    exact roundtrip_pred ok ((allOK6 ok _).pred root (Nat.le_refl _) hr) hv lax
  | false =>
    simp only [Bool.false_eq_true, if_false] at hr
    exact roundtrip_expr ok ((allOK6 ok _).expr root (Nat.le_refl _) hr) hv lax

end
/-! ## Stage 5 ⊆ stage 6 -/

theorem simpleStep_okStep6 {o : Oracles} {n : Node} (h : StepShape n) (hn : okNext6 o n.next = true)
    (hsubs : ∀ subs, (∀ s ∈ subs, okSub s = true) → okSubs6 o subs = true) :
    okStep6 o n = true := by
  cases h with
  | index subs nx hne hs =>
    simp only [Node.next] at hn
    simp [okStep6, hne, hsubs subs hs, hn]
  | key s nx hs => simp_all [okStep6, Node.next, noNulB_of hs]
  | anyKey nx => simp_all [okStep6, Node.next]
  | anyArray nx => simp_all [okStep6, Node.next]
  | any a b nx ha hb => simp_all [okStep6, Node.next]
  | method m nx => simp_all [okStep6, Node.next]
  | date nx => simp_all [okStep6, Node.next]
  | datetime0 nx => simp_all [okStep6, Node.next]
  | datetime1 t nx ht => simp_all [okStep6, Node.next, noNulB_of ht]

theorem okIdx_okExpr6 (o : Oracles) {l : Node} (h : okIdx l = true) : okExpr6 o l = true := by
  rcases okIdx_cases h with ⟨i, rfl, hi⟩ | rfl
  · simp [okExpr6, intOK_litOK hi]
  · simp [okExpr6, okNext6]

theorem okSub_okSub6 (o : Oracles) {s : Node} (h : okSub s = true) : okSub6 o s = true := by
  obtain ⟨l, r, rfl, hl, hr⟩ := okSub_cases h
  cases r with
  | none => simp [okSub6, okIdx_okExpr6 o hl]
  | some r => simp [okSub6, okIdx_okExpr6 o hl, okIdx_okExpr6 o (hr r rfl)]

theorem okSubs6_of (o : Oracles) : ∀ (subs : List Node), (∀ s ∈ subs, okSub s = true) → okSubs6 o subs = true := by
  intro subs
  induction subs with
  | nil => intro _; rfl
  | cons a ss ih =>
    intro h
    simp [okSubs6, okSub_okSub6 o (h a (by simp)), ih (fun s hs => h s (by simp [hs]))]

structure Sub56 (o : Oracles) (k : Nat) : Prop where
  expr : ∀ n : Node, sizeOf n ≤ k → okExpr5 o n = true → okExpr6 o n = true
  pred : ∀ p : Node, sizeOf p ≤ k → okPred5 o p = true → okPred6 o p = true
  step : ∀ n : Node, sizeOf n ≤ k → okStep5 o n = true → okStep6 o n = true
  next : ∀ nx : Option Node, sizeOf nx ≤ k → okNext5 o nx = true → okNext6 o nx = true

theorem sub56 (o : Oracles) : ∀ k, Sub56 o k := by
  intro k
  induction k with
  | zero =>
    refine ⟨?_, ?_, ?_, ?_⟩
    · intro n hk _; have := sizeOf_node_pos n; omega
    · intro n hk _; have := sizeOf_node_pos n; omega
    · intro n hk _; have := sizeOf_node_pos n; omega
    · intro nx hk _
      cases nx with
      | none => rfl
      | some n => simp at hk
  | succ k ih =>
    refine ⟨?_, ?_, ?_, ?_⟩
    · intro n hk h
      cases okExpr5_cases h with
      | const c nx hc hnx =>
        simp only [Node.const.sizeOf_spec] at hk
        simp [okExpr6, hc, ih.next nx (by omega) hnx]
      | last nx hnx =>
        simp only [Node.const.sizeOf_spec] at hk
        simp [okExpr6, ih.next nx (by omega) hnx]
      | str s nx hs hnx =>
        simp only [Node.str.sizeOf_spec] at hk
        simp [okExpr6, noNulB_of hs, ih.next nx (by omega) hnx]
      | var s nx hs hnx =>
        simp only [Node.var.sizeOf_spec] at hk
        simp [okExpr6, noNulB_of hs, ih.next nx (by omega) hnx]
      | nat i hi => simp [okExpr6, intOK_litOK hi]
      | neg i hi =>
        have : litOK i = true := by
          simp only [negOK, litOK, Bool.and_eq_true, decide_eq_true_eq] at hi ⊢; omega
        simp [okExpr6, this]
      | intChain i n hi hn =>
        simp only [Node.integer.sizeOf_spec, Option.some.sizeOf_spec] at hk
        simp [okExpr6, hi, ih.step n (by omega) hn]
      | sign op x hop hx hn =>
        simp only [Node.unary.sizeOf_spec, Option.some.sizeOf_spec] at hk
        simp [okExpr6, hop, hn, ih.expr x (by omega) hx]
      | arith op l r hop hl hr =>
        simp only [Node.binary.sizeOf_spec, Option.some.sizeOf_spec] at hk
        simp [okExpr6, hop, ih.expr l (by omega) hl, ih.expr r (by omega) hr]
    · intro p hk h
      cases okPred5_cases h with
      | cmp op l r hop hl hr =>
        simp only [Node.binary.sizeOf_spec, Option.some.sizeOf_spec] at hk
        simp [okPred6, hop, ih.expr l (by omega) hl, ih.expr r (by omega) hr]
      | logic op l r hop hl hr =>
        simp only [Node.binary.sizeOf_spec, Option.some.sizeOf_spec] at hk
        have hnc : isCmp op = false := by cases op <;> simp [isLogic] at hop <;> rfl
        simp [okPred6, hop, hnc, ih.pred l (by omega) hl, ih.pred r (by omega) hr]
      | starts l s isVar hl hs =>
        simp only [Node.binary.sizeOf_spec, Option.some.sizeOf_spec] at hk
        cases isVar <;> simp [okPred6, isCmp, isLogic, strOrVar?, noNulB_of hs, ih.expr l (by omega) hl]
      | not q hq =>
        simp only [Node.unary.sizeOf_spec, Option.some.sizeOf_spec] at hk
        simp [okPred6, ih.pred q (by omega) hq]
      | exists_ x hx =>
        simp only [Node.unary.sizeOf_spec, Option.some.sizeOf_spec] at hk
        simp [okPred6, ih.expr x (by omega) hx]
      | isUnknown q hq =>
        simp only [Node.unary.sizeOf_spec, Option.some.sizeOf_spec] at hk
        simp [okPred6, ih.pred q (by omega) hq]
      | regex x pat fl hx hp hfl hok hacc =>
        simp only [Node.regex.sizeOf_spec] at hk
        simp [okPred6, ih.expr x (by omega) hx, noNulB_of hp, hok, hacc]
    · intro n hk h
      cases okStep5_cases h with
      | simple _ hs hnx =>
        have := sizeOf_next_lt n
        exact simpleStep_okStep6 hs (ih.next n.next (by omega) hnx) (okSubs6_of o)
      | filter p nx' hp hnx =>
        simp only [Node.unary.sizeOf_spec, Option.some.sizeOf_spec] at hk
        simp [okStep6, ih.pred p (by omega) hp, ih.next nx' (by omega) hnx]
      | index subs nx' hne hs hnx =>
        simp only [Node.arrayIndex.sizeOf_spec] at hk
        have hsubs : okSubs6 o subs = true := by
          have hmem := okSubs5_mem subs hs
          have : ∀ (l : List Node), (∀ s ∈ l, s ∈ subs) → okSubs6 o l = true := by
            intro l
            induction l with
            | nil => intro _; rfl
            | cons a ss ihl =>
              intro hin
              have ha : a ∈ subs := hin a (by simp)
              have hlt := List.sizeOf_lt_of_mem ha
              have h6 : okSub6 o a = true := by
                rcases okSub5_cases (hmem a ha) with ⟨l, rfl, hl⟩ | ⟨l, r, rfl, hl, hr⟩
                · simp only [Node.binary.sizeOf_spec, Option.some.sizeOf_spec] at hlt
                  simp [okSub6, ih.expr l (by omega) hl]
                · simp only [Node.binary.sizeOf_spec, Option.some.sizeOf_spec] at hlt
                  simp [okSub6, ih.expr l (by omega) hl, ih.expr r (by omega) hr]
              simp [okSubs6, h6, ihl (fun s hs => hin s (by simp [hs]))]
          exact this subs (fun _ h => h)
        simp [okStep6, hne, hsubs, ih.next nx' (by omega) hnx]
      | time0 op nx' hop hnx =>
        simp only [Node.unary.sizeOf_spec] at hk
        have h6 := ih.next nx' (by omega) hnx
        cases op <;> simp [isTimeOp] at hop <;> simp [okStep6, isTimeOp, h6]
      | time1 op p nx' hop hp hnx =>
        simp only [Node.unary.sizeOf_spec] at hk
        have h6 := ih.next nx' (by omega) hnx
        cases op <;> simp [isTimeOp] at hop <;> simp [okStep6, isTimeOp, hp, h6]
      | decimal l r nx' hd' hnx =>
        simp only [Node.binary.sizeOf_spec] at hk
        simp [okStep6, hd', ih.next nx' (by omega) hnx]
    · intro nx hk h
      cases nx with
      | none => rfl
      | some n =>
        simp only [Option.some.sizeOf_spec] at hk
        simp only [okNext6]
        exact ih.step n (by omega) (by simpa [okNext5] using h)

/-- **stage 5 is part of stage 6** -/
theorem RT5_RT6 (o : Oracles) (a : AST) (h : RT5 o a = true) : RT6 o a = true := by
  obtain ⟨root, lax, pred⟩ := a
  simp only [RT5, RT6, Bool.and_eq_true] at h ⊢
  refine ⟨h.1, ?_⟩
  cases pred with
  | true => simpa using (sub56 o _).pred root (Nat.le_refl _) (by simpa using h.2)
  | false => simpa using (sub56 o _).expr root (Nat.le_refl _) (by simpa using h.2)

/-! ## The class contains every value that is not integral -/

/-- the value `± m · 2^e` is an integer -/
def Integral : F64 → Prop
  | .fin _ m e => e ≥ 0 ∨ 2 ^ (-e).toNat ∣ m
  | _ => False

theorem halfEven_zero (q : Nat) : F64.halfEven q 0 1 = q := by
  unfold F64.halfEven
  simp

/-- rounding a natural number gives an integral double -/
theorem roundPos_nat_integral {neg neg' : Bool} {n m : Nat} {e : Int}
    (h : F64.roundPos neg n 1 = .fin neg' m e) : Integral (.fin neg' m e) := by
  unfold F64.roundPos at h
  split at h
  · injection h with _ h2 h3
    subst h2
    right; exact Nat.dvd_zero _
  · simp only at h
    generalize hE : F64.pickExp n 1 = E at h
    by_cases hE0 : E ≥ 0
    · split at h
      · unfold F64.finish at h
        split at h
        · cases h
        · injection h with _ _ h3
          left; omega
      · unfold F64.finish at h
        split at h
        · cases h
        · injection h with _ _ h3
          left; omega
    · have hq : F64.qr n 1 E = (n * 2 ^ (-E).toNat, 0, 1) := by
        unfold F64.qr
        rw [if_neg hE0]
        simp [Nat.mod_one]
      rw [hq] at h
      simp only [halfEven_zero] at h
      split at h
      · rename_i h53
        unfold F64.finish at h
        split at h
        · cases h
        · injection h with _ h2 h3
          subst h2; subst h3
          by_cases h1 : E + 1 ≥ 0
          · left; exact h1
          · right
            have hdvd : 2 ^ (-E).toNat ∣ 2 ^ 53 := ⟨n, by rw [← h53, Nat.mul_comm]⟩
            have hle : (-E).toNat ≤ 53 := by
              rcases Nat.lt_or_ge 53 (-E).toNat with hgt | hle
              · have := Nat.le_of_dvd (by decide) hdvd
                have := Nat.pow_lt_pow_right (a := 2) (by decide) hgt
                omega
              · exact hle
            have : (-(E + 1)).toNat ≤ 52 := by omega
            exact Nat.pow_dvd_pow 2 this
      · unfold F64.finish at h
        split at h
        · cases h
        · injection h with _ h2 h3
          subst h2; subst h3
          right
          exact ⟨n, Nat.mul_comm _ _⟩

/-- a decimal `c · 10^p` without fraction (`p ≥ 0`) rounds to an integral double -/
theorem scale10_nonneg_integral {neg neg' : Bool} {c : Nat} {p : Int} {m : Nat} {e : Int} (hp : p ≥ 0)
    (h : Decimal.scale10 neg c p = .fin neg' m e) : Integral (.fin neg' m e) := by
  unfold Decimal.scale10 at h
  split at h
  · injection h with _ h2 h3
    subst h2
    right; exact Nat.dvd_zero _
  · simp only at h
    split at h
    · cases h
    · split at h
      · injection h with _ h2 h3
        subst h2
        right; exact Nat.dvd_zero _
      · first
          | exact roundPos_nat_integral h
          | (rw [if_pos hp] at h; exact roundPos_nat_integral h)

theorem wfB_of_wf {neg : Bool} {m : Nat} {e : Int} (h : F64.WF (.fin neg m e)) : wfB m e = true := by
  unfold F64.WF at h
  simp only [wfB, Bool.or_eq_true, Bool.and_eq_true, decide_eq_true_eq]
  rcases Nat.lt_or_ge m (2 ^ 52) with hlt | hge
  · exact Or.inl ⟨hlt, h.1 hlt⟩
  · have := h.2 hge
    exact Or.inr ⟨⟨⟨hge, this.1⟩, this.2.1⟩, this.2.2⟩

/-- **every finite double in canonical form whose value is not an integer is in the class**: its shortest
    decimal has a fraction, so its text has a `.` or an exponent and cannot be taken for an integer
    literal -/
theorem numOK_of_not_integral {neg : Bool} {m : Nat} {e : Int} (hwf : F64.WF (.fin neg m e))
    (hni : ¬ Integral (.fin neg m e)) : numOK (.fin neg m e) = true := by
  have hm : m ≠ 0 := by
    intro h0; subst h0
    exact hni (Or.inr (Nat.dvd_zero _))
  have hr := shortest_signed neg hm hwf
  simp only [numOK, shapeOK, Bool.and_eq_true, Bool.or_eq_true, decide_eq_true_eq]
  refine ⟨⟨hm, wfB_of_wf hwf⟩, Or.inl ?_⟩
  rcases Int.lt_or_le (Decimal.shortest m e).2 0 with hlt | hge
  · exact hlt
  · exact absurd (scale10_nonneg_integral hge hr) hni

/-! ## Outside the class (D5): the text is a string of digits -/

/-- a non-zero value outside the class prints as a plain digit string (an integer literal): the shortest
    decimal has no fraction and is below `1e21` -/
theorem layoutJ_digits_of_not_shape (c : Nat) (p : Int) (hs : shapeOK (Decimal.formatNat c) p = false) :
    AllDig (layoutJ (Decimal.formatNat c) p) := by
  have hlen := FloatText.formatNat_length_pos c
  simp only [shapeOK, Bool.or_eq_false_iff, decide_eq_false_iff_not] at hs
  unfold layoutJ
  have hx : ¬ (lead (Decimal.formatNat c) p < -6 ∨ lead (Decimal.formatNat c) p ≥ 21) := by
    unfold lead at hs ⊢
    omega
  rw [if_neg hx]
  unfold Decimal.layoutF
  rw [if_pos (by omega)]
  exact FloatText.allDig_append (allDig_formatNat c) (FloatText.zeros_allDig _)

end NumRT
end Sqljson
