import Sqljson.Lemmas.Good
/-! `Good` lifted to `exec.query` and the entry points -/
namespace Sqljson
namespace Api
open Exec

theorem query_good (c : Ctx) (fuel : Nat) (s : St) (n : Node) (v : Item) (f : Found) :
    Good s f (query c fuel s n v f) := by
  unfold query
  split
  · rename_i hcond
    have hfn : f = none := by cases f <;> simp_all
    subst hfn
    have h := executeItem_good c (good_all c fuel).1 s n v (some [])
    try dsimp only
    split
    · exact Good.fail (Mid.refl s) h ⟨fun _ => rfl, fun l hl => by simp at hl⟩
    · rename_i hnf
      have hm := Good.mid h hnf
      split
      · exact Good.ret hm ⟨fun _ => rfl, fun l hl => by simp at hl⟩ _ _ (by simp) (by simp)
      · exact Good.ret hm ⟨fun _ => rfl, fun l hl => by simp at hl⟩ _ _ (by simp) (by simp)
  · exact executeItem_good c (good_all c fuel).1 _ _ _ _

theorem execute_good (fuel : Nat) (a : AST) (doc : Item) (o : Opts) :
    Good (initSt a doc o) (some []) (execute fuel a doc o) := query_good _ _ _ _ _ _

theorem existsRun_good (fuel : Nat) (a : AST) (doc : Item) (o : Opts) :
    Good (initSt a doc o) none (existsRun fuel a doc o) := query_good _ _ _ _ _ _

/-- the result list handed to the run underlying an entry point -/
def runFound (e : Entry) (a : AST) : Found :=
  match e with
  | .exists => none
  | .existsOrMatch => if a.pred then some [] else none
  | _ => some []

theorem runRes_good (e : Entry) (fuel : Nat) (a : AST) (doc : Item) (o : Opts) :
    Good (initSt a doc o) (runFound e a) (runRes e fuel a doc o) := by
  unfold runRes runFound
  cases e <;> simp only
  · exact execute_good _ _ _ _
  · exact execute_good _ _ _ _
  · exact existsRun_good _ _ _ _
  · exact execute_good _ _ _ _
  · split
    · exact execute_good _ _ _ _
    · exact existsRun_good _ _ _ _

end Api
end Sqljson
