import Sqljson.Model.Sem
import Sqljson.Lemmas.Compose
import Sqljson.Lemmas.ProbeSim
/-!
# The executor refines the declarative semantics `Sem`

For every well-formed path `p` of the syntax of `Model/Sem.lean`, every item, every dynamic context and
all sufficiently large fuel, the executor run of the node chain `p.toNode` in collect mode, from any
state that realises the dynamic context and whose context is never done, *matches* the outcome
`Sem.eval c .go p ρ v`:

* the result list is the old list followed by the outcome's items (the items produced before the first error);
* no error in the outcome: the run does not fail and returns no error;
* an error `e` in the outcome: the run fails, with `e` if it is not suppressible or the executor is
  verbose, and with no error otherwise (silent);
* every context field is restored; no sticky flag (`oof`, `panicked`) is set; the budget stays `none`.

The proof goes step by step (one lemma per step kind: `…_spec`), each relative to an arbitrary
continuation `nx` that satisfies the same specification (`Cont`), loops by `fold_each` (the element loop of
`executeAnyItem` – one level for `.*`, `[*]` and auto-unwrapping, the whole tree for `.**`: `xAny_spec`;
the two loops of `execArrayIndex`; the loop of `execUnaryMathExpr`; the pair loop of `executePredicate`),
probe mode (lax `exists`) from the collect-mode statement through `Lemmas/ProbeSim.lean` (`probe_spec`),
and then by mutual structural induction over `Path`/`Step`/`Subs`/`Pred` (`pathSpec`, `stepSpec`, `subsSpec`,
`predSpec`; `refine_run`).  The composition law of `Lemmas/Compose.lean` is not needed: the continuation-passing
structure of the executor makes "the rest of the chain means `K`" the natural induction hypothesis.

"Sufficiently large fuel" is `Ev`: `∃ K, ∀ fuel ≥ K, …`; `Props/C01b.lean` turns this into statements
about every run that finishes and about the computable `fuelBound`.
-/

namespace Sqljson
namespace Exec
namespace Refine
open Sem

/-! ## "for all sufficiently large fuel" -/

def Ev (P : Nat → Prop) : Prop := ∃ K, ∀ fuel, K ≤ fuel → P fuel

theorem Ev.of_all {P : Nat → Prop} (h : ∀ n, P n) : Ev P := ⟨0, fun n _ => h n⟩

theorem Ev.mono {P Q : Nat → Prop} (h : Ev P) (hpq : ∀ n, P n → Q n) : Ev Q := by
  obtain ⟨K, hK⟩ := h
  exact ⟨K, fun n hn => hpq n (hK n hn)⟩

theorem Ev.and {P Q : Nat → Prop} (h1 : Ev P) (h2 : Ev Q) : Ev (fun n => P n ∧ Q n) := by
  obtain ⟨K1, h1⟩ := h1
  obtain ⟨K2, h2⟩ := h2
  exact ⟨max K1 K2, fun n hn => ⟨h1 n (by omega), h2 n (by omega)⟩⟩

/-- one more unit of fuel: for large `n`, `n = m + 1` with `P m` -/
theorem Ev.succ {P Q : Nat → Prop} (h : Ev P) (hpq : ∀ m, P m → Q (m + 1)) : Ev Q := by
  obtain ⟨K, hK⟩ := h
  refine ⟨K + 1, fun n hn => ?_⟩
  obtain ⟨m, rfl⟩ : ∃ m, n = m + 1 := ⟨n - 1, by omega⟩
  exact hpq m (hK m (by omega))

theorem Ev.all_mem {α : Type} {P : α → Nat → Prop} (xs : List α) (h : ∀ x ∈ xs, Ev (P x)) :
    Ev (fun n => ∀ x ∈ xs, P x n) := by
  induction xs with
  | nil => exact Ev.of_all (fun n x hx => by cases hx)
  | cons y ys ih =>
    have h1 := h y (List.mem_cons_self ..)
    have h2 := ih (fun x hx => h x (List.mem_cons_of_mem _ hx))
    refine (h1.and h2).mono (fun n hn x hx => ?_)
    rcases List.mem_cons.mp hx with rfl | hx
    · exact hn.1
    · exact hn.2 x hx

/-! ## outcomes: algebra -/

@[simp] theorem andThen_empty (a : Outcome) : a.andThen .empty = a := by
  unfold Outcome.andThen Outcome.empty
  cases a with
  | mk xs e => cases e <;> simp

@[simp] theorem empty_andThen (a : Outcome) : Outcome.empty.andThen a = a := by
  simp [Outcome.andThen, Outcome.empty]

theorem andThen_assoc (a b d : Outcome) : (a.andThen b).andThen d = a.andThen (b.andThen d) := by
  obtain ⟨xs, ea⟩ := a
  obtain ⟨ys, eb⟩ := b
  cases ea <;> cases eb <;> simp [Outcome.andThen]

theorem andThen_of_err {a : Outcome} {e : Err} (h : a.err = some e) (b : Outcome) : a.andThen b = a := by
  simp [Outcome.andThen, h]

theorem andThen_of_ok {a : Outcome} (h : a.err = none) (b : Outcome) :
    a.andThen b = ⟨a.items ++ b.items, b.err⟩ := by
  simp [Outcome.andThen, h]

theorem andThen_err_none {a b : Outcome} (h : (a.andThen b).err = none) : a.err = none ∧ b.err = none := by
  obtain ⟨xs, ea⟩ := a
  cases ea <;> simp_all [Outcome.andThen]

@[simp] theorem each_nil {α : Type} (k : α → Outcome) : each k [] = .empty := rfl
@[simp] theorem each_cons {α : Type} (k : α → Outcome) (x : α) (xs : List α) :
    each k (x :: xs) = (k x).andThen (each k xs) := rfl

theorem each_append {α : Type} (k : α → Outcome) (xs ys : List α) :
    each k (xs ++ ys) = (each k xs).andThen (each k ys) := by
  induction xs with
  | nil => simp
  | cons x xs ih => simp [ih, andThen_assoc]

theorem each_single {α : Type} (k : α → Outcome) (x : α) : each k [x] = k x := by simp

theorem each_one (xs : List Item) : each Outcome.one xs = .seq xs := by
  induction xs with
  | nil => rfl
  | cons x xs ih => simp [ih, Outcome.andThen, Outcome.one, Outcome.seq]

/-- a filtered sequence: the dropped elements contribute nothing -/
theorem each_filter {α : Type} (k : α → Outcome) (p : α → Bool) (xs : List α) :
    each k (xs.filter p) = each (fun x => if p x then k x else .empty) xs := by
  induction xs with
  | nil => rfl
  | cons x xs ih =>
    cases hp : p x <;> simp [hp, ih]

theorem bind_def (o : Outcome) (k : Item → Outcome) : o.bind k = (each k o.items).andThen ⟨[], o.err⟩ := rfl

@[simp] theorem bind_one (x : Item) (k : Item → Outcome) : (Outcome.one x).bind k = k x := by
  simp only [Outcome.bind, Outcome.one, each_cons, each_nil, andThen_empty]
  exact andThen_empty (k x)

@[simp] theorem bind_empty (k : Item → Outcome) : Outcome.empty.bind k = .empty := by
  simp [Outcome.bind, Outcome.empty, Outcome.andThen]

@[simp] theorem bind_fail (e : Err) (k : Item → Outcome) : (Outcome.fail e).bind k = .fail e := by
  simp [Outcome.bind, Outcome.fail, Outcome.andThen, Outcome.empty]

theorem bind_seq (xs : List Item) (k : Item → Outcome) : (Outcome.seq xs).bind k = each k xs := by
  simp only [Outcome.bind, Outcome.seq]
  exact andThen_empty _

theorem andThen_err_of_right {a b : Outcome} {e : Err} (h : b.err = some e) : ∃ e', (a.andThen b).err = some e' := by
  obtain ⟨xs, ea⟩ := a
  cases ea <;> simp [Outcome.andThen, h]

theorem bind_andThen (a b : Outcome) (k : Item → Outcome) : (a.andThen b).bind k = (a.bind k).andThen (b.bind k) := by
  obtain ⟨xs, ea⟩ := a
  obtain ⟨ys, eb⟩ := b
  cases ea with
  | none =>
    have e1 : (Outcome.andThen ⟨xs, none⟩ ⟨ys, eb⟩) = ⟨xs ++ ys, eb⟩ := rfl
    rw [e1]
    simp only [Outcome.bind, each_append]
    have e2 : (⟨[], none⟩ : Outcome) = .empty := rfl
    rw [e2, andThen_empty, andThen_assoc]
  | some e =>
    have e1 : (Outcome.andThen ⟨xs, some e⟩ ⟨ys, eb⟩) = ⟨xs, some e⟩ := rfl
    rw [e1]
    simp only [Outcome.bind]
    obtain ⟨e', he'⟩ := andThen_err_of_right (a := each k xs) (b := ⟨[], some e⟩) (e := e) rfl
    rw [andThen_of_err he']

/-- `bind` distributes over `each` -/
theorem bind_each {α : Type} (f : α → Outcome) (k : Item → Outcome) (xs : List α) :
    (each f xs).bind k = each (fun x => (f x).bind k) xs := by
  induction xs with
  | nil => simp
  | cons x xs ih => simp [bind_andThen, ih]

/-! ## states -/

/-- a context that is never done; no sticky flag set -/
structure Clean (s : St) : Prop where
  budget : s.budget = none
  oof : s.oof = false
  panicked : s.panicked = false

/-- what a run leaves of the state it started in -/
structure Keep (s t : St) : Prop where
  clean : Clean t
  cur : t.current = s.current
  inn : t.innermost = s.innermost
  ign : t.ignoreSE = s.ignoreSE
  verbose : t.verbose = s.verbose

theorem Keep.refl {s : St} (h : Clean s) : Keep s s := ⟨h, rfl, rfl, rfl, rfl⟩

theorem Keep.trans {a b d : St} (h1 : Keep a b) (h2 : Keep b d) : Keep a d :=
  ⟨h2.clean, h2.cur.trans h1.cur, h2.inn.trans h1.inn, h2.ign.trans h1.ign, h2.verbose.trans h1.verbose⟩

/-- the part of `Rel` that does not mention the structural-error flag -/
structure RelG (al : Bool) (s : St) (ρ : Dyn) : Prop where
  clean : Clean s
  cur : s.current = ρ.cur
  inn : al = true → ∃ n : Nat, ρ.inn = some n ∧ s.innermost = n

/-- the state `s` realises the dynamic context `ρ` (`al`: a subscript is open, `last` is meaningful) -/
structure Rel (al : Bool) (s : St) (ρ : Dyn) : Prop where
  g : RelG al s ρ
  ign : s.ignoreSE = ρ.ign

theorem RelG.keep {al : Bool} {s t : St} {ρ : Dyn} (h : RelG al s ρ) (hk : Keep s t) : RelG al t ρ :=
  ⟨hk.clean, hk.cur.trans h.cur, fun ha => by
    obtain ⟨n, h1, h2⟩ := h.inn ha
    exact ⟨n, h1, hk.inn.trans h2⟩⟩

theorem Rel.keep {al : Bool} {s t : St} {ρ : Dyn} (h : Rel al s ρ) (hk : Keep s t) : Rel al t ρ :=
  ⟨h.g.keep hk, hk.ign.trans h.ign⟩

theorem Rel.clean {al : Bool} {s : St} {ρ : Dyn} (h : Rel al s ρ) : Clean s := h.g.clean

/-- the error the executor reports for the semantic error `e` -/
def report (s : St) (e : Err) : Option Err := if s.verbose || !e.isVerbose then some e else none

theorem report_keep {s t : St} (h : Keep s t) (e : Err) : report t e = report s e := by
  simp [report, h.verbose]

/-- the run result `r` (started in `s`, collecting into `l`) is what the outcome `o` prescribes -/
structure Matches (s : St) (l : List Item) (o : Outcome) (r : Res) : Prop where
  keep : Keep s r.st
  found : r.found = some (l ++ o.items)
  ok : o.err = none → r.status ≠ .failed ∧ r.err = none
  fail : ∀ e, o.err = some e → r.status = .failed ∧ r.err = report s e

theorem Matches.status_iff {s : St} {l : List Item} {o : Outcome} {r : Res} (h : Matches s l o r) :
    r.status = .failed ↔ o.err ≠ none := by
  cases he : o.err with
  | none => simp [(h.ok he).1]
  | some e => simp [(h.fail e he).1]

/-- the run continues after a successful first part -/
theorem Matches.andThen {s : St} {l : List Item} {a b : Outcome} {r1 r2 : Res}
    (h1 : Matches s l a r1) (ha : a.err = none) (h2 : Matches r1.st (l ++ a.items) b r2) :
    Matches s l (a.andThen b) r2 := by
  rw [andThen_of_ok ha]
  refine ⟨h1.keep.trans h2.keep, by simp [h2.found, List.append_assoc], h2.ok, fun e he => ?_⟩
  have := h2.fail e he
  rw [report_keep h1.keep] at this
  exact this

/-- the run stops at the failure of the first part -/
theorem Matches.andThen_fail {s : St} {l : List Item} {a : Outcome} {r : Res} {e : Err}
    (h : Matches s l a r) (ha : a.err = some e) (b : Outcome) : Matches s l (a.andThen b) r := by
  rw [andThen_of_err ha]; exact h

/-- change of the starting state by a kept one -/
theorem Matches.of_keep {s s1 : St} {l : List Item} {o : Outcome} {r : Res}
    (hk : Keep s s1) (h : Matches s1 l o r) : Matches s l o r :=
  ⟨hk.trans h.keep, h.found, h.ok, fun e he => by rw [← report_keep hk]; exact h.fail e he⟩

/-- a literal result -/
theorem Matches.ret_ok {s : St} (hs : Clean s) (l xs : List Item) (st : Status) (hst : st ≠ .failed) :
    Matches s l ⟨xs, none⟩ ⟨s, some (l ++ xs), st, none⟩ :=
  ⟨Keep.refl hs, rfl, fun _ => ⟨hst, rfl⟩, fun e he => by cases he⟩

theorem Matches.returnVerboseError {s : St} (hs : Clean s) (l : List Item) :
    Matches s l (.fail .verbose) (returnVerboseError s (some l)) := by
  unfold Exec.returnVerboseError
  split
  · rename_i hv
    exact ⟨Keep.refl hs, by simp [Outcome.fail], fun h => by simp [Outcome.fail] at h,
      fun e he => by simp [Outcome.fail] at he; subst he; simp [report, hv]⟩
  · rename_i hv
    exact ⟨Keep.refl hs, by simp [Outcome.fail], fun h => by simp [Outcome.fail] at h,
      fun e he => by simp [Outcome.fail] at he; subst he; simp [report, hv, Err.isVerbose]⟩

theorem Matches.returnError {s : St} (hs : Clean s) (l : List Item) (e : Err) :
    Matches s l (.fail e) (returnError s (some l) e) := by
  unfold Exec.returnError
  split
  · rename_i hv
    exact ⟨Keep.refl hs, by simp [Outcome.fail], fun h => by simp [Outcome.fail] at h,
      fun e' he => by simp [Outcome.fail] at he; subst he; simp [report, hv]⟩
  · rename_i hv
    exact ⟨Keep.refl hs, by simp [Outcome.fail], fun h => by simp [Outcome.fail] at h,
      fun e' he => by simp [Outcome.fail] at he; subst he; simp [report, hv]⟩

theorem Matches.hard {s : St} (hs : Clean s) (l : List Item) (e : Err) (he : e.isVerbose = false) :
    Matches s l (.fail e) ⟨s, some l, .failed, some e⟩ :=
  ⟨Keep.refl hs, by simp [Outcome.fail], fun h => by simp [Outcome.fail] at h,
    fun e' he' => by simp [Outcome.fail] at he'; subst he'; simp [report, he]⟩

theorem Matches.structural {s : St} {ρ : Dyn} (hs : Clean s) (hig : s.ignoreSE = ρ.ign) (l : List Item) :
    Matches s l (Sem.structural ρ) (Exec.structural s (some l)) := by
  unfold Exec.structural Sem.structural
  cases h : ρ.ign with
  | true =>
    simp only [hig, h, Bool.not_true, Bool.false_eq_true, if_false, if_true]
    have := Matches.ret_ok hs l [] .notFound (by simp)
    simpa [Outcome.empty] using this
  | false =>
    simp only [hig, h, Bool.not_false, if_true, Bool.false_eq_true, if_false]
    exact Matches.returnVerboseError hs l

/-! ## loops -/

/-- generic loop lemma: an accumulator relation `R o b` ("the loop state `b` has produced the outcome `o`")
    preserved by one iteration is preserved by the loop, whose outcome is `each F` -/
theorem fold_each {α β : Type} (R : Outcome → β → Prop) (step : β → α → β) (F : α → Outcome) (xs : List α)
    (hstep : ∀ o b x, x ∈ xs → R o b → R (o.andThen (F x)) (step b x)) :
    ∀ o b, R o b → R (o.andThen (each F xs)) (xs.foldl step b) := by
  induction xs with
  | nil => intro o b h; simpa using h
  | cons x xs ih =>
    intro o b h
    rw [List.foldl_cons, each_cons, ← andThen_assoc]
    exact ih (fun o b y hy => hstep o b y (List.mem_cons_of_mem _ hy)) _ _
      (hstep o b x (List.mem_cons_self ..) h)

/-! ## continuations -/

/-- the rest of the chain `nx` means `K`: on every item, in every dynamic context, for all large fuel,
    from every state realising the context -/
def Cont (c : Ctx) (al : Bool) (nx : Option Node) (K : Dyn → Item → Outcome) : Prop :=
  ∀ ρ x, Ev fun fuel => ∀ s l, Rel al s ρ →
    Matches s l (K ρ x) (executeNextItem c (xItem c fuel) s nx x (some l))

theorem xItem_succ (c : Ctx) (fuel : Nat) {s : St} (hb : s.budget = none) (n : Node) (v : Item) (f : Found) (u : Bool) :
    xItem c (fuel + 1) s n v f u = dispatch c (xItem c fuel) (xBool c fuel) (xAny c fuel) s n v f u := by
  simp [xItem, poll, hb]

/-- the base object is not observed -/
theorem Rel.base {al : Bool} {s : St} {ρ : Dyn} (h : Rel al s ρ) (a : Nat) (i : Int) :
    Rel al { s with baseAddr := a, baseId := i } ρ :=
  ⟨⟨⟨h.g.clean.budget, h.g.clean.oof, h.g.clean.panicked⟩, h.g.cur, h.g.inn⟩, h.ign⟩

theorem Matches.base {s : St} {l : List Item} {o : Outcome} {r : Res} (a a' : Nat) (i i' : Int)
    (h : Matches { s with baseAddr := a, baseId := i } l o r) :
    Matches s l o { r with st := { r.st with baseAddr := a', baseId := i' } } := by
  obtain ⟨⟨⟨h1, h2, h3⟩, h4, h5, h6, h7⟩, hf, hok, hfail⟩ := h
  exact ⟨⟨⟨h1, h2, h3⟩, h4, h5, h6, h7⟩, hf, hok, hfail⟩

section steps
variable {c : Ctx} {q : Dialect} {al : Bool} {nx : Option Node} {K : Dyn → Item → Outcome}

/-- a step that yields exactly one item `x` and hands it to the rest of the chain -/
theorem one_spec (hK : Cont c al nx K) (ρ : Dyn) (x : Item) (run : Nat → St → List Item → Res)
    (hrun : ∀ fuel s l, Rel al s ρ → run (fuel + 1) s l = executeNextItem c (xItem c fuel) s nx x (some l)) :
    Ev fun fuel => ∀ s l, Rel al s ρ → Matches s l ((Outcome.one x).bind (K ρ)) (run fuel s l) := by
  refine (hK ρ x).succ (fun m hm s l hrel => ?_)
  rw [bind_one, hrun m s l hrel]
  exact hm s l hrel

theorem root_spec (hK : Cont c al nx K) (ρ : Dyn) (v : Item) (u : Bool) :
    Ev fun fuel => ∀ s l, Rel al s ρ →
      Matches s l ((evalStep c q u .root ρ v).bind (K ρ)) (xItem c fuel s (.const .root nx) v (some l) u) := by
  refine (hK ρ c.root).succ (fun m hm s l hrel => ?_)
  rw [xItem_succ c m hrel.clean.budget]
  simp only [evalStep, bind_one, dispatch, execConstNode, withBaseObject]
  exact Matches.base _ _ _ _ (hm _ l (hrel.base _ _))

theorem current_spec (hK : Cont c al nx K) (ρ : Dyn) (v : Item) (u : Bool) :
    Ev fun fuel => ∀ s l, Rel al s ρ →
      Matches s l ((evalStep c q u .current ρ v).bind (K ρ)) (xItem c fuel s (.const .current nx) v (some l) u) := by
  refine (hK ρ ρ.cur).succ (fun m hm s l hrel => ?_)
  rw [xItem_succ c m hrel.clean.budget]
  simp only [evalStep, bind_one, dispatch, execConstNode, hrel.g.cur]
  exact hm s l hrel

end steps

/-! ## `.**`: the selected nodes, recursively -/

def kids (v : Item) : List Item := (collection v).getD []

/-- the nodes of the forest `vs` (roots at depth `d`) selected by `.**{a to b}`, in document order -/
def selL (a b d : Nat) (vs : List Item) : List Item := ((nodesL d vs).filter (selected a b)).map (·.1)

theorem nodesM_members (d : Nat) (kvs : List (List Char × Item)) : nodesM d kvs = nodesL d (members kvs) := by
  induction kvs with
  | nil => simp [nodesM, nodesL, members]
  | cons kv rest ih =>
    obtain ⟨k, x⟩ := kv
    simp only [nodesM, members, List.map_cons, nodesL] at ih ⊢
    rw [ih]

theorem nodesBelow_kids (d : Nat) (v : Item) : nodesBelow d v = nodesL d (kids v) := by
  cases v <;> simp [nodesBelow, kids, collection, nodesL, nodesM_members]

theorem selL_nil (a b d : Nat) : selL a b d [] = [] := by simp [selL, nodesL]

theorem selL_cons (a b d : Nat) (v : Item) (rest : List Item) :
    selL a b d (v :: rest) =
      (if selected a b (v, d) then [v] else []) ++ (selL a b (d + 1) (kids v) ++ selL a b d rest) := by
  simp only [selL, nodesL, nodesBelow_kids, List.filter_cons, List.filter_append]
  split <;> simp

theorem sizeMembers_members (kvs : List (List Char × Item)) : Item.sizeList (members kvs) = Item.sizeMembers kvs := by
  induction kvs with
  | nil => simp [members, Item.sizeList, Item.sizeMembers]
  | cons kv rest ih =>
    obtain ⟨k, x⟩ := kv
    simp only [members, List.map_cons, Item.sizeList, Item.sizeMembers] at ih ⊢
    rw [ih]

theorem sizeList_kids (v : Item) : Item.sizeList (kids v) < Item.size v := by
  cases v <;> simp [kids, collection, Item.size, Item.sizeList, sizeMembers_members]

theorem size_le_sizeList {v : Item} {vs : List Item} (h : v ∈ vs) : Item.size v ≤ Item.sizeList vs := by
  induction vs with
  | nil => cases h
  | cons x xs ih =>
    simp only [Item.sizeList]
    rcases List.mem_cons.mp h with rfl | h
    · omega
    · have := ih h; omega

/-- below the upper bound nothing is selected -/
theorem selL_beyond (a b : Nat) : ∀ (n : Nat) (vs : List Item) (d : Nat), Item.sizeList vs ≤ n → d > b →
    selL a b d vs = [] := by
  intro n
  induction n with
  | zero =>
    intro vs d h _
    cases vs with
    | nil => exact selL_nil ..
    | cons x xs =>
      have : 1 ≤ Item.size x := by cases x <;> simp [Item.size] <;> omega
      simp only [Item.sizeList] at h; omega
  | succ n ih =>
    intro vs d h hd
    induction vs with
    | nil => exact selL_nil ..
    | cons x xs ihx =>
      simp only [Item.sizeList] at h
      have hk := sizeList_kids x
      have hpos : 1 ≤ Item.size x := by cases x <;> simp [Item.size] <;> omega
      rw [selL_cons, ih (kids x) (d + 1) (by omega) (by omega), ihx (by omega)]
      have : selected a b (x, d) = false := by
        simp only [selected, Bool.and_eq_false_imp, decide_eq_true_eq]
        intro h'; omega
      simp [this]

theorem descend_eq (a b : Nat) (v : Item) :
    descend a b v = (if a = 0 then [v] else []) ++ selL a b 1 (kids v) := by
  simp only [descend, List.filter_cons, nodesBelow_kids, selL]
  have : selected a b (v, 0) = decide (a = 0) := by
    simp [selected]
  rw [this]
  by_cases h : a = 0 <;> simp [h]

/-- the executor's visiting condition is `selected` (for levels `1 ≤ level ≤ last`) -/
theorem visit_cond (first last level : Nat) (v : Item) (h1 : 1 ≤ level) (h2 : ¬ level > last) :
    (decide (level ≥ first) || (decide (first = maxU32) && decide (last = maxU32) && (collection v).isNone)) =
      selected first last (v, level) := by
  have e1 : decide (level ≤ last) = true := by simp; omega
  have e2 : decide (1 ≤ level) = true := by simpa using h1
  have e3 : (collection v).isNone = !isContainer v := by cases v <;> simp [collection, isContainer]
  simp only [selected, e1, e2, e3, Bool.true_and, Bool.and_true, ge_iff_le]

/-- what the element loop keeps of the state: everything but, when `ign`, the structural-error flag
    (set for the visits, restored at the end) -/
structure LoopKeep (ign : Bool) (s t : St) : Prop where
  clean : Clean t
  cur : t.current = s.current
  inn : t.innermost = s.innermost
  verbose : t.verbose = s.verbose
  ign : ign = true ∨ t.ignoreSE = s.ignoreSE

theorem LoopKeep.refl {ign : Bool} {s : St} (h : Clean s) : LoopKeep ign s s := ⟨h, rfl, rfl, rfl, Or.inr rfl⟩

theorem LoopKeep.keep {ign : Bool} {s t u : St} (h : LoopKeep ign s t) (hk : Keep t u) : LoopKeep ign s u :=
  ⟨hk.clean, hk.cur.trans h.cur, hk.inn.trans h.inn, hk.verbose.trans h.verbose,
    h.ign.imp id (fun h' => hk.ign.trans h')⟩

theorem LoopKeep.setIgn {s t : St} (h : LoopKeep true s t) : LoopKeep true s { t with ignoreSE := true } :=
  ⟨⟨h.clean.budget, h.clean.oof, h.clean.panicked⟩, h.cur, h.inn, h.verbose, Or.inl rfl⟩

theorem LoopKeep.report {ign : Bool} {s t : St} (h : LoopKeep ign s t) (e : Err) : report t e = report s e := by
  unfold Refine.report; rw [h.verbose]

/-- the accumulator of the element loop of `executeAnyItem` has produced the outcome `o` -/
inductive AnyAcc (ign : Bool) (s : St) (l : List Item) (o : Outcome) (a : AAcc) : Prop
  | running : o.err = none → a.ret = none → a.found = some (l ++ o.items) → a.res ≠ .failed → a.err = none →
      LoopKeep ign s a.st → AnyAcc ign s l o a
  | returned (e : Err) (r : Res) : o.err = some e → a.ret = some r → r.found = some (l ++ o.items) →
      r.status = .failed → r.err = report s e → LoopKeep ign s r.st → AnyAcc ign s l o a

/-- the loop state after a sub-run `r` (from `t`, into the list so far) that matches `x` -/
theorem AnyAcc.push {ign : Bool} {s t : St} {l : List Item} {o x : Outcome} {r : Res}
    (ho : o.err = none) (ht : LoopKeep ign s t) (hr : Matches t (l ++ o.items) x r) :
    AnyAcc ign s l (o.andThen x)
      (if r.status = .failed || (r.status = .ok && (some (l ++ o.items) : Found).isNone) then
        { st := r.st, found := r.found, res := r.status, err := r.err, ret := some r }
       else { st := r.st, found := r.found, res := r.status, err := r.err, ret := none }) := by
  rw [andThen_of_ok ho]
  cases hx : x.err with
  | none =>
    obtain ⟨h1, h2⟩ := hr.ok hx
    simp only [h1, Option.isNone_some, Bool.and_false, Bool.or_false, decide_false, Bool.false_eq_true, if_false]
    exact .running rfl rfl (by simp [hr.found, List.append_assoc]) h1 h2 (ht.keep hr.keep)
  | some e =>
    obtain ⟨h1, h2⟩ := hr.fail e hx
    simp only [h1, decide_true, Bool.true_or, if_true]
    exact .returned e r rfl rfl (by simp [hr.found, List.append_assoc]) h1 (by rw [h2, ht.report]) (ht.keep hr.keep)

theorem AnyAcc.returned_andThen {ign : Bool} {s : St} {l : List Item} {o : Outcome} {a : AAcc} {e : Err}
    (h : AnyAcc ign s l o a) (he : o.err = some e) (x : Outcome) : AnyAcc ign s l (o.andThen x) a := by
  rw [andThen_of_err he]; exact h

theorem AnyAcc.ret_of_err {ign : Bool} {s : St} {l : List Item} {o : Outcome} {a : AAcc}
    (h : AnyAcc ign s l o a) : (a.ret = none ↔ o.err = none) := by
  cases h with
  | running h1 h2 => simp [h1, h2]
  | returned e r h1 h2 => simp [h1, h2]

/-- running `node` on one item: the node, or appending the item when there is none -/
def visit (item : ItemK) (node : Option Node) (un : Bool) (s : St) (w : Item) (l : List Item) : Res :=
  match node with
  | some n => item s n w (some l) un
  | none => ⟨s, some (l ++ [w]), .ok, none⟩

section anyloop
variable {item : ItemK} {any : AnyK} {node : Option Node} {level first last : Nat} {ign un : Bool}
  {al : Bool} {ρ : Dyn} {G : Item → Outcome}

/-- the state in which an element is visited -/
theorem visit_rel {s t : St} (hign : ign = true → ρ.ign = true) (hs : RelG al s ρ)
    (hsi : ign = true ∨ s.ignoreSE = ρ.ign) (ht : LoopKeep ign s t) :
    Rel al (if ign then { t with ignoreSE := true } else t) ρ ∧
    LoopKeep ign s (if ign then { t with ignoreSE := true } else t) := by
  have hg : RelG al t ρ := ⟨ht.clean, ht.cur.trans hs.cur, fun ha => by
    obtain ⟨n, h1, h2⟩ := hs.inn ha
    exact ⟨n, h1, ht.inn.trans h2⟩⟩
  cases ign with
  | true =>
    simp only [if_true]
    refine ⟨⟨⟨⟨hg.clean.budget, hg.clean.oof, hg.clean.panicked⟩, hg.cur, hg.inn⟩, (hign rfl).symm⟩, ht.setIgn⟩
  | false =>
    simp only [Bool.false_eq_true, if_false]
    refine ⟨⟨hg, ?_⟩, ht⟩
    rcases ht.ign with h | h
    · cases h
    · rcases hsi with h' | h'
      · cases h'
      · exact h.trans h'

theorem anyVisit_acc {s : St} {l : List Item} {o : Outcome} {a : AAcc} {w : Item}
    (hign : ign = true → ρ.ign = true) (hs : RelG al s ρ) (hsi : ign = true ∨ s.ignoreSE = ρ.ign)
    (hl1 : 1 ≤ level) (hl2 : ¬ level > last)
    (hv : ∀ t l', Rel al t ρ → Matches t l' (G w) (visit item node un t w l'))
    (ha : AnyAcc ign s l o a) (ho : o.err = none) :
    AnyAcc ign s l (o.andThen (if selected first last (w, level) then G w else .empty))
      (anyVisit item node level first last ign un a w) := by
  cases ha with
  | returned e r h1 => rw [ho] at h1; cases h1
  | running h1 h2 h3 h4 h5 h6 =>
    unfold anyVisit
    rw [visit_cond first last level w hl1 hl2]
    cases hsel : selected first last (w, level) with
    | false =>
      simp only [Bool.false_eq_true, if_false, andThen_empty]
      exact .running h1 h2 h3 h4 h5 h6
    | true =>
      simp only [if_true]
      obtain ⟨hrel, hlk⟩ := visit_rel hign hs hsi h6
      have hm := hv _ (l ++ o.items) hrel
      cases node with
      | some n =>
        simp only [visit] at hm
        simp only [h3]
        exact AnyAcc.push ho hlk hm
      | none =>
        simp only [visit] at hm
        simp only [h3]
        -- the visit appends `w`
        have hG := hm.found
        simp only [Option.some.injEq, List.append_cancel_left_eq] at hG
        have hGe : (G w).err = none := by
          cases he : (G w).err with
          | none => rfl
          | some e => have := (hm.fail e he).1; simp at this
        rw [andThen_of_ok ho]
        exact .running hGe h2 (by simp [← hG, List.append_assoc]) (by simp) h5 h6

theorem anyDescend_acc {s : St} {l : List Item} {o : Outcome} {a : AAcc} {w : Item} {X : Outcome}
    (hs : RelG al s ρ) (hsi : ign = true ∨ s.ignoreSE = ρ.ign)
    (hd : level < last → ∀ t l', RelG al t ρ → (ign = true ∨ t.ignoreSE = ρ.ign) →
      Matches t l' X (any t node (kids w) (some l') (level + 1) first last ign un))
    (ha : AnyAcc ign s l o a) (ho : o.err = none) :
    AnyAcc ign s l (o.andThen (if level < last then X else .empty))
      (anyDescend any node level first last ign un a w) := by
  cases ha with
  | returned e r h1 => rw [ho] at h1; cases h1
  | running h1 h2 h3 h4 h5 h6 =>
    unfold anyDescend
    by_cases hlt : level < last
    · simp only [hlt, if_true, h3]
      have hg : RelG al a.st ρ := ⟨h6.clean, h6.cur.trans hs.cur, fun ha => by
        obtain ⟨n, h1, h2⟩ := hs.inn ha
        exact ⟨n, h1, h6.inn.trans h2⟩⟩
      have hi : ign = true ∨ a.st.ignoreSE = ρ.ign := by
        rcases h6.ign with h | h
        · exact Or.inl h
        · rcases hsi with h' | h'
          · exact Or.inl h'
          · exact Or.inr (h.trans h')
      have hm := hd hlt a.st (l ++ o.items) hg hi
      exact AnyAcc.push ho h6 hm
    · simp only [hlt, if_false, andThen_empty]
      exact .running h1 h2 h3 h4 h5 h6

theorem anyStep_acc {s : St} {l : List Item} {o : Outcome} {a : AAcc} {w : Item} {X : Outcome}
    (hign : ign = true → ρ.ign = true) (hs : RelG al s ρ) (hsi : ign = true ∨ s.ignoreSE = ρ.ign)
    (hl1 : 1 ≤ level) (hl2 : ¬ level > last)
    (hv : ∀ t l', Rel al t ρ → Matches t l' (G w) (visit item node un t w l'))
    (hd : level < last → ∀ t l', RelG al t ρ → (ign = true ∨ t.ignoreSE = ρ.ign) →
      Matches t l' X (any t node (kids w) (some l') (level + 1) first last ign un))
    (ha : AnyAcc ign s l o a) :
    AnyAcc ign s l (o.andThen ((if selected first last (w, level) then G w else .empty).andThen
        (if level < last then X else .empty)))
      (anyStep item any node level first last ign un a w) := by
  unfold anyStep
  cases ho : o.err with
  | some e =>
    have hr : a.ret ≠ none := fun h => by rw [ha.ret_of_err.mp h] at ho; cases ho
    cases hret : a.ret with
    | none => exact absurd hret hr
    | some r => exact ha.returned_andThen ho _
  | none =>
    have hr : a.ret = none := ha.ret_of_err.mpr ho
    simp only [hr]
    have h1 := anyVisit_acc (first := first) hign hs hsi hl1 hl2 hv ha ho
    rw [← andThen_assoc]
    cases ho1 : (o.andThen (if selected first last (w, level) then G w else .empty)).err with
    | some e =>
      have hr1 : (anyVisit item node level first last ign un a w).ret ≠ none :=
        fun h => by rw [h1.ret_of_err.mp h] at ho1; cases ho1
      cases hret1 : (anyVisit item node level first last ign un a w).ret with
      | none => exact absurd hret1 hr1
      | some r => exact h1.returned_andThen ho1 _
    | none =>
      have hr1 := h1.ret_of_err.mpr ho1
      simp only [hr1]
      exact anyDescend_acc hs hsi hd h1 ho1

end anyloop

theorem LoopKeep.restore {ign : Bool} {s t : St} (h : LoopKeep ign s t) : Keep s { t with ignoreSE := s.ignoreSE } :=
  ⟨⟨h.clean.budget, h.clean.oof, h.clean.panicked⟩, h.cur, h.inn, rfl, h.verbose⟩

/-- the per-element outcome of the loop, summed, is the selection of the whole forest -/
theorem each_sel (G : Item → Outcome) (first last level : Nat) (hl2 : ¬ level > last) (vs : List Item) :
    each (fun w => (if selected first last (w, level) then G w else Outcome.empty).andThen
        (if level < last then each G (selL first last (level + 1) (kids w)) else .empty)) vs =
      each G (selL first last level vs) := by
  induction vs with
  | nil => simp [selL_nil]
  | cons w ws ih =>
    rw [each_cons, ih, selL_cons, each_append, each_append, andThen_assoc]
    congr 1
    · split <;> simp
    · congr 1
      by_cases hlt : level < last
      · simp [hlt]
      · simp only [hlt, if_false]
        rw [selL_beyond first last _ (kids w) (level + 1) (Nat.le_refl _) (by omega)]
        rfl

section anyloop
variable {item : ItemK} {any : AnyK} {node : Option Node} {level first last : Nat} {ign un : Bool}
  {al : Bool} {ρ : Dyn} {G : Item → Outcome}

theorem executeAnyItem_spec {s : St} {l : List Item} {vs : List Item}
    (hign : ign = true → ρ.ign = true) (hs : RelG al s ρ) (hsi : ign = true ∨ s.ignoreSE = ρ.ign)
    (hl1 : 1 ≤ level)
    (hv : ∀ w ∈ vs, ∀ t l', Rel al t ρ → Matches t l' (G w) (visit item node un t w l'))
    (hd : level < last → ∀ w ∈ vs, ∀ t l', RelG al t ρ → (ign = true ∨ t.ignoreSE = ρ.ign) →
      Matches t l' (each G (selL first last (level + 1) (kids w)))
        (any t node (kids w) (some l') (level + 1) first last ign un)) :
    Matches s l (each G (selL first last level vs))
      (executeAnyItem item any s node vs (some l) level first last ign un) := by
  unfold executeAnyItem
  by_cases hl2 : level > last
  · simp only [hl2, if_true]
    rw [selL_beyond first last _ vs level (Nat.le_refl _) hl2]
    simpa [Outcome.empty] using Matches.ret_ok hs.clean l [] .notFound (by simp)
  · simp only [hl2, if_false]
    have h0 : AnyAcc ign s l .empty ⟨s, some l, .notFound, none, none⟩ :=
      .running rfl rfl (by simp [Outcome.empty]) (by simp) rfl (LoopKeep.refl hs.clean)
    have hfold := fold_each (AnyAcc ign s l) (anyStep item any node level first last ign un)
      (fun w => (if selected first last (w, level) then G w else Outcome.empty).andThen
        (if level < last then each G (selL first last (level + 1) (kids w)) else .empty)) vs
      (fun o b w hw hacc => anyStep_acc hign hs hsi hl1 hl2 (hv w hw) (fun hlt => hd hlt w hw) hacc)
      _ _ h0
    rw [empty_andThen, each_sel G first last level hl2 vs] at hfold
    cases hfold with
    | running h1 h2 h3 h4 h5 h6 =>
      simp only [h2]
      refine ⟨h6.restore, h3, fun _ => ⟨?_, h5⟩, fun e he => by rw [h1] at he; cases he⟩
      split <;> simp [h4]
    | returned e r h1 h2 h3 h4 h5 h6 =>
      simp only [h2]
      refine ⟨h6.restore, h3, fun he => ?_, fun e' he => ?_⟩
      · rw [h1] at he; cases he
      · rw [h1] at he; cases he; exact ⟨h4, h5⟩

end anyloop

/-- **the element loop `executeAnyItem`** (`.*`, `[*]`, auto-unwrapping: one level; `.**`: the whole tree):
    if visiting one item with `node` means `G`, the loop over the forest `vs` means `each G` over the
    selected nodes in document order -/
theorem xAny_spec (c : Ctx) (node : Option Node) (first last : Nat) (ign un : Bool) (al : Bool) (ρ : Dyn)
    (G : Item → Outcome) (hign : ign = true → ρ.ign = true)
    (hvisit : ∀ w, Ev fun fuel => ∀ t l', Rel al t ρ → Matches t l' (G w) (visit (xItem c fuel) node un t w l')) :
    ∀ (n : Nat) (vs : List Item), Item.sizeList vs ≤ n → ∀ level, 1 ≤ level →
      Ev fun fuel => ∀ s l, RelG al s ρ → (ign = true ∨ s.ignoreSE = ρ.ign) →
        Matches s l (each G (selL first last level vs))
          (xAny c fuel s node vs (some l) level first last ign un) := by
  intro n
  induction n with
  | zero =>
    intro vs hn level hl1
    cases vs with
    | cons x xs =>
      have : 1 ≤ Item.size x := by cases x <;> simp [Item.size] <;> omega
      simp only [Item.sizeList] at hn; omega
    | nil =>
      refine (Ev.of_all (P := fun _ => True) (fun _ => trivial)).succ (fun m _ s l hs hsi => ?_)
      simp only [xAny]
      exact executeAnyItem_spec hign hs hsi hl1 (fun w hw => by cases hw) (fun _ w hw => by cases hw)
  | succ n ih =>
    intro vs hn level hl1
    have hkids : ∀ w ∈ vs, Ev fun fuel => ∀ s l, RelG al s ρ → (ign = true ∨ s.ignoreSE = ρ.ign) →
        Matches s l (each G (selL first last (level + 1) (kids w)))
          (xAny c fuel s node (kids w) (some l) (level + 1) first last ign un) := by
      intro w hw
      have h1 := sizeList_kids w
      have h2 := size_le_sizeList hw
      exact ih (kids w) (by omega) (level + 1) (by omega)
    have hall := (Ev.all_mem vs (fun w _ => hvisit w)).and (Ev.all_mem vs hkids)
    refine hall.succ (fun m hm s l hs hsi => ?_)
    simp only [xAny]
    exact executeAnyItem_spec hign hs hsi hl1 (fun w hw => hm.1 w hw) (fun _ w hw => hm.2 w hw)

theorem Ev.succ_all {Q : Nat → Prop} (h : ∀ m, Q (m + 1)) : Ev Q :=
  (Ev.of_all (P := fun _ => True) (fun _ => trivial)).succ (fun m _ => h m)

/-- one level: every element is selected, nothing below -/
theorem selL_flat (xs : List Item) : selL 1 1 1 xs = xs := by
  induction xs with
  | nil => exact selL_nil ..
  | cons x xs ih =>
    rw [selL_cons, ih, selL_beyond 1 1 _ (kids x) 2 (Nat.le_refl _) (by omega)]
    simp [selected]

/-- the run of a step node with the rest of the chain `nx` means `o` followed by `K` -/
abbrev StepRun (c : Ctx) (al : Bool) (ρ : Dyn) (o : Outcome) (K : Dyn → Item → Outcome) (ρ' : Dyn)
    (n : Node) (v : Item) (u : Bool) : Prop :=
  Ev fun fuel => ∀ s l, Rel al s ρ → Matches s l (o.bind (K ρ')) (xItem c fuel s n v (some l) u)

section steps
variable {c : Ctx} {q : Dialect} {al : Bool} {nx : Option Node} {K : Dyn → Item → Outcome}

/-- the one-level loops (`ignore = false`): `.*`, `[*]` hand the elements to the rest of the chain
    (`node = nx`); auto-unwrapping re-runs the step itself on the elements (`node = some n`) -/
theorem flat_spec (node : Option Node) (un : Bool) (ρ : Dyn) (G : Item → Outcome)
    (hvisit : ∀ w, Ev fun fuel => ∀ t l', Rel al t ρ → Matches t l' (G w) (visit (xItem c fuel) node un t w l'))
    (xs : List Item) :
    Ev fun fuel => ∀ s l, Rel al s ρ →
      Matches s l (each G xs) (xAny c fuel s node xs (some l) 1 1 1 false un) := by
  have h := xAny_spec c node 1 1 false un al ρ G (fun h => by cases h) hvisit _ xs (Nat.le_refl _) 1 (Nat.le_refl _)
  rw [selL_flat] at h
  exact h.mono (fun n hn s l hrel => hn s l hrel.g (Or.inr hrel.ign))

/-- the rest of the chain as the visit of an element -/
theorem cont_visit (hK : Cont c al nx K) (ρ : Dyn) (w : Item) :
    Ev fun fuel => ∀ t l', Rel al t ρ → Matches t l' (K ρ w) (visit (xItem c fuel) nx c.lax t w l') := by
  refine (hK ρ w).mono (fun n hn t l' hrel => ?_)
  have := hn t l' hrel
  cases nx with
  | none => simpa [visit, executeNextItem, Found.append] using this
  | some m => simpa [visit, executeNextItem, executeItem] using this

theorem key_missing_eq (s : St) (f : Found) :
    (if (!s.ignoreSE) = true then
        (if (!s.verbose) = true then (⟨s, f, .failed, none⟩ : Res) else ⟨s, f, .failed, some .verbose⟩)
      else ⟨s, f, .notFound, none⟩) = Exec.structural s f := by
  unfold Exec.structural Exec.returnVerboseError
  cases s.ignoreSE <;> cases s.verbose <;> simp

theorem key_core (hK : Cont c al nx K) (k : List Char) (ρ : Dyn) (v : Item) (u : Bool)
    (hu : u = true → v.isArr = false) :
    StepRun c al ρ (memberOf ρ k v) K ρ (.key k nx) v u := by
  cases v with
  | obj kvs =>
    cases hk : Item.lookup k kvs with
    | some x =>
      refine (hK ρ x).succ (fun m hm s l hrel => ?_)
      rw [xItem_succ c m hrel.clean.budget]
      simp only [memberOf, hk, bind_one, dispatch, execKeyNode]
      exact hm s l hrel
    | none =>
      refine Ev.succ_all (fun m s l hrel => ?_)
      rw [xItem_succ c m hrel.clean.budget]
      simp only [memberOf, hk, dispatch, execKeyNode, key_missing_eq]
      have := Matches.structural (ρ := ρ) hrel.clean hrel.ign l
      cases hρ : ρ.ign <;> simpa [Sem.structural, hρ] using this
  | arr xs =>
    have : u = false := by cases u <;> simp_all [Item.isArr]
    subst this
    refine Ev.succ_all (fun m s l hrel => ?_)
    rw [xItem_succ c m hrel.clean.budget]
    simp only [memberOf, dispatch, execKeyNode, Bool.false_eq_true, if_false]
    have := Matches.structural (ρ := ρ) hrel.clean hrel.ign l
    cases hρ : ρ.ign <;> simpa [Sem.structural, hρ] using this
  | _ =>
    refine Ev.succ_all (fun m s l hrel => ?_)
    rw [xItem_succ c m hrel.clean.budget]
    simp only [memberOf, dispatch, execKeyNode]
    have := Matches.structural (ρ := ρ) hrel.clean hrel.ign l
    cases hρ : ρ.ign <;> simpa [Sem.structural, hρ] using this

end steps

section steps
variable {c : Ctx} {q : Dialect} {al : Bool} {nx : Option Node} {K : Dyn → Item → Outcome}

/-- auto-unwrapping: the step node `n` re-run (without unwrapping) on every element -/
theorem unwrap_spec (n : Node) (ρ ρ' : Dyn) (f : Item → Outcome)
    (hone : ∀ x, StepRun c al ρ (f x) K ρ' n x false) (xs : List Item) :
    Ev fun fuel => ∀ s l, Rel al s ρ →
      Matches s l ((each f xs).bind (K ρ')) (xAny c fuel s (some n) xs (some l) 1 1 1 false false) := by
  rw [bind_each]
  exact flat_spec (some n) false ρ _ (fun w => (hone w).mono (fun _ h => by simpa [visit] using h)) xs

theorem unwrapIf_not_arr (u : Bool) (f : Item → Outcome) (v : Item) (h : u = true → v.isArr = false) :
    unwrapIf u f v = f v := by
  cases v <;> simp_all [unwrapIf, Item.isArr]

theorem key_spec (hK : Cont c al nx K) (k : List Char) (ρ : Dyn) (v : Item) (u : Bool) :
    StepRun c al ρ (evalStep c q u (.key k) ρ v) K ρ (.key k nx) v u := by
  simp only [evalStep]
  by_cases h : u = true → v.isArr = false
  · rw [unwrapIf_not_arr u _ v h]
    exact key_core hK k ρ v u h
  · have hu : u = true := by cases u <;> simp_all
    subst hu
    cases v with
    | arr xs =>
      have hloop := unwrap_spec (.key k nx) ρ ρ (memberOf ρ k)
        (fun x => key_core hK k ρ x false (fun h => by cases h)) xs
      refine hloop.succ (fun m hm s l hrel => ?_)
      rw [xItem_succ c m hrel.clean.budget]
      simp only [unwrapIf, if_true, dispatch, execKeyNode]
      exact hm s l hrel
    | _ => simp [Item.isArr] at h

theorem anyKey_core (hK : Cont c al nx K) (ρ : Dyn) (v : Item) (u : Bool)
    (hu : u = true → v.isArr = false) :
    StepRun c al ρ (membersOf ρ v) K ρ (.const .anyKey nx) v u := by
  cases v with
  | obj kvs =>
    have hloop := flat_spec (c := c) nx c.lax ρ (K ρ) (cont_visit hK ρ) (members kvs)
    refine hloop.succ (fun m hm s l hrel => ?_)
    rw [xItem_succ c m hrel.clean.budget]
    simp only [membersOf, bind_seq, dispatch, execConstNode, execAnyKey]
    exact hm s l hrel
  | arr xs =>
    have : u = false := by cases u <;> simp_all [Item.isArr]
    subst this
    refine Ev.succ_all (fun m s l hrel => ?_)
    rw [xItem_succ c m hrel.clean.budget]
    simp only [membersOf, dispatch, execConstNode, execAnyKey, Bool.false_eq_true, if_false]
    have := Matches.structural (ρ := ρ) hrel.clean hrel.ign l
    cases hρ : ρ.ign <;> simpa [Sem.structural, hρ] using this
  | _ =>
    refine Ev.succ_all (fun m s l hrel => ?_)
    rw [xItem_succ c m hrel.clean.budget]
    simp only [membersOf, dispatch, execConstNode, execAnyKey]
    have := Matches.structural (ρ := ρ) hrel.clean hrel.ign l
    cases hρ : ρ.ign <;> simpa [Sem.structural, hρ] using this

theorem anyKey_spec (hK : Cont c al nx K) (ρ : Dyn) (v : Item) (u : Bool) :
    StepRun c al ρ (evalStep c q u .anyKey ρ v) K ρ (.const .anyKey nx) v u := by
  simp only [evalStep]
  by_cases h : u = true → v.isArr = false
  · rw [unwrapIf_not_arr u _ v h]
    exact anyKey_core hK ρ v u h
  · have hu : u = true := by cases u <;> simp_all
    subst hu
    cases v with
    | arr xs =>
      have hloop := unwrap_spec (.const .anyKey nx) ρ ρ (membersOf ρ)
        (fun x => anyKey_core hK ρ x false (fun h => by cases h)) xs
      refine hloop.succ (fun m hm s l hrel => ?_)
      rw [xItem_succ c m hrel.clean.budget]
      simp only [unwrapIf, if_true, dispatch, execConstNode, execAnyKey, unwrapTargetArray]
      exact hm s l hrel
    | _ => simp [Item.isArr] at h

theorem anyArray_spec (hK : Cont c al nx K) (ρ : Dyn) (v : Item) (u : Bool) :
    StepRun c al ρ (evalStep c q u .anyArray ρ v) K ρ (.const .anyArray nx) v u := by
  simp only [evalStep]
  by_cases hv : v.isArr = true
  · obtain ⟨xs, rfl⟩ : ∃ xs, v = .arr xs := by cases v <;> simp_all [Item.isArr]
    have hloop := flat_spec (c := c) nx c.lax ρ (K ρ) (cont_visit hK ρ) xs
    refine hloop.succ (fun m hm s l hrel => ?_)
    rw [xItem_succ c m hrel.clean.budget]
    simp only [elementsOf, bind_seq, dispatch, execConstNode, execAnyArray]
    exact hm s l hrel
  · have e1 : elementsOf c ρ v = if c.lax then .one v else Sem.structural ρ := by
      cases v <;> simp_all [elementsOf, Item.isArr]
    have e2 : ∀ (item : ItemK) (any : AnyK) (s : St) (f : Found), execAnyArray c item any s nx v f =
        if c.lax then executeNextItem c item s nx v f else Exec.structural s f := by
      intro item any s f; cases v <;> simp_all [execAnyArray, Item.isArr]
    rw [e1]
    cases hlax : c.lax with
    | true =>
      refine (hK ρ v).succ (fun m hm s l hrel => ?_)
      rw [xItem_succ c m hrel.clean.budget]
      simp only [if_true, bind_one, dispatch, execConstNode, e2, hlax]
      exact hm s l hrel
    | false =>
      refine Ev.succ_all (fun m s l hrel => ?_)
      rw [xItem_succ c m hrel.clean.budget]
      simp only [Bool.false_eq_true, if_false, dispatch, execConstNode, e2, hlax]
      have := Matches.structural (ρ := ρ) hrel.clean hrel.ign l
      cases hρ : ρ.ign <;> simpa [Sem.structural, hρ] using this

end steps

theorem Matches.restoreIgn {s : St} {b : Bool} {l : List Item} {o : Outcome} {r : Res}
    (h : Matches { s with ignoreSE := b } l o r) :
    Matches s l o { r with st := { r.st with ignoreSE := s.ignoreSE } } := by
  obtain ⟨⟨⟨h1, h2, h3⟩, h4, h5, h6, h7⟩, hf, hok, hfail⟩ := h
  exact ⟨⟨⟨h1, h2, h3⟩, h4, h5, rfl, h7⟩, hf, hok, hfail⟩

theorem Matches.restoreIgn' {s : St} {b : Bool} {l : List Item} {o : Outcome} {r r' : Res}
    (h : Matches { s with ignoreSE := b } l o r)
    (hr : r' = { r with st := { r.st with ignoreSE := s.ignoreSE } }) : Matches s l o r' := by
  subst hr; exact h.restoreIgn

theorem Rel.setIgn {al : Bool} {s : St} {ρ : Dyn} (h : Rel al s ρ) :
    Rel al { s with ignoreSE := true } { ρ with ign := true } :=
  ⟨⟨⟨h.g.clean.budget, h.g.clean.oof, h.g.clean.panicked⟩, h.g.cur, h.g.inn⟩, rfl⟩

theorem RelG.setIgnρ {al : Bool} {s : St} {ρ : Dyn} (h : RelG al s ρ) (b : Bool) : RelG al s { ρ with ign := b } :=
  ⟨h.clean, h.cur, h.inn⟩

section steps
variable {c : Ctx} {q : Dialect} {al : Bool} {nx : Option Node} {K : Dyn → Item → Outcome}

theorem anyInto_eq (any : AnyK) (s1 : St) (first last : Nat) (v : Item) (f1 : Found) :
    anyInto c any s1 first last nx v f1 =
      if isContainer v then any s1 nx (kids v) f1 1 first last true c.lax else ⟨s1, f1, .notFound, none⟩ := by
  cases v <;> simp [anyInto, isContainer, kids, collection]

theorem kids_of_not_container {v : Item} (h : isContainer v = false) : kids v = [] := by
  cases v <;> simp_all [isContainer, kids, collection]

theorem execAnyNode_zero (item : ItemK) (any : AnyK) (s : St) (last : Nat) (v : Item) (l : List Item) :
    execAnyNode c item any s 0 last nx v (some l) =
      (let r := executeNextItem c item { s with ignoreSE := true } nx v (some l)
       if r.status = .failed then { r with st := { r.st with ignoreSE := s.ignoreSE } }
       else
         let r2 := anyInto c any r.st 0 last nx v r.found
         { r2 with st := { r2.st with ignoreSE := s.ignoreSE } }) := by
  simp [execAnyNode]

theorem any_spec (hK : Cont c al nx K) (a b : Nat) (ρ : Dyn) (v : Item) (u : Bool) :
    StepRun c al ρ (evalStep c q u (.any a b) ρ v) K { ρ with ign := true } (.any a b nx) v u := by
  have eo : (evalStep c q u (.any a b) ρ v).bind (K { ρ with ign := true }) =
      (if a = 0 then K { ρ with ign := true } v else .empty).andThen
        (each (K { ρ with ign := true }) (selL a b 1 (kids v))) := by
    simp only [evalStep, bind_seq, descend_eq, each_append]
    split <;> simp
  unfold StepRun
  rw [eo]
  have htree := xAny_spec c nx a b true c.lax al { ρ with ign := true } (K { ρ with ign := true })
    (fun _ => rfl) (cont_visit hK _) _ (kids v) (Nat.le_refl _) 1 (Nat.le_refl _)
  -- the descent below `v`, from any state
  have hinto : Ev fun fuel => ∀ s l, RelG al s { ρ with ign := true } →
      Matches s l (each (K { ρ with ign := true }) (selL a b 1 (kids v)))
        (anyInto c (xAny c fuel) s a b nx v (some l)) := by
    refine htree.mono (fun m hm s l hs => ?_)
    rw [anyInto_eq]
    cases hc : isContainer v with
    | true => simpa using hm s l hs (Or.inl rfl)
    | false =>
      rw [kids_of_not_container hc, selL_nil]
      simpa [Outcome.empty] using Matches.ret_ok hs.clean l [] .notFound (by simp)
  by_cases ha : a = 0
  · subst ha
    refine ((hK { ρ with ign := true } v).and hinto).succ (fun m hm s l hrel => ?_)
    rw [xItem_succ c m hrel.clean.budget]
    simp only [dispatch]
    rw [execAnyNode_zero]
    have h1 := hm.1 _ l hrel.setIgn
    have h2 := fun hk => hm.2 (executeNextItem c (xItem c m) { s with ignoreSE := true } nx v (some l)).st
        (l ++ (K { ρ with ign := true } v).items) (RelG.keep hrel.setIgn.g hk)
    generalize executeNextItem c (xItem c m) { s with ignoreSE := true } nx v (some l) = r at h1 h2 ⊢
    dsimp only
    by_cases hst : r.status = .failed
    · rw [if_pos hst]
      obtain ⟨e, he⟩ : ∃ e, (K { ρ with ign := true } v).err = some e := by
        cases he : (K { ρ with ign := true } v).err with
        | none => exact absurd hst (h1.ok he).1
        | some e => exact ⟨e, rfl⟩
      exact (h1.andThen_fail he _).restoreIgn' rfl
    · rw [if_neg hst]
      have he : (K { ρ with ign := true } v).err = none := by
        cases he : (K { ρ with ign := true } v).err with
        | none => rfl
        | some e => exact absurd (h1.fail e he).1 hst
      have h2' := h2 h1.keep
      rw [← h1.found] at h2'
      exact (h1.andThen he h2').restoreIgn' rfl
  · refine hinto.succ (fun m hm s l hrel => ?_)
    rw [xItem_succ c m hrel.clean.budget]
    simp only [ha, if_false, dispatch, execAnyNode, empty_andThen]
    exact hm s l (hrel.g.setIgnρ true)

end steps

section steps
variable {c : Ctx} {q : Dialect} {al : Bool} {nx : Option Node} {K : Dyn → Item → Outcome}

theorem lit_spec (hK : Cont c al nx K) (lt : Lit) (ρ : Dyn) (v : Item) (u : Bool) :
    StepRun c al ρ (evalStep c q u (.lit lt) ρ v) K ρ ((Step.lit lt).toNode nx) v u := by
  refine (hK ρ lt.item).succ (fun m hm s l hrel => ?_)
  rw [xItem_succ c m hrel.clean.budget]
  simp only [evalStep, bind_one]
  cases lt with
  | bool b =>
    cases b <;> simp only [Step.toNode, dispatch, execConstNode, execLiteral, Option.isNone_some, Bool.and_false,
      Bool.false_eq_true, if_false] <;> exact hm s l hrel
  | _ =>
    simp only [Step.toNode, dispatch, execConstNode, execLiteral, Option.isNone_some, Bool.and_false,
      Bool.false_eq_true, if_false]
    exact hm s l hrel

theorem var_spec (hK : Cont c al nx K) (x : List Char) (ρ : Dyn) (v : Item) (u : Bool) :
    StepRun c al ρ (evalStep c q u (.var x) ρ v) K ρ (.var x nx) v u := by
  cases hx : c.vars.bind (Item.lookup x) with
  | some val =>
    refine (hK ρ val).succ (fun m hm s l hrel => ?_)
    rw [xItem_succ c m hrel.clean.budget]
    simp only [evalStep, hx, bind_one, dispatch, execVariable, withBaseObject]
    exact Matches.base _ _ _ _ (hm _ l (hrel.base _ _))
  | none =>
    refine Ev.succ_all (fun m s l hrel => ?_)
    rw [xItem_succ c m hrel.clean.budget]
    simp only [evalStep, hx, bind_fail, dispatch, execVariable]
    exact Matches.hard hrel.clean l _ rfl

theorem last_spec (hK : Cont c al nx K) (hal : al = true) (ρ : Dyn) (v : Item) (u : Bool) :
    StepRun c al ρ (evalStep c q u .last ρ v) K ρ (.const .last nx) v u := by
  cases hn : ρ.inn with
  | none =>
    refine Ev.succ_all (fun m s l hrel => ?_)
    obtain ⟨n, h1, _⟩ := hrel.g.inn hal
    rw [hn] at h1; cases h1
  | some n =>
    refine (hK ρ (.int ((n : Int) - 1))).succ (fun m hm s l hrel => ?_)
    obtain ⟨n', h1, h2⟩ := hrel.g.inn hal
    rw [hn] at h1; cases h1
    rw [xItem_succ c m hrel.clean.budget]
    have hnn : ¬ ((n : Int) < 0) := by omega
    simp only [evalStep, hn, bind_one, dispatch, execConstNode, execLastConst, h2, hnn, if_false,
      Option.isNone_some, Bool.and_false, Bool.false_eq_true]
    exact hm s l hrel

theorem type_spec (hK : Cont c al nx K) (ρ : Dyn) (v : Item) (u : Bool) :
    StepRun c al ρ (evalStep c q u .type ρ v) K ρ (.method .type nx) v u := by
  refine (hK ρ (.str (typeName v))).succ (fun m hm s l hrel => ?_)
  rw [xItem_succ c m hrel.clean.budget]
  simp only [evalStep, bind_one, dispatch, execMethodNode]
  exact hm s l hrel

theorem size_spec (hK : Cont c al nx K) (ρ : Dyn) (v : Item) (u : Bool) :
    StepRun c al ρ (evalStep c .go u .size ρ v) K ρ (.method .size nx) v u := by
  simp only [evalStep]
  by_cases hv : v.isArr = true
  · obtain ⟨xs, rfl⟩ : ∃ xs, v = .arr xs := by cases v <;> simp_all [Item.isArr]
    refine (hK ρ (.int xs.length)).succ (fun m hm s l hrel => ?_)
    rw [xItem_succ c m hrel.clean.budget]
    simp only [sizeItem, bind_one, dispatch, execMethodNode, execMethodSize]
    exact hm s l hrel
  · have e1 : sizeItem c ρ v = if c.lax then .one (.int 1) else Sem.structural ρ := by
      cases v <;> simp_all [sizeItem, Item.isArr]
    have e2 : ∀ (item : ItemK) (s : St) (f : Found), execMethodSize c item s nx v f =
        if c.lax then executeNextItem c item s nx (.int 1) f else Exec.structural s f := by
      intro item s f; cases hl : c.lax <;> cases v <;> simp_all [execMethodSize, Item.isArr]
    rw [e1]
    cases hlax : c.lax with
    | true =>
      refine (hK ρ (.int 1)).succ (fun m hm s l hrel => ?_)
      rw [xItem_succ c m hrel.clean.budget]
      simp only [if_true, bind_one, dispatch, execMethodNode, e2, hlax]
      exact hm s l hrel
    | false =>
      refine Ev.succ_all (fun m s l hrel => ?_)
      rw [xItem_succ c m hrel.clean.budget]
      simp only [Bool.false_eq_true, if_false, dispatch, execMethodNode, e2, hlax]
      have := Matches.structural (ρ := ρ) hrel.clean hrel.ign l
      cases hρ : ρ.ign <;> simpa [Sem.structural, hρ] using this

end steps

/-! ## predicates -/

/-- the predicate result `p` (computed from state `s`) is what `o` prescribes -/
structure PMatches (s : St) (o : Except Err Kleene) (p : PRes) : Prop where
  keep : Keep s p.st
  ok : ∀ k, o = .ok k → p.out = k ∧ p.err = none
  fail : ∀ e, o = .error e → p.out = .unknown ∧ p.err = some e ∧ e.isVerbose = false

/-- a callback outcome that neither panics nor raises a suppressible error -/
def CbGood : CbOut → Prop
  | .panic => False
  | .val _ (some e) => e.isVerbose = false
  | .val _ none => True

/-! ### the pair loop is the verdict over all pairs -/

/-- `pairStep` on the callback's outcome -/
def pairStepO (strict : Bool) (acc : PairAcc) (out : CbOut) : PairAcc :=
  match acc.done with
  | some _ => acc
  | none =>
    match out with
    | .panic => { acc with done := some (.unknown, some .invalid, true) }
    | .val p e =>
      match e with
      | some e => { acc with done := some (.unknown, some e, false) }
      | none =>
        match p with
        | .unknown => if strict then { acc with done := some (.unknown, none, false) } else { acc with hasErr := true }
        | .t => if !strict then { acc with done := some (.t, none, false) } else { acc with found := true }
        | .f => acc

theorem pairStep_eq (strict : Bool) (cb : Item → Item → CbOut) (acc : PairAcc) (l r : Item) :
    pairStep strict cb acc l r = pairStepO strict acc (cb l r) := rfl

theorem pairLoop_eq (strict : Bool) (cb : Item → Item → CbOut) (ls rs : List Item) :
    pairLoop strict cb ls rs = (pairs cb ls rs).foldl (pairStepO strict) ⟨false, false, none⟩ := by
  unfold pairLoop pairs
  generalize (⟨false, false, none⟩ : PairAcc) = acc
  induction ls generalizing acc with
  | nil => rfl
  | cons l ls ih =>
    simp only [List.foldl_cons, List.flatMap_cons, List.foldl_append]
    rw [ih]
    congr 1
    clear ih
    induction rs generalizing acc with
    | nil => rfl
    | cons r rs ihr => simp only [List.foldl_cons, List.map_cons, pairStep_eq]; exact ihr _

/-- the verdict the loop state stands for -/
def accVerdict (a : PairAcc) : Except Err Kleene :=
  match a.done with
  | some (_, some e, _) => .error e
  | some (p, none, _) => .ok p
  | none => if a.found then .ok .t else if a.hasErr then .ok .unknown else .ok .f

theorem fold_done (strict : Bool) (outs : List CbOut) (acc : PairAcc) (h : acc.done.isSome = true) :
    outs.foldl (pairStepO strict) acc = acc := by
  induction outs with
  | nil => rfl
  | cons o os ih =>
    rw [List.foldl_cons]
    have : pairStepO strict acc o = acc := by
      unfold pairStepO
      cases hd : acc.done with
      | none => rw [hd] at h; cases h
      | some x => rfl
    rw [this, ih]

theorem verdictLax_fold (outs : List CbOut) (hg : ∀ o ∈ outs, CbGood o) (u : Bool) :
    accVerdict (outs.foldl (pairStepO false) ⟨u, false, none⟩) = verdictLax outs u ∧
    ((outs.foldl (pairStepO false) ⟨u, false, none⟩).done.map (·.2.2)).getD false = false := by
  induction outs generalizing u with
  | nil => cases u <;> simp [accVerdict, verdictLax]
  | cons o os ih =>
    have hgo := hg o (List.mem_cons_self ..)
    have ih' := fun u => ih (fun o ho => hg o (List.mem_cons_of_mem _ ho)) u
    rw [List.foldl_cons]
    cases o with
    | panic => exact absurd hgo (by simp [CbGood])
    | val p e =>
      cases e with
      | some e =>
        simp only [pairStepO, verdictLax]
        rw [fold_done _ _ _ rfl]
        simp [accVerdict]
      | none =>
        cases p with
        | t =>
          simp only [pairStepO, verdictLax, Bool.not_false, if_true]
          rw [fold_done _ _ _ rfl]
          simp [accVerdict]
        | f => simpa [pairStepO, verdictLax] using ih' u
        | unknown => simpa [pairStepO, verdictLax] using ih' true

theorem verdictStrict_fold (outs : List CbOut) (hg : ∀ o ∈ outs, CbGood o) (t : Bool) :
    accVerdict (outs.foldl (pairStepO true) ⟨false, t, none⟩) = verdictStrict outs t ∧
    ((outs.foldl (pairStepO true) ⟨false, t, none⟩).done.map (·.2.2)).getD false = false := by
  induction outs generalizing t with
  | nil => cases t <;> simp [accVerdict, verdictStrict]
  | cons o os ih =>
    have hgo := hg o (List.mem_cons_self ..)
    have ih' := fun t => ih (fun o ho => hg o (List.mem_cons_of_mem _ ho)) t
    rw [List.foldl_cons]
    cases o with
    | panic => exact absurd hgo (by simp [CbGood])
    | val p e =>
      cases e with
      | some e =>
        simp only [pairStepO, verdictStrict]
        rw [fold_done _ _ _ rfl]
        simp [accVerdict]
      | none =>
        cases p with
        | unknown =>
          simp only [pairStepO, verdictStrict, if_true]
          rw [fold_done _ _ _ rfl]
          simp [accVerdict]
        | f => simpa [pairStepO, verdictStrict] using ih' t
        | t => simpa [pairStepO, verdictStrict] using ih' true

/-- errors of a verdict come from the callbacks -/
theorem verdictLax_err (outs : List CbOut) (hg : ∀ o ∈ outs, CbGood o) (u : Bool) (e : Err)
    (h : verdictLax outs u = .error e) : e.isVerbose = false := by
  induction outs generalizing u with
  | nil => simp [verdictLax] at h
  | cons o os ih =>
    have hgo := hg o (List.mem_cons_self ..)
    have ih' := fun u => ih (fun o ho => hg o (List.mem_cons_of_mem _ ho)) u
    cases o with
    | panic => exact absurd hgo (by simp [CbGood])
    | val p e' =>
      cases e' with
      | some e' => simp only [verdictLax, Except.error.injEq] at h; subst h; exact hgo
      | none =>
        cases p with
        | t => simp [verdictLax] at h
        | f => exact ih' u (by simpa [verdictLax] using h)
        | unknown => exact ih' true (by simpa [verdictLax] using h)

theorem verdictStrict_err (outs : List CbOut) (hg : ∀ o ∈ outs, CbGood o) (t : Bool) (e : Err)
    (h : verdictStrict outs t = .error e) : e.isVerbose = false := by
  induction outs generalizing t with
  | nil => simp [verdictStrict] at h
  | cons o os ih =>
    have hgo := hg o (List.mem_cons_self ..)
    have ih' := fun t => ih (fun o ho => hg o (List.mem_cons_of_mem _ ho)) t
    cases o with
    | panic => exact absurd hgo (by simp [CbGood])
    | val p e' =>
      cases e' with
      | some e' => simp only [verdictStrict, Except.error.injEq] at h; subst h; exact hgo
      | none =>
        cases p with
        | unknown => simp [verdictStrict] at h
        | f => exact ih' t (by simpa [verdictStrict] using h)
        | t => exact ih' true (by simpa [verdictStrict] using h)

theorem pairs_good {cb : Item → Item → CbOut} (hcb : ∀ l r, CbGood (cb l r)) (ls rs : List Item) :
    ∀ o ∈ pairs cb ls rs, CbGood o := by
  intro o ho
  simp only [pairs, List.mem_flatMap, List.mem_map] at ho
  obtain ⟨l, _, r, _, rfl⟩ := ho
  exact hcb l r

theorem fold_err_unknown (strict : Bool) (outs : List CbOut) (acc : PairAcc)
    (h : ∀ p e pk, acc.done = some (p, some e, pk) → p = .unknown) :
    ∀ p e pk, (outs.foldl (pairStepO strict) acc).done = some (p, some e, pk) → p = .unknown := by
  induction outs generalizing acc with
  | nil => exact h
  | cons o os ih =>
    rw [List.foldl_cons]
    apply ih
    intro p e pk hd
    unfold pairStepO at hd
    split at hd
    · exact h p e pk hd
    · rename_i hnone
      split at hd
      · simp at hd; exact hd.1.symm
      · split at hd
        · simp at hd; exact hd.1.symm
        · split at hd
          · split at hd
            · simp at hd
            · simp [hnone] at hd
          · split at hd
            · simp at hd
            · simp [hnone] at hd
          · simp [hnone] at hd

/-- `predicateTail`: the pair loop and its verdict -/
theorem predicateTail_spec (c : Ctx) {s : St} (hs : Clean s) {cb : Item → Item → CbOut}
    (hcb : ∀ l r, CbGood (cb l r)) (ls rs : List Item) :
    PMatches s (if c.lax then verdictLax (pairs cb ls rs) false else verdictStrict (pairs cb ls rs) false)
      (predicateTail c s cb ls rs) := by
  unfold predicateTail
  rw [pairLoop_eq]
  have hg := pairs_good hcb ls rs
  cases hlax : c.lax with
  | true =>
    obtain ⟨h1, h2⟩ := verdictLax_fold _ hg false
    have herr := verdictLax_err _ hg false
    have hunk := fold_err_unknown false (pairs cb ls rs) ⟨false, false, none⟩ (by simp)
    simp only [Bool.not_true, if_true]
    generalize (pairs cb ls rs).foldl (pairStepO false) ⟨false, false, none⟩ = a at h1 h2 hunk
    rw [← h1] at herr ⊢
    obtain ⟨he, fd, dn⟩ := a
    cases dn with
    | none =>
      simp only [accVerdict] at herr ⊢
      cases fd <;> cases he <;>
        exact ⟨Keep.refl hs, fun k hk => by simp_all, fun e he => by simp_all⟩
    | some x =>
      obtain ⟨p, e, pk⟩ := x
      simp only [Option.map_some, Option.getD_some] at h2
      subst h2
      cases e with
      | none =>
        simp only [accVerdict, Bool.or_false]
        exact ⟨Keep.refl hs, fun k hk => by simp_all, fun e he => by simp_all⟩
      | some e =>
        simp only [accVerdict, Bool.or_false] at herr ⊢
        exact ⟨Keep.refl hs, fun k hk => by simp_all, fun e' he => by
          simp only [Except.error.injEq] at he; subst he; exact ⟨hunk _ _ _ rfl, rfl, herr _ rfl⟩⟩
  | false =>
    obtain ⟨h1, h2⟩ := verdictStrict_fold _ hg false
    have herr := verdictStrict_err _ hg false
    have hunk := fold_err_unknown true (pairs cb ls rs) ⟨false, false, none⟩ (by simp)
    simp only [Bool.not_false, Bool.false_eq_true, if_false]
    generalize (pairs cb ls rs).foldl (pairStepO true) ⟨false, false, none⟩ = a at h1 h2 hunk
    rw [← h1] at herr ⊢
    obtain ⟨he, fd, dn⟩ := a
    cases dn with
    | none =>
      simp only [accVerdict] at herr ⊢
      cases fd <;> cases he <;>
        exact ⟨Keep.refl hs, fun k hk => by simp_all, fun e he => by simp_all⟩
    | some x =>
      obtain ⟨p, e, pk⟩ := x
      simp only [Option.map_some, Option.getD_some] at h2
      subst h2
      cases e with
      | none =>
        simp only [accVerdict, Bool.or_false]
        exact ⟨Keep.refl hs, fun k hk => by simp_all, fun e he => by simp_all⟩
      | some e =>
        simp only [accVerdict, Bool.or_false] at herr ⊢
        exact ⟨Keep.refl hs, fun k hk => by simp_all, fun e' he => by
          simp only [Except.error.injEq] at he; subst he; exact ⟨hunk _ _ _ rfl, rfl, herr _ rfl⟩⟩

theorem unwrapSeq_eq (xs : List Item) : Exec.unwrapSeq xs = Sem.unwrapSeq xs := by
  induction xs with
  | nil => rfl
  | cons x xs ih =>
    cases x <;> simp [Exec.unwrapSeq, Sem.unwrapSeq, List.flatMap_cons] <;> simpa [Sem.unwrapSeq] using ih

/-- what the silently evaluated operand run `R` (from `s`) says -/
structure OpMatches (s : St) (op : Operand) (R : Res) : Prop where
  keep : Keep s R.st
  seq : ∀ xs, op = .seq xs → R.status ≠ .failed ∧ R.found.getD [] = xs
  unknown : op = .unknown → R.status = .failed ∧ R.err = none
  error : ∀ e, op = .error e → R.status = .failed ∧ R.err = some e ∧ e.isVerbose = false

theorem Keep.setVerbose {s t : St} (b : Bool) (h : Keep { s with verbose := b } t) :
    Keep s { t with verbose := s.verbose } :=
  ⟨⟨h.clean.budget, h.clean.oof, h.clean.panicked⟩, h.cur, h.inn, h.ign, rfl⟩

theorem Rel.setVerbose {al : Bool} {s : St} {ρ : Dyn} (h : Rel al s ρ) (b : Bool) : Rel al { s with verbose := b } ρ :=
  ⟨⟨⟨h.g.clean.budget, h.g.clean.oof, h.g.clean.panicked⟩, h.g.cur, h.g.inn⟩, h.ign⟩

/-- an operand of a predicate: evaluated silently into its own list, unwrapped in lax mode on request -/
theorem operand_spec (c : Ctx) (item : ItemK) (s : St) (n : Node) (v : Item) (unwrap : Bool) (o : Outcome)
    (h : Matches { s with verbose := false } [] o (executeItem c item { s with verbose := false } n v (some []))) :
    OpMatches s (operand c unwrap o) (optUnwrapResultSilent c item s n v unwrap (some [])) := by
  unfold optUnwrapResultSilent optUnwrapResult
  dsimp only
  generalize executeItem c item { s with verbose := false } n v (some []) = r0 at h
  have hk := h.keep.setVerbose false
  have hf : r0.found.getD [] = o.items := by simp [h.found]
  cases he : o.err with
  | none =>
    obtain ⟨h1, h2⟩ := h.ok he
    simp only [operand, he]
    by_cases hu : (unwrap && c.lax) = true
    · simp only [hu, if_true, h1, if_false, List.nil_append]
      refine ⟨hk, fun xs hx => ?_, (fun hx => by cases hx), fun e hx => by cases hx⟩
      simp only [Operand.seq.injEq] at hx
      subst hx
      exact ⟨by simp, by simp [hf, unwrapSeq_eq]⟩
    · simp only [hu, if_false, Bool.false_eq_true]
      refine ⟨hk, fun xs hx => ?_, (fun hx => by cases hx), fun e hx => by cases hx⟩
      simp only [Operand.seq.injEq] at hx
      subst hx
      exact ⟨h1, hf⟩
  | some e =>
    obtain ⟨h1, h2⟩ := h.fail e he
    have h2' : r0.err = if e.isVerbose then none else some e := by
      rw [h2]; unfold report; cases e.isVerbose <;> simp
    simp only [operand, he]
    have hres : ∀ R : Res, R.st = r0.st → R.status = .failed → R.err = r0.err →
        OpMatches s (if e.isVerbose = true then Operand.unknown else Operand.error e)
          { R with st := { R.st with verbose := s.verbose } } := by
      intro R e1 e2 e3
      cases hv : e.isVerbose with
      | true =>
        simp only [if_true]
        refine ⟨by rw [e1]; exact hk, (fun xs hx => by cases hx), fun _ => ⟨e2, ?_⟩, fun e hx => by cases hx⟩
        rw [e3, h2', hv]; rfl
      | false =>
        simp only [Bool.false_eq_true, if_false]
        refine ⟨by rw [e1]; exact hk, (fun xs hx => by cases hx), (fun hx => by cases hx), fun e' hx => ?_⟩
        simp only [Operand.error.injEq] at hx; subst hx
        exact ⟨e2, by rw [e3, h2', hv]; rfl, hv⟩
    by_cases hu : (unwrap && c.lax) = true
    · simp only [hu, if_true, h1]
      exact hres ⟨r0.st, some [], .failed, r0.err⟩ rfl rfl rfl
    · simp only [hu, Bool.false_eq_true, if_false]
      exact hres r0 rfl h1 rfl

/-- `executePredicate`: both operands, then the pair loop -/
theorem executePredicate_spec (c : Ctx) (item : ItemK) (al : Bool) (ρ : Dyn) (s : St) (ln : Node)
    (right : Option Node) (v : Item) (ur : Bool) {cb : Item → Item → CbOut} (hcb : ∀ l r, CbGood (cb l r))
    (ol : Outcome) (oR : Operand)
    (hrel : Rel al s ρ)
    (hl : ∀ t, Rel al t ρ → Matches t [] ol (executeItem c item t ln v (some [])))
    (hr : match right with
      | some rn => ∃ or, oR = operand c ur or ∧ ∀ t, Rel al t ρ → Matches t [] or (executeItem c item t rn v (some []))
      | none => oR = .seq [.null]) :
    PMatches s (predicate c cb (operand c true ol) oR) (executePredicate c item s ln right v ur cb) := by
  unfold executePredicate
  dsimp only
  have h1 := operand_spec c item s ln v true ol (hl _ (hrel.setVerbose false))
  generalize optUnwrapResultSilent c item s ln v true (some []) = rl at h1 ⊢
  cases hol : operand c true ol with
  | unknown =>
    obtain ⟨e1, e2⟩ := h1.unknown hol
    simp only [predicate, e1, if_true]
    exact ⟨h1.keep, fun k hk => by simp at hk; subst hk; exact ⟨rfl, e2⟩, fun e he => by cases he⟩
  | error e =>
    obtain ⟨e1, e2, e3⟩ := h1.error e hol
    simp only [predicate, e1, if_true]
    exact ⟨h1.keep, (fun k hk => by cases hk), fun e' he => by simp at he; subst he; exact ⟨rfl, e2, e3⟩⟩
  | seq ls =>
    obtain ⟨e1, e2⟩ := h1.seq ls hol
    simp only [e1, if_false]
    have hrel1 : Rel al rl.st ρ := hrel.keep h1.keep
    cases right with
    | none =>
      simp only at hr
      subst hr
      simp only [predicate, e2]
      have h3 := predicateTail_spec c hrel1.clean hcb ls [.null]
      exact ⟨h1.keep.trans h3.keep, h3.ok, h3.fail⟩
    | some rn =>
      simp only at hr
      dsimp only
      obtain ⟨or, rfl, hr⟩ := hr
      have h2 := operand_spec c item rl.st rn v ur or (hr _ (hrel1.setVerbose false))
      generalize optUnwrapResultSilent c item rl.st rn v ur (some []) = rr at h2 ⊢
      have hk2 := h1.keep.trans h2.keep
      cases hor : operand c ur or with
      | unknown =>
        obtain ⟨f1, f2⟩ := h2.unknown hor
        simp only [predicate, f1, if_true]
        exact ⟨hk2, fun k hk => by simp at hk; subst hk; exact ⟨rfl, f2⟩, fun e he => by cases he⟩
      | error e =>
        obtain ⟨f1, f2, f3⟩ := h2.error e hor
        simp only [predicate, f1, if_true]
        exact ⟨hk2, (fun k hk => by cases hk), fun e' he => by simp at he; subst he; exact ⟨rfl, f2, f3⟩⟩
      | seq rs =>
        obtain ⟨f1, f2⟩ := h2.seq rs hor
        simp only [predicate, f1, if_false, e2, f2]
        have h3 := predicateTail_spec c (hrel1.keep h2.keep).clean hcb ls rs
        exact ⟨hk2.trans h3.keep, h3.ok, h3.fail⟩

/-- the callbacks neither panic nor raise a suppressible error -/
structure CbOK (c : Ctx) : Prop where
  cmp : ∀ op l r, isCompareOp op = true → CbGood (compareItems c op l r)
  regex : ∀ p fl t, (c.regexMatch p fl t).isSome = true

theorem startsWith_good (l r : Item) : CbGood (startsWith l r) := by
  unfold startsWith; split <;> simp [CbGood]

theorem likeRegex_good {c : Ctx} (h : CbOK c) (pat : List Char) (fl : Nat) (l : Item) : CbGood (likeRegex c pat fl l) := by
  unfold likeRegex
  split
  · rename_i t
    have := h.regex pat fl t
    cases hm : c.regexMatch pat fl t with
    | none => rw [hm] at this; cases this
    | some b => simp [CbGood]
  · simp [CbGood]

theorem PMatches.of_keep {s s1 : St} {o : Except Err Kleene} {p : PRes} (hk : Keep s s1) (h : PMatches s1 o p) :
    PMatches s o p := ⟨hk.trans h.keep, h.ok, h.fail⟩

/-- the run of a predicate node -/
abbrev PredRun (c : Ctx) (al : Bool) (ρ : Dyn) (o : Except Err Kleene) (n : Node) (v : Item) (chn : Bool) : Prop :=
  Ev fun fuel => ∀ s, Rel al s ρ → PMatches s o (xBool c fuel s n v chn)

/-- the run of an operand path (a chain on the item `v`, in lax mode with unwrapping of the first step) -/
abbrev PathRun (c : Ctx) (al : Bool) (ρ : Dyn) (o : Outcome) (n : Node) (v : Item) : Prop :=
  Ev fun fuel => ∀ s l, Rel al s ρ → Matches s l o (xItem c fuel s n v (some l) c.lax)

section preds
variable {c : Ctx} {al : Bool} {ρ : Dyn} {v : Item} {nx : Option Node} {chn : Bool}

theorem chn_ok (hchn : chn = false → nx = none) : (!chn && nx.isSome) = false := by
  cases chn with
  | true => rfl
  | false => simp [hchn rfl]

theorem cmp_spec (hc : CbOK c) (hchn : chn = false → nx = none) (op : CmpOp) {ln rn : Node} {ol or : Outcome}
    (hl : PathRun c al ρ ol ln v) (hr : PathRun c al ρ or rn v) :
    PredRun c al ρ (predicate c (compareItems c op.toBinOp) (operand c true ol) (operand c true or))
      (.binary op.toBinOp (some ln) (some rn) nx) v chn := by
  refine (hl.and hr).succ (fun m hm s hrel => ?_)
  have hop : isCompareOp op.toBinOp = true := by cases op <;> rfl
  have hx : executeBoolItem c (xItem c m) (xBool c m) s (.binary op.toBinOp (some ln) (some rn) nx) v chn =
      executePredicate c (xItem c m) s ln (some rn) v true (compareItems c op.toBinOp) := by
    simp only [executeBoolItem, Node.next, chn_ok hchn, Bool.false_eq_true, if_false]
    cases op <;> simp [executeBinaryBoolItem, CmpOp.toBinOp, isCompareOp]
  rw [xBool, hx]
  exact executePredicate_spec c _ al ρ s ln (some rn) v true (fun l r => hc.cmp _ l r hop) ol _ hrel
    (fun t ht => hm.1 t [] ht) ⟨or, rfl, fun t ht => hm.2 t [] ht⟩

theorem startsWith_spec (hchn : chn = false → nx = none) {ln rn : Node} {ol or : Outcome}
    (hl : PathRun c al ρ ol ln v) (hr : PathRun c al ρ or rn v) :
    PredRun c al ρ (predicate c startsWith (operand c true ol) (operand c false or))
      (.binary .startsWith (some ln) (some rn) nx) v chn := by
  refine (hl.and hr).succ (fun m hm s hrel => ?_)
  have hx : executeBoolItem c (xItem c m) (xBool c m) s (.binary .startsWith (some ln) (some rn) nx) v chn =
      executePredicate c (xItem c m) s ln (some rn) v false startsWith := by
    simp only [executeBoolItem, Node.next, chn_ok hchn, Bool.false_eq_true, if_false, executeBinaryBoolItem]
  rw [xBool, hx]
  exact executePredicate_spec c _ al ρ s ln (some rn) v false startsWith_good ol _ hrel
    (fun t ht => hm.1 t [] ht) ⟨or, rfl, fun t ht => hm.2 t [] ht⟩

theorem likeRegex_spec (hc : CbOK c) (hchn : chn = false → nx = none) {xn : Node} {ox : Outcome}
    (pat : List Char) (fl : Nat) (hx : PathRun c al ρ ox xn v) :
    PredRun c al ρ (predicate c (fun l _ => likeRegex c pat fl l) (operand c true ox) (.seq [.null]))
      (.regex xn pat fl nx) v chn := by
  refine hx.succ (fun m hm s hrel => ?_)
  have hx : executeBoolItem c (xItem c m) (xBool c m) s (.regex xn pat fl nx) v chn =
      executePredicate c (xItem c m) s xn none v false (fun l _ => likeRegex c pat fl l) := by
    simp only [executeBoolItem, Node.next, chn_ok hchn, Bool.false_eq_true, if_false]
  rw [xBool, hx]
  exact executePredicate_spec c _ al ρ s xn none v false (fun l _ => likeRegex_good hc pat fl l) ox _ hrel
    (fun t ht => hm t [] ht) rfl

theorem PMatches.mk_ok {s : St} {p : PRes} {k : Kleene} (hk : Keep s p.st) (h1 : p.out = k) (h2 : p.err = none) :
    PMatches s (.ok k) p :=
  ⟨hk, fun k' hk' => by cases hk'; exact ⟨h1, h2⟩, fun e he => by cases he⟩

theorem and_res (a b : PRes) (k k' : Kleene) (hk : k ≠ .f) (e1 : a.out = k) (f1 : b.out = k') (f2 : b.err = none) :
    (if b.out = .t then (⟨b.st, a.out, b.err⟩ : PRes) else b).st = b.st ∧
    (if b.out = .t then (⟨b.st, a.out, b.err⟩ : PRes) else b).out = and3 k k' ∧
    (if b.out = .t then (⟨b.st, a.out, b.err⟩ : PRes) else b).err = none := by
  cases k <;> cases k' <;> simp_all [and3]

theorem or_res (a b : PRes) (k k' : Kleene) (hk : k ≠ .t) (e1 : a.out = k) (e2 : a.err = none) (f1 : b.out = k')
    (f2 : b.err = none) :
    (if b.out = .f then (⟨b.st, a.out, a.err⟩ : PRes) else b).st = b.st ∧
    (if b.out = .f then (⟨b.st, a.out, a.err⟩ : PRes) else b).out = or3 k k' ∧
    (if b.out = .f then (⟨b.st, a.out, a.err⟩ : PRes) else b).err = none := by
  cases k <;> cases k' <;> simp_all [or3]

theorem and_spec (hchn : chn = false → nx = none) {pn qn : Node} {op oq : Except Err Kleene}
    (hp : PredRun c al ρ op pn v false) (hq : PredRun c al ρ oq qn v false) :
    PredRun c al ρ (andOf op oq) (.binary .and (some pn) (some qn) nx) v chn := by
  refine (hp.and hq).succ (fun m hm s hrel => ?_)
  simp only [xBool, executeBoolItem, Node.next, chn_ok hchn, Bool.false_eq_true, if_false, executeBinaryBoolItem]
  have ha := hm.1 s hrel
  generalize xBool c m s pn v false = a at ha
  cases op with
  | error e =>
    obtain ⟨e1, e2, e3⟩ := ha.fail e rfl
    simp only [andOf, e1, e2, Option.isSome_some, Bool.or_true, if_true]
    exact ha
  | ok k =>
    obtain ⟨e1, e2⟩ := ha.ok k rfl
    have hb := hm.2 a.st (hrel.keep ha.keep)
    generalize xBool c m a.st qn v false = b at hb
    cases k with
    | f => simp only [andOf, e1, e2, Bool.true_or, decide_true, if_true]; exact ha
    | t =>
      simp only [e1, e2, Option.isSome_none, Bool.or_false, reduceCtorEq, decide_false, Bool.false_eq_true, if_false]
      cases oq with
      | error e =>
        obtain ⟨f1, f2, f3⟩ := hb.fail e rfl
        simp only [andOf, f1, if_false]
        exact hb.of_keep ha.keep
      | ok k' =>
        obtain ⟨f1, f2⟩ := hb.ok k' rfl
        obtain ⟨g1, g2, g3⟩ := and_res a b .t k' (by simp) e1 f1 f2
        rw [e1] at g1 g2 g3
        exact PMatches.mk_ok (by rw [g1]; exact ha.keep.trans hb.keep) g2 g3
    | unknown =>
      simp only [e1, e2, Option.isSome_none, Bool.or_false, reduceCtorEq, decide_false, Bool.false_eq_true, if_false]
      cases oq with
      | error e =>
        obtain ⟨f1, f2, f3⟩ := hb.fail e rfl
        simp only [andOf, f1, if_false]
        exact hb.of_keep ha.keep
      | ok k' =>
        obtain ⟨f1, f2⟩ := hb.ok k' rfl
        obtain ⟨g1, g2, g3⟩ := and_res a b .unknown k' (by simp) e1 f1 f2
        rw [e1] at g1 g2 g3
        exact PMatches.mk_ok (by rw [g1]; exact ha.keep.trans hb.keep) g2 g3

theorem or_spec (hchn : chn = false → nx = none) {pn qn : Node} {op oq : Except Err Kleene}
    (hp : PredRun c al ρ op pn v false) (hq : PredRun c al ρ oq qn v false) :
    PredRun c al ρ (orOf op oq) (.binary .or (some pn) (some qn) nx) v chn := by
  refine (hp.and hq).succ (fun m hm s hrel => ?_)
  simp only [xBool, executeBoolItem, Node.next, chn_ok hchn, Bool.false_eq_true, if_false, executeBinaryBoolItem]
  have ha := hm.1 s hrel
  generalize xBool c m s pn v false = a at ha
  cases op with
  | error e =>
    obtain ⟨e1, e2, e3⟩ := ha.fail e rfl
    simp only [orOf, e1, e2, Option.isSome_some, Bool.or_true, if_true]
    exact ha
  | ok k =>
    obtain ⟨e1, e2⟩ := ha.ok k rfl
    have hb := hm.2 a.st (hrel.keep ha.keep)
    generalize xBool c m a.st qn v false = b at hb
    cases k with
    | t => simp only [orOf, e1, e2, Bool.true_or, decide_true, if_true]; exact ha
    | f =>
      simp only [e1, e2, Option.isSome_none, Bool.or_false, reduceCtorEq, decide_false, Bool.false_eq_true, if_false]
      cases oq with
      | error e =>
        obtain ⟨f1, f2, f3⟩ := hb.fail e rfl
        simp only [orOf, f1, if_false]
        exact hb.of_keep ha.keep
      | ok k' =>
        obtain ⟨f1, f2⟩ := hb.ok k' rfl
        obtain ⟨g1, g2, g3⟩ := or_res a b _ k' (by simp) e1 e2 f1 f2
        rw [e1, e2] at g1 g2 g3
        exact PMatches.mk_ok (by rw [g1]; exact ha.keep.trans hb.keep) g2 g3
    | unknown =>
      simp only [e1, e2, Option.isSome_none, Bool.or_false, reduceCtorEq, decide_false, Bool.false_eq_true, if_false]
      cases oq with
      | error e =>
        obtain ⟨f1, f2, f3⟩ := hb.fail e rfl
        simp only [orOf, f1, if_false]
        exact hb.of_keep ha.keep
      | ok k' =>
        obtain ⟨f1, f2⟩ := hb.ok k' rfl
        obtain ⟨g1, g2, g3⟩ := or_res a b _ k' (by simp) e1 e2 f1 f2
        rw [e1, e2] at g1 g2 g3
        exact PMatches.mk_ok (by rw [g1]; exact ha.keep.trans hb.keep) g2 g3

theorem not_spec (hchn : chn = false → nx = none) {pn : Node} {op : Except Err Kleene}
    (hp : PredRun c al ρ op pn v false) :
    PredRun c al ρ (notOf op) (.unary .not (some pn) nx) v chn := by
  refine hp.succ (fun m hm s hrel => ?_)
  simp only [xBool, executeBoolItem, Node.next, chn_ok hchn, Bool.false_eq_true, if_false, executeUnaryBoolItem]
  have ha := hm s hrel
  generalize xBool c m s pn v false = a at ha
  cases op with
  | error e =>
    obtain ⟨e1, e2, e3⟩ := ha.fail e rfl
    simp only [notOf, e1]
    exact ha
  | ok k =>
    obtain ⟨e1, e2⟩ := ha.ok k rfl
    cases k <;> simp only [notOf, not3, e1]
    · exact PMatches.mk_ok ha.keep rfl rfl
    · exact PMatches.mk_ok ha.keep rfl rfl
    · exact PMatches.mk_ok ha.keep e1 e2

theorem isUnknown_spec (hchn : chn = false → nx = none) {pn : Node} {op : Except Err Kleene}
    (hp : PredRun c al ρ op pn v false) :
    PredRun c al ρ (isUnknownOf .go op) (.unary .isUnknown (some pn) nx) v chn := by
  refine hp.succ (fun m hm s hrel => ?_)
  simp only [xBool, executeBoolItem, Node.next, chn_ok hchn, Bool.false_eq_true, if_false, executeUnaryBoolItem]
  have ha := hm s hrel
  generalize xBool c m s pn v false = a at ha
  cases op with
  | error e =>
    obtain ⟨e1, e2, e3⟩ := ha.fail e rfl
    by_cases hc : e = .cancelled
    · subst hc
      simp only [isUnknownOf, e2, if_true, Dialect.go, bne_self_eq_false, Bool.and_false, Bool.false_eq_true, if_false]
      exact ⟨ha.keep, (fun k hk => by cases hk), fun e' he' => by cases he'; exact ⟨rfl, rfl, rfl⟩⟩
    · have hne : (e != Err.cancelled) = true := by simpa using hc
      have hne' : ¬ (some e = some Err.cancelled) := by simpa using hc
      simp only [isUnknownOf, e1, e2, hne', if_false, Dialect.go, hne, Bool.and_self, if_true]
      exact PMatches.mk_ok ha.keep rfl rfl
  | ok k =>
    obtain ⟨e1, e2⟩ := ha.ok k rfl
    simp only [isUnknownOf, e1, e2]
    exact PMatches.mk_ok ha.keep rfl rfl

end preds

/-! ## probe mode (`found = nil`), from the collect-mode specification -/

/-- what a probe-mode run answers, given what the collect-mode run from the same state matches:
    "found" iff the outcome has an item; otherwise the outcome's error, if any -/
theorem probe_spec (c : Ctx) (fuel : Nat) (s : St) (n : Node) (v : Item) (u : Bool)
    (hn : Probe.spineOK n = true) (hs : Clean s) (o : Outcome)
    (hc : Matches s [] o (xItem c fuel s n v (some []) u)) :
    Keep s (xItem c fuel s n v none u).st ∧
    (o.items ≠ [] → (xItem c fuel s n v none u).status = .ok) ∧
    (o.items = [] →
      (xItem c fuel s n v none u).status ≠ .ok ∧
      (xItem c fuel s n v none u).status = (xItem c fuel s n v (some []) u).status ∧
      (xItem c fuel s n v none u).err = (xItem c fuel s n v (some []) u).err) := by
  have hpc := Probe.xItem_pc_strong c fuel s n v [] u hn
  have hgood := xItem_good c fuel s n v none u
  have hbud := (Compose.bud_all c fuel).1 s n v none u hs.budget
  generalize xItem c fuel s n v none u = rp at hpc hgood hbud ⊢
  generalize xItem c fuel s n v (some []) u = rc at hpc hc ⊢
  have hctx := hgood.ctx
  simp only [St.ctxEq] at hctx
  have hfound : rc.found = some o.items := by simpa using hc.found
  by_cases hst : rp.status = .ok
  · obtain ⟨hhit, hle⟩ := hpc.hit hst
    have happ : Probe.Appended [] rc.found := by
      rcases hhit with h | ⟨h, _⟩
      · exact h
      · cases h
    have hne : o.items ≠ [] := by
      intro h0
      exact happ.ne (by rw [hfound, h0])
    have hoof : rp.st.oof = false := by
      cases h : rp.st.oof with
      | false => rfl
      | true => have := hle.1 h; rw [hc.keep.clean.oof] at this; cases this
    have hpan : rp.st.panicked = false := by
      cases h : rp.st.panicked with
      | false => rfl
      | true => have := hle.2 h; rw [hc.keep.clean.panicked] at this; cases this
    exact ⟨⟨⟨hbud, hoof, hpan⟩, hctx.1, hctx.2.2.2.1, hctx.2.2.2.2.1, hctx.2.2.2.2.2⟩, fun _ => hst,
      fun h0 => absurd h0 hne⟩
  · have hsame := hpc.same hst
    subst hsame
    have h0 : o.items = [] := by simpa using hfound.symm
    exact ⟨hc.keep, fun hne => absurd h0 hne, fun _ => ⟨hst, rfl, rfl⟩⟩

/-! ### the nodes of the translation never end in a unary `+`/`-` -/

theorem spineOK_step (st : Step) (nx : Option Node) (h : ∀ sg x, st ≠ .unary sg x) :
    Probe.spineOK (st.toNode nx) = Probe.spineOKO nx := by
  cases st with
  | lit l => cases l with
    | bool b => cases b <;> simp [Step.toNode, Probe.spineOK]
    | _ => simp [Step.toNode, Probe.spineOK]
  | pred p => cases p <;> simp [Step.toNode, Pred.toNode, Probe.spineOK, Probe.isUMath]
  | conv m => cases m <;> simp [Step.toNode, ConvM.node, Probe.spineOK]
  | datetime m arg => cases m <;> simp [Step.toNode, DtM.toUnOp, Probe.spineOK, Probe.isUMath]
  | unary sg x => exact absurd rfl (h sg x)
  | _ => simp [Step.toNode, Probe.spineOK, Probe.isUMath]

theorem spineOK_path : ∀ p : Path, p.spineOK = true → Probe.spineOKO p.toNode = true
  | .nil, _ => by simp [Path.toNode, Probe.spineOKO]
  | .cons st rest, h => by
    by_cases hu : ∃ sg x, st = .unary sg x
    · obtain ⟨sg, x, rfl⟩ := hu
      cases rest with
      | nil => simp [Path.spineOK] at h
      | cons st' rest' =>
        have h' : Path.spineOK (.cons st' rest') = true := by simpa [Path.spineOK] using h
        have ih := spineOK_path (.cons st' rest') h'
        simp only [Path.toNode, Probe.spineOKO] at ih ⊢
        simp [Step.toNode, Probe.spineOK, Probe.spineOKO, ih]
    · have hu' : ∀ sg x, st ≠ .unary sg x := fun sg x h' => hu ⟨sg, x, h'⟩
      have h' : rest.spineOK = true := by
        cases st <;> first | (simpa [Path.spineOK] using h) | exact absurd rfl (hu' _ _)
      have ih := spineOK_path rest h'
      simp only [Path.toNode, Probe.spineOKO, spineOK_step st _ hu']
      exact ih

section preds
variable {c : Ctx} {al : Bool} {ρ : Dyn} {v : Item} {nx : Option Node} {chn : Bool}

theorem exists_spec (hchn : chn = false → nx = none) {xn : Node} {ox : Outcome}
    (hsp : Probe.spineOK xn = true) (hx : PathRun c al ρ ox xn v) :
    PredRun c al ρ (existsOf c ox) (.unary .exists (some xn) nx) v chn := by
  refine hx.succ (fun m hm s hrel => ?_)
  simp only [xBool, executeBoolItem, Node.next, chn_ok hchn, Bool.false_eq_true, if_false, executeUnaryBoolItem]
  cases hlax : c.lax with
  | false =>
    simp only [Bool.not_false, if_true]
    have h1 := operand_spec c (xItem c m) s xn v false ox (by
      simpa [executeItem, hlax] using hm _ [] (hrel.setVerbose false))
    generalize optUnwrapResultSilent c (xItem c m) s xn v false (some []) = r at h1
    unfold existsOf
    simp only [hlax, Bool.false_and, Bool.false_eq_true, if_false]
    cases hop : operand c false ox with
    | unknown =>
      obtain ⟨e1, e2⟩ := h1.unknown hop
      simp only [operand] at hop
      cases he : ox.err with
      | none => rw [he] at hop; cases hop
      | some e =>
        rw [he] at hop
        simp only at hop
        cases hv : e.isVerbose with
        | false => rw [hv] at hop; simp at hop
        | true =>
          simp only [e1, if_true, hv]
          exact PMatches.mk_ok h1.keep rfl e2
    | error e =>
      obtain ⟨e1, e2, e3⟩ := h1.error e hop
      simp only [operand] at hop
      cases he : ox.err with
      | none => rw [he] at hop; cases hop
      | some e' =>
        rw [he] at hop
        simp only at hop
        cases hv : e'.isVerbose with
        | true => rw [hv] at hop; simp at hop
        | false =>
          rw [hv] at hop
          simp only [Bool.false_eq_true, if_false, Operand.error.injEq] at hop
          subst hop
          simp only [e1, if_true, hv, Bool.false_eq_true, if_false]
          exact ⟨h1.keep, (fun k hk => by cases hk), fun e he => by cases he; exact ⟨rfl, e2, e3⟩⟩
    | seq xs =>
      obtain ⟨e1, e2⟩ := h1.seq xs hop
      simp only [operand] at hop
      cases he : ox.err with
      | some e => rw [he] at hop; simp only at hop; split at hop <;> cases hop
      | none =>
        rw [he] at hop
        simp only [hlax, Bool.and_false, Bool.false_eq_true, if_false, Operand.seq.injEq] at hop
        subst hop
        simp only [e1, if_false, e2]
        cases hemp : ox.items.isEmpty with
        | true => simp only [if_true, Bool.not_true, predFrom, Bool.false_eq_true, if_false]; exact PMatches.mk_ok h1.keep rfl rfl
        | false => simp only [Bool.false_eq_true, if_false, Bool.not_false, predFrom, if_true]; exact PMatches.mk_ok h1.keep rfl rfl
  | true =>
    simp only [Bool.not_true, Bool.false_eq_true, if_false, optUnwrapResultSilent, executeItem, hlax]
    have hrel' := hrel.setVerbose false
    have hcol := hm _ [] hrel'
    rw [hlax] at hcol
    obtain ⟨hk, hok, hemp⟩ := probe_spec c m _ xn v true hsp hrel'.clean ox hcol
    have hk' := hk.setVerbose false
    generalize xItem c m { s with verbose := false } xn v none true = rp at hk hok hemp hk' ⊢
    generalize xItem c m { s with verbose := false } xn v (some []) true = rc at hcol hemp
    unfold existsOf
    by_cases hne : ox.items = []
    · obtain ⟨h0, h1, h2⟩ := hemp hne
      simp only [hlax, hne, List.isEmpty_nil, Bool.not_true, Bool.and_false, Bool.false_eq_true, if_false]
      cases he : ox.err with
      | none =>
        obtain ⟨g1, g2⟩ := hcol.ok he
        rw [← h1] at g1
        simp only [g1, h0, if_false, predFrom, Bool.false_eq_true]
        exact PMatches.mk_ok hk' rfl rfl
      | some e =>
        obtain ⟨g1, g2⟩ := hcol.fail e he
        rw [← h1] at g1
        rw [← h2] at g2
        simp only [g1, if_true]
        cases hv : e.isVerbose with
        | true =>
          simp only [if_true]
          refine PMatches.mk_ok hk' rfl ?_
          rw [g2]; simp [report, hv]
        | false =>
          simp only [Bool.false_eq_true, if_false]
          refine ⟨hk', (fun k hk => by cases hk), fun e' he' => ?_⟩
          cases he'
          exact ⟨rfl, by rw [g2]; simp [report, hv], hv⟩
    · have hst := hok hne
      have hemp' : ox.items.isEmpty = false := by cases h : ox.items <;> simp_all
      simp only [hlax, hemp', Bool.not_false, Bool.and_self, if_true, hst, reduceCtorEq, if_false]
      exact PMatches.mk_ok hk' rfl rfl

end preds

theorem Rel.setCur {al : Bool} {s : St} {ρ : Dyn} (h : Rel al s ρ) (x : Item) :
    Rel al { s with current := x } { ρ with cur := x } :=
  ⟨⟨⟨h.g.clean.budget, h.g.clean.oof, h.g.clean.panicked⟩, rfl, h.g.inn⟩, h.ign⟩

theorem Keep.restoreCur {s t : St} {x : Item} (h : Keep { s with current := x } t) :
    Keep s { t with current := s.current } :=
  ⟨⟨h.clean.budget, h.clean.oof, h.clean.panicked⟩, rfl, h.inn, h.ign, h.verbose⟩

theorem predItem_eq (k : Kleene) : predItem k = kleeneItem k := by cases k <;> rfl

section steps
variable {c : Ctx} {q : Dialect} {al : Bool} {nx : Option Node} {K : Dyn → Item → Outcome}

theorem filter_core (hK : Cont c al nx K) (ρ : Dyn) (pn : Node) (op : Item → Except Err Kleene)
    (hp : ∀ x, PredRun c al { ρ with cur := x } (op x) pn x false) (v : Item) (u : Bool)
    (hu : u = true → v.isArr = false) :
    StepRun c al ρ (keepIf v (op v)) K ρ (.unary .filter (some pn) nx) v u := by
  refine ((hp v).and (hK ρ v)).succ (fun m hm s l hrel => ?_)
  rw [xItem_succ c m hrel.clean.budget]
  have hx : execUnaryNode c (xItem c m) (xBool c m) (xAny c m) s (.unary .filter (some pn) nx) .filter (some pn) nx v
      (some l) u =
      (let p := executeNestedBoolItem (xBool c m) s pn v
       if p.err.isSome then ⟨p.st, some l, .failed, p.err⟩
       else if p.out ≠ .t then ⟨p.st, some l, .notFound, none⟩
       else executeNextItem c (xItem c m) p.st nx v (some l)) := by
    cases v <;> cases u <;> simp_all [execUnaryNode, Item.isArr]
  simp only [dispatch, hx, executeNestedBoolItem]
  have h1 := hm.1 _ (hrel.setCur v)
  have hk : Keep s { (xBool c m { s with current := v } pn v false).st with current := s.current } :=
    h1.keep.restoreCur
  cases ho : op v with
  | error e =>
    obtain ⟨e1, e2, e3⟩ := h1.fail e ho
    simp only [keepIf, bind_fail, e2, Option.isSome_some, if_true]
    exact ⟨hk, by simp [Outcome.fail], fun h => by simp [Outcome.fail] at h,
      fun e' he' => by simp [Outcome.fail] at he'; subst he'; simp [report, e3]⟩
  | ok k =>
    obtain ⟨e1, e2⟩ := h1.ok k ho
    cases k with
    | t =>
      simp only [keepIf, bind_one, e1, e2, Option.isSome_none, Bool.false_eq_true, if_false, ne_eq, not_true_eq_false]
      exact (hm.2 _ l (hrel.keep hk)).of_keep hk
    | f =>
      simp only [keepIf, bind_empty, e1, e2, Option.isSome_none, Bool.false_eq_true, if_false, ne_eq, reduceCtorEq,
        not_false_eq_true, if_true]
      exact ⟨hk, by simp [Outcome.empty], fun _ => ⟨by simp, rfl⟩, fun e he => by simp [Outcome.empty] at he⟩
    | unknown =>
      simp only [keepIf, bind_empty, e1, e2, Option.isSome_none, Bool.false_eq_true, if_false, ne_eq, reduceCtorEq,
        not_false_eq_true, if_true]
      exact ⟨hk, by simp [Outcome.empty], fun _ => ⟨by simp, rfl⟩, fun e he => by simp [Outcome.empty] at he⟩

theorem filter_spec (hK : Cont c al nx K) (ρ : Dyn) (pn : Node) (op : Item → Except Err Kleene)
    (hp : ∀ x, PredRun c al { ρ with cur := x } (op x) pn x false) (v : Item) (u : Bool) :
    StepRun c al ρ (unwrapIf u (fun x => keepIf x (op x)) v) K ρ (.unary .filter (some pn) nx) v u := by
  by_cases h : u = true → v.isArr = false
  · rw [unwrapIf_not_arr u _ v h]
    exact filter_core hK ρ pn op hp v u h
  · have hu : u = true := by cases u <;> simp_all
    subst hu
    cases v with
    | arr xs =>
      have hloop := unwrap_spec (.unary .filter (some pn) nx) ρ ρ (fun x => keepIf x (op x))
        (fun x => filter_core hK ρ pn op hp x false (fun h => by cases h)) xs
      refine hloop.succ (fun m hm s l hrel => ?_)
      rw [xItem_succ c m hrel.clean.budget]
      simp only [unwrapIf, if_true, dispatch, execUnaryNode, unwrapTargetArray]
      exact hm s l hrel
    | _ => simp [Item.isArr] at h

theorem dispatch_pred (p : Sem.Pred) (item : ItemK) (bool : BoolK) (any : AnyK) (s : St) (v : Item) (f : Found) (u : Bool) :
    dispatch c item bool any s (p.toNode nx) v f u = appendBoolResult c item nx f (bool s (p.toNode nx) v true) := by
  cases p with
  | cmp op l r => cases op <;> simp [Pred.toNode, CmpOp.toBinOp, dispatch, execBinaryNode, isBoolBinOp]
  | _ => simp [Pred.toNode, dispatch, execBinaryNode, execUnaryNode, isBoolBinOp]

theorem pred_spec (hK : Cont c al nx K) (ρ : Dyn) (p : Sem.Pred) (op : Except Err Kleene) (v : Item) (u : Bool)
    (hp : PredRun c al ρ op (p.toNode nx) v true) :
    StepRun c al ρ (truthItem op) K ρ (p.toNode nx) v u := by
  cases op with
  | error e =>
    refine hp.succ (fun m hm s l hrel => ?_)
    rw [xItem_succ c m hrel.clean.budget, dispatch_pred]
    have h1 := hm s hrel
    generalize xBool c m s (p.toNode nx) v true = r at h1
    obtain ⟨e1, e2, e3⟩ := h1.fail e rfl
    simp only [truthItem, bind_fail, appendBoolResult, e2]
    exact ⟨h1.keep, by simp [Outcome.fail], fun h => by simp [Outcome.fail] at h,
      fun e' he' => by simp [Outcome.fail] at he'; subst he'; simp [report, e3]⟩
  | ok k =>
    refine (hp.and (hK ρ (kleeneItem k))).succ (fun m hm s l hrel => ?_)
    rw [xItem_succ c m hrel.clean.budget, dispatch_pred]
    have h1 := hm.1 s hrel
    generalize xBool c m s (p.toNode nx) v true = r at h1
    obtain ⟨e1, e2⟩ := h1.ok k rfl
    simp only [truthItem, bind_one, appendBoolResult, e1, e2, Option.isNone_some, Bool.and_false, Bool.false_eq_true,
      if_false, predItem_eq]
    exact (hm.2 _ l (hrel.keep h1.keep)).of_keep h1.keep

end steps

/-! ## subscripts -/

/-- the accumulator of the loops of `execArrayIndex` has produced the outcome `o` -/
inductive IdxAcc (s : St) (l : List Item) (o : Outcome) (a : IAcc) : Prop
  | running : o.err = none → a.ret = none → a.found = some (l ++ o.items) → a.res ≠ .failed → a.err = none →
      Keep s a.st → IdxAcc s l o a
  | returned (e : Err) (r : Res) : o.err = some e → a.ret = some r → r.found = some (l ++ o.items) →
      r.status = .failed → r.err = report s e → Keep s r.st → IdxAcc s l o a

theorem IdxAcc.ret_of_err {s : St} {l : List Item} {o : Outcome} {a : IAcc}
    (h : IdxAcc s l o a) : (a.ret = none ↔ o.err = none) := by
  cases h with
  | running h1 h2 => simp [h1, h2]
  | returned e r h1 h2 => simp [h1, h2]

theorem IdxAcc.returned_andThen {s : St} {l : List Item} {o : Outcome} {a : IAcc} {e : Err}
    (h : IdxAcc s l o a) (he : o.err = some e) (x : Outcome) : IdxAcc s l (o.andThen x) a := by
  rw [andThen_of_err he]; exact h

/-- the loop state after a sub-run `r` (from `t`, into the list so far) that matches `x` -/
theorem IdxAcc.push {s t : St} {l : List Item} {o x : Outcome} {r : Res}
    (ho : o.err = none) (ht : Keep s t) (hr : Matches t (l ++ o.items) x r) :
    IdxAcc s l (o.andThen x)
      (if r.status = .failed || (r.status = .ok && (some (l ++ o.items) : Found).isNone) then
        { st := r.st, found := r.found, res := r.status, err := r.err, ret := some r }
       else { st := r.st, found := r.found, res := r.status, err := r.err, ret := none }) := by
  rw [andThen_of_ok ho]
  cases hx : x.err with
  | none =>
    obtain ⟨h1, h2⟩ := hr.ok hx
    simp only [h1, Option.isNone_some, Bool.and_false, Bool.or_false, decide_false, Bool.false_eq_true, if_false]
    exact .running rfl rfl (by simp [hr.found, List.append_assoc]) h1 h2 (ht.trans hr.keep)
  | some e =>
    obtain ⟨h1, h2⟩ := hr.fail e hx
    simp only [h1, decide_true, Bool.true_or, if_true]
    exact .returned e r rfl rfl (by simp [hr.found, List.append_assoc]) h1 (by rw [h2, report_keep ht])
      (ht.trans hr.keep)

/-- one selected element: JSON `null` is dropped (D6), everything else goes to the rest of the chain -/
theorem indexElemStep_acc {c : Ctx} {item : ItemK} {nx : Option Node} {al : Bool} {ρ : Dyn} {G : Item → Outcome}
    {s : St} {l : List Item} {o : Outcome} {a : IAcc} (x : Item)
    (hs : Rel al s ρ)
    (hG : ∀ t l', Rel al t ρ → Matches t l' (G x) (executeNextItem c item t nx x (some l')))
    (ha : IdxAcc s l o a) :
    IdxAcc s l (o.andThen (if notNull x then G x else .empty)) (indexElemStep c item nx a x) := by
  unfold indexElemStep
  cases ho : o.err with
  | some e =>
    have hr : a.ret ≠ none := fun h => by rw [ha.ret_of_err.mp h] at ho; cases ho
    have : a.ret.isSome = true := by cases h : a.ret <;> simp_all
    simp only [this, if_true]
    exact ha.returned_andThen ho _
  | none =>
    have hr : a.ret = none := ha.ret_of_err.mpr ho
    simp only [hr, Option.isSome_none, Bool.false_eq_true, if_false]
    cases ha with
    | returned e r h1 => rw [ho] at h1; cases h1
    | running h1 h2 h3 h4 h5 h6 =>
      have hne : ∀ (hx : notNull x = true),
          IdxAcc s l (o.andThen (G x))
            (if nx.isNone && a.found.isNone then { a with ret := some ⟨a.st, none, .ok, none⟩ }
             else
              let r := executeNextItem c item a.st nx x a.found
              if r.status = .failed || (r.status = .ok && a.found.isNone) then
                { st := r.st, found := r.found, res := r.status, err := r.err, ret := some r }
              else { st := r.st, found := r.found, res := r.status, err := r.err, ret := none }) := by
        intro _
        simp only [h3]
        rw [show (nx.isNone && (some (l ++ o.items) : Found).isNone) = false by simp]
        simp only [Bool.false_eq_true, if_false]
        exact IdxAcc.push ho h6 (hG _ _ (hs.keep h6))
      cases x with
      | null =>
        simp only [notNull, Bool.false_eq_true, if_false, andThen_empty]
        exact .running h1 h2 h3 h4 h5 h6
      | _ => simpa [notNull] using hne rfl

/-- the elements selected by one subscript -/
theorem elem_fold {c : Ctx} {item : ItemK} {nx : Option Node} {al : Bool} {ρ : Dyn} {K : Item → Outcome}
    {s : St} {l : List Item} {o : Outcome} {a : IAcc} (zs : List Item)
    (hs : Rel al s ρ)
    (hG : ∀ x ∈ zs, ∀ t l', Rel al t ρ → Matches t l' (K x) (executeNextItem c item t nx x (some l')))
    (ha : IdxAcc s l o a) :
    IdxAcc s l (o.andThen ((Outcome.seq (zs.filter notNull)).bind K)) (zs.foldl (indexElemStep c item nx) a) := by
  rw [bind_seq, each_filter]
  exact fold_each (IdxAcc s l) (indexElemStep c item nx) _ zs
    (fun o b x hx hb => indexElemStep_acc x hs (hG x hx) hb) o a ha

theorem report_getD (s : St) (e : Err) : (match report s e with | some e' => e' | none => Err.verbose) = e := by
  unfold report
  cases e <;> cases s.verbose <;> simp [Err.isVerbose]

/-- `getArrayIndex`: a subscript expression must yield a single number -/
theorem getArrayIndex_spec (c : Ctx) (item : ItemK) (s : St) (n : Node) (v : Item) (o : Outcome)
    (h : Matches s [] o (executeItem c item s n v (some []))) :
    ∃ t, Keep s t ∧ getArrayIndex c item s n v = (t, asIndex o) := by
  unfold getArrayIndex
  dsimp only
  generalize executeItem c item s n v (some []) = r at h
  refine ⟨r.st, h.keep, ?_⟩
  unfold asIndex
  cases he : o.err with
  | some e =>
    obtain ⟨h1, h2⟩ := h.fail e he
    simp only [h1, if_true, h2]
    have := report_getD s e
    cases hr : report s e with
    | none => rw [hr] at this; simp only at this; subst this; rfl
    | some e' => rw [hr] at this; simp only at this; subst this; rfl
  | none =>
    obtain ⟨h1, h2⟩ := h.ok he
    have hf : r.found.getD [] = o.items := by simp [h.found]
    simp only [h1, if_false, hf]
    cases o.items with
    | nil => rfl
    | cons x rest =>
      cases rest with
      | cons y ys => rfl
      | nil =>
        simp only
        cases hx : Num.getJSONInt32 x with
        | ok i => rfl
        | error e => cases e <;> rfl

/-- the bounds of one subscript after the range check / clipping -/
def clip (ign : Bool) (n : Nat) (a b : Int) : Except Err (Int × Int) :=
  if !ign && (decide (a < 0) || decide (a > b) || decide (b ≥ n)) then .error .verbose
  else .ok (if a < 0 then 0 else a, if b ≥ n then (n : Int) - 1 else b)

def boundsOne (ign : Bool) (n : Nat) : Except Err Int → Except Err (Int × Int)
  | .error e => .error e
  | .ok a => clip ign n a a

def boundsRange (ign : Bool) (n : Nat) : Except Err Int → Except Err Int → Except Err (Int × Int)
  | .error e, _ => .error e
  | .ok _, .error e => .error e
  | .ok a, .ok b => clip ign n a b

/-- the elements selected by evaluated bounds (Go dialect: JSON nulls dropped) -/
def sliceOf (xs : List Item) : Except Err (Int × Int) → Outcome
  | .error e => .fail e
  | .ok (f, t) => .seq ((sliceRange xs f t).filter notNull)

theorem slice_eq (ρ : Dyn) (xs : List Item) (a b : Int) :
    slice .go ρ xs a b = sliceOf xs (clip ρ.ign xs.length a b) := by
  unfold slice clip
  by_cases h : (!ρ.ign && (decide (a < 0) || decide (a > b) || decide (b ≥ (xs.length : Int)))) = true
  · simp only [h, if_true, sliceOf]
  · simp only [h, Bool.false_eq_true, if_false, sliceOf, Dialect.go, if_true]

theorem evalSubs_one (c : Ctx) (i : Path) (rest : Subs) (ρ : Dyn) (v : Item) (xs : List Item) :
    evalSubs c .go (.one i rest) ρ v xs =
      (sliceOf xs (boundsOne ρ.ign xs.length (asIndex (eval c .go i ρ v)))).andThen (evalSubs c .go rest ρ v xs) := by
  simp only [evalSubs]
  cases asIndex (eval c .go i ρ v) with
  | error e => simp [boundsOne, sliceOf, Outcome.fail, Outcome.andThen]
  | ok a => simp [boundsOne, slice_eq]

theorem evalSubs_range (c : Ctx) (lo hi : Path) (rest : Subs) (ρ : Dyn) (v : Item) (xs : List Item) :
    evalSubs c .go (.range lo hi rest) ρ v xs =
      (sliceOf xs (boundsRange ρ.ign xs.length (asIndex (eval c .go lo ρ v)) (asIndex (eval c .go hi ρ v)))).andThen
        (evalSubs c .go rest ρ v xs) := by
  simp only [evalSubs]
  cases asIndex (eval c .go lo ρ v) with
  | error e => simp [boundsRange, sliceOf, Outcome.fail, Outcome.andThen]
  | ok a =>
    cases asIndex (eval c .go hi ρ v) with
    | error e => simp [boundsRange, sliceOf, Outcome.fail, Outcome.andThen]
    | ok b => simp [boundsRange, slice_eq]

theorem clip_exec (s : St) (n : Nat) (a b : Int) :
    (if (!s.ignoreSE && (decide (a < 0) || decide (a > b) || decide (b ≥ (n : Int)))) = true then
        ((s, Except.error Err.verbose) : St × Except Err (Int × Int))
      else (s, .ok (if a < 0 then 0 else a, if b ≥ (n : Int) then (n : Int) - 1 else b))) =
      (s, clip s.ignoreSE n a b) := by
  unfold clip; split <;> rfl

/-- `execSubscript` for a single index -/
theorem execSubscript_one (c : Ctx) (item : ItemK) (s : St) (ln : Node) (nx' : Option Node) (v : Item) (n : Nat)
    (o : Outcome) (h : Matches s [] o (executeItem c item s ln v (some []))) :
    ∃ t, Keep s t ∧ execSubscript c item s (.binary .subscript (some ln) none nx') v n =
      (t, boundsOne s.ignoreSE n (asIndex o)) := by
  obtain ⟨t, hk, hg⟩ := getArrayIndex_spec c item s ln v o h
  refine ⟨t, hk, ?_⟩
  simp only [execSubscript, hg]
  cases asIndex o with
  | error e => rfl
  | ok a =>
    simp only [boundsOne]
    rw [← hk.ign]
    exact clip_exec t n a a

/-- `execSubscript` for a range -/
theorem execSubscript_range (c : Ctx) (item : ItemK) (s : St) (ln rn : Node) (nx' : Option Node) (v : Item) (n : Nat)
    (ol or : Outcome) (hl : Matches s [] ol (executeItem c item s ln v (some [])))
    (hr : ∀ t, Keep s t → Matches t [] or (executeItem c item t rn v (some []))) :
    ∃ t, Keep s t ∧ execSubscript c item s (.binary .subscript (some ln) (some rn) nx') v n =
      (t, boundsRange s.ignoreSE n (asIndex ol) (asIndex or)) := by
  obtain ⟨t1, hk1, hg1⟩ := getArrayIndex_spec c item s ln v ol hl
  obtain ⟨t2, hk2, hg2⟩ := getArrayIndex_spec c item t1 rn v or (hr t1 hk1)
  simp only [execSubscript, hg1]
  cases asIndex ol with
  | error e => exact ⟨t1, hk1, rfl⟩
  | ok a =>
    refine ⟨t2, hk1.trans hk2, ?_⟩
    simp only [hg2]
    cases asIndex or with
    | error e => rfl
    | ok b =>
      simp only [boundsRange]
      rw [← (hk1.trans hk2).ign]
      exact clip_exec t2 n a b

theorem arrayOf_eq (c : Ctx) (v : Item) : Exec.arrayOf c v = Sem.arrayOf c v := by
  cases v <;> rfl

/-- inside a subscript list the rest of the chain sees the outer context -/
theorem Rel.ofInn {s : St} {ρ : Dyn} {n : Nat} (h : Rel true s { ρ with inn := some n }) : Rel false s ρ :=
  ⟨⟨h.g.clean, h.g.cur, fun h' => by cases h'⟩, h.ign⟩

theorem Rel.toInn {al : Bool} {s : St} {ρ : Dyn} (h : Rel al s ρ) (n : Nat) :
    Rel true { s with innermost := n } { ρ with inn := some n } :=
  ⟨⟨⟨h.g.clean.budget, h.g.clean.oof, h.g.clean.panicked⟩, h.g.cur, fun _ => ⟨n, rfl, rfl⟩⟩, h.ign⟩

theorem Keep.restoreInn {s t : St} {n : Int} (h : Keep { s with innermost := n } t) :
    Keep s { t with innermost := s.innermost } :=
  ⟨⟨h.clean.budget, h.clean.oof, h.clean.panicked⟩, h.cur, rfl, h.ign, h.verbose⟩

theorem sliceRange_mem {xs : List Item} {a b : Int} {x : Item} (h : x ∈ sliceRange xs a b) : x ∈ xs := by
  unfold sliceRange at h
  split at h
  · cases h
  · exact List.mem_of_mem_drop (List.mem_of_mem_take h)

section index
variable {c : Ctx} {item : ItemK} {nx : Option Node} {xs : List Item} {v : Item} {ρ : Dyn} {n : Nat}
  {K : Item → Outcome}

/-- one subscript: its bounds, then the selected elements -/
theorem indexSubStep_acc {s : St} {l : List Item} {o : Outcome} {a : IAcc} (sub : Node)
    (B : Except Err (Int × Int))
    (hsub : ∀ t, Rel true t { ρ with inn := some n } →
      ∃ t', Keep t t' ∧ execSubscript c item t sub v xs.length = (t', B))
    (hs : Rel true s { ρ with inn := some n })
    (hK : ∀ x ∈ xs, ∀ t l', Rel false t ρ → Matches t l' (K x) (executeNextItem c item t nx x (some l')))
    (ha : IdxAcc s l o a) :
    IdxAcc s l (o.andThen ((sliceOf xs B).bind K)) (indexSubStep c item nx xs v a sub) := by
  unfold indexSubStep
  cases ho : o.err with
  | some e =>
    have hr : a.ret ≠ none := fun h => by rw [ha.ret_of_err.mp h] at ho; cases ho
    have : a.ret.isSome = true := by cases h : a.ret <;> simp_all
    simp only [this, if_true]
    exact ha.returned_andThen ho _
  | none =>
    have hr : a.ret = none := ha.ret_of_err.mpr ho
    simp only [hr, Option.isSome_none, Bool.false_eq_true, if_false]
    cases ha with
    | returned e r h1 => rw [ho] at h1; cases h1
    | running h1 h2 h3 h4 h5 h6 =>
      obtain ⟨t', hk', hx⟩ := hsub a.st (hs.keep h6)
      rw [hx]
      have hkt : Keep s t' := h6.trans hk'
      cases B with
      | error e =>
        simp only [sliceOf, bind_fail]
        have hm := Matches.returnError (hs.keep hkt).clean (l ++ o.items) e
        rw [andThen_of_ok ho]
        refine .returned e (returnError t' a.found e) rfl rfl ?_ ?_ ?_ ?_
        · rw [h3]; simpa [Outcome.fail] using hm.found
        · rw [h3]; exact (hm.fail e rfl).1
        · rw [h3, (hm.fail e rfl).2, report_keep hkt]
        · rw [h3]; exact hkt.trans hm.keep
      | ok ft =>
        obtain ⟨f, t2⟩ := ft
        simp only [sliceOf]
        have hrun : IdxAcc s l o { st := t', found := a.found, res := a.res, err := a.err, ret := none } :=
          .running h1 rfl h3 h4 h5 hkt
        exact elem_fold (al := false) (ρ := ρ) (sliceRange xs f t2) hs.ofInn (fun x hx t l' ht => hK x (sliceRange_mem hx) t l' ht) hrun

/-- `execArrayIndex`, given the meaning `S` of the whole subscript loop -/
theorem execArrayIndex_spec {al : Bool} {s : St} {l : List Item} {subs : List Node} (S : Outcome)
    (hxs : Sem.arrayOf c v = some xs) (hs : Rel al s ρ)
    (hfold : ∀ (o : Outcome) (a : IAcc), IdxAcc { s with innermost := xs.length } l o a →
      IdxAcc { s with innermost := xs.length } l (o.andThen S) (subs.foldl (indexSubStep c item nx xs v) a)) :
    Matches s l S (execArrayIndex c item s subs nx v (some l)) := by
  unfold execArrayIndex
  rw [arrayOf_eq, hxs]
  dsimp only
  have hs0 := hs.toInn xs.length
  have h0 : IdxAcc { s with innermost := xs.length } l .empty ⟨{ s with innermost := xs.length }, some l, .notFound, none, none⟩ :=
    .running rfl rfl (by simp [Outcome.empty]) (by simp) rfl (Keep.refl hs0.clean)
  have h := hfold _ _ h0
  rw [empty_andThen] at h
  cases h with
  | running h1 h2 h3 h4 h5 h6 =>
    simp only [h2]
    exact ⟨h6.restoreInn, h3, fun _ => ⟨h4, rfl⟩, fun e he => by rw [h1] at he; cases he⟩
  | returned e r h1 h2 h3 h4 h5 h6 =>
    simp only [h2]
    refine ⟨h6.restoreInn, h3, fun he => ?_, fun e' he => ?_⟩
    · rw [h1] at he; cases he
    · rw [h1] at he; cases he; exact ⟨h4, h5⟩

end index

/-! ## the specifications of the four syntactic categories -/

/-- a path, as the rest of a chain, means `Sem.eval` -/
def PathSpec (c : Ctx) (p : Path) : Prop :=
  ∀ al, p.wf al = true → Cont c al p.toNode (fun ρ x => eval c .go p ρ x)

/-- a step followed by any rest `nx` that means `K` means `evalStep` bound to `K` -/
def StepSpec (c : Ctx) (st : Step) : Prop :=
  ∀ al, st.wf al = true → ∀ nx K, Cont c (al && !st.isIndex) nx K → ∀ ρ v u,
    StepRun c al ρ (evalStep c .go u st ρ v) K (st.after ρ) (st.toNode nx) v u

/-- a subscript list: the loop of `execArrayIndex` over its nodes -/
def SubsSpec (c : Ctx) (subs : Subs) : Prop :=
  subs.wf = true → ∀ nx K, Cont c false nx K → ∀ ρ v xs,
    Ev fun fuel => ∀ s l o a, Rel true s { ρ with inn := some xs.length } → IdxAcc s l o a →
      IdxAcc s l (o.andThen ((evalSubs c .go subs { ρ with inn := some xs.length } v xs).bind (K ρ)))
        (subs.toNodes.foldl (indexSubStep c (xItem c fuel) nx xs v) a)

def PredSpec (c : Ctx) (p : Sem.Pred) : Prop :=
  ∀ al, p.wf al = true → ∀ nx chn, (chn = false → nx = none) → ∀ ρ v,
    PredRun c al ρ (evalPred c .go p ρ v) (p.toNode nx) v chn

theorem toNode_of_nonEmpty {p : Path} (h : p.nonEmpty = true) : ∃ n, p.toNode = some n := by
  cases p with
  | nil => cases h
  | cons s rest => exact ⟨s.toNode rest.toNode, by simp [Path.toNode]⟩

/-- an operand / subscript expression as a path run -/
theorem PathSpec.run {c : Ctx} {p : Path} (h : PathSpec c p) {al : Bool} (hwf : p.wf al = true) {n : Node}
    (hn : p.toNode = some n) (ρ : Dyn) (v : Item) : PathRun c al ρ (eval c .go p ρ v) n v := by
  have := h al hwf ρ v
  rw [hn] at this
  exact this

section cases
variable {c : Ctx}

theorem path_nil : PathSpec c .nil := by
  intro al _ ρ x
  refine Ev.of_all (fun m s l hrel => ?_)
  simp only [Path.toNode, executeNextItem, Found.append, Option.map_some, eval]
  exact Matches.ret_ok hrel.clean l [x] .ok (by simp)

theorem path_cons {st : Step} {rest : Path} (hs : StepSpec c st) (hr : PathSpec c rest) :
    PathSpec c (.cons st rest) := by
  intro al hwf ρ x
  simp only [Path.wf, Bool.and_eq_true] at hwf
  have := hs al hwf.1 rest.toNode (fun ρ x => eval c .go rest ρ x) (hr _ hwf.2) ρ x c.lax
  simpa [Path.toNode, executeNextItem, executeItem, eval] using this

theorem and_not_index {al : Bool} {st : Step} (h : st.isIndex = false) : (al && !st.isIndex) = al := by
  simp [h]

theorem subs_nil : SubsSpec c .nil := by
  intro _ nx K _ ρ v xs
  refine Ev.of_all (fun m s l o a _ ha => ?_)
  simpa [evalSubs, Subs.toNodes] using ha

theorem subs_one {i : Path} {rest : Subs} (hi : PathSpec c i) (hrest : SubsSpec c rest) :
    SubsSpec c (.one i rest) := by
  intro hwf nx K hK ρ v xs
  simp only [Subs.wf, Bool.and_eq_true] at hwf
  obtain ⟨ln, hln⟩ := toNode_of_nonEmpty hwf.1.1
  have h1 := hi.run hwf.1.2 hln { ρ with inn := some xs.length } v
  have h2 := hrest hwf.2 nx K hK ρ v xs
  have h3 := Ev.all_mem xs (fun x _ => hK ρ x)
  refine (h1.and (h2.and h3)).mono (fun m hm s l o a hs ha => ?_)
  rw [evalSubs_one, bind_andThen, ← andThen_assoc]
  simp only [Subs.toNodes, hln, List.foldl_cons]
  refine hm.2.1 s l _ _ hs ?_
  refine indexSubStep_acc (n := xs.length) _ _ (fun t ht => ?_) hs (fun x hx t l' ht => hm.2.2 x hx t l' ht) ha
  have := execSubscript_one c (xItem c m) t ln none v xs.length _ (by simpa [executeItem] using hm.1 t [] ht)
  rw [ht.ign] at this
  exact this

theorem subs_range {lo hi : Path} {rest : Subs} (hlo : PathSpec c lo) (hhi : PathSpec c hi) (hrest : SubsSpec c rest) :
    SubsSpec c (.range lo hi rest) := by
  intro hwf nx K hK ρ v xs
  simp only [Subs.wf, Bool.and_eq_true] at hwf
  obtain ⟨ln, hln⟩ := toNode_of_nonEmpty hwf.1.1.1.1
  obtain ⟨rn, hrn⟩ := toNode_of_nonEmpty hwf.1.1.2
  have h1 := hlo.run hwf.1.1.1.2 hln { ρ with inn := some xs.length } v
  have h1' := hhi.run hwf.1.2 hrn { ρ with inn := some xs.length } v
  have h2 := hrest hwf.2 nx K hK ρ v xs
  have h3 := Ev.all_mem xs (fun x _ => hK ρ x)
  refine ((h1.and h1').and (h2.and h3)).mono (fun m hm s l o a hs ha => ?_)
  rw [evalSubs_range, bind_andThen, ← andThen_assoc]
  simp only [Subs.toNodes, hln, hrn, List.foldl_cons]
  refine hm.2.1 s l _ _ hs ?_
  refine indexSubStep_acc (n := xs.length) _ _ (fun t ht => ?_) hs (fun x hx t l' ht => hm.2.2 x hx t l' ht) ha
  have := execSubscript_range c (xItem c m) t ln rn none v xs.length _ _
    (by simpa [executeItem] using hm.1.1 t [] ht)
    (fun t' hk => by simpa [executeItem] using hm.1.2 t' [] (ht.keep hk))
  rw [ht.ign] at this
  exact this

section stepcases
variable {al : Bool} {nx : Option Node} {K : Dyn → Item → Outcome}

theorem step_root : StepSpec c .root := by
  intro al _ nx K hK ρ v u
  rw [and_not_index rfl] at hK
  exact root_spec hK ρ v u

theorem step_current : StepSpec c .current := by
  intro al _ nx K hK ρ v u
  rw [and_not_index rfl] at hK
  exact current_spec hK ρ v u

theorem step_last : StepSpec c .last := by
  intro al hwf nx K hK ρ v u
  rw [and_not_index rfl] at hK
  exact last_spec hK (by simpa [Step.wf] using hwf) ρ v u

theorem step_lit (lt : Lit) : StepSpec c (.lit lt) := by
  intro al _ nx K hK ρ v u
  rw [and_not_index rfl] at hK
  exact lit_spec hK lt ρ v u

theorem step_var (x : List Char) : StepSpec c (.var x) := by
  intro al _ nx K hK ρ v u
  rw [and_not_index rfl] at hK
  exact var_spec hK x ρ v u

theorem step_key (k : List Char) : StepSpec c (.key k) := by
  intro al _ nx K hK ρ v u
  rw [and_not_index rfl] at hK
  exact key_spec hK k ρ v u

theorem step_anyKey : StepSpec c .anyKey := by
  intro al _ nx K hK ρ v u
  rw [and_not_index rfl] at hK
  exact anyKey_spec hK ρ v u

theorem step_anyArray : StepSpec c .anyArray := by
  intro al _ nx K hK ρ v u
  rw [and_not_index rfl] at hK
  exact anyArray_spec hK ρ v u

theorem step_any (a b : Nat) : StepSpec c (.any a b) := by
  intro al _ nx K hK ρ v u
  rw [and_not_index rfl] at hK
  exact any_spec hK a b ρ v u

theorem step_type : StepSpec c .type := by
  intro al _ nx K hK ρ v u
  rw [and_not_index rfl] at hK
  exact type_spec hK ρ v u

theorem step_size : StepSpec c .size := by
  intro al _ nx K hK ρ v u
  rw [and_not_index rfl] at hK
  exact size_spec hK ρ v u

theorem step_filter {p : Sem.Pred} (hp : PredSpec c p) : StepSpec c (.filter p) := by
  intro al hwf nx K hK ρ v u
  rw [and_not_index rfl] at hK
  simp only [Step.wf] at hwf
  simp only [evalStep, Step.toNode, Step.after]
  exact filter_spec hK ρ (p.toNode none) (fun x => evalPred c .go p { ρ with cur := x } x)
    (fun x => hp al hwf none false (fun _ => rfl) { ρ with cur := x } x) v u

theorem step_pred {p : Sem.Pred} (hp : PredSpec c p) : StepSpec c (.pred p) := by
  intro al hwf nx K hK ρ v u
  rw [and_not_index rfl] at hK
  simp only [Step.wf] at hwf
  simp only [evalStep, Step.toNode, Step.after]
  exact pred_spec hK ρ p _ v u (hp al hwf nx true (fun h => by cases h) ρ v)

theorem step_index {subs : Subs} (hsubs : SubsSpec c subs) : StepSpec c (.index subs) := by
  intro al hwf nx K hK ρ v u
  simp only [Step.wf] at hwf
  simp only [Step.isIndex, Bool.not_true, Bool.and_false] at hK
  simp only [evalStep, Step.toNode, Step.after]
  cases hxs : Sem.arrayOf c v with
  | none =>
    refine Ev.succ_all (fun m s l hrel => ?_)
    rw [xItem_succ c m hrel.clean.budget]
    simp only [dispatch, execArrayIndex, arrayOf_eq, hxs]
    have := Matches.structural (ρ := ρ) hrel.clean hrel.ign l
    cases hρ : ρ.ign <;> simpa [Sem.structural, hρ] using this
  | some xs =>
    refine (hsubs hwf nx K hK ρ v xs).succ (fun m hm s l hrel => ?_)
    rw [xItem_succ c m hrel.clean.budget]
    simp only [dispatch]
    exact execArrayIndex_spec _ hxs hrel (fun o a ha => hm _ l o a (hrel.toInn xs.length) ha)

end stepcases

section predcases

theorem pred_cmp (hc : CbOK c) (op : CmpOp) {l r : Path} (hl : PathSpec c l) (hr : PathSpec c r) :
    PredSpec c (.cmp op l r) := by
  intro al hwf nx chn hchn ρ v
  simp only [Pred.wf, Bool.and_eq_true] at hwf
  obtain ⟨ln, hln⟩ := toNode_of_nonEmpty hwf.1.1.1
  obtain ⟨rn, hrn⟩ := toNode_of_nonEmpty hwf.1.2
  simp only [evalPred, Pred.toNode, hln, hrn]
  exact cmp_spec hc hchn op (hl.run hwf.1.1.2 hln ρ v) (hr.run hwf.2 hrn ρ v)

theorem pred_startsWith {l r : Path} (hl : PathSpec c l) (hr : PathSpec c r) :
    PredSpec c (.startsWith l r) := by
  intro al hwf nx chn hchn ρ v
  simp only [Pred.wf, Bool.and_eq_true] at hwf
  obtain ⟨ln, hln⟩ := toNode_of_nonEmpty hwf.1.1.1
  obtain ⟨rn, hrn⟩ := toNode_of_nonEmpty hwf.1.2
  simp only [evalPred, Pred.toNode, hln, hrn]
  exact startsWith_spec hchn (hl.run hwf.1.1.2 hln ρ v) (hr.run hwf.2 hrn ρ v)

theorem pred_likeRegex (hc : CbOK c) {x : Path} (pat : List Char) (fl : Nat) (hx : PathSpec c x) :
    PredSpec c (.likeRegex x pat fl) := by
  intro al hwf nx chn hchn ρ v
  simp only [Pred.wf, Bool.and_eq_true] at hwf
  obtain ⟨xn, hxn⟩ := toNode_of_nonEmpty hwf.1
  simp only [evalPred, Pred.toNode, hxn, Option.getD_some]
  exact likeRegex_spec hc hchn pat fl (hx.run hwf.2 hxn ρ v)

theorem pred_and {p p' : Sem.Pred} (hp : PredSpec c p) (hp' : PredSpec c p') : PredSpec c (.and p p') := by
  intro al hwf nx chn hchn ρ v
  simp only [Pred.wf, Bool.and_eq_true] at hwf
  simp only [evalPred, Pred.toNode]
  exact and_spec hchn (hp al hwf.1 none false (fun _ => rfl) ρ v) (hp' al hwf.2 none false (fun _ => rfl) ρ v)

theorem pred_or {p p' : Sem.Pred} (hp : PredSpec c p) (hp' : PredSpec c p') : PredSpec c (.or p p') := by
  intro al hwf nx chn hchn ρ v
  simp only [Pred.wf, Bool.and_eq_true] at hwf
  simp only [evalPred, Pred.toNode]
  exact or_spec hchn (hp al hwf.1 none false (fun _ => rfl) ρ v) (hp' al hwf.2 none false (fun _ => rfl) ρ v)

theorem pred_not {p : Sem.Pred} (hp : PredSpec c p) : PredSpec c (.not p) := by
  intro al hwf nx chn hchn ρ v
  simp only [Pred.wf] at hwf
  simp only [evalPred, Pred.toNode]
  exact not_spec hchn (hp al hwf none false (fun _ => rfl) ρ v)

theorem pred_isUnknown {p : Sem.Pred} (hp : PredSpec c p) : PredSpec c (.isUnknown p) := by
  intro al hwf nx chn hchn ρ v
  simp only [Pred.wf] at hwf
  simp only [evalPred, Pred.toNode]
  exact isUnknown_spec hchn (hp al hwf none false (fun _ => rfl) ρ v)

theorem pred_exists {x : Path} (hx : PathSpec c x) : PredSpec c (.exists x) := by
  intro al hwf nx chn hchn ρ v
  simp only [Pred.wf, Bool.and_eq_true] at hwf
  obtain ⟨xn, hxn⟩ := toNode_of_nonEmpty hwf.1.1
  have hsp : Probe.spineOK xn = true := by
    have := spineOK_path x hwf.2
    rw [hxn] at this
    simpa [Probe.spineOKO] using this
  simp only [evalPred, Pred.toNode, hxn]
  exact exists_spec hchn hsp (hx.run hwf.1.2 hxn ρ v)

end predcases

end cases

/-! ## the callbacks: comparing two items raises no suppressible error -/

theorem cmpOut_good (op : BinOp) (hop : isCompareOp op = true) (cmp : Int) : CbGood (cmpOut op cmp) := by
  cases op <;> simp [cmpOut, applyCompare, CbGood, isCompareOp] at *

theorem compareNumberItems_good (op : BinOp) (hop : isCompareOp op = true) (l r : Item)
    (hnp : compareNumberItems op l r ≠ .panic) : CbGood (compareNumberItems op l r) := by
  unfold compareNumberItems at hnp ⊢
  by_cases h1 : isNumber r = true
  · simp only [h1, if_true] at hnp ⊢
    by_cases h2 : (!parsableNumber l || !parsableNumber r) = true
    · simp only [h2, if_true, CbGood]
    · simp only [h2, Bool.false_eq_true, if_false] at hnp ⊢
      cases h3 : Num.compareNumeric l r with
      | none => rw [h3] at hnp; exact absurd rfl hnp
      | some cmp => exact cmpOut_good op hop _
  · simp only [h1, Bool.false_eq_true, if_false, CbGood]

/-- a comparison that does not panic (`C05.compare_never_panics`) is a good callback outcome -/
theorem compareItems_good (c : Ctx) (op : BinOp) (hop : isCompareOp op = true) (l r : Item)
    (hnp : compareItems c op l r ≠ .panic) : CbGood (compareItems c op l r) := by
  cases l <;> cases r <;>
    first
      | exact cmpOut_good op hop _
      | exact compareNumberItems_good op hop _ _ hnp
      | (simp only [compareItems, CbGood]; done)
      | (simp only [compareItems]; (repeat' split) <;>
          first
            | exact cmpOut_good op hop _
            | (simp only [CbGood, Err.isVerbose]; done))

theorem cbOK_of (c : Ctx) (hnp : ∀ op l r, compareItems c op l r ≠ .panic)
    (hre : ∀ p fl t, (c.regexMatch p fl t).isSome = true) : CbOK c :=
  ⟨fun op l r hop => compareItems_good c op hop l r (hnp op l r), hre⟩

section steps
variable {c : Ctx} {q : Dialect} {al : Bool} {nx : Option Node} {K : Dyn → Item → Outcome}

/-! ### conversion methods -/

theorem dispatch_conv (m : ConvM) (item : ItemK) (bool : BoolK) (any : AnyK) (s : St) (v : Item) (f : Found) (u : Bool) :
    dispatch c item bool any s (m.node nx) v f u = execConvMethod c item any s (m.node nx) nx v f u m.fn := by
  cases m <;> simp [ConvM.node, ConvM.fn, dispatch, execMethodNode, execBinaryNode, isBoolBinOp, isMathBinOp]

theorem conv_core (hK : Cont c al nx K) (m : ConvM) (ρ : Dyn) (v : Item) (u : Bool)
    (hu : u = true → v.isArr = false) :
    StepRun c al ρ (convOn m v) K ρ (m.node nx) v u := by
  by_cases hv : v.isArr = true
  · obtain ⟨xs, rfl⟩ : ∃ xs, v = .arr xs := by cases v <;> simp_all [Item.isArr]
    have : u = false := by cases u <;> simp_all [Item.isArr]
    subst this
    refine Ev.succ_all (fun m' s l hrel => ?_)
    rw [xItem_succ c m' hrel.clean.budget, dispatch_conv]
    simp only [convOn, bind_fail, execConvMethod, Bool.false_eq_true, if_false]
    exact Matches.returnVerboseError hrel.clean l
  · have e1 : convOn m v = (match m.fn v with
        | .val out => .one out
        | .verbose => .fail .verbose
        | .hard k => .fail (.hard k)
        | .viaReturnError e => .fail e) := by
      cases v <;> first | rfl | simp [Item.isArr] at hv
    have e2 : ∀ (item : ItemK) (any : AnyK) (s : St) (f : Found),
        execConvMethod c item any s (m.node nx) nx v f u m.fn = (match m.fn v with
        | .val out => executeNextItem c item s nx out f
        | .verbose => returnVerboseError s f
        | .hard k => ⟨s, f, .failed, some (.hard k)⟩
        | .viaReturnError e => returnError s f e) := by
      intro item any s f
      cases v <;> first | rfl | simp [Item.isArr] at hv
    rw [e1]
    cases hconv : m.fn v with
    | val out =>
      refine (hK ρ out).succ (fun m' hm s l hrel => ?_)
      rw [xItem_succ c m' hrel.clean.budget, dispatch_conv, e2, hconv]
      simp only [bind_one]
      exact hm s l hrel
    | verbose =>
      refine Ev.succ_all (fun m' s l hrel => ?_)
      rw [xItem_succ c m' hrel.clean.budget, dispatch_conv, e2, hconv]
      simp only [bind_fail]
      exact Matches.returnVerboseError hrel.clean l
    | hard k =>
      refine Ev.succ_all (fun m' s l hrel => ?_)
      rw [xItem_succ c m' hrel.clean.budget, dispatch_conv, e2, hconv]
      simp only [bind_fail]
      exact Matches.hard hrel.clean l _ rfl
    | viaReturnError e =>
      refine Ev.succ_all (fun m' s l hrel => ?_)
      rw [xItem_succ c m' hrel.clean.budget, dispatch_conv, e2, hconv]
      simp only [bind_fail]
      exact Matches.returnError hrel.clean l e

theorem execConvMethod_arr (item : ItemK) (any : AnyK) (s : St) (n : Node) (xs : List Item) (f : Found)
    (conv : Item → Conv) :
    execConvMethod c item any s n nx (.arr xs) f true conv = any s (some n) xs f 1 1 1 false false := by
  simp [execConvMethod, unwrapTargetArray]

theorem conv_spec (hK : Cont c al nx K) (m : ConvM) (ρ : Dyn) (v : Item) (u : Bool) :
    StepRun c al ρ (evalStep c q u (.conv m) ρ v) K ρ (m.node nx) v u := by
  simp only [evalStep]
  by_cases h : u = true → v.isArr = false
  · rw [unwrapIf_not_arr u _ v h]
    exact conv_core hK m ρ v u h
  · have hu : u = true := by cases u <;> simp_all
    subst hu
    cases v with
    | arr xs =>
      have hloop := unwrap_spec (m.node nx) ρ ρ (convOn m)
        (fun x => conv_core hK m ρ x false (fun h => by cases h)) xs
      refine hloop.succ (fun m' hm s l hrel => ?_)
      rw [xItem_succ c m' hrel.clean.budget, dispatch_conv, execConvMethod_arr]
      simp only [unwrapIf, if_true]
      exact hm s l hrel
    | _ => simp [Item.isArr] at h

/-! ### datetime methods -/

theorem dispatch_datetime_arr (m : DtM) (arg : Option Lit) (item : ItemK) (bool : BoolK) (any : AnyK) (s : St)
    (xs : List Item) (f : Found) :
    dispatch c item bool any s (.unary m.toUnOp (arg.map Lit.node) nx) (.arr xs) f true =
      any s (some (.unary m.toUnOp (arg.map Lit.node) nx)) xs f 1 1 1 false false := by
  cases m <;> simp [DtM.toUnOp, dispatch, execUnaryNode]

theorem dispatch_datetime (m : DtM) (arg : Option Lit) (item : ItemK) (bool : BoolK) (any : AnyK) (s : St) (v : Item)
    (f : Found) (u : Bool) (hu : u = true → v.isArr = false) :
    dispatch c item bool any s (.unary m.toUnOp (arg.map Lit.node) nx) v f u =
      executeDateTimeMethod c item s m.toUnOp (arg.map Lit.node) nx v f := by
  cases m <;> cases v <;> cases u <;> simp_all [DtM.toUnOp, dispatch, execUnaryNode, Item.isArr]

/-- the datetime method on a string: the executor's run is `returnError` / the rest of the chain on the
    value `datetimeOf` computes -/
theorem datetime_str (m : DtM) (arg : Option Lit) (src : List Char) :
    (∃ e, datetimeOf c m arg src = .error e ∧ ∀ (item : ItemK) (s : St) (l : List Item),
      executeDateTimeMethod c item s m.toUnOp (arg.map Lit.node) nx (.str src) (some l) = returnError s (some l) e) ∨
    (∃ d, datetimeOf c m arg src = .ok d ∧ ∀ (item : ItemK) (s : St) (l : List Item),
      executeDateTimeMethod c item s m.toUnOp (arg.map Lit.node) nx (.str src) (some l) =
        executeNextItem c item s nx (.dt d) (some l)) := by
  have hop : (m.toUnOp = UnOp.datetime) = (m = DtM.datetime) := by cases m <;> simp [DtM.toUnOp]
  by_cases h1 : (decide (m = DtM.datetime) && arg.isSome) = true
  · left
    refine ⟨.hard .template, ?_, fun item s l => ?_⟩
    · simp only [datetimeOf, h1, if_true]
    · simp only [executeDateTimeMethod, hop, Option.isSome_map, h1, if_true]
  · cases h2 : parseDateTime c m.toUnOp src (arg.map Lit.node) with
    | error e =>
      left
      refine ⟨e, ?_, fun item s l => ?_⟩
      · simp only [datetimeOf, h1, Bool.false_eq_true, if_false, h2]
      · simp only [executeDateTimeMethod, hop, Option.isSome_map, h1, Bool.false_eq_true, if_false, h2]
    | ok d =>
      cases h3 : kindOfOp m.toUnOp with
      | none =>
        right
        refine ⟨d, ?_, fun item s l => ?_⟩
        · simp only [datetimeOf, h1, Bool.false_eq_true, if_false, h2, h3]
        · simp only [executeDateTimeMethod, hop, Option.isSome_map, h1, Bool.false_eq_true, if_false, h2, h3,
            Option.isNone_some, Bool.and_false]
      | some k =>
        cases h4 : Time.castTo c.env c.useTZ k d with
        | ok d' =>
          right
          refine ⟨d', ?_, fun item s l => ?_⟩
          · simp only [datetimeOf, h1, Bool.false_eq_true, if_false, h2, h3, h4]
          · simp only [executeDateTimeMethod, hop, Option.isSome_map, h1, Bool.false_eq_true, if_false, h2, h3, h4,
              Option.isNone_some, Bool.and_false]
        | error ce =>
          left
          cases ce with
          | notRecognized =>
            refine ⟨.verbose, ?_, fun item s l => ?_⟩
            · simp only [datetimeOf, h1, Bool.false_eq_true, if_false, h2, h3, h4]
            · simp only [executeDateTimeMethod, hop, Option.isSome_map, h1, Bool.false_eq_true, if_false, h2, h3, h4]
          | tzRequired =>
            refine ⟨.hard .tzRequired, ?_, fun item s l => ?_⟩
            · simp only [datetimeOf, h1, Bool.false_eq_true, if_false, h2, h3, h4]
            · simp only [executeDateTimeMethod, hop, Option.isSome_map, h1, Bool.false_eq_true, if_false, h2, h3, h4]

theorem datetime_core (hK : Cont c al nx K) (m : DtM) (arg : Option Lit) (ρ : Dyn) (v : Item) (u : Bool)
    (hu : u = true → v.isArr = false) :
    StepRun c al ρ (datetimeOn c m arg v) K ρ (.unary m.toUnOp (arg.map Lit.node) nx) v u := by
  by_cases hs : ∃ src, v = .str src
  · obtain ⟨src, rfl⟩ := hs
    rcases datetime_str (c := c) (nx := nx) m arg src with ⟨e, hd, hx⟩ | ⟨d, hd, hx⟩
    · refine Ev.succ_all (fun m' s l hrel => ?_)
      rw [xItem_succ c m' hrel.clean.budget, dispatch_datetime _ _ _ _ _ _ _ _ _ hu, hx]
      simp only [hd, datetimeOn, bind_fail]
      exact Matches.returnError hrel.clean l e
    · refine (hK ρ (.dt d)).succ (fun m' hm s l hrel => ?_)
      rw [xItem_succ c m' hrel.clean.budget, dispatch_datetime _ _ _ _ _ _ _ _ _ hu, hx]
      simp only [hd, datetimeOn, bind_one]
      exact hm s l hrel
  · have e1 : datetimeOn c m arg v = .fail .verbose := by
      cases v <;> first | rfl | exact absurd ⟨_, rfl⟩ hs
    refine Ev.succ_all (fun m' s l hrel => ?_)
    rw [xItem_succ c m' hrel.clean.budget, dispatch_datetime _ _ _ _ _ _ _ _ _ hu, e1]
    have e2 : executeDateTimeMethod c (xItem c m') s m.toUnOp (arg.map Lit.node) nx v (some l) =
        returnVerboseError s (some l) := by
      cases v <;> first
        | rfl
        | exact absurd ⟨_, rfl⟩ hs
    rw [e2]
    simp only [bind_fail]
    exact Matches.returnVerboseError hrel.clean l

theorem datetime_spec (hK : Cont c al nx K) (m : DtM) (arg : Option Lit) (ρ : Dyn) (v : Item) (u : Bool) :
    StepRun c al ρ (evalStep c q u (.datetime m arg) ρ v) K ρ (.unary m.toUnOp (arg.map Lit.node) nx) v u := by
  simp only [evalStep]
  by_cases h : u = true → v.isArr = false
  · rw [unwrapIf_not_arr u _ v h]
    exact datetime_core hK m arg ρ v u h
  · have hu : u = true := by cases u <;> simp_all
    subst hu
    cases v with
    | arr xs =>
      have hloop := unwrap_spec (.unary m.toUnOp (arg.map Lit.node) nx) ρ ρ (datetimeOn c m arg)
        (fun x => datetime_core hK m arg ρ x false (fun h => by cases h)) xs
      refine hloop.succ (fun m' hm s l hrel => ?_)
      rw [xItem_succ c m' hrel.clean.budget, dispatch_datetime_arr]
      simp only [unwrapIf, if_true]
      exact hm s l hrel
    | _ => simp [Item.isArr] at h

end steps

/-! ## arithmetic -/

/-- what the (non-silent) operand run `R` of an arithmetic operator says -/
structure MathMatches (s : St) (op : Except Err (List Item)) (R : Res) : Prop where
  keep : Keep s R.st
  ok : ∀ xs, op = .ok xs → R.status ≠ .failed ∧ R.found.getD [] = xs
  fail : ∀ e, op = .error e → R.status = .failed ∧ R.err = report s e

theorem mathOperand_spec (c : Ctx) (item : ItemK) (s : St) (n : Node) (v : Item) (o : Outcome)
    (h : Matches s [] o (executeItem c item s n v (some []))) :
    MathMatches s (mathOperand c o) (optUnwrapResult c item s n v true []) := by
  unfold optUnwrapResult mathOperand
  generalize executeItem c item s n v (some []) = r0 at h
  have hf : r0.found.getD [] = o.items := by simp [h.found]
  cases he : o.err with
  | none =>
    obtain ⟨h1, h2⟩ := h.ok he
    cases hlax : c.lax with
    | true =>
      simp only [Bool.and_self, if_true, h1, if_false, List.nil_append]
      exact ⟨h.keep, fun xs hx => by cases hx; exact ⟨by simp, by simp [hf, unwrapSeq_eq]⟩, fun e hx => by cases hx⟩
    | false =>
      simp only [Bool.and_false, Bool.false_eq_true, if_false]
      exact ⟨h.keep, fun xs hx => by cases hx; exact ⟨h1, hf⟩, fun e hx => by cases hx⟩
  | some e =>
    obtain ⟨h1, h2⟩ := h.fail e he
    cases hlax : c.lax with
    | true =>
      simp only [Bool.and_self, if_true, h1]
      exact ⟨h.keep, (fun xs hx => by cases hx), fun e' hx => by cases hx; exact ⟨rfl, h2⟩⟩
    | false =>
      simp only [Bool.and_false, Bool.false_eq_true, if_false]
      exact ⟨h.keep, (fun xs hx => by cases hx), fun e' hx => by cases hx; exact ⟨h1, h2⟩⟩

/-- the accumulator of the loop of `execUnaryMathExpr` has produced the outcome `o` -/
inductive UAccRel (s : St) (l : List Item) (o : Outcome) (a : UAcc) : Prop
  | running : o.err = none → a.ret = none → a.found = some (l ++ o.items) → a.res ≠ .failed →
      Keep s a.st → UAccRel s l o a
  | returned (e : Err) (r : Res) : o.err = some e → a.ret = some r → r.found = some (l ++ o.items) →
      r.status = .failed → r.err = report s e → Keep s r.st → UAccRel s l o a

theorem UAccRel.ret_of_err {s : St} {l : List Item} {o : Outcome} {a : UAcc}
    (h : UAccRel s l o a) : (a.ret = none ↔ o.err = none) := by
  cases h with
  | running h1 h2 => simp [h1, h2]
  | returned e r h1 h2 => simp [h1, h2]

/-- one item of the operand sequence of a unary `+`/`-` -/
theorem unaryStep_acc {c : Ctx} {item : ItemK} {nx : Option Node} {al : Bool} {ρ : Dyn} {K : Item → Outcome}
    {s : St} {l : List Item} {o : Outcome} {a : UAcc} (cb : Num.UCallback) (x : Item)
    (hs : Rel al s ρ)
    (hG : ∀ val, signOn cb x = .one val → ∀ t l', Rel al t ρ →
      Matches t l' (K val) (executeNextItem c item t nx val (some l')))
    (ha : UAccRel s l o a) :
    UAccRel s l (o.andThen ((signOn cb x).bind K)) (unaryStep c item cb nx a x) := by
  unfold unaryStep
  cases ho : o.err with
  | some e =>
    have hr : a.ret ≠ none := fun h => by rw [ha.ret_of_err.mp h] at ho; cases ho
    cases hret : a.ret with
    | none => exact absurd hret hr
    | some r => simp only; rw [andThen_of_err ho]; exact ha
  | none =>
    have hr : a.ret = none := ha.ret_of_err.mpr ho
    simp only [hr]
    cases ha with
    | returned e r h1 => rw [ho] at h1; cases h1
    | running h1 h2 h3 h4 h5 =>
      -- the two shapes of the body
      have hgo : ∀ val, signOn cb x = .one val →
          UAccRel s l (o.andThen ((signOn cb x).bind K))
            (let r := executeNextItem c item a.st nx val a.found
             if r.status = .failed then (⟨r.st, r.found, a.res, some r⟩ : UAcc)
             else if r.status = .ok then
               (if a.found.isNone then ⟨r.st, r.found, a.res, some ⟨r.st, r.found, .ok, none⟩⟩
                else ⟨r.st, r.found, .ok, none⟩)
             else ⟨r.st, r.found, a.res, none⟩) := by
        intro val hval
        have hm := hG val hval a.st (l ++ o.items) (hs.keep h5)
        rw [hval, bind_one, andThen_of_ok ho, h3]
        dsimp only
        generalize executeNextItem c item a.st nx val (some (l ++ o.items)) = r at hm
        cases hx : (K val).err with
        | none =>
          obtain ⟨g1, g2⟩ := hm.ok hx
          simp only [g1, if_false, Option.isNone_some, Bool.false_eq_true]
          split
          · exact .running rfl rfl (by simp [hm.found, List.append_assoc]) (by simp) (h5.trans hm.keep)
          · exact .running rfl rfl (by simp [hm.found, List.append_assoc]) h4 (h5.trans hm.keep)
        | some e =>
          obtain ⟨g1, g2⟩ := hm.fail e hx
          simp only [g1, if_true]
          exact .returned e r rfl rfl (by simp [hm.found, List.append_assoc]) g1 (by rw [g2, report_keep h5])
            (h5.trans hm.keep)
      have hbad : signOn cb x = .fail .verbose →
          UAccRel s l (o.andThen ((signOn cb x).bind K))
            (⟨a.st, a.found, a.res, some (returnVerboseError a.st a.found)⟩ : UAcc) := by
        intro hval
        have hm := Matches.returnVerboseError (hs.keep h5).clean (l ++ o.items)
        rw [hval, bind_fail, andThen_of_ok ho, h3]
        exact .returned .verbose _ rfl rfl (by simpa [Outcome.fail] using hm.found) (hm.fail _ rfl).1
          (by rw [(hm.fail _ rfl).2, report_keep h5]) (h5.trans hm.keep)
      have hprobe : (a.found.isNone && nx.isNone) = false := by simp [h3]
      cases x with
      | int i => simp only [hprobe, Bool.false_eq_true, if_false]; exact hgo _ rfl
      | flt y => simp only [hprobe, Bool.false_eq_true, if_false]; exact hgo _ rfl
      | jnum t =>
        simp only [hprobe, Bool.false_eq_true, if_false]
        cases hc : Num.castJSONNumber t cb with
        | some val => simp only; exact hgo val (by simp [signOn, hc])
        | none => simp only; exact hbad (by simp [signOn, hc])
      | _ => simp only [hprobe, Bool.false_eq_true, if_false]; exact hbad rfl

section steps
variable {c : Ctx} {q : Dialect} {al : Bool} {nx : Option Node} {K : Dyn → Item → Outcome}

theorem one_inj {a b : Item} (h : Outcome.one a = Outcome.one b) : a = b := by
  simpa [Outcome.one] using h

theorem unary_spec (hK : Cont c al nx K) (sg : Sign) {xn : Node} {ox : Outcome} (ρ : Dyn) (v : Item) (u : Bool)
    (hx : PathRun c al ρ ox xn v) :
    StepRun c al ρ (unaryOf sg.cb (mathOperand c ox)) K ρ (.unary sg.toUnOp (some xn) nx) v u := by
  have hdisp : ∀ (item : ItemK) (bool : BoolK) (any : AnyK) (s : St) (f : Found),
      dispatch c item bool any s (.unary sg.toUnOp (some xn) nx) v f u =
        execUnaryMathExpr c item s (some xn) nx v sg.cb f := by
    intro item bool any s f
    cases sg <;> simp [Sign.toUnOp, Sign.cb, dispatch, execUnaryNode]
  cases hop : mathOperand c ox with
  | error e =>
    refine hx.succ (fun m hm s l hrel => ?_)
    rw [xItem_succ c m hrel.clean.budget, hdisp]
    have h1 := mathOperand_spec c (xItem c m) s xn v ox (by simpa [executeItem] using hm s [] hrel)
    obtain ⟨e1, e2⟩ := h1.fail e hop
    simp only [unaryOf, bind_fail, execUnaryMathExpr, e1, if_true]
    exact ⟨h1.keep, by simp [Outcome.fail], fun h => by simp [Outcome.fail] at h,
      fun e' he' => by simp [Outcome.fail] at he'; subst he'; exact ⟨rfl, e2⟩⟩
  | ok xs =>
    have hvals : ∀ x ∈ xs, Ev fun fuel => ∀ val, signOn sg.cb x = .one val → ∀ t l', Rel al t ρ →
        Matches t l' (K ρ val) (executeNextItem c (xItem c fuel) t nx val (some l')) := by
      intro x _
      by_cases h : ∃ val, signOn sg.cb x = .one val
      · obtain ⟨val, hval⟩ := h
        refine (hK ρ val).mono (fun fuel hf val' hv' t l' ht => ?_)
        rw [hval] at hv'
        rw [← one_inj hv']
        exact hf t l' ht
      · exact Ev.of_all (fun _ val hv => absurd ⟨val, hv⟩ h)
    refine (hx.and (Ev.all_mem xs hvals)).succ (fun m hm s l hrel => ?_)
    rw [xItem_succ c m hrel.clean.budget, hdisp]
    have h1 := mathOperand_spec c (xItem c m) s xn v ox (by simpa [executeItem] using hm.1 s [] hrel)
    obtain ⟨e1, e2⟩ := h1.ok xs hop
    simp only [unaryOf, bind_each, execUnaryMathExpr, e1, if_false, e2]
    generalize optUnwrapResult c (xItem c m) s xn v true [] = r at h1
    have h0 : UAccRel s l .empty ⟨r.st, some l, .notFound, none⟩ :=
      .running rfl rfl (by simp [Outcome.empty]) (by simp) h1.keep
    have hfold := fold_each (UAccRel s l) (unaryStep c (xItem c m) sg.cb nx)
      (fun x => (signOn sg.cb x).bind (K ρ)) xs
      (fun o b x hx' hb => unaryStep_acc sg.cb x hrel (hm.2 x hx') hb) _ _ h0
    rw [empty_andThen] at hfold
    cases hfold with
    | running g1 g2 g3 g4 g5 =>
      simp only [g2]
      exact ⟨g5, g3, fun _ => ⟨g4, rfl⟩, fun e he => by rw [g1] at he; cases he⟩
    | returned e r' g1 g2 g3 g4 g5 g6 =>
      simp only [g2]
      refine ⟨g6, g3, fun he => ?_, fun e' he => ?_⟩
      · rw [g1] at he; cases he
      · rw [g1] at he; cases he; exact ⟨g4, g5⟩

theorem arith_spec (hK : Cont c al nx K) (op : ArithOp) {ln rn : Node} {ol or : Outcome} (ρ : Dyn) (v : Item) (u : Bool)
    (hl : PathRun c al ρ ol ln v) (hr : PathRun c al ρ or rn v) :
    StepRun c al ρ (arithOf op.toBinOp (mathOperand c ol) (mathOperand c or)) K ρ
      (.binary op.toBinOp (some ln) (some rn) nx) v u := by
  have hdisp : ∀ (item : ItemK) (bool : BoolK) (any : AnyK) (s : St) (f : Found),
      dispatch c item bool any s (.binary op.toBinOp (some ln) (some rn) nx) v f u =
        execBinaryMathExpr c item s op.toBinOp (some ln) (some rn) nx v f := by
    intro item bool any s f
    cases op <;> simp [ArithOp.toBinOp, dispatch, execBinaryNode, isBoolBinOp, isMathBinOp]
  -- the value handed on, if any
  have hval : (∃ val, arithOf op.toBinOp (mathOperand c ol) (mathOperand c or) = .one val) ∨
      (∃ e, arithOf op.toBinOp (mathOperand c ol) (mathOperand c or) = .fail e) := by
    unfold arithOf
    split
    · exact Or.inr ⟨_, rfl⟩
    · exact Or.inr ⟨_, rfl⟩
    · unfold arithOn
      split
      · exact Or.inr ⟨_, rfl⟩
      · split
        · exact Or.inr ⟨_, rfl⟩
        · exact Or.inl ⟨_, rfl⟩
    · exact Or.inr ⟨_, rfl⟩
  have hcont : Ev fun fuel => ∀ val, arithOf op.toBinOp (mathOperand c ol) (mathOperand c or) = .one val →
      ∀ t l', Rel al t ρ → Matches t l' (K ρ val) (executeNextItem c (xItem c fuel) t nx val (some l')) := by
    rcases hval with ⟨val, hv⟩ | ⟨e, he⟩
    · refine (hK ρ val).mono (fun fuel hf val' hv' t l' ht => ?_)
      rw [hv] at hv'
      rw [← one_inj hv']
      exact hf t l' ht
    · exact Ev.of_all (fun _ val hv => by rw [he] at hv; simp [Outcome.fail, Outcome.one] at hv)
  refine ((hl.and hr).and hcont).succ (fun m hm s l hrel => ?_)
  rw [xItem_succ c m hrel.clean.budget, hdisp]
  unfold execBinaryMathExpr
  dsimp only
  have h1 := mathOperand_spec c (xItem c m) s ln v ol (by simpa [executeItem] using hm.1.1 s [] hrel)
  generalize optUnwrapResult c (xItem c m) s ln v true [] = rl at h1 ⊢
  have hfailv : ∀ t, Keep s t → Matches s l (.fail .verbose) (returnVerboseError t (some l)) := fun t hk =>
    (Matches.returnVerboseError (hrel.keep hk).clean l).of_keep hk
  cases hL : mathOperand c ol with
  | error e =>
    obtain ⟨e1, e2⟩ := h1.fail e hL
    simp only [arithOf, bind_fail, e1, if_true]
    exact ⟨h1.keep, by simp [Outcome.fail], fun h => by simp [Outcome.fail] at h,
      fun e' he' => by simp [Outcome.fail] at he'; subst he'; exact ⟨rfl, e2⟩⟩
  | ok ls =>
    obtain ⟨e1, e2⟩ := h1.ok ls hL
    simp only [e1, if_false, e2]
    have hrel1 := hrel.keep h1.keep
    have h2 := mathOperand_spec c (xItem c m) rl.st rn v or (by simpa [executeItem] using hm.1.2 rl.st [] hrel1)
    generalize optUnwrapResult c (xItem c m) rl.st rn v true [] = rr at h2 ⊢
    have hk2 := h1.keep.trans h2.keep
    rcases ls with _ | ⟨lv, _ | ⟨lv2, ls'⟩⟩
    · simp only [arithOf, bind_fail]; exact hfailv _ h1.keep
    · simp only
      cases hR : mathOperand c or with
      | error e =>
        obtain ⟨f1, f2⟩ := h2.fail e hR
        simp only [arithOf, bind_fail, f1, if_true]
        exact ⟨hk2, by simp [Outcome.fail], fun h => by simp [Outcome.fail] at h,
          fun e' he' => by
            simp [Outcome.fail] at he'; subst he'
            exact ⟨rfl, by rw [f2, report_keep h1.keep]⟩⟩
      | ok rs =>
        obtain ⟨f1, f2⟩ := h2.ok rs hR
        simp only [f1, if_false, f2]
        rcases rs with _ | ⟨rv, _ | ⟨rv2, rs'⟩⟩
        · simp only [arithOf, bind_fail]; exact hfailv _ hk2
        · simp only [arithOf, arithOn]
          cases hmo : Num.mathOp lv rv op.toBinOp with
          | error e => simp only [bind_fail]; exact hfailv _ hk2
          | ok val =>
            simp only
            cases hnf : nonFiniteItem val with
            | true => simp only [if_true, bind_fail]; exact hfailv _ hk2
            | false =>
              simp only [Bool.false_eq_true, if_false, bind_one, Option.isNone_some, Bool.and_false]
              have hv : arithOf op.toBinOp (mathOperand c ol) (mathOperand c or) = .one val := by
                rw [hL, hR]; simp [arithOf, arithOn, hmo, hnf]
              exact (hm.2 val hv rr.st l (hrel.keep hk2)).of_keep hk2
        · simp only [arithOf, bind_fail]; exact hfailv _ hk2
    · simp only [arithOf, bind_fail]; exact hfailv _ h1.keep

end steps

/-! ## the step cases for the conversion, datetime and arithmetic steps -/

section morecases
variable {c : Ctx}

theorem step_conv (m : ConvM) : StepSpec c (.conv m) := by
  intro al _ nx K hK ρ v u
  rw [and_not_index rfl] at hK
  exact conv_spec hK m ρ v u

theorem step_datetime (m : DtM) (arg : Option Lit) : StepSpec c (.datetime m arg) := by
  intro al _ nx K hK ρ v u
  rw [and_not_index rfl] at hK
  exact datetime_spec hK m arg ρ v u

theorem step_unary (sg : Sign) {x : Path} (hx : PathSpec c x) : StepSpec c (.unary sg x) := by
  intro al hwf nx K hK ρ v u
  rw [and_not_index rfl] at hK
  simp only [Step.wf, Bool.and_eq_true] at hwf
  obtain ⟨xn, hxn⟩ := toNode_of_nonEmpty hwf.1
  simp only [evalStep, Step.toNode, Step.after, hxn]
  exact unary_spec hK sg ρ v u (hx.run hwf.2 hxn ρ v)

theorem step_arith (op : ArithOp) {l r : Path} (hl : PathSpec c l) (hr : PathSpec c r) :
    StepSpec c (.arith op l r) := by
  intro al hwf nx K hK ρ v u
  rw [and_not_index rfl] at hK
  simp only [Step.wf, Bool.and_eq_true] at hwf
  obtain ⟨ln, hln⟩ := toNode_of_nonEmpty hwf.1.1.1
  obtain ⟨rn, hrn⟩ := toNode_of_nonEmpty hwf.1.2
  simp only [evalStep, Step.toNode, Step.after, hln, hrn]
  exact arith_spec hK op ρ v u (hl.run hwf.1.1.2 hln ρ v) (hr.run hwf.2 hrn ρ v)

end morecases

/-! ## the refinement, by mutual structural induction over the syntax -/

mutual
  theorem pathSpec (c : Ctx) (hc : CbOK c) : ∀ p : Path, PathSpec c p
    | .nil => path_nil
    | .cons s rest => path_cons (stepSpec c hc s) (pathSpec c hc rest)
  theorem stepSpec (c : Ctx) (hc : CbOK c) : ∀ s : Step, StepSpec c s
    | .root => step_root
    | .current => step_current
    | .last => step_last
    | .lit l => step_lit l
    | .var x => step_var x
    | .key k => step_key k
    | .anyKey => step_anyKey
    | .anyArray => step_anyArray
    | .index subs => step_index (subsSpec c hc subs)
    | .any a b => step_any a b
    | .type => step_type
    | .size => step_size
    | .conv m => step_conv m
    | .datetime m arg => step_datetime m arg
    | .unary sg x => step_unary sg (pathSpec c hc x)
    | .arith op l r => step_arith op (pathSpec c hc l) (pathSpec c hc r)
    | .filter p => step_filter (predSpec c hc p)
    | .pred p => step_pred (predSpec c hc p)
  theorem subsSpec (c : Ctx) (hc : CbOK c) : ∀ subs : Subs, SubsSpec c subs
    | .nil => subs_nil
    | .one i rest => subs_one (pathSpec c hc i) (subsSpec c hc rest)
    | .range lo hi rest => subs_range (pathSpec c hc lo) (pathSpec c hc hi) (subsSpec c hc rest)
  theorem predSpec (c : Ctx) (hc : CbOK c) : ∀ p : Sem.Pred, PredSpec c p
    | .cmp op l r => pred_cmp hc op (pathSpec c hc l) (pathSpec c hc r)
    | .startsWith l r => pred_startsWith (pathSpec c hc l) (pathSpec c hc r)
    | .likeRegex x pat fl => pred_likeRegex hc pat fl (pathSpec c hc x)
    | .and p q => pred_and (predSpec c hc p) (predSpec c hc q)
    | .or p q => pred_or (predSpec c hc p) (predSpec c hc q)
    | .not p => pred_not (predSpec c hc p)
    | .isUnknown p => pred_isUnknown (predSpec c hc p)
    | .exists x => pred_exists (pathSpec c hc x)
end

/-- **Refinement (executor level).**  For a well-formed path `p` whose chain is the node `n`, every item,
    every dynamic context `ρ`: for all sufficiently large fuel, the collect-mode run of `n` from any state
    realising `ρ` (context never done, no sticky flag) matches `Sem.eval c .go p ρ v`. -/
theorem refine_run (c : Ctx) (hc : CbOK c) (p : Path) (al : Bool) (hwf : p.wf al = true) (n : Node)
    (hn : p.toNode = some n) (ρ : Dyn) (v : Item) :
    Ev fun fuel => ∀ s l, Rel al s ρ → Matches s l (eval c .go p ρ v) (xItem c fuel s n v (some l) c.lax) :=
  (pathSpec c hc p).run hwf hn ρ v

end Refine
end Exec
end Sqljson
