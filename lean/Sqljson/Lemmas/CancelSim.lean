import Sqljson.Lemmas.ApiGood
/-!
# The cancellation simulation

`Good.cancel` (`Lemmas/Good.lean`) says what happens when a context poll fails: the call fails with
the cancellation error.  This file proves the other half: **a run whose polls all succeed does not
depend on the budget** — it computes, step by step, what the run under a context that is never done
computes; the two final states differ in the `budget` field only.

Structure (the one of `Good.lean`: one lemma per Go function, parametric in the recursive calls,
loops by a fold invariant, then induction on fuel over the three dispatchers):

* part 1, `mono_all`: the flag `sawCancel` is sticky — no function ever clears it
  (`…_mono`: `s.sawCancel = true → (f … s …).st.sawCancel = true`).  Hence a run that ends with the
  flag clear had it clear at every intermediate state.
* part 2, `sim_all`: for a budget transformation `φ` that commutes with a successful poll (`PollOK`),
  `(f … s …).st.sawCancel = false → f … (lift φ s) … = liftR φ (f … s …)` (`…_sim`), where
  `lift φ` rewrites the budget and nothing else.  Nothing but `poll` reads the budget, so only the
  `xItem` case uses `PollOK`.
* instances: `φ = fun _ => none` (`xItem_unb` …: against the uncancelled run) and
  `φ = Option.map (· + j)` (`xItem_budget_mono` …: a larger budget changes nothing either).
* `Api.run_sim`: the same for `exec.query` and the five entry points.
-/

namespace Sqljson
namespace Exec
namespace Cancel

/-! ## part 1: the cancellation flag is sticky -/

abbrev MonoI (item : ItemK) : Prop :=
  ∀ s n v f u, s.sawCancel = true → (item s n v f u).st.sawCancel = true
abbrev MonoB (bool : BoolK) : Prop :=
  ∀ s n v b, s.sawCancel = true → (bool s n v b).st.sawCancel = true
abbrev MonoA (any : AnyK) : Prop :=
  ∀ s n vs f l a b i u, s.sawCancel = true → (any s n vs f l a b i u).st.sawCancel = true

theorem returnVerboseError_st (s : St) (f : Found) : (returnVerboseError s f).st = s := by
  unfold returnVerboseError; split <;> rfl

theorem returnError_st (s : St) (f : Found) (e : Err) : (returnError s f e).st = s := by
  unfold returnError; split <;> rfl

theorem structural_st (s : St) (f : Found) : (structural s f).st = s := by
  unfold structural; split
  · exact returnVerboseError_st s f
  · rfl

theorem executeItem_mono (c : Ctx) {item : ItemK} (hI : MonoI item) (s : St) (n : Node) (v : Item) (f : Found)
    (h : s.sawCancel = true) : (executeItem c item s n v f).st.sawCancel = true := hI _ _ _ _ _ h

theorem executeNextItem_mono (c : Ctx) {item : ItemK} (hI : MonoI item) (s : St) (nx : Option Node)
    (v : Item) (f : Found) (h : s.sawCancel = true) :
    (executeNextItem c item s nx v f).st.sawCancel = true := by
  unfold executeNextItem executeItem
  repeat' split
  all_goals simp_all

theorem withBaseObject_mono (s : St) (a : Nat) (i : Int) (k : St → Res)
    (hk : ∀ s', s'.sawCancel = true → (k s').st.sawCancel = true) (h : s.sawCancel = true) :
    (withBaseObject s a i k).st.sawCancel = true := by
  unfold withBaseObject
  exact hk _ h

theorem execLiteral_mono (c : Ctx) {item : ItemK} (hI : MonoI item) (s : St) (nx : Option Node)
    (v : Item) (f : Found) (h : s.sawCancel = true) :
    (execLiteral c item s nx v f).st.sawCancel = true := by
  unfold execLiteral
  repeat' split
  all_goals simp_all [executeNextItem_mono c hI]

macro "cancel_mono" "[" ts:Lean.Parser.Tactic.simpLemma,* "]" : tactic =>
  `(tactic| ((try dsimp only) <;> (repeat' (split <;> try dsimp only)) <;>
    simp_all [returnVerboseError_st, returnError_st, structural_st, $ts,*]))

theorem execVariable_mono (c : Ctx) {item : ItemK} (hI : MonoI item) (s : St) (name : List Char)
    (nx : Option Node) (f : Found) (h : s.sawCancel = true) :
    (execVariable c item s name nx f).st.sawCancel = true := by
  unfold execVariable
  split
  · exact withBaseObject_mono _ _ _ _ (fun s' h' => executeNextItem_mono c hI _ _ _ _ h') h
  · exact h

theorem unwrapTargetArray_mono {any : AnyK} (hA : MonoA any) (s : St) (n : Node) (xs : List Item) (f : Found)
    (h : s.sawCancel = true) : (unwrapTargetArray any s n xs f).st.sawCancel = true := hA _ _ _ _ _ _ _ _ _ h

theorem execKeyNode_mono (c : Ctx) {item : ItemK} {any : AnyK} (hI : MonoI item) (hA : MonoA any) (s : St)
    (n : Node) (key : List Char) (nx : Option Node) (v : Item) (f : Found) (unwrap : Bool)
    (h : s.sawCancel = true) : (execKeyNode c item any s n key nx v f unwrap).st.sawCancel = true := by
  unfold execKeyNode
  cancel_mono [executeNextItem_mono c hI]

theorem execAnyKey_mono (c : Ctx) {any : AnyK} (hA : MonoA any) (s : St)
    (n : Node) (nx : Option Node) (v : Item) (f : Found) (unwrap : Bool)
    (h : s.sawCancel = true) : (execAnyKey c any s n nx v f unwrap).st.sawCancel = true := by
  unfold execAnyKey
  cancel_mono [unwrapTargetArray_mono hA]

theorem execAnyArray_mono (c : Ctx) {item : ItemK} {any : AnyK} (hI : MonoI item) (hA : MonoA any) (s : St)
    (nx : Option Node) (v : Item) (f : Found)
    (h : s.sawCancel = true) : (execAnyArray c item any s nx v f).st.sawCancel = true := by
  unfold execAnyArray
  cancel_mono [executeNextItem_mono c hI]

theorem execLastConst_mono (c : Ctx) {item : ItemK} (hI : MonoI item) (s : St)
    (nx : Option Node) (f : Found)
    (h : s.sawCancel = true) : (execLastConst c item s nx f).st.sawCancel = true := by
  unfold execLastConst
  cancel_mono [executeNextItem_mono c hI]

theorem execConstNode_mono (c : Ctx) {item : ItemK} {any : AnyK} (hI : MonoI item) (hA : MonoA any) (s : St)
    (n : Node) (k : Const) (nx : Option Node) (v : Item) (f : Found) (unwrap : Bool)
    (h : s.sawCancel = true) : (execConstNode c item any s n k nx v f unwrap).st.sawCancel = true := by
  unfold execConstNode
  cases k <;> simp only
  · exact withBaseObject_mono _ _ _ _ (fun s' h' => executeNextItem_mono c hI _ _ _ _ h') h
  · exact executeNextItem_mono c hI _ _ _ _ h
  · exact execLastConst_mono c hI _ _ _ h
  · exact execAnyArray_mono c hI hA _ _ _ _ h
  · exact execAnyKey_mono c hA _ _ _ _ _ _ h
  · exact execLiteral_mono c hI _ _ _ _ h
  · exact execLiteral_mono c hI _ _ _ _ h
  · exact execLiteral_mono c hI _ _ _ _ h

theorem optUnwrapResult_mono (c : Ctx) {item : ItemK} (hI : MonoI item) (s : St) (n : Node) (v : Item)
    (unwrap : Bool) (l : List Item) (h : s.sawCancel = true) :
    (optUnwrapResult c item s n v unwrap l).st.sawCancel = true := by
  unfold optUnwrapResult executeItem
  cancel_mono []

theorem optUnwrapResultSilent_mono (c : Ctx) {item : ItemK} (hI : MonoI item) (s : St) (n : Node) (v : Item)
    (unwrap : Bool) (f : Found) (h : s.sawCancel = true) :
    (optUnwrapResultSilent c item s n v unwrap f).st.sawCancel = true := by
  unfold optUnwrapResultSilent executeItem
  cancel_mono [optUnwrapResult_mono c hI]

theorem predicateTail_sc (c : Ctx) (s : St) (cb : Item → Item → CbOut) (ls rs : List Item) :
    (predicateTail c s cb ls rs).st.sawCancel = s.sawCancel := by
  unfold predicateTail
  cancel_mono []

theorem executePredicate_mono (c : Ctx) {item : ItemK} (hI : MonoI item) (s : St) (left : Node)
    (right : Option Node) (v : Item) (unwrapRight : Bool) (cb : Item → Item → CbOut)
    (h : s.sawCancel = true) :
    (executePredicate c item s left right v unwrapRight cb).st.sawCancel = true := by
  unfold executePredicate
  cancel_mono [predicateTail_sc, optUnwrapResultSilent_mono c hI]

theorem executeBinaryBoolItem_mono (c : Ctx) {item : ItemK} {bool : BoolK} (hI : MonoI item) (hB : MonoB bool)
    (s : St) (op : BinOp) (l r : Option Node) (v : Item) (h : s.sawCancel = true) :
    (executeBinaryBoolItem c item bool s op l r v).st.sawCancel = true := by
  unfold executeBinaryBoolItem
  cancel_mono [executePredicate_mono c hI]

theorem executeUnaryBoolItem_mono (c : Ctx) {item : ItemK} {bool : BoolK} (hI : MonoI item) (hB : MonoB bool)
    (s : St) (op : UnOp) (x : Option Node) (v : Item) (h : s.sawCancel = true) :
    (executeUnaryBoolItem c item bool s op x v).st.sawCancel = true := by
  unfold executeUnaryBoolItem
  cancel_mono [optUnwrapResultSilent_mono c hI]

theorem executeBoolItem_mono (c : Ctx) {item : ItemK} {bool : BoolK} (hI : MonoI item) (hB : MonoB bool)
    (s : St) (n : Node) (v : Item) (chn : Bool) (h : s.sawCancel = true) :
    (executeBoolItem c item bool s n v chn).st.sawCancel = true := by
  unfold executeBoolItem
  cancel_mono [executeBinaryBoolItem_mono c hI hB, executeUnaryBoolItem_mono c hI hB, executePredicate_mono c hI]

theorem appendBoolResult_mono (c : Ctx) {item : ItemK} (hI : MonoI item) (nx : Option Node)
    (f : Found) (p : PRes) (h : p.st.sawCancel = true) :
    (appendBoolResult c item nx f p).st.sawCancel = true := by
  unfold appendBoolResult
  cancel_mono [executeNextItem_mono c hI]

theorem executeNestedBoolItem_mono {bool : BoolK} (hB : MonoB bool) (s : St) (n : Node) (v : Item)
    (h : s.sawCancel = true) : (executeNestedBoolItem bool s n v).st.sawCancel = true := by
  unfold executeNestedBoolItem
  exact hB _ _ _ _ h

/-! ### loop accumulators: the flag of the state that is going to be returned -/

def _root_.Sqljson.Exec.UAcc.canc (a : UAcc) : Bool := match a.ret with | some r => r.st.sawCancel | none => a.st.sawCancel
def _root_.Sqljson.Exec.KVAcc.canc (a : KVAcc) : Bool := match a.ret with | some r => r.st.sawCancel | none => a.st.sawCancel
def _root_.Sqljson.Exec.AAcc.canc (a : AAcc) : Bool := match a.ret with | some r => r.st.sawCancel | none => a.st.sawCancel
def _root_.Sqljson.Exec.IAcc.canc (a : IAcc) : Bool := match a.ret with | some r => r.st.sawCancel | none => a.st.sawCancel

theorem unaryStep_mono (c : Ctx) {item : ItemK} (hI : MonoI item) (cb : Num.UCallback) (nx : Option Node)
    (a : UAcc) (v : Item) (h : a.canc = true) : (unaryStep c item cb nx a v).canc = true := by
  unfold unaryStep
  split
  · exact h
  · rename_i hnone
    have hs : a.st.sawCancel = true := by simpa [UAcc.canc, hnone] using h
    have hn := executeNextItem_mono c hI a.st nx
    cancel_mono [UAcc.canc]

theorem execUnaryMathExpr_mono (c : Ctx) {item : ItemK} (hI : MonoI item) (s : St) (operand nx : Option Node)
    (v : Item) (cb : Num.UCallback) (f : Found) (h : s.sawCancel = true) :
    (execUnaryMathExpr c item s operand nx v cb f).st.sawCancel = true := by
  unfold execUnaryMathExpr
  split
  · exact h
  · rename_i x
    have hr := optUnwrapResult_mono c hI s x v true [] h
    try dsimp only
    split
    · exact hr
    · have hinv : (((optUnwrapResult c item s x v true []).found.getD []).foldl
          (unaryStep c item cb nx) ⟨(optUnwrapResult c item s x v true []).st, f, .notFound, none⟩).canc = true := by
        refine foldl_inv (fun a : UAcc => a.canc = true) _ _ _ ?_ (fun a v h => unaryStep_mono c hI cb nx a v h)
        simpa [UAcc.canc] using hr
      unfold UAcc.canc at hinv
      split <;> simp_all

theorem execBinaryMathExpr_mono (c : Ctx) {item : ItemK} (hI : MonoI item) (s : St) (op : BinOp)
    (l r nx : Option Node) (v : Item) (f : Found) (h : s.sawCancel = true) :
    (execBinaryMathExpr c item s op l r nx v f).st.sawCancel = true := by
  unfold execBinaryMathExpr
  split
  · rename_i ln rn
    have h1 := optUnwrapResult_mono c hI s ln v true [] h
    have h2 := optUnwrapResult_mono c hI (optUnwrapResult c item s ln v true []).st rn v true [] h1
    have h3 := executeNextItem_mono c hI (optUnwrapResult c item (optUnwrapResult c item s ln v true []).st rn v true []).st nx
    cancel_mono []
  · exact h

theorem execMethodSize_mono (c : Ctx) {item : ItemK} (hI : MonoI item) (s : St) (nx : Option Node)
    (v : Item) (f : Found) (h : s.sawCancel = true) : (execMethodSize c item s nx v f).st.sawCancel = true := by
  unfold execMethodSize
  cancel_mono [executeNextItem_mono c hI]

theorem execConvMethod_mono (c : Ctx) {item : ItemK} {any : AnyK} (hI : MonoI item) (hA : MonoA any) (s : St)
    (n : Node) (nx : Option Node) (v : Item) (f : Found) (unwrap : Bool) (conv : Item → Conv)
    (h : s.sawCancel = true) : (execConvMethod c item any s n nx v f unwrap conv).st.sawCancel = true := by
  unfold execConvMethod
  cancel_mono [executeNextItem_mono c hI, unwrapTargetArray_mono hA]

theorem executeDateTimeMethod_mono (c : Ctx) {item : ItemK} (hI : MonoI item) (s : St) (op : UnOp)
    (arg nx : Option Node) (v : Item) (f : Found) (h : s.sawCancel = true) :
    (executeDateTimeMethod c item s op arg nx v f).st.sawCancel = true := by
  unfold executeDateTimeMethod
  cancel_mono [executeNextItem_mono c hI]

theorem kvStep_mono (c : Ctx) {item : ItemK} (hI : MonoI item) (nx : Option Node) (id : Int)
    (a : KVAcc) (kv : List Char × Item) (h : a.canc = true) : (kvStep c item nx id a kv).canc = true := by
  unfold kvStep
  split
  · exact h
  · rename_i hcond
    have hnone : a.ret = none := by cases hr : a.ret <;> simp_all
    have hs : a.st.sawCancel = true := by simpa [KVAcc.canc, hnone] using h
    have hn := executeNextItem_mono c hI (kvEnter c a.st (kvObj id kv)) nx (kvObj id kv) a.found
      (by simpa [kvEnter] using hs)
    cancel_mono [KVAcc.canc]

theorem executeKeyValueMethod_mono (c : Ctx) {item : ItemK} {any : AnyK} (hI : MonoI item) (hA : MonoA any)
    (s : St) (n : Node) (nx : Option Node) (v : Item) (f : Found) (unwrap : Bool) (h : s.sawCancel = true) :
    (executeKeyValueMethod c item any s n nx v f unwrap).st.sawCancel = true := by
  unfold executeKeyValueMethod
  split
  · cancel_mono [unwrapTargetArray_mono hA]
  · rename_i kvs
    split
    · exact h
    · split
      · exact h
      · try dsimp only
        generalize hid : (_ : Int) + s.baseId * 10000000000 = id
        have hinv : (kvs.foldl (kvStep c item nx id) ⟨s, f, .ok, none, false⟩).canc = true := by
          refine foldl_inv (fun a : KVAcc => a.canc = true) _ _ _ ?_ (fun a kv h => kvStep_mono c hI nx id a kv h)
          simpa [KVAcc.canc] using h
        unfold KVAcc.canc at hinv
        split <;> simp_all
  · cancel_mono []

theorem execMethodNode_mono (c : Ctx) {item : ItemK} {any : AnyK} (hI : MonoI item) (hA : MonoA any)
    (s : St) (n : Node) (m : Method) (nx : Option Node) (v : Item) (f : Found) (unwrap : Bool)
    (h : s.sawCancel = true) : (execMethodNode c item any s n m nx v f unwrap).st.sawCancel = true := by
  unfold execMethodNode
  cases m <;> simp only
  all_goals first
    | exact execConvMethod_mono c hI hA _ _ _ _ _ _ _ h
    | exact executeNextItem_mono c hI _ _ _ _ h
    | exact execMethodSize_mono c hI _ _ _ _ h
    | exact executeKeyValueMethod_mono c hI hA _ _ _ _ _ _ h

theorem anyVisit_mono {item : ItemK} (hI : MonoI item) (node : Option Node) (level first last : Nat)
    (ignore unwrapNext : Bool) (a : AAcc) (v : Item) (hnone : a.ret = none) (h : a.canc = true) :
    (anyVisit item node level first last ignore unwrapNext a v).canc = true := by
  have hs : a.st.sawCancel = true := by simpa [AAcc.canc, hnone] using h
  unfold anyVisit
  split
  · split
    · rename_i n
      have hr := hI (if ignore then { a.st with ignoreSE := true } else a.st) n v a.found unwrapNext
        (by split <;> simpa using hs)
      cancel_mono [AAcc.canc]
    · cancel_mono [AAcc.canc]
  · exact h

theorem anyDescend_mono {any : AnyK} (hA : MonoA any) (node : Option Node) (level first last : Nat)
    (ignore unwrapNext : Bool) (a : AAcc) (v : Item) (hnone : a.ret = none) (h : a.canc = true) :
    (anyDescend any node level first last ignore unwrapNext a v).canc = true := by
  have hs : a.st.sawCancel = true := by simpa [AAcc.canc, hnone] using h
  unfold anyDescend
  have hr := hA a.st node ((collection v).getD []) a.found (level + 1) first last ignore unwrapNext hs
  cancel_mono [AAcc.canc]

theorem anyStep_mono {item : ItemK} {any : AnyK} (hI : MonoI item) (hA : MonoA any) (node : Option Node)
    (level first last : Nat) (ignore unwrapNext : Bool) (a : AAcc) (v : Item) (h : a.canc = true) :
    (anyStep item any node level first last ignore unwrapNext a v).canc = true := by
  unfold anyStep
  split
  · exact h
  · rename_i hnone
    have h1 := anyVisit_mono hI node level first last ignore unwrapNext a v hnone h
    try dsimp only
    split
    · exact h1
    · rename_i hnone1
      exact anyDescend_mono hA node level first last ignore unwrapNext _ v hnone1 h1

theorem executeAnyItem_mono {item : ItemK} {any : AnyK} (hI : MonoI item) (hA : MonoA any) (s : St)
    (node : Option Node) (vs : List Item) (f : Found) (level first last : Nat) (ignore unwrapNext : Bool)
    (h : s.sawCancel = true) :
    (executeAnyItem item any s node vs f level first last ignore unwrapNext).st.sawCancel = true := by
  unfold executeAnyItem
  split
  · exact h
  · try dsimp only
    have hinv : (vs.foldl (anyStep item any node level first last ignore unwrapNext)
        ⟨s, f, .notFound, none, none⟩).canc = true := by
      refine foldl_inv (fun a : AAcc => a.canc = true) _ _ _ ?_
        (fun a v h => anyStep_mono hI hA node level first last ignore unwrapNext a v h)
      simpa [AAcc.canc] using h
    unfold AAcc.canc at hinv
    split <;> simp_all

theorem anyInto_mono (c : Ctx) {any : AnyK} (hA : MonoA any) (s : St) (first last : Nat)
    (nx : Option Node) (v : Item) (f : Found) (h : s.sawCancel = true) :
    (anyInto c any s first last nx v f).st.sawCancel = true := by
  unfold anyInto
  cancel_mono []

theorem execAnyNode_mono (c : Ctx) {item : ItemK} {any : AnyK} (hI : MonoI item) (hA : MonoA any) (s : St)
    (first last : Nat) (nx : Option Node) (v : Item) (f : Found) (h : s.sawCancel = true) :
    (execAnyNode c item any s first last nx v f).st.sawCancel = true := by
  unfold execAnyNode
  have h1 := executeNextItem_mono c hI { s with ignoreSE := true } nx v f h
  have h2 := anyInto_mono c hA (executeNextItem c item { s with ignoreSE := true } nx v f).st first last nx v
    (executeNextItem c item { s with ignoreSE := true } nx v f).found h1
  cancel_mono [anyInto_mono c hA]

/-! ### subscripts -/

theorem getArrayIndex_mono (c : Ctx) {item : ItemK} (hI : MonoI item) (s : St) (n : Node) (v : Item)
    (h : s.sawCancel = true) : (getArrayIndex c item s n v).1.sawCancel = true := by
  unfold getArrayIndex
  have hr := executeItem_mono c hI s n v (some []) h
  cancel_mono []

theorem execSubscript_mono (c : Ctx) {item : ItemK} (hI : MonoI item) (s : St) (sub : Node) (v : Item)
    (size : Int) (h : s.sawCancel = true) : (execSubscript c item s sub v size).1.sawCancel = true := by
  unfold execSubscript
  split
  · rename_i l r _
    have h1 := getArrayIndex_mono c hI s l v h
    split
    · rename_i s2 e heq
      rw [heq] at h1; exact h1
    · rename_i s2 from_ heq
      rw [heq] at h1
      cases r with
      | none => simp only; split <;> exact h1
      | some rn =>
        have h2 := getArrayIndex_mono c hI s2 rn v h1
        simp only
        split
        · exact h2
        · split <;> exact h2
  · exact h
  · exact h

theorem indexElemStep_mono (c : Ctx) {item : ItemK} (hI : MonoI item) (nx : Option Node)
    (a : IAcc) (v : Item) (h : a.canc = true) : (indexElemStep c item nx a v).canc = true := by
  unfold indexElemStep
  split
  · exact h
  · rename_i hsome
    have hnone : a.ret = none := by cases hr : a.ret <;> simp_all
    have hs : a.st.sawCancel = true := by simpa [IAcc.canc, hnone] using h
    have hr := executeNextItem_mono c hI a.st nx v a.found hs
    cancel_mono [IAcc.canc]

theorem indexSubStep_mono (c : Ctx) {item : ItemK} (hI : MonoI item) (nx : Option Node) (xs : List Item)
    (v : Item) (a : IAcc) (sub : Node) (h : a.canc = true) :
    (indexSubStep c item nx xs v a sub).canc = true := by
  unfold indexSubStep
  split
  · exact h
  · rename_i hsome
    have hnone : a.ret = none := by cases hr : a.ret <;> simp_all
    have hs : a.st.sawCancel = true := by simpa [IAcc.canc, hnone] using h
    have hsub := execSubscript_mono c hI a.st sub v xs.length hs
    split
    · rename_i s1 e heq
      rw [heq] at hsub
      simpa [IAcc.canc, returnError_st] using hsub
    · rename_i s1 from_ to_ heq
      rw [heq] at hsub
      refine foldl_inv (fun a : IAcc => a.canc = true) _ _ _ ?_ (fun a' v' h' => indexElemStep_mono c hI nx a' v' h')
      simpa [IAcc.canc, hnone] using hsub

theorem execArrayIndex_mono (c : Ctx) {item : ItemK} (hI : MonoI item) (s : St) (subs : List Node)
    (nx : Option Node) (v : Item) (f : Found) (h : s.sawCancel = true) :
    (execArrayIndex c item s subs nx v f).st.sawCancel = true := by
  unfold execArrayIndex
  try dsimp only
  split
  · simpa [structural_st] using h
  · rename_i xs _
    have hinv : (subs.foldl (indexSubStep c item nx xs v)
        ⟨{ s with innermost := xs.length }, f, .notFound, none, none⟩).canc = true := by
      refine foldl_inv (fun a : IAcc => a.canc = true) _ _ _ ?_ (fun a sub h => indexSubStep_mono c hI nx xs v a sub h)
      simpa [IAcc.canc] using h
    unfold IAcc.canc at hinv
    split <;> simp_all

/-! ### dispatch and the induction over fuel -/

theorem execBinaryNode_mono (c : Ctx) {item : ItemK} {bool : BoolK} {any : AnyK} (hI : MonoI item)
    (hB : MonoB bool) (hA : MonoA any) (s : St) (n : Node) (op : BinOp) (l r nx : Option Node) (v : Item)
    (f : Found) (unwrap : Bool) (h : s.sawCancel = true) :
    (execBinaryNode c item bool any s n op l r nx v f unwrap).st.sawCancel = true := by
  unfold execBinaryNode
  split
  · exact appendBoolResult_mono c hI nx f _ (hB _ _ _ _ h)
  · split
    · exact execBinaryMathExpr_mono c hI _ _ _ _ _ _ _ h
    · split
      · exact execConvMethod_mono c hI hA _ _ _ _ _ _ _ h
      · exact h

theorem execUnaryNode_mono (c : Ctx) {item : ItemK} {bool : BoolK} {any : AnyK} (hI : MonoI item)
    (hB : MonoB bool) (hA : MonoA any) (s : St) (n : Node) (op : UnOp) (x nx : Option Node) (v : Item)
    (f : Found) (unwrap : Bool) (h : s.sawCancel = true) :
    (execUnaryNode c item bool any s n op x nx v f unwrap).st.sawCancel = true := by
  unfold execUnaryNode
  split
  · exact appendBoolResult_mono c hI nx f _ (hB _ _ _ _ h)
  · exact appendBoolResult_mono c hI nx f _ (hB _ _ _ _ h)
  · exact appendBoolResult_mono c hI nx f _ (hB _ _ _ _ h)
  · split
    · exact unwrapTargetArray_mono hA _ _ _ _ h
    · split
      · exact h
      · rename_i cond
        have hp := executeNestedBoolItem_mono hB s cond v h
        have hn := executeNextItem_mono c hI (executeNestedBoolItem bool s cond v).st nx v f hp
        cancel_mono []
  · exact execUnaryMathExpr_mono c hI _ _ _ _ _ _ h
  · exact execUnaryMathExpr_mono c hI _ _ _ _ _ _ h
  · split
    · exact hA _ _ _ _ _ _ _ _ _ h
    · exact executeDateTimeMethod_mono c hI _ _ _ _ _ _ h

theorem dispatch_mono (c : Ctx) {item : ItemK} {bool : BoolK} {any : AnyK} (hI : MonoI item)
    (hB : MonoB bool) (hA : MonoA any) (s : St) (n : Node) (v : Item) (f : Found) (unwrap : Bool)
    (h : s.sawCancel = true) : (dispatch c item bool any s n v f unwrap).st.sawCancel = true := by
  unfold dispatch
  split
  · exact execConstNode_mono c hI hA _ _ _ _ _ _ _ h
  · exact execLiteral_mono c hI _ _ _ _ h
  · exact execLiteral_mono c hI _ _ _ _ h
  · exact execLiteral_mono c hI _ _ _ _ h
  · exact execVariable_mono c hI _ _ _ _ h
  · exact execKeyNode_mono c hI hA _ _ _ _ _ _ _ h
  · exact execBinaryNode_mono c hI hB hA _ _ _ _ _ _ _ _ _ h
  · exact execUnaryNode_mono c hI hB hA _ _ _ _ _ _ _ _ h
  · exact appendBoolResult_mono c hI _ f _ (hB _ _ _ _ h)
  · exact execMethodNode_mono c hI hA _ _ _ _ _ _ _ h
  · exact execAnyNode_mono c hI hA _ _ _ _ _ _ h
  · exact execArrayIndex_mono c hI _ _ _ _ _ h

theorem poll_sc {s s' : St} (h : poll s = some s') : s'.sawCancel = s.sawCancel := by
  unfold poll at h
  split at h <;> simp at h <;> subst h <;> rfl

/-- **the cancellation flag is sticky**: no executor function ever clears it -/
theorem mono_all (c : Ctx) : ∀ fuel : Nat,
    MonoI (xItem c fuel) ∧ MonoB (xBool c fuel) ∧ MonoA (xAny c fuel) := by
  intro fuel
  induction fuel with
  | zero =>
    refine ⟨fun s n v f u h => ?_, fun s n v b h => ?_, fun s n vs f l a b i u h => ?_⟩
    · simpa [xItem] using h
    · simpa [xBool] using h
    · simpa [xAny] using h
  | succ fuel ih =>
    obtain ⟨hI, hB, hA⟩ := ih
    refine ⟨fun s n v f u h => ?_, fun s n v b h => ?_, fun s n vs f l a b i u h => ?_⟩
    · simp only [xItem]
      split
      · rfl
      · rename_i s' hpoll
        exact dispatch_mono c hI hB hA _ _ _ _ _ (by rw [poll_sc hpoll]; exact h)
    · simp only [xBool]; exact executeBoolItem_mono c hI hB _ _ _ _ h
    · simp only [xAny]; exact executeAnyItem_mono hI hA _ _ _ _ _ _ _ _ _ h

/-! ## part 2: the simulation

`lift φ` changes the budget of a state and nothing else.  For a `φ` that is compatible with `poll`
(`PollOK`), a run that ends with the flag clear is reproduced step by step from the lifted state.
`φ = fun _ => none` is "the same call with a context that is never done"; `φ = Option.map (· + j)`
is "the same call, done `j` polls later". -/

def lift (φ : Option Nat → Option Nat) (s : St) : St := { s with budget := φ s.budget }
def liftR (φ : Option Nat → Option Nat) (r : Res) : Res := { r with st := lift φ r.st }
def liftP (φ : Option Nat → Option Nat) (p : PRes) : PRes := { p with st := lift φ p.st }

section sim
variable (φ : Option Nat → Option Nat)

@[simp] theorem liftR_st (r : Res) : (liftR φ r).st = lift φ r.st := rfl
@[simp] theorem liftR_found (r : Res) : (liftR φ r).found = r.found := rfl
@[simp] theorem liftR_status (r : Res) : (liftR φ r).status = r.status := rfl
@[simp] theorem liftR_err (r : Res) : (liftR φ r).err = r.err := rfl
@[simp] theorem liftP_st (p : PRes) : (liftP φ p).st = lift φ p.st := rfl
@[simp] theorem liftP_out (p : PRes) : (liftP φ p).out = p.out := rfl
@[simp] theorem liftP_err (p : PRes) : (liftP φ p).err = p.err := rfl
@[simp] theorem lift_current (s : St) : (lift φ s).current = s.current := rfl
@[simp] theorem lift_baseAddr (s : St) : (lift φ s).baseAddr = s.baseAddr := rfl
@[simp] theorem lift_baseId (s : St) : (lift φ s).baseId = s.baseId := rfl
@[simp] theorem lift_lastGenId (s : St) : (lift φ s).lastGenId = s.lastGenId := rfl
@[simp] theorem lift_innermost (s : St) : (lift φ s).innermost = s.innermost := rfl
@[simp] theorem lift_ignoreSE (s : St) : (lift φ s).ignoreSE = s.ignoreSE := rfl
@[simp] theorem lift_verbose (s : St) : (lift φ s).verbose = s.verbose := rfl
@[simp] theorem lift_sawCancel (s : St) : (lift φ s).sawCancel = s.sawCancel := rfl
@[simp] theorem lift_panicked (s : St) : (lift φ s).panicked = s.panicked := rfl
@[simp] theorem lift_oof (s : St) : (lift φ s).oof = s.oof := rfl
theorem liftR_mk (s : St) (f : Found) (st : Status) (e : Option Err) :
    liftR φ ⟨s, f, st, e⟩ = ⟨lift φ s, f, st, e⟩ := rfl
theorem liftP_mk (s : St) (p : Pred) (e : Option Err) : liftP φ ⟨s, p, e⟩ = ⟨lift φ s, p, e⟩ := rfl

abbrev SimI (item : ItemK) : Prop :=
  ∀ s n v f u, (item s n v f u).st.sawCancel = false → item (lift φ s) n v f u = liftR φ (item s n v f u)
abbrev SimB (bool : BoolK) : Prop :=
  ∀ s n v b, (bool s n v b).st.sawCancel = false → bool (lift φ s) n v b = liftP φ (bool s n v b)
abbrev SimA (any : AnyK) : Prop :=
  ∀ s n vs f l a b i u, (any s n vs f l a b i u).st.sawCancel = false →
    any (lift φ s) n vs f l a b i u = liftR φ (any s n vs f l a b i u)

theorem returnVerboseError_lift (s : St) (f : Found) :
    returnVerboseError (lift φ s) f = liftR φ (returnVerboseError s f) := by
  unfold returnVerboseError; split <;> simp_all [liftR_mk]

theorem returnError_lift (s : St) (f : Found) (e : Err) :
    returnError (lift φ s) f e = liftR φ (returnError s f e) := by
  unfold returnError; split <;> simp_all [liftR_mk]

theorem structural_lift (s : St) (f : Found) : structural (lift φ s) f = liftR φ (structural s f) := by
  unfold structural; split <;> simp_all [liftR_mk, returnVerboseError_lift]

theorem executeNextItem_sim (c : Ctx) {item : ItemK} (hS : SimI φ item) (s : St) (nx : Option Node)
    (v : Item) (f : Found) (h : (executeNextItem c item s nx v f).st.sawCancel = false) :
    executeNextItem c item (lift φ s) nx v f = liftR φ (executeNextItem c item s nx v f) := by
  revert h
  unfold executeNextItem executeItem
  split
  · exact hS _ _ _ _ _
  · intro _; rfl

theorem optUnwrapResult_sim (c : Ctx) {item : ItemK} (hS : SimI φ item) (s : St) (n : Node) (v : Item)
    (unwrap : Bool) (l : List Item) (h : (optUnwrapResult c item s n v unwrap l).st.sawCancel = false) :
    optUnwrapResult c item (lift φ s) n v unwrap l = liftR φ (optUnwrapResult c item s n v unwrap l) := by
  revert h
  unfold optUnwrapResult executeItem
  (try dsimp only) <;> (repeat' (split <;> try dsimp only)) <;> (intro hfin; simp_all [liftR_mk])

theorem not_canc_of {a b : Bool} (h : a = true → b = true) : b = false → a = false := by
  cases a <;> simp_all

set_option hygiene false in
macro "cancel_sim_pre" "(" t:tacticSeq ")" "[" ts:Lean.Parser.Tactic.simpLemma,* "]" : tactic =>
  `(tactic| ((try dsimp only) <;>
    (try simp only [lift_current, lift_baseAddr, lift_baseId, lift_lastGenId, lift_innermost, lift_ignoreSE,
      lift_verbose, lift_sawCancel, lift_panicked, lift_oof]) <;>
    (repeat' (split <;> try dsimp only)) <;>
    (intro hfin; (try ($t)); first
      | rfl
      | (simp_all [liftR_mk, liftP_mk, returnVerboseError_lift, returnError_lift, structural_lift,
          returnVerboseError_st, returnError_st, structural_st, $ts,*]) <;> (try (first | omega | simp [lift])))))

macro "cancel_sim" "[" ts:Lean.Parser.Tactic.simpLemma,* "]" : tactic => `(tactic| cancel_sim_pre (skip) [$ts,*])

theorem withBaseObject_sim (s : St) (a : Nat) (i : Int) (k : St → Res)
    (hk : ∀ s', (k s').st.sawCancel = false → k (lift φ s') = liftR φ (k s'))
    (h : (withBaseObject s a i k).st.sawCancel = false) :
    withBaseObject (lift φ s) a i k = liftR φ (withBaseObject s a i k) := by
  unfold withBaseObject at h ⊢
  have e : k { lift φ s with baseAddr := a, baseId := i } = liftR φ (k { s with baseAddr := a, baseId := i }) :=
    hk { s with baseAddr := a, baseId := i } h
  dsimp only
  rw [e]
  rfl

theorem execLiteral_sim (c : Ctx) {item : ItemK} (hS : SimI φ item) (s : St) (nx : Option Node)
    (v : Item) (f : Found) (h : (execLiteral c item s nx v f).st.sawCancel = false) :
    execLiteral c item (lift φ s) nx v f = liftR φ (execLiteral c item s nx v f) := by
  revert h
  unfold execLiteral
  cancel_sim [executeNextItem_sim φ c hS]

theorem execVariable_sim (c : Ctx) {item : ItemK} (hS : SimI φ item) (s : St) (name : List Char)
    (nx : Option Node) (f : Found) (h : (execVariable c item s name nx f).st.sawCancel = false) :
    execVariable c item (lift φ s) name nx f = liftR φ (execVariable c item s name nx f) := by
  revert h
  unfold execVariable
  split
  · exact withBaseObject_sim φ _ _ _ _ (fun s' h' => executeNextItem_sim φ c hS _ _ _ _ h')
  · intro _; rfl

theorem execKeyNode_sim (c : Ctx) {item : ItemK} {any : AnyK} (hS : SimI φ item) (hSA : SimA φ any) (s : St)
    (n : Node) (key : List Char) (nx : Option Node) (v : Item) (f : Found) (unwrap : Bool)
    (h : (execKeyNode c item any s n key nx v f unwrap).st.sawCancel = false) :
    execKeyNode c item any (lift φ s) n key nx v f unwrap = liftR φ (execKeyNode c item any s n key nx v f unwrap) := by
  revert h
  unfold execKeyNode
  cancel_sim [executeNextItem_sim φ c hS]

theorem execAnyKey_sim (c : Ctx) {any : AnyK} (hSA : SimA φ any) (s : St)
    (n : Node) (nx : Option Node) (v : Item) (f : Found) (unwrap : Bool)
    (h : (execAnyKey c any s n nx v f unwrap).st.sawCancel = false) :
    execAnyKey c any (lift φ s) n nx v f unwrap = liftR φ (execAnyKey c any s n nx v f unwrap) := by
  revert h
  unfold execAnyKey unwrapTargetArray
  cancel_sim []

theorem execAnyArray_sim (c : Ctx) {item : ItemK} {any : AnyK} (hS : SimI φ item) (hSA : SimA φ any) (s : St)
    (nx : Option Node) (v : Item) (f : Found)
    (h : (execAnyArray c item any s nx v f).st.sawCancel = false) :
    execAnyArray c item any (lift φ s) nx v f = liftR φ (execAnyArray c item any s nx v f) := by
  revert h
  unfold execAnyArray
  cancel_sim [executeNextItem_sim φ c hS]

theorem execLastConst_sim (c : Ctx) {item : ItemK} (hS : SimI φ item) (s : St)
    (nx : Option Node) (f : Found)
    (h : (execLastConst c item s nx f).st.sawCancel = false) :
    execLastConst c item (lift φ s) nx f = liftR φ (execLastConst c item s nx f) := by
  revert h
  unfold execLastConst
  cancel_sim [executeNextItem_sim φ c hS]

theorem execConstNode_sim (c : Ctx) {item : ItemK} {any : AnyK} (hS : SimI φ item) (hSA : SimA φ any) (s : St)
    (n : Node) (k : Const) (nx : Option Node) (v : Item) (f : Found) (unwrap : Bool)
    (h : (execConstNode c item any s n k nx v f unwrap).st.sawCancel = false) :
    execConstNode c item any (lift φ s) n k nx v f unwrap = liftR φ (execConstNode c item any s n k nx v f unwrap) := by
  revert h
  unfold execConstNode
  cases k <;> simp only
  · exact withBaseObject_sim φ _ _ _ _ (fun s' h' => executeNextItem_sim φ c hS _ _ _ _ h')
  · exact executeNextItem_sim φ c hS _ _ _ _
  · exact execLastConst_sim φ c hS _ _ _
  · exact execAnyArray_sim φ c hS hSA _ _ _ _
  · exact execAnyKey_sim φ c hSA _ _ _ _ _ _
  · exact execLiteral_sim φ c hS _ _ _ _
  · exact execLiteral_sim φ c hS _ _ _ _
  · exact execLiteral_sim φ c hS _ _ _ _

theorem optUnwrapResultSilent_sim (c : Ctx) {item : ItemK} (hS : SimI φ item) (s : St) (n : Node) (v : Item)
    (unwrap : Bool) (f : Found) (h : (optUnwrapResultSilent c item s n v unwrap f).st.sawCancel = false) :
    optUnwrapResultSilent c item (lift φ s) n v unwrap f = liftR φ (optUnwrapResultSilent c item s n v unwrap f) := by
  revert h
  unfold optUnwrapResultSilent executeItem
  have hv : ({ lift φ s with verbose := false } : St) = lift φ { s with verbose := false } := rfl
  rw [hv]
  cancel_sim [optUnwrapResult_sim φ c hS]

/-! ### predicates -/

theorem predicateTail_lift (c : Ctx) (s : St) (cb : Item → Item → CbOut) (ls rs : List Item) :
    predicateTail c (lift φ s) cb ls rs = liftP φ (predicateTail c s cb ls rs) := by
  unfold predicateTail
  try dsimp only
  repeat' split
  all_goals rfl

theorem executePredicate_sim (c : Ctx) {item : ItemK} (hM : MonoI item) (hS : SimI φ item) (s : St) (left : Node)
    (right : Option Node) (v : Item) (unwrapRight : Bool) (cb : Item → Item → CbOut)
    (h : (executePredicate c item s left right v unwrapRight cb).st.sawCancel = false) :
    executePredicate c item (lift φ s) left right v unwrapRight cb =
      liftP φ (executePredicate c item s left right v unwrapRight cb) := by
  revert h
  unfold executePredicate
  cases right with
  | none => cancel_sim [optUnwrapResultSilent_sim φ c hS, predicateTail_lift, predicateTail_sc]
  | some rn =>
    have m2 := not_canc_of (optUnwrapResultSilent_mono c hM
      (optUnwrapResultSilent c item s left v true (some [])).st rn v unwrapRight (some []))
    cancel_sim [optUnwrapResultSilent_sim φ c hS, predicateTail_lift, predicateTail_sc]

theorem executeBinaryBoolItem_sim (c : Ctx) {item : ItemK} {bool : BoolK} (hM : MonoI item) (hS : SimI φ item)
    (hMB : MonoB bool) (hSB : SimB φ bool) (s : St) (op : BinOp) (l r : Option Node) (v : Item)
    (h : (executeBinaryBoolItem c item bool s op l r v).st.sawCancel = false) :
    executeBinaryBoolItem c item bool (lift φ s) op l r v =
      liftP φ (executeBinaryBoolItem c item bool s op l r v) := by
  revert h
  unfold executeBinaryBoolItem
  cases l with
  | none => intro _; rfl
  | some ln =>
    cases r with
    | none => cancel_sim [executePredicate_sim φ c hM hS]
    | some rn =>
      have m2 := not_canc_of (hMB (bool s ln v false).st rn v false)
      cancel_sim [executePredicate_sim φ c hM hS]

theorem executeUnaryBoolItem_sim (c : Ctx) {item : ItemK} {bool : BoolK} (hS : SimI φ item)
    (hSB : SimB φ bool) (s : St) (op : UnOp) (x : Option Node) (v : Item)
    (h : (executeUnaryBoolItem c item bool s op x v).st.sawCancel = false) :
    executeUnaryBoolItem c item bool (lift φ s) op x v =
      liftP φ (executeUnaryBoolItem c item bool s op x v) := by
  revert h
  unfold executeUnaryBoolItem
  cancel_sim [optUnwrapResultSilent_sim φ c hS]

theorem executeBoolItem_sim (c : Ctx) {item : ItemK} {bool : BoolK} (hM : MonoI item) (hS : SimI φ item)
    (hMB : MonoB bool) (hSB : SimB φ bool) (s : St) (n : Node) (v : Item) (chn : Bool)
    (h : (executeBoolItem c item bool s n v chn).st.sawCancel = false) :
    executeBoolItem c item bool (lift φ s) n v chn = liftP φ (executeBoolItem c item bool s n v chn) := by
  revert h
  unfold executeBoolItem
  split
  · intro _; rfl
  · split
    · exact executeBinaryBoolItem_sim φ c hM hS hMB hSB _ _ _ _ _
    · exact executeUnaryBoolItem_sim φ c hS hSB _ _ _ _
    · exact executePredicate_sim φ c hM hS _ _ _ _ _ _
    · intro _; rfl

theorem appendBoolResult_sim (c : Ctx) {item : ItemK} (hS : SimI φ item) (nx : Option Node)
    (f : Found) (p : PRes) (h : (appendBoolResult c item nx f p).st.sawCancel = false) :
    appendBoolResult c item nx f (liftP φ p) = liftR φ (appendBoolResult c item nx f p) := by
  revert h
  unfold appendBoolResult
  cancel_sim [executeNextItem_sim φ c hS]

theorem executeNestedBoolItem_sim {bool : BoolK} (hSB : SimB φ bool) (s : St) (n : Node) (v : Item)
    (h : (executeNestedBoolItem bool s n v).st.sawCancel = false) :
    executeNestedBoolItem bool (lift φ s) n v = liftP φ (executeNestedBoolItem bool s n v) := by
  unfold executeNestedBoolItem at h ⊢
  have e : bool { lift φ s with current := v } n v false = liftP φ (bool { s with current := v } n v false) :=
    hSB { s with current := v } n v false h
  dsimp only
  rw [e]
  rfl

/-! ### loops: two runs of the same loop from related accumulators -/

theorem foldl_rel {α β : Type} (R : β → β → Prop) (step : β → α → β) (xs : List α) (b b0 : β)
    (h0 : R b b0) (hstep : ∀ b b0 x, R b b0 → R (step b x) (step b0 x)) :
    R (xs.foldl step b) (xs.foldl step b0) := by
  induction xs generalizing b b0 with
  | nil => exact h0
  | cons x xs ih => exact ih _ _ (hstep _ _ _ h0)

/-- the loop relation from a step's `mono` and `sim` -/
theorem step_rel {α β : Type} (canc : β → Bool) (lft : β → β) (step : β → α → β)
    (hmono : ∀ b x, canc b = true → canc (step b x) = true)
    (hsim : ∀ b x, canc (step b x) = false → step (lft b) x = lft (step b x)) :
    ∀ b b0 x, (canc b = true ∨ b0 = lft b) → (canc (step b x) = true ∨ step b0 x = lft (step b x)) := by
  intro b b0 x h
  rcases h with h | rfl
  · exact Or.inl (hmono b x h)
  · cases hc : canc (step b x) with
    | true => exact Or.inl rfl
    | false => exact Or.inr (hsim b x hc)

/-! ### arithmetic -/

def liftU (a : UAcc) : UAcc := { a with st := lift φ a.st, ret := a.ret.map (liftR φ) }

theorem unaryStep_sim (c : Ctx) {item : ItemK} (hS : SimI φ item) (cb : Num.UCallback) (nx : Option Node)
    (a : UAcc) (v : Item) (h : (unaryStep c item cb nx a v).canc = false) :
    unaryStep c item cb nx (liftU φ a) v = liftU φ (unaryStep c item cb nx a v) := by
  obtain ⟨st, found, res, ret⟩ := a
  cases ret with
  | some r => rfl
  | none =>
    revert h
    unfold unaryStep
    simp only [liftU, Option.map_none]
    cancel_sim [UAcc.canc, liftU, executeNextItem_sim φ c hS]

/-- the element loop of `execUnaryMathExpr` and its verdict -/
def unaryLoop (c : Ctx) (item : ItemK) (cb : Num.UCallback) (nx : Option Node) (s1 : St) (f : Found)
    (xs : List Item) : Res :=
  let a := xs.foldl (unaryStep c item cb nx) ⟨s1, f, .notFound, none⟩
  match a.ret with
  | some res => res
  | none => ⟨a.st, a.found, a.res, none⟩

theorem unaryLoop_mono (c : Ctx) {item : ItemK} (hM : MonoI item) (cb : Num.UCallback) (nx : Option Node)
    (s1 : St) (f : Found) (xs : List Item) (h : s1.sawCancel = true) :
    (unaryLoop c item cb nx s1 f xs).st.sawCancel = true := by
  unfold unaryLoop
  have hinv : (xs.foldl (unaryStep c item cb nx) ⟨s1, f, .notFound, none⟩).canc = true := by
    refine foldl_inv (fun a : UAcc => a.canc = true) _ _ _ ?_ (fun a v h => unaryStep_mono c hM cb nx a v h)
    simpa [UAcc.canc] using h
  unfold UAcc.canc at hinv
  dsimp only
  split <;> simp_all

theorem unaryLoop_sim (c : Ctx) {item : ItemK} (hM : MonoI item) (hS : SimI φ item) (cb : Num.UCallback)
    (nx : Option Node) (s1 : St) (f : Found) (xs : List Item)
    (h : (unaryLoop c item cb nx s1 f xs).st.sawCancel = false) :
    unaryLoop c item cb nx (lift φ s1) f xs = liftR φ (unaryLoop c item cb nx s1 f xs) := by
  unfold unaryLoop at h ⊢
  dsimp only at h ⊢
  have hR := foldl_rel (fun a a0 : UAcc => a.canc = true ∨ a0 = liftU φ a) (unaryStep c item cb nx) xs
    ⟨s1, f, .notFound, none⟩ ⟨lift φ s1, f, .notFound, none⟩ (Or.inr rfl)
    (step_rel UAcc.canc (liftU φ) _ (unaryStep_mono c hM cb nx) (unaryStep_sim φ c hS cb nx))
  generalize xs.foldl (unaryStep c item cb nx) ⟨s1, f, .notFound, none⟩ = A at *
  generalize xs.foldl (unaryStep c item cb nx) ⟨lift φ s1, f, .notFound, none⟩ = A0 at *
  obtain ⟨st, found, res, ret⟩ := A
  rcases hR with hc | rfl
  · cases ret <;> simp_all [UAcc.canc]
  · cases ret <;> rfl

theorem execUnaryMathExpr_some (c : Ctx) (item : ItemK) (s : St) (x : Node) (nx : Option Node)
    (v : Item) (cb : Num.UCallback) (f : Found) :
    execUnaryMathExpr c item s (some x) nx v cb f =
      if (optUnwrapResult c item s x v true []).status = .failed then
        ⟨(optUnwrapResult c item s x v true []).st, f, .failed, (optUnwrapResult c item s x v true []).err⟩
      else unaryLoop c item cb nx (optUnwrapResult c item s x v true []).st f
        ((optUnwrapResult c item s x v true []).found.getD []) := rfl

theorem execUnaryMathExpr_sim (c : Ctx) {item : ItemK} (hM : MonoI item) (hS : SimI φ item) (s : St)
    (operand nx : Option Node) (v : Item) (cb : Num.UCallback) (f : Found)
    (h : (execUnaryMathExpr c item s operand nx v cb f).st.sawCancel = false) :
    execUnaryMathExpr c item (lift φ s) operand nx v cb f =
      liftR φ (execUnaryMathExpr c item s operand nx v cb f) := by
  cases operand with
  | none => rfl
  | some x =>
    revert h
    rw [execUnaryMathExpr_some, execUnaryMathExpr_some]
    have m2 := not_canc_of (unaryLoop_mono c hM cb nx (optUnwrapResult c item s x v true []).st f
      ((optUnwrapResult c item s x v true []).found.getD []))
    cancel_sim [optUnwrapResult_sim φ c hS, unaryLoop_sim φ c hM hS]

theorem execBinaryMathExpr_sim (c : Ctx) {item : ItemK} (hM : MonoI item) (hS : SimI φ item) (s : St)
    (op : BinOp) (l r nx : Option Node) (v : Item) (f : Found)
    (h : (execBinaryMathExpr c item s op l r nx v f).st.sawCancel = false) :
    execBinaryMathExpr c item (lift φ s) op l r nx v f =
      liftR φ (execBinaryMathExpr c item s op l r nx v f) := by
  revert h
  unfold execBinaryMathExpr
  split
  · rename_i ln rn
    have m2 := not_canc_of (optUnwrapResult_mono c hM (optUnwrapResult c item s ln v true []).st rn v true [])
    have m3 := fun val => not_canc_of (executeNextItem_mono c hM
      (optUnwrapResult c item (optUnwrapResult c item s ln v true []).st rn v true []).st nx val f)
    cancel_sim_pre (have m3' := m3 _ hfin) [optUnwrapResult_sim φ c hS, executeNextItem_sim φ c hS]
  · intro _; rfl

/-! ### item methods -/

theorem execMethodSize_sim (c : Ctx) {item : ItemK} (hS : SimI φ item) (s : St) (nx : Option Node)
    (v : Item) (f : Found) (h : (execMethodSize c item s nx v f).st.sawCancel = false) :
    execMethodSize c item (lift φ s) nx v f = liftR φ (execMethodSize c item s nx v f) := by
  revert h
  unfold execMethodSize
  cancel_sim [executeNextItem_sim φ c hS]

theorem execConvMethod_sim (c : Ctx) {item : ItemK} {any : AnyK} (hS : SimI φ item) (hSA : SimA φ any) (s : St)
    (n : Node) (nx : Option Node) (v : Item) (f : Found) (unwrap : Bool) (conv : Item → Conv)
    (h : (execConvMethod c item any s n nx v f unwrap conv).st.sawCancel = false) :
    execConvMethod c item any (lift φ s) n nx v f unwrap conv =
      liftR φ (execConvMethod c item any s n nx v f unwrap conv) := by
  revert h
  unfold execConvMethod unwrapTargetArray
  cancel_sim [executeNextItem_sim φ c hS]

theorem executeDateTimeMethod_sim (c : Ctx) {item : ItemK} (hS : SimI φ item) (s : St) (op : UnOp)
    (arg nx : Option Node) (v : Item) (f : Found)
    (h : (executeDateTimeMethod c item s op arg nx v f).st.sawCancel = false) :
    executeDateTimeMethod c item (lift φ s) op arg nx v f =
      liftR φ (executeDateTimeMethod c item s op arg nx v f) := by
  revert h
  unfold executeDateTimeMethod
  cancel_sim [executeNextItem_sim φ c hS]

def liftK (a : KVAcc) : KVAcc := { a with st := lift φ a.st, ret := a.ret.map (liftR φ) }

theorem kvEnter_lift (c : Ctx) (s : St) (o : Item) : kvEnter c (lift φ s) o = lift φ (kvEnter c s o) := rfl

theorem kvStep_sim (c : Ctx) {item : ItemK} (hS : SimI φ item) (nx : Option Node) (id : Int)
    (a : KVAcc) (kv : List Char × Item) (h : (kvStep c item nx id a kv).canc = false) :
    kvStep c item nx id (liftK φ a) kv = liftK φ (kvStep c item nx id a kv) := by
  obtain ⟨st, found, res, ret, stop⟩ := a
  cases ret with
  | some r => rfl
  | none =>
    revert h
    unfold kvStep
    simp only [liftK, Option.map_none, kvEnter_lift]
    cases found <;> cancel_sim [KVAcc.canc, liftK, executeNextItem_sim φ c hS]

/-- the member loop of `executeKeyValueMethod` and its verdict -/
def kvLoop (c : Ctx) (item : ItemK) (nx : Option Node) (id : Int) (s : St) (f : Found)
    (kvs : List (List Char × Item)) : Res :=
  let a := kvs.foldl (kvStep c item nx id) ⟨s, f, .ok, none, false⟩
  match a.ret with
  | some r => { r with st := { r.st with baseAddr := s.baseAddr, baseId := s.baseId } }
  | none => ⟨{ a.st with baseAddr := s.baseAddr, baseId := s.baseId }, a.found, a.res, none⟩

theorem kvLoop_mono (c : Ctx) {item : ItemK} (hM : MonoI item) (nx : Option Node) (id : Int)
    (s : St) (f : Found) (kvs : List (List Char × Item)) (h : s.sawCancel = true) :
    (kvLoop c item nx id s f kvs).st.sawCancel = true := by
  unfold kvLoop
  have hinv : (kvs.foldl (kvStep c item nx id) ⟨s, f, .ok, none, false⟩).canc = true := by
    refine foldl_inv (fun a : KVAcc => a.canc = true) _ _ _ ?_ (fun a kv h => kvStep_mono c hM nx id a kv h)
    simpa [KVAcc.canc] using h
  unfold KVAcc.canc at hinv
  dsimp only
  split <;> simp_all

theorem kvLoop_sim (c : Ctx) {item : ItemK} (hM : MonoI item) (hS : SimI φ item) (nx : Option Node) (id : Int)
    (s : St) (f : Found) (kvs : List (List Char × Item))
    (h : (kvLoop c item nx id s f kvs).st.sawCancel = false) :
    kvLoop c item nx id (lift φ s) f kvs = liftR φ (kvLoop c item nx id s f kvs) := by
  unfold kvLoop at h ⊢
  dsimp only at h ⊢
  have hR := foldl_rel (fun a a0 : KVAcc => a.canc = true ∨ a0 = liftK φ a) (kvStep c item nx id) kvs
    ⟨s, f, .ok, none, false⟩ ⟨lift φ s, f, .ok, none, false⟩ (Or.inr rfl)
    (step_rel KVAcc.canc (liftK φ) _ (kvStep_mono c hM nx id) (kvStep_sim φ c hS nx id))
  generalize kvs.foldl (kvStep c item nx id) ⟨s, f, .ok, none, false⟩ = A at *
  generalize kvs.foldl (kvStep c item nx id) ⟨lift φ s, f, .ok, none, false⟩ = A0 at *
  obtain ⟨st, found, res, ret, stop⟩ := A
  rcases hR with hc | rfl
  · cases ret <;> simp_all [KVAcc.canc]
  · cases ret <;> rfl

/-- the object id base of `executeKeyValueMethod` -/
def kvId (c : Ctx) (s : St) (v : Item) : Int :=
  (if c.addrOf v > s.baseAddr then ((c.addrOf v - s.baseAddr : Nat) : Int)
   else ((s.baseAddr - c.addrOf v : Nat) : Int)) + s.baseId * 10000000000

theorem kvId_lift (c : Ctx) (s : St) (v : Item) : kvId c (lift φ s) v = kvId c s v := rfl

theorem executeKeyValueMethod_obj (c : Ctx) (item : ItemK) (any : AnyK) (s : St) (n : Node) (nx : Option Node)
    (kvs : List (List Char × Item)) (f : Found) (unwrap : Bool) :
    executeKeyValueMethod c item any s n nx (.obj kvs) f unwrap =
      if kvs.isEmpty then ⟨s, f, .notFound, none⟩
      else if nx.isNone && f.isNone then ⟨s, f, .ok, none⟩
      else kvLoop c item nx (kvId c s (.obj kvs)) s f kvs := rfl

theorem executeKeyValueMethod_sim (c : Ctx) {item : ItemK} {any : AnyK} (hM : MonoI item) (hS : SimI φ item)
    (hSA : SimA φ any) (s : St) (n : Node) (nx : Option Node) (v : Item) (f : Found) (unwrap : Bool)
    (h : (executeKeyValueMethod c item any s n nx v f unwrap).st.sawCancel = false) :
    executeKeyValueMethod c item any (lift φ s) n nx v f unwrap =
      liftR φ (executeKeyValueMethod c item any s n nx v f unwrap) := by
  cases v with
  | obj kvs =>
    revert h
    rw [executeKeyValueMethod_obj, executeKeyValueMethod_obj]
    rw [kvId_lift]
    cancel_sim [kvLoop_sim φ c hM hS]
  | _ =>
    revert h
    unfold executeKeyValueMethod unwrapTargetArray
    cancel_sim []

theorem execMethodNode_sim (c : Ctx) {item : ItemK} {any : AnyK} (hM : MonoI item) (hS : SimI φ item)
    (hSA : SimA φ any) (s : St) (n : Node) (m : Method) (nx : Option Node) (v : Item) (f : Found) (unwrap : Bool)
    (h : (execMethodNode c item any s n m nx v f unwrap).st.sawCancel = false) :
    execMethodNode c item any (lift φ s) n m nx v f unwrap =
      liftR φ (execMethodNode c item any s n m nx v f unwrap) := by
  revert h
  unfold execMethodNode
  cases m <;> simp only
  all_goals first
    | exact execConvMethod_sim φ c hS hSA _ _ _ _ _ _ _
    | exact executeNextItem_sim φ c hS _ _ _ _
    | exact execMethodSize_sim φ c hS _ _ _ _
    | exact executeKeyValueMethod_sim φ c hM hS hSA _ _ _ _ _ _

/-! ### `.**` and the generic element loop -/

def liftA (a : AAcc) : AAcc := { a with st := lift φ a.st, ret := a.ret.map (liftR φ) }

theorem anyVisit_sim {item : ItemK} (hS : SimI φ item) (node : Option Node) (level first last : Nat)
    (ignore unwrapNext : Bool) (a : AAcc) (v : Item) (hnone : a.ret = none)
    (h : (anyVisit item node level first last ignore unwrapNext a v).canc = false) :
    anyVisit item node level first last ignore unwrapNext (liftA φ a) v =
      liftA φ (anyVisit item node level first last ignore unwrapNext a v) := by
  obtain ⟨st, found, res, err, ret⟩ := a
  simp only at hnone
  subst hnone
  revert h
  unfold anyVisit
  have hi : ({ lift φ st with ignoreSE := true } : St) = lift φ { st with ignoreSE := true } := rfl
  simp only [liftA, Option.map_none, hi]
  cases ignore <;> cases found <;> simp only [Bool.false_eq_true, ↓reduceIte] <;> cancel_sim [AAcc.canc, liftA]

theorem anyDescend_sim {any : AnyK} (hSA : SimA φ any) (node : Option Node) (level first last : Nat)
    (ignore unwrapNext : Bool) (a : AAcc) (v : Item) (hnone : a.ret = none)
    (h : (anyDescend any node level first last ignore unwrapNext a v).canc = false) :
    anyDescend any node level first last ignore unwrapNext (liftA φ a) v =
      liftA φ (anyDescend any node level first last ignore unwrapNext a v) := by
  obtain ⟨st, found, res, err, ret⟩ := a
  simp only at hnone
  subst hnone
  revert h
  unfold anyDescend
  simp only [liftA, Option.map_none]
  cases found <;> cancel_sim [AAcc.canc, liftA]

theorem anyStep_sim {item : ItemK} {any : AnyK} (hS : SimI φ item) (hMA : MonoA any) (hSA : SimA φ any)
    (node : Option Node) (level first last : Nat) (ignore unwrapNext : Bool) (a : AAcc) (v : Item)
    (h : (anyStep item any node level first last ignore unwrapNext a v).canc = false) :
    anyStep item any node level first last ignore unwrapNext (liftA φ a) v =
      liftA φ (anyStep item any node level first last ignore unwrapNext a v) := by
  unfold anyStep at h ⊢
  cases hr : a.ret with
  | some r =>
    have hl : (liftA φ a).ret = some (liftR φ r) := by simp [liftA, hr]
    simp only [hl]
  | none =>
    have hl : (liftA φ a).ret = none := by simp [liftA, hr]
    simp only [hr, hl] at h ⊢
    have hv := anyVisit_sim φ hS node level first last ignore unwrapNext a v hr
    have hmd := anyDescend_mono hMA node level first last ignore unwrapNext
      (anyVisit item node level first last ignore unwrapNext a v) v
    have hsd := anyDescend_sim φ hSA node level first last ignore unwrapNext
      (anyVisit item node level first last ignore unwrapNext a v) v
    generalize anyVisit item node level first last ignore unwrapNext a v = a1 at *
    cases hr1 : a1.ret with
    | some r1 =>
      simp only [hr1] at h
      rw [hv h]
      have hl1 : (liftA φ a1).ret = some (liftR φ r1) := by simp [liftA, hr1]
      simp only [hl1]
    | none =>
      simp only [hr1] at h
      have hc1 : a1.canc = false := not_canc_of (hmd hr1) h
      rw [hv hc1]
      have hl1 : (liftA φ a1).ret = none := by simp [liftA, hr1]
      simp only [hl1]
      exact hsd hr1 h

/-- the element loop of `executeAnyItem` and its verdict -/
def anyLoop (item : ItemK) (any : AnyK) (node : Option Node) (level first last : Nat)
    (ignore unwrapNext : Bool) (s : St) (f : Found) (vs : List Item) : Res :=
  let size := (f.getD []).length
  let a := vs.foldl (anyStep item any node level first last ignore unwrapNext) ⟨s, f, .notFound, none, none⟩
  let restore (st : St) : St := { st with ignoreSE := s.ignoreSE }
  match a.ret with
  | some r => { r with st := restore r.st }
  | none =>
    let res :=
      if a.found.isSome && a.res ≠ .failed && a.err.isNone && (a.found.getD []).length > size then .ok
      else a.res
    ⟨restore a.st, a.found, res, a.err⟩

theorem executeAnyItem_eq (item : ItemK) (any : AnyK) (s : St) (node : Option Node) (vs : List Item)
    (f : Found) (level first last : Nat) (ignore unwrapNext : Bool) :
    executeAnyItem item any s node vs f level first last ignore unwrapNext =
      if level > last then ⟨s, f, .notFound, none⟩
      else anyLoop item any node level first last ignore unwrapNext s f vs := rfl

theorem anyLoop_mono {item : ItemK} {any : AnyK} (hM : MonoI item) (hMA : MonoA any) (node : Option Node)
    (level first last : Nat) (ignore unwrapNext : Bool) (s : St) (f : Found) (vs : List Item)
    (h : s.sawCancel = true) :
    (anyLoop item any node level first last ignore unwrapNext s f vs).st.sawCancel = true := by
  unfold anyLoop
  have hinv : (vs.foldl (anyStep item any node level first last ignore unwrapNext)
      ⟨s, f, .notFound, none, none⟩).canc = true := by
    refine foldl_inv (fun a : AAcc => a.canc = true) _ _ _ ?_
      (fun a v h => anyStep_mono hM hMA node level first last ignore unwrapNext a v h)
    simpa [AAcc.canc] using h
  unfold AAcc.canc at hinv
  dsimp only
  split <;> simp_all

theorem anyLoop_sim {item : ItemK} {any : AnyK} (hM : MonoI item) (hS : SimI φ item) (hMA : MonoA any)
    (hSA : SimA φ any) (node : Option Node) (level first last : Nat) (ignore unwrapNext : Bool)
    (s : St) (f : Found) (vs : List Item)
    (h : (anyLoop item any node level first last ignore unwrapNext s f vs).st.sawCancel = false) :
    anyLoop item any node level first last ignore unwrapNext (lift φ s) f vs =
      liftR φ (anyLoop item any node level first last ignore unwrapNext s f vs) := by
  unfold anyLoop at h ⊢
  dsimp only at h ⊢
  have hR := foldl_rel (fun a a0 : AAcc => a.canc = true ∨ a0 = liftA φ a)
    (anyStep item any node level first last ignore unwrapNext) vs
    ⟨s, f, .notFound, none, none⟩ ⟨lift φ s, f, .notFound, none, none⟩ (Or.inr rfl)
    (step_rel AAcc.canc (liftA φ) _ (anyStep_mono hM hMA node level first last ignore unwrapNext)
      (anyStep_sim φ hS hMA hSA node level first last ignore unwrapNext))
  generalize vs.foldl (anyStep item any node level first last ignore unwrapNext) ⟨s, f, .notFound, none, none⟩ = A at *
  generalize vs.foldl (anyStep item any node level first last ignore unwrapNext)
    ⟨lift φ s, f, .notFound, none, none⟩ = A0 at *
  obtain ⟨st, found, res, err, ret⟩ := A
  rcases hR with hc | rfl
  · cases ret <;> simp_all [AAcc.canc]
  · cases ret <;> rfl

theorem executeAnyItem_sim {item : ItemK} {any : AnyK} (hM : MonoI item) (hS : SimI φ item) (hMA : MonoA any)
    (hSA : SimA φ any) (s : St) (node : Option Node) (vs : List Item) (f : Found) (level first last : Nat)
    (ignore unwrapNext : Bool)
    (h : (executeAnyItem item any s node vs f level first last ignore unwrapNext).st.sawCancel = false) :
    executeAnyItem item any (lift φ s) node vs f level first last ignore unwrapNext =
      liftR φ (executeAnyItem item any s node vs f level first last ignore unwrapNext) := by
  revert h
  rw [executeAnyItem_eq, executeAnyItem_eq]
  split
  · intro _; rfl
  · exact anyLoop_sim φ hM hS hMA hSA _ _ _ _ _ _ _ _ _

theorem anyInto_sim (c : Ctx) {any : AnyK} (hSA : SimA φ any) (s : St) (first last : Nat)
    (nx : Option Node) (v : Item) (f : Found) (h : (anyInto c any s first last nx v f).st.sawCancel = false) :
    anyInto c any (lift φ s) first last nx v f = liftR φ (anyInto c any s first last nx v f) := by
  revert h
  unfold anyInto
  cancel_sim []

theorem execAnyNode_sim (c : Ctx) {item : ItemK} {any : AnyK} (hS : SimI φ item) (hMA : MonoA any)
    (hSA : SimA φ any) (s : St) (first last : Nat) (nx : Option Node) (v : Item) (f : Found)
    (h : (execAnyNode c item any s first last nx v f).st.sawCancel = false) :
    execAnyNode c item any (lift φ s) first last nx v f = liftR φ (execAnyNode c item any s first last nx v f) := by
  revert h
  unfold execAnyNode
  have hi : ({ lift φ s with ignoreSE := true } : St) = lift φ { s with ignoreSE := true } := rfl
  rw [hi]
  clear hi
  have m2 := not_canc_of (anyInto_mono c hMA (executeNextItem c item { s with ignoreSE := true } nx v f).st
    first last nx v (executeNextItem c item { s with ignoreSE := true } nx v f).found)
  cases f <;> cancel_sim [executeNextItem_sim φ c hS, anyInto_sim φ c hSA]

/-! ### subscripts -/

theorem getArrayIndex_sim (c : Ctx) {item : ItemK} (hS : SimI φ item) (s : St) (n : Node) (v : Item)
    (h : (getArrayIndex c item s n v).1.sawCancel = false) :
    getArrayIndex c item (lift φ s) n v =
      (lift φ (getArrayIndex c item s n v).1, (getArrayIndex c item s n v).2) := by
  revert h
  unfold getArrayIndex executeItem
  cancel_sim []

theorem execSubscript_sim (c : Ctx) {item : ItemK} (hM : MonoI item) (hS : SimI φ item) (s : St) (sub : Node)
    (v : Item) (size : Int) (h : (execSubscript c item s sub v size).1.sawCancel = false) :
    execSubscript c item (lift φ s) sub v size =
      (lift φ (execSubscript c item s sub v size).1, (execSubscript c item s sub v size).2) := by
  unfold execSubscript at h ⊢
  split
  · rename_i l r _
    have e1 := getArrayIndex_sim φ c hS s l v
    simp only at h ⊢
    cases hp : getArrayIndex c item s l v with
    | mk s1 r1 =>
      rw [hp] at e1 h
      cases r1 with
      | error e =>
        simp only at e1 h ⊢
        rw [e1 h]
      | ok from_ =>
        cases r with
        | none =>
          simp only at e1 h ⊢
          have hs1 : s1.sawCancel = false := by revert h; split <;> exact id
          rw [e1 hs1]
          simp only [lift_ignoreSE]
          split <;> simp_all
        | some rn =>
          have e2 := getArrayIndex_sim φ c hS s1 rn v
          have m2 := not_canc_of (getArrayIndex_mono c hM s1 rn v)
          simp only at e1 h ⊢
          cases hp2 : getArrayIndex c item s1 rn v with
          | mk s2 r2 =>
            rw [hp2] at e2 m2 h
            simp only at e2 m2 h
            have hs2 : s2.sawCancel = false := by
              revert h; cases r2 <;> simp only <;> (try split) <;> exact id
            rw [e1 (m2 hs2)]
            simp only
            rw [e2 hs2]
            cases r2 with
            | error e => rfl
            | ok to_ =>
              simp only [lift_ignoreSE]
              split <;> simp_all
  · rfl
  · rfl

def liftI (a : IAcc) : IAcc := { a with st := lift φ a.st, ret := a.ret.map (liftR φ) }

theorem indexElemStep_sim (c : Ctx) {item : ItemK} (hS : SimI φ item) (nx : Option Node)
    (a : IAcc) (v : Item) (h : (indexElemStep c item nx a v).canc = false) :
    indexElemStep c item nx (liftI φ a) v = liftI φ (indexElemStep c item nx a v) := by
  obtain ⟨st, found, res, err, ret⟩ := a
  cases ret with
  | some r => rfl
  | none =>
    revert h
    unfold indexElemStep
    simp only [liftI, Option.map_none]
    cases found <;> cancel_sim [IAcc.canc, liftI, executeNextItem_sim φ c hS]

theorem indexElemLoop_mono (c : Ctx) {item : ItemK} (hM : MonoI item) (nx : Option Node) (ys : List Item)
    (a : IAcc) (h : a.canc = true) : (ys.foldl (indexElemStep c item nx) a).canc = true :=
  foldl_inv (fun a : IAcc => a.canc = true) _ _ _ h (fun a' v' h' => indexElemStep_mono c hM nx a' v' h')

theorem indexElemLoop_sim (c : Ctx) {item : ItemK} (hM : MonoI item) (hS : SimI φ item) (nx : Option Node)
    (ys : List Item) (a : IAcc) (h : (ys.foldl (indexElemStep c item nx) a).canc = false) :
    ys.foldl (indexElemStep c item nx) (liftI φ a) = liftI φ (ys.foldl (indexElemStep c item nx) a) := by
  have hR := foldl_rel (fun a a0 : IAcc => a.canc = true ∨ a0 = liftI φ a) (indexElemStep c item nx) ys
    a (liftI φ a) (Or.inr rfl)
    (step_rel IAcc.canc (liftI φ) _ (indexElemStep_mono c hM nx) (indexElemStep_sim φ c hS nx))
  rcases hR with hc | he
  · rw [h] at hc; cases hc
  · exact he

theorem indexSubStep_sim (c : Ctx) {item : ItemK} (hM : MonoI item) (hS : SimI φ item) (nx : Option Node)
    (xs : List Item) (v : Item) (a : IAcc) (sub : Node)
    (h : (indexSubStep c item nx xs v a sub).canc = false) :
    indexSubStep c item nx xs v (liftI φ a) sub = liftI φ (indexSubStep c item nx xs v a sub) := by
  obtain ⟨st, found, res, err, ret⟩ := a
  cases ret with
  | some r => rfl
  | none =>
    unfold indexSubStep at h ⊢
    simp only [liftI, Option.map_none, Option.isSome_none, Bool.false_eq_true, ↓reduceIte] at h ⊢
    have e := execSubscript_sim φ c hM hS st sub v xs.length
    cases hp : execSubscript c item st sub v xs.length with
    | mk s1 r1 =>
      rw [hp] at e h
      simp only at e h
      cases r1 with
      | error e' =>
        simp only at h ⊢
        have hs1 : s1.sawCancel = false := by simpa [IAcc.canc, returnError_st] using h
        rw [e hs1]
        simp only [returnError_lift, Option.map_some]
      | ok ft =>
        obtain ⟨from_, to_⟩ := ft
        simp only at h ⊢
        have hs1 : s1.sawCancel = false :=
          not_canc_of (indexElemLoop_mono c hM nx (sliceRange xs from_ to_) ⟨s1, found, res, err, none⟩) h
        rw [e hs1]
        exact indexElemLoop_sim φ c hM hS nx _ ⟨s1, found, res, err, none⟩ h

/-- the subscript loop of `execArrayIndex` and its verdict -/
def indexLoop (c : Ctx) (item : ItemK) (nx : Option Node) (xs : List Item) (v : Item) (s : St)
    (subs : List Node) (f : Found) : Res :=
  let s0 := { s with innermost := xs.length }
  let a := subs.foldl (indexSubStep c item nx xs v) ⟨s0, f, .notFound, none, none⟩
  let restore (st : St) : St := { st with innermost := s.innermost }
  match a.ret with
  | some r => { r with st := restore r.st }
  | none => ⟨restore a.st, a.found, a.res, none⟩

theorem indexLoop_sim (c : Ctx) {item : ItemK} (hM : MonoI item) (hS : SimI φ item) (nx : Option Node)
    (xs : List Item) (v : Item) (s : St) (subs : List Node) (f : Found)
    (h : (indexLoop c item nx xs v s subs f).st.sawCancel = false) :
    indexLoop c item nx xs v (lift φ s) subs f = liftR φ (indexLoop c item nx xs v s subs f) := by
  unfold indexLoop at h ⊢
  dsimp only at h ⊢
  have hR := foldl_rel (fun a a0 : IAcc => a.canc = true ∨ a0 = liftI φ a) (indexSubStep c item nx xs v) subs
    ⟨{ s with innermost := xs.length }, f, .notFound, none, none⟩
    ⟨{ lift φ s with innermost := xs.length }, f, .notFound, none, none⟩ (Or.inr rfl)
    (step_rel IAcc.canc (liftI φ) _ (indexSubStep_mono c hM nx xs v) (indexSubStep_sim φ c hM hS nx xs v))
  generalize subs.foldl (indexSubStep c item nx xs v)
    ⟨{ s with innermost := xs.length }, f, .notFound, none, none⟩ = A at *
  generalize subs.foldl (indexSubStep c item nx xs v)
    ⟨{ lift φ s with innermost := xs.length }, f, .notFound, none, none⟩ = A0 at *
  obtain ⟨st, found, res, err, ret⟩ := A
  rcases hR with hc | rfl
  · cases ret <;> simp_all [IAcc.canc]
  · cases ret <;> rfl

theorem execArrayIndex_sim (c : Ctx) {item : ItemK} (hM : MonoI item) (hS : SimI φ item) (s : St)
    (subs : List Node) (nx : Option Node) (v : Item) (f : Found)
    (h : (execArrayIndex c item s subs nx v f).st.sawCancel = false) :
    execArrayIndex c item (lift φ s) subs nx v f = liftR φ (execArrayIndex c item s subs nx v f) := by
  revert h
  unfold execArrayIndex
  split
  · intro _; exact structural_lift φ s f
  · rename_i xs _
    exact indexLoop_sim φ c hM hS nx xs v s subs f

/-! ### dispatch and the induction over fuel -/

theorem boolNode_sim (c : Ctx) {item : ItemK} {bool : BoolK} (hM : MonoI item) (hS : SimI φ item)
    (hSB : SimB φ bool) (s : St) (n : Node) (nx : Option Node) (v : Item) (f : Found)
    (h : (appendBoolResult c item nx f (bool s n v true)).st.sawCancel = false) :
    appendBoolResult c item nx f (bool (lift φ s) n v true) =
      liftR φ (appendBoolResult c item nx f (bool s n v true)) := by
  have hb : (bool s n v true).st.sawCancel = false :=
    not_canc_of (appendBoolResult_mono c hM nx f (bool s n v true)) h
  rw [hSB s n v true hb]
  exact appendBoolResult_sim φ c hS nx f _ h

theorem execBinaryNode_sim (c : Ctx) {item : ItemK} {bool : BoolK} {any : AnyK} (hM : MonoI item)
    (hS : SimI φ item) (hSB : SimB φ bool) (hSA : SimA φ any) (s : St) (n : Node) (op : BinOp)
    (l r nx : Option Node) (v : Item) (f : Found) (unwrap : Bool)
    (h : (execBinaryNode c item bool any s n op l r nx v f unwrap).st.sawCancel = false) :
    execBinaryNode c item bool any (lift φ s) n op l r nx v f unwrap =
      liftR φ (execBinaryNode c item bool any s n op l r nx v f unwrap) := by
  revert h
  unfold execBinaryNode
  split
  · exact boolNode_sim φ c hM hS hSB _ _ _ _ _
  · split
    · exact execBinaryMathExpr_sim φ c hM hS _ _ _ _ _ _ _
    · split
      · exact execConvMethod_sim φ c hS hSA _ _ _ _ _ _ _
      · intro _; rfl

theorem execUnaryNode_sim (c : Ctx) {item : ItemK} {bool : BoolK} {any : AnyK} (hM : MonoI item)
    (hS : SimI φ item) (hSB : SimB φ bool) (hSA : SimA φ any) (s : St) (n : Node) (op : UnOp)
    (x nx : Option Node) (v : Item) (f : Found) (unwrap : Bool)
    (h : (execUnaryNode c item bool any s n op x nx v f unwrap).st.sawCancel = false) :
    execUnaryNode c item bool any (lift φ s) n op x nx v f unwrap =
      liftR φ (execUnaryNode c item bool any s n op x nx v f unwrap) := by
  have hbool := boolNode_sim φ c hM hS hSB s n nx v f
  revert h
  unfold execUnaryNode
  split
  · exact hbool
  · exact hbool
  · exact hbool
  · split
    · exact hSA _ _ _ _ _ _ _ _ _
    · cases x with
      | none => intro _; rfl
      | some cond =>
        have m2 := not_canc_of (executeNextItem_mono c hM (executeNestedBoolItem bool s cond v).st nx v f)
        cancel_sim [executeNestedBoolItem_sim φ hSB, executeNextItem_sim φ c hS]
  · exact execUnaryMathExpr_sim φ c hM hS _ _ _ _ _ _
  · exact execUnaryMathExpr_sim φ c hM hS _ _ _ _ _ _
  · split
    · exact hSA _ _ _ _ _ _ _ _ _
    · exact executeDateTimeMethod_sim φ c hS _ _ _ _ _ _

theorem dispatch_sim (c : Ctx) {item : ItemK} {bool : BoolK} {any : AnyK} (hM : MonoI item)
    (hS : SimI φ item) (hSB : SimB φ bool) (hMA : MonoA any) (hSA : SimA φ any) (s : St) (n : Node) (v : Item)
    (f : Found) (unwrap : Bool) (h : (dispatch c item bool any s n v f unwrap).st.sawCancel = false) :
    dispatch c item bool any (lift φ s) n v f unwrap = liftR φ (dispatch c item bool any s n v f unwrap) := by
  revert h
  unfold dispatch
  split
  · exact execConstNode_sim φ c hS hSA _ _ _ _ _ _ _
  · exact execLiteral_sim φ c hS _ _ _ _
  · exact execLiteral_sim φ c hS _ _ _ _
  · exact execLiteral_sim φ c hS _ _ _ _
  · exact execVariable_sim φ c hS _ _ _ _
  · exact execKeyNode_sim φ c hS hSA _ _ _ _ _ _ _
  · exact execBinaryNode_sim φ c hM hS hSB hSA _ _ _ _ _ _ _ _ _
  · exact execUnaryNode_sim φ c hM hS hSB hSA _ _ _ _ _ _ _ _
  · exact boolNode_sim φ c hM hS hSB _ _ _ _ _
  · exact execMethodNode_sim φ c hM hS hSA _ _ _ _ _ _ _
  · exact execAnyNode_sim φ c hS hMA hSA _ _ _ _ _ _
  · exact execArrayIndex_sim φ c hM hS _ _ _ _ _

/-- `φ` commutes with a successful context poll -/
def PollOK : Prop := ∀ s s', poll s = some s' → poll (lift φ s) = some (lift φ s')

/-- **the simulation**: a run that ends with the cancellation flag clear is reproduced, step by step,
    by the run from the lifted state; the two results differ in the budget only -/
theorem sim_all (hφ : PollOK φ) (c : Ctx) : ∀ fuel : Nat,
    SimI φ (xItem c fuel) ∧ SimB φ (xBool c fuel) ∧ SimA φ (xAny c fuel) := by
  intro fuel
  induction fuel with
  | zero =>
    refine ⟨fun s n v f u _ => ?_, fun s n v b _ => ?_, fun s n vs f l a b i u _ => ?_⟩
    · simp only [xItem]; rfl
    · simp only [xBool]; rfl
    · simp only [xAny]; rfl
  | succ fuel ih =>
    obtain ⟨hS, hSB, hSA⟩ := ih
    obtain ⟨hM, hMB, hMA⟩ := mono_all c fuel
    refine ⟨fun s n v f u h => ?_, fun s n v b h => ?_, fun s n vs f l a b i u h => ?_⟩
    · simp only [xItem] at h ⊢
      cases hp : poll s with
      | none => simp [hp] at h
      | some s' =>
        rw [hφ s s' hp]
        simp only [hp] at h ⊢
        exact dispatch_sim φ c hM hS hSB hMA hSA _ _ _ _ _ h
    · simp only [xBool] at h ⊢; exact executeBoolItem_sim φ c hM hS hMB hSB _ _ _ _ h
    · simp only [xAny] at h ⊢; exact executeAnyItem_sim φ hM hS hMA hSA _ _ _ _ _ _ _ _ _ h

end sim

/-! ### the two instances -/

/-- the same state under a context that is never done -/
def unb (s : St) : St := { s with budget := none }

theorem lift_none (s : St) : lift (fun _ => none) s = unb s := rfl

theorem pollOK_none : PollOK (fun _ => none) := by
  intro s s' h
  unfold poll at h
  split at h <;> simp at h <;> subst h <;> simp [poll, lift]

theorem pollOK_add (j : Nat) : PollOK (Option.map (· + j)) := by
  intro s s' h
  unfold poll at h
  split at h
  · rename_i hb; simp at h; subst h; simp [poll, lift, hb]
  · simp at h
  · rename_i b hb; simp at h; subst h
    have e : b + 1 + j = (b + j) + 1 := by omega
    simp [poll, lift, hb, e]

/-! ### the statements for the dispatchers -/

/-- all fields of the result agree except the budget of the final state -/
def SameUpToBudget (r r0 : Res) : Prop :=
  r.found = r0.found ∧ r.status = r0.status ∧ r.err = r0.err ∧ unb r.st = unb r0.st

def SameUpToBudgetP (p p0 : PRes) : Prop :=
  p.out = p0.out ∧ p.err = p0.err ∧ unb p.st = unb p0.st

theorem SameUpToBudget.of_liftR {φ : Option Nat → Option Nat} {r r0 : Res} (h : r0 = liftR φ r) :
    SameUpToBudget r r0 := by subst h; exact ⟨rfl, rfl, rfl, rfl⟩

theorem SameUpToBudgetP.of_liftP {φ : Option Nat → Option Nat} {p p0 : PRes} (h : p0 = liftP φ p) :
    SameUpToBudgetP p p0 := by subst h; exact ⟨rfl, rfl, rfl⟩

/-- **uncancelled ⇒ same as the run that cannot be cancelled** (equational form) -/
theorem xItem_unb (c : Ctx) (fuel : Nat) (s : St) (n : Node) (v : Item) (f : Found) (u : Bool)
    (h : (xItem c fuel s n v f u).st.sawCancel = false) :
    xItem c fuel (unb s) n v f u = { xItem c fuel s n v f u with st := unb (xItem c fuel s n v f u).st } :=
  (sim_all _ pollOK_none c fuel).1 s n v f u h

theorem xBool_unb (c : Ctx) (fuel : Nat) (s : St) (n : Node) (v : Item) (b : Bool)
    (h : (xBool c fuel s n v b).st.sawCancel = false) :
    xBool c fuel (unb s) n v b = { xBool c fuel s n v b with st := unb (xBool c fuel s n v b).st } :=
  (sim_all _ pollOK_none c fuel).2.1 s n v b h

theorem xAny_unb (c : Ctx) (fuel : Nat) (s : St) (node : Option Node) (vs : List Item) (f : Found)
    (l a b : Nat) (i u : Bool) (h : (xAny c fuel s node vs f l a b i u).st.sawCancel = false) :
    xAny c fuel (unb s) node vs f l a b i u =
      { xAny c fuel s node vs f l a b i u with st := unb (xAny c fuel s node vs f l a b i u).st } :=
  (sim_all _ pollOK_none c fuel).2.2 s node vs f l a b i u h

/-- the target statement: a step that ends uncancelled agrees, up to the budget, with the same step
    under a context that is never done -/
theorem xItem_cancel_sim (c : Ctx) (fuel : Nat) (s : St) (n : Node) (v : Item) (f : Found) (u : Bool)
    (h : (xItem c fuel s n v f u).st.sawCancel = false) :
    SameUpToBudget (xItem c fuel s n v f u) (xItem c fuel (unb s) n v f u) :=
  SameUpToBudget.of_liftR (φ := fun _ => none) (xItem_unb c fuel s n v f u h)

theorem xBool_cancel_sim (c : Ctx) (fuel : Nat) (s : St) (n : Node) (v : Item) (b : Bool)
    (h : (xBool c fuel s n v b).st.sawCancel = false) :
    SameUpToBudgetP (xBool c fuel s n v b) (xBool c fuel (unb s) n v b) :=
  SameUpToBudgetP.of_liftP (φ := fun _ => none) (xBool_unb c fuel s n v b h)

theorem xAny_cancel_sim (c : Ctx) (fuel : Nat) (s : St) (node : Option Node) (vs : List Item) (f : Found)
    (l a b : Nat) (i u : Bool) (h : (xAny c fuel s node vs f l a b i u).st.sawCancel = false) :
    SameUpToBudget (xAny c fuel s node vs f l a b i u) (xAny c fuel (unb s) node vs f l a b i u) :=
  SameUpToBudget.of_liftR (φ := fun _ => none) (xAny_unb c fuel s node vs f l a b i u h)

/-- the relational form: two start states that agree up to the budget, the second one never done -/
theorem xItem_cancel_sim_rel (c : Ctx) (fuel : Nat) (s s0 : St) (n : Node) (v : Item) (f : Found) (u : Bool)
    (hs : unb s = unb s0) (h0 : s0.budget = none) (h : (xItem c fuel s n v f u).st.sawCancel = false) :
    SameUpToBudget (xItem c fuel s n v f u) (xItem c fuel s0 n v f u) := by
  have : s0 = unb s := by
    rw [hs]; cases s0; simp only [unb] at *; subst h0; rfl
  subst this
  exact xItem_cancel_sim c fuel s n v f u h

/-- the flag is sticky: a step started with the flag set ends with the flag set -/
theorem xItem_sticky (c : Ctx) (fuel : Nat) (s : St) (n : Node) (v : Item) (f : Found) (u : Bool)
    (h : s.sawCancel = true) : (xItem c fuel s n v f u).st.sawCancel = true :=
  (mono_all c fuel).1 s n v f u h

/-- `j` more polls before the context is done -/
def addBudget (j : Nat) (s : St) : St := { s with budget := s.budget.map (· + j) }

/-- **budget monotonicity**: an uncancelled step is reproduced under every larger budget -/
theorem xItem_budget_mono (j : Nat) (c : Ctx) (fuel : Nat) (s : St) (n : Node) (v : Item) (f : Found) (u : Bool)
    (h : (xItem c fuel s n v f u).st.sawCancel = false) :
    xItem c fuel (addBudget j s) n v f u =
      { xItem c fuel s n v f u with st := addBudget j (xItem c fuel s n v f u).st } :=
  (sim_all _ (pollOK_add j) c fuel).1 s n v f u h

theorem xBool_budget_mono (j : Nat) (c : Ctx) (fuel : Nat) (s : St) (n : Node) (v : Item) (b : Bool)
    (h : (xBool c fuel s n v b).st.sawCancel = false) :
    xBool c fuel (addBudget j s) n v b =
      { xBool c fuel s n v b with st := addBudget j (xBool c fuel s n v b).st } :=
  (sim_all _ (pollOK_add j) c fuel).2.1 s n v b h

end Cancel
end Exec

/-! ## the entry points -/

namespace Api
namespace Cancel
open Exec Exec.Cancel

theorem query_sim (φ : Option Nat → Option Nat) (hφ : PollOK φ) (c : Ctx) (fuel : Nat) (s : St) (n : Node)
    (v : Item) (f : Found) (h : (query c fuel s n v f).st.sawCancel = false) :
    query c fuel (lift φ s) n v f = liftR φ (query c fuel s n v f) := by
  have hS := (sim_all φ hφ c fuel).1
  revert h
  unfold query executeItem
  cancel_sim []

/-- the options with the budget rewritten -/
def liftOpts (φ : Option Nat → Option Nat) (o : Opts) : Opts := { o with budget := φ o.budget }

theorem execute_sim (φ : Option Nat → Option Nat) (hφ : PollOK φ) (fuel : Nat) (a : AST) (doc : Item) (o : Opts)
    (h : (execute fuel a doc o).st.sawCancel = false) :
    execute fuel a doc (liftOpts φ o) = liftR φ (execute fuel a doc o) :=
  query_sim φ hφ (mkCtx a doc o) fuel (initSt a doc o) a.root doc (some []) h

theorem existsRun_sim (φ : Option Nat → Option Nat) (hφ : PollOK φ) (fuel : Nat) (a : AST) (doc : Item) (o : Opts)
    (h : (existsRun fuel a doc o).st.sawCancel = false) :
    existsRun fuel a doc (liftOpts φ o) = liftR φ (existsRun fuel a doc o) :=
  query_sim φ hφ (mkCtx a doc o) fuel (initSt a doc o) a.root doc none h

theorem runRes_sim (φ : Option Nat → Option Nat) (hφ : PollOK φ) (e : Entry) (fuel : Nat) (a : AST) (doc : Item)
    (o : Opts) (h : (runRes e fuel a doc o).st.sawCancel = false) :
    runRes e fuel a doc (liftOpts φ o) = liftR φ (runRes e fuel a doc o) := by
  revert h
  unfold runRes
  cases e <;> simp only
  · exact execute_sim φ hφ _ _ _ _
  · exact execute_sim φ hφ _ _ _ _
  · exact existsRun_sim φ hφ _ _ _ _
  · exact execute_sim φ hφ _ _ _ _
  · split
    · exact execute_sim φ hφ _ _ _ _
    · exact existsRun_sim φ hφ _ _ _ _

theorem queryWith_sim (φ : Option Nat → Option Nat) (hφ : PollOK φ) (fuel : Nat) (a : AST) (doc : Item) (o : Opts)
    (h : (execute fuel a doc o).st.sawCancel = false) :
    queryWith fuel a doc (liftOpts φ o) = queryWith fuel a doc o := by
  unfold queryWith
  rw [execute_sim φ hφ fuel a doc o h]
  rfl

theorem firstWith_sim (φ : Option Nat → Option Nat) (hφ : PollOK φ) (fuel : Nat) (a : AST) (doc : Item) (o : Opts)
    (h : (execute fuel a doc o).st.sawCancel = false) :
    firstWith fuel a doc (liftOpts φ o) = firstWith fuel a doc o := by
  unfold firstWith
  rw [execute_sim φ hφ fuel a doc o h]
  rfl

theorem existsWith_sim (φ : Option Nat → Option Nat) (hφ : PollOK φ) (fuel : Nat) (a : AST) (doc : Item) (o : Opts)
    (h : (existsRun fuel a doc o).st.sawCancel = false) :
    existsWith fuel a doc (liftOpts φ o) = existsWith fuel a doc o := by
  unfold existsWith
  rw [existsRun_sim φ hφ fuel a doc o h]
  rfl

theorem matchWith_sim (φ : Option Nat → Option Nat) (hφ : PollOK φ) (fuel : Nat) (a : AST) (doc : Item) (o : Opts)
    (h : (execute fuel a doc o).st.sawCancel = false) :
    matchWith fuel a doc (liftOpts φ o) = matchWith fuel a doc o := by
  unfold matchWith
  rw [execute_sim φ hφ fuel a doc o h]
  rfl

/-- **the entry points**: a call none of whose polls failed returns what it returns under the
    rewritten budget (in particular under a context that is never done) -/
theorem run_sim (φ : Option Nat → Option Nat) (hφ : PollOK φ) (e : Entry) (fuel : Nat) (a : AST) (doc : Item)
    (o : Opts) (h : (runRes e fuel a doc o).st.sawCancel = false) :
    run e fuel a doc (liftOpts φ o) = run e fuel a doc o := by
  revert h
  unfold run runRes
  cases e <;> simp only
  · exact queryWith_sim φ hφ _ _ _ _
  · exact firstWith_sim φ hφ _ _ _ _
  · exact existsWith_sim φ hφ _ _ _ _
  · exact matchWith_sim φ hφ _ _ _ _
  · unfold existsOrMatchWith
    split
    · exact matchWith_sim φ hφ _ _ _ _
    · exact existsWith_sim φ hφ _ _ _ _

end Cancel
end Api
end Sqljson
