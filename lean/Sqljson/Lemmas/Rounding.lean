import Sqljson.Lemmas.FloatText
/-!
# The model's rounding IS IEEE-754 round-to-nearest, ties-to-even

`F64.roundPos` (the one place where the model turns an exact fraction of naturals into a binary64) is characterised here
against a specification that does not mention how it computes.  Core Lean only: rationals are pairs of integers and every
comparison is cross-multiplied.

## Specification

* `num x / den x`      the exact value `(-1)^neg * m * 2^e` of a finite double as a fraction (`toQ_eq`: it is the model's
                       own `F64.toQ`).
* `DistLe n d x y`     `|n/d − val x| ≤ |n/d − val y|`.          `SameVal x y`   `val x = val y`.
* `Nearest n d x`      `x` is a finite well-formed double, no finite well-formed double is nearer to `n/d`, and if one of
                       a different value is equally near then the mantissa of `x` is even.
* `Rounds n d x`       the IEEE-754 rounding relation: `x = ±Inf` (sign of `n`) iff `|n/d| ≥ 2^1024 − 2^970`, otherwise
                       `Nearest n d x` with the sign of `n`.

## The implementation meets it (all inputs; only `0 < den`)

* `roundPos_nearest`   a finite result of `roundPos neg num den` is `Nearest (±num) den`.
* `roundPos_inf_iff`   the result is `inf neg` iff `(2^1024 − 2^970) * den ≤ num`.
* `roundPos_zero_iff`  the result is `±0` iff `num * 2^1075 ≤ den` (ties-to-even gives 0 at exactly `2^-1075`).
* `roundPos_sign`      the result is `inf neg` or `fin neg _ _` (never NaN; sign kept, also when rounding to zero).
* `ofQ_rounds`         `Rounds n d (F64.ofQ n d z)`; `ofQ_zero`; `ofInt_rounds`, `ofInt_nearest`.
* `scale10_eq_roundPos`, `scale10_rounds`   the decimal scaling of `ParseFloat`, digit-count shortcuts included.
* `fmod_exact`         `math.Mod` is exact (`roundPos_pow2_exact`: a value `r * 2^lo`, `r < 2^53`, is returned unrounded).

## The specification is tight

* `distLe_congr`, `nearest_congr`, `rounds_congr`   it depends only on the rational `n/d`.
* `nearest_exact`      a rational that is a double is `Nearest` only to that double.
* `nearest_unique`, `rounds_unique`, `wf_sameVal_eq`, `rounds_functional`   it determines the result.
* `rounds_iff_ofQ`, `rounds_iff_exists_ofQ`, `rounds_zero_iff`   **`Rounds n d x ↔ x = ofQ n d z`** (for `n = 0` up to the sign
                       of zero, which the operations fix separately).
* `nearest_mono`, `rounds_mono`   rounding is monotone.

Method: everything is moved to fixed point in units of `2^-1074` (`distLe_iff`, `sameVal_iff`, `roundPos_fix`), where a
finite well-formed double is a natural `m * 2^j` with `m < 2^53`; `core_nearest` is the statement there, from
`halfEven_nearest` (the rounded quotient is a nearest integer, the even one on a tie).
-/

namespace Sqljson.Rounding
open Sqljson FloatText

/-- distance of two naturals -/
def dist (a b : Nat) : Nat := (a - b) + (b - a)

/-! ## the exact value of a finite double, as a fraction -/

/-- numerator of the exact value `(-1)^neg * m * 2^e` -/
def num : F64 → Int
  | .fin neg m e => if neg then -((m * 2 ^ e.toNat : Nat) : Int) else ((m * 2 ^ e.toNat : Nat) : Int)
  | _ => 0

/-- denominator (a power of two) of the exact value -/
def den : F64 → Nat
  | .fin _ _ e => 2 ^ (-e).toNat
  | _ => 1

def mant : F64 → Nat
  | .fin _ m _ => m
  | _ => 0

theorem den_pos (x : F64) : 0 < den x := by
  cases x <;> simp [den, Nat.pow_pos]

/-- the model's own `toQ` is this fraction -/
theorem toQ_eq (x : F64) : F64.toQ x = (num x, den x) := by
  cases x with
  | nan => rfl
  | inf _ => rfl
  | fin neg m e =>
    unfold F64.toQ num den
    by_cases h : e ≥ 0
    · have : (-e).toNat = 0 := by omega
      simp [h, this]
    · have : e.toNat = 0 := by omega
      simp [h, this]

/-- `|n/d − val x| ≤ |n/d − val y|`, cross-multiplied (`d > 0`) -/
def DistLe (n : Int) (d : Nat) (x y : F64) : Prop :=
  (n * den x - num x * d).natAbs * den y ≤ (n * den y - num y * d).natAbs * den x

/-- `val x = val y` -/
def SameVal (x y : F64) : Prop := num x * den y = num y * den x

/-- **`x` is the finite double nearest to `n/d`, ties to even.** -/
structure Nearest (n : Int) (d : Nat) (x : F64) : Prop where
  finite : x.isFinite = true
  wf : F64.WF x
  closest : ∀ y : F64, y.isFinite = true → F64.WF y → DistLe n d x y
  tiesEven : ∀ y : F64, y.isFinite = true → F64.WF y → ¬ SameVal x y → DistLe n d y x → mant x % 2 = 0

/-! ## values in units of `2^-1074` -/

def sg (b : Bool) (v : Nat) : Int := if b then -(v : Int) else (v : Int)

def ulps : F64 → Nat
  | .fin _ m e => m * 2 ^ (e + 1074).toNat
  | _ => 0

theorem sg_mul (b : Bool) (v w : Nat) : sg b v * (w : Int) = sg b (v * w) := by
  cases b <;> simp [sg, Int.neg_mul]

theorem num_scale (neg : Bool) (m : Nat) (e : Int) (he : -1074 ≤ e) :
    num (.fin neg m e) * ((2 ^ 1074 : Nat) : Int) = sg neg (m * 2 ^ (e + 1074).toNat) * ((den (.fin neg m e) : Nat) : Int) := by
  have k0 : 2 ^ e.toNat * 2 ^ 1074 = 2 ^ (e + 1074).toNat * 2 ^ (-e).toNat :=
    calc 2 ^ e.toNat * 2 ^ 1074 = 2 ^ (e.toNat + 1074) := (Nat.pow_add 2 _ _).symm
      _ = 2 ^ ((e + 1074).toNat + (-e).toNat) := by congr 1; omega
      _ = _ := Nat.pow_add 2 _ _
  have key : m * 2 ^ e.toNat * 2 ^ 1074 = m * 2 ^ (e + 1074).toNat * 2 ^ (-e).toNat := by
    rw [Nat.mul_assoc, Nat.mul_assoc, k0]
  have hnum : num (.fin neg m e) = sg neg (m * 2 ^ e.toNat) := by cases neg <;> rfl
  rw [hnum, sg_mul, sg_mul, key]
  rfl


theorem natAbs_scale {a b : Int} {t s : Nat} (h : a * (t : Int) = (s : Int) * b) : a.natAbs * t = s * b.natAbs := by
  have := congrArg Int.natAbs h
  rwa [Int.natAbs_mul, Int.natAbs_mul, Int.natAbs_natCast, Int.natAbs_natCast] at this

theorem two_pow_pos (k : Nat) : 0 < 2 ^ k := Nat.pow_pos (by decide)

/-- distances compared in units of `2^-1074` -/
theorem distLe_iff (n : Int) (d : Nat) (nx : Bool) (mx : Nat) (ex : Int) (ny : Bool) (my : Nat) (ey : Int)
    (hx : -1074 ≤ ex) (hy : -1074 ≤ ey) :
    DistLe n d (.fin nx mx ex) (.fin ny my ey) ↔
      (n * ((2 ^ 1074 : Nat) : Int) - sg nx (mx * 2 ^ (ex + 1074).toNat) * (d : Int)).natAbs ≤
      (n * ((2 ^ 1074 : Nat) : Int) - sg ny (my * 2 ^ (ey + 1074).toNat) * (d : Int)).natAbs := by
  unfold DistLe
  have sx := num_scale nx mx ex hx
  have sy := num_scale ny my ey hy
  have dxp := den_pos (.fin nx mx ex)
  have dyp := den_pos (.fin ny my ey)
  have hT := two_pow_pos 1074
  generalize num (.fin nx mx ex) = ax at *
  generalize num (.fin ny my ey) = ay at *
  generalize den (.fin nx mx ex) = dx at *
  generalize den (.fin ny my ey) = dy at *
  generalize sg nx (mx * 2 ^ (ex + 1074).toNat) = ux at *
  generalize sg ny (my * 2 ^ (ey + 1074).toNat) = uy at *
  generalize 2 ^ 1074 = T at *
  have e1 : (n * (dx : Int) - ax * (d : Int)) * (T : Int) = (dx : Int) * (n * (T : Int) - ux * (d : Int)) := by grind
  have e2 : (n * (dy : Int) - ay * (d : Int)) * (T : Int) = (dy : Int) * (n * (T : Int) - uy * (d : Int)) := by grind
  have f1 := natAbs_scale e1
  have f2 := natAbs_scale e2
  generalize (n * (dx : Int) - ax * (d : Int)).natAbs = a at *
  generalize (n * (dy : Int) - ay * (d : Int)).natAbs = b at *
  generalize (n * (T : Int) - ux * (d : Int)).natAbs = p at *
  generalize (n * (T : Int) - uy * (d : Int)).natAbs = p' at *
  rw [← Nat.mul_le_mul_right_iff hT]
  have g1 : a * dy * T = (dx * dy) * p := by grind
  have g2 : b * dx * T = (dx * dy) * p' := by grind
  rw [g1, g2]
  exact Nat.mul_le_mul_left_iff (Nat.mul_pos dxp dyp)

theorem sameVal_iff (nx : Bool) (mx : Nat) (ex : Int) (ny : Bool) (my : Nat) (ey : Int)
    (hx : -1074 ≤ ex) (hy : -1074 ≤ ey) :
    SameVal (.fin nx mx ex) (.fin ny my ey) ↔
      sg nx (mx * 2 ^ (ex + 1074).toNat) = sg ny (my * 2 ^ (ey + 1074).toNat) := by
  unfold SameVal
  have sx := num_scale nx mx ex hx
  have sy := num_scale ny my ey hy
  have dxp := den_pos (.fin nx mx ex)
  have dyp := den_pos (.fin ny my ey)
  have hT := two_pow_pos 1074
  generalize num (.fin nx mx ex) = ax at *
  generalize num (.fin ny my ey) = ay at *
  generalize den (.fin nx mx ex) = dx at *
  generalize den (.fin ny my ey) = dy at *
  generalize sg nx (mx * 2 ^ (ex + 1074).toNat) = ux at *
  generalize sg ny (my * 2 ^ (ey + 1074).toNat) = uy at *
  generalize 2 ^ 1074 = T at *
  have hT' : ((T : Nat) : Int) ≠ 0 := by omega
  have hd' : ((dx : Int) * (dy : Int)) ≠ 0 := by
    have := Nat.mul_pos dxp dyp
    have h2 : ((dx * dy : Nat) : Int) ≠ 0 := by omega
    simpa using h2
  constructor
  · intro h
    have : ((dx : Int) * (dy : Int)) * ux = ((dx : Int) * (dy : Int)) * uy := by grind
    exact Int.eq_of_mul_eq_mul_left hd' this
  · intro h
    have : (ax * (dy : Int)) * (T : Int) = (ay * (dx : Int)) * (T : Int) := by grind
    exact Int.eq_of_mul_eq_mul_right hT' this

theorem natAbs_sg (b c : Bool) (A Y : Nat) :
    (sg b A - sg c Y).natAbs = if c = b then dist A Y else A + Y := by
  cases b <;> cases c <;> simp [sg, dist] <;> omega

/-- `halfEven` returns an integer nearest to `A / G`; on a tie the even one (so the other is odd) -/
theorem halfEven_nearest {A G : Nat} (hG : 0 < G) (c : Nat) :
    dist A (F64.halfEven (A / G) (A % G) G * G) ≤ dist A (c * G) ∧
    (dist A (c * G) ≤ dist A (F64.halfEven (A / G) (A % G) G * G) → c ≠ F64.halfEven (A / G) (A % G) G →
      F64.halfEven (A / G) (A % G) G % 2 = 0 ∧ c % 2 = 1) := by
  have hdiv : G * (A / G) + A % G = A := Nat.div_add_mod A G
  have hmod : A % G < G := Nat.mod_lt _ hG
  generalize A / G = q0 at *
  generalize A % G = R at *
  rw [Nat.mul_comm G q0] at hdiv
  have hQ1 : (q0 + 1) * G = q0 * G + G := by rw [Nat.add_mul, Nat.one_mul]
  -- position of c relative to q0
  have hc : (c + 1 ≤ q0 ∧ c * G + G ≤ q0 * G) ∨ c = q0 ∨ c = q0 + 1 ∨ (q0 + 2 ≤ c ∧ q0 * G + 2 * G ≤ c * G) := by
    rcases Nat.lt_trichotomy c q0 with h | h | h
    · left
      refine ⟨h, ?_⟩
      have : (c + 1) * G ≤ q0 * G := Nat.mul_le_mul_right _ h
      rw [Nat.add_mul, Nat.one_mul] at this
      exact this
    · right; left; exact h
    · by_cases h1 : c = q0 + 1
      · right; right; left; exact h1
      · right; right; right
        refine ⟨by omega, ?_⟩
        have : (q0 + 2) * G ≤ c * G := Nat.mul_le_mul_right _ (by omega)
        rw [Nat.add_mul] at this
        exact this
  unfold F64.halfEven dist
  by_cases h1 : 2 * R > G
  · rw [if_pos h1, hQ1]
    rcases hc with ⟨a, b⟩ | hcq | hcq | ⟨a, b⟩
    · generalize c * G = cG at *; generalize q0 * G = QG at *; omega
    · rw [hcq]; generalize q0 * G = QG at *; omega
    · rw [hcq, hQ1]; generalize q0 * G = QG at *; omega
    · generalize c * G = cG at *; generalize q0 * G = QG at *; omega
  · rw [if_neg h1]
    by_cases h2 : 2 * R < G
    · rw [if_pos h2]
      rcases hc with ⟨a, b⟩ | hcq | hcq | ⟨a, b⟩
      · generalize c * G = cG at *; generalize q0 * G = QG at *; omega
      · rw [hcq]; generalize q0 * G = QG at *; omega
      · rw [hcq, hQ1]; generalize q0 * G = QG at *; omega
      · generalize c * G = cG at *; generalize q0 * G = QG at *; omega
    · rw [if_neg h2]
      by_cases h3 : q0 % 2 = 1
      · rw [if_pos h3, hQ1]
        rcases hc with ⟨a, b⟩ | hcq | hcq | ⟨a, b⟩
        · generalize c * G = cG at *; generalize q0 * G = QG at *; omega
        · rw [hcq]; generalize q0 * G = QG at *; omega
        · rw [hcq, hQ1]; generalize q0 * G = QG at *; omega
        · generalize c * G = cG at *; generalize q0 * G = QG at *; omega
      · rw [if_neg h3]
        rcases hc with ⟨a, b⟩ | hcq | hcq | ⟨a, b⟩
        · generalize c * G = cG at *; generalize q0 * G = QG at *; omega
        · rw [hcq]; generalize q0 * G = QG at *; omega
        · rw [hcq, hQ1]; generalize q0 * G = QG at *; omega
        · generalize c * G = cG at *; generalize q0 * G = QG at *; omega


theorem mul_two_pow_odd {m i : Nat} (h : (m * 2 ^ i) % 2 = 1) : i = 0 := by
  cases i with
  | zero => rfl
  | succ i =>
    exfalso
    rw [Nat.pow_succ, ← Nat.mul_assoc] at h
    omega

/-- the fixed-point core: `A / Dn` in units, candidates `my * 2^j` with `my < 2^53`; the rounded quotient at
    the scale `2^k` (normal: quotient ≥ 2^52, or `k = 0`) is nearest among all candidates, ties to even -/
theorem core_nearest {A Dn k : Nat} (hD : 0 < Dn)
    (hnorm : 2 ^ 52 ≤ A / (Dn * 2 ^ k) ∨ k = 0)
    (my j : Nat) (hmy : my < 2 ^ 53) :
    dist A (F64.halfEven (A / (Dn * 2 ^ k)) (A % (Dn * 2 ^ k)) (Dn * 2 ^ k) * 2 ^ k * Dn) ≤ dist A (my * 2 ^ j * Dn) ∧
    (dist A (my * 2 ^ j * Dn) ≤ dist A (F64.halfEven (A / (Dn * 2 ^ k)) (A % (Dn * 2 ^ k)) (Dn * 2 ^ k) * 2 ^ k * Dn) →
      my * 2 ^ j ≠ F64.halfEven (A / (Dn * 2 ^ k)) (A % (Dn * 2 ^ k)) (Dn * 2 ^ k) * 2 ^ k →
      F64.halfEven (A / (Dn * 2 ^ k)) (A % (Dn * 2 ^ k)) (Dn * 2 ^ k) % 2 = 0 ∧ my % 2 = 1) := by
  have hG : 0 < Dn * 2 ^ k := Nat.mul_pos hD (Nat.pow_pos (by decide))
  have hle : A / (Dn * 2 ^ k) * (Dn * 2 ^ k) ≤ A := Nat.div_mul_le_self _ _
  generalize hq : F64.halfEven (A / (Dn * 2 ^ k)) (A % (Dn * 2 ^ k)) (Dn * 2 ^ k) = q'
  have eq1 : q' * 2 ^ k * Dn = q' * (Dn * 2 ^ k) := by ac_rfl
  rw [eq1]
  by_cases hjk : k ≤ j
  · obtain ⟨i, rfl⟩ : ∃ i, j = k + i := ⟨j - k, by omega⟩
    have eq2 : my * 2 ^ (k + i) * Dn = (my * 2 ^ i) * (Dn * 2 ^ k) := by rw [Nat.pow_add]; ac_rfl
    rw [eq2]
    obtain ⟨h1, h2⟩ := halfEven_nearest (A := A) hG (my * 2 ^ i)
    rw [hq] at h1 h2
    refine ⟨h1, ?_⟩
    intro ht hne
    have hne' : my * 2 ^ i ≠ q' := by
      intro h
      apply hne
      rw [← h, Nat.pow_add]; ac_rfl
    obtain ⟨a, b⟩ := h2 ht hne'
    have hi := mul_two_pow_odd b
    subst hi
    rw [Nat.pow_zero, Nat.mul_one] at b
    exact ⟨a, b⟩
  · obtain ⟨i, rfl⟩ : ∃ i, k = j + 1 + i := ⟨k - j - 1, by omega⟩
    have hQ : 2 ^ 52 ≤ A / (Dn * 2 ^ (j + 1 + i)) := by
      rcases hnorm with h | h
      · exact h
      · omega
    obtain ⟨h1, _⟩ := halfEven_nearest (A := A) hG (2 ^ 52)
    rw [hq] at h1
    have h52 : 2 ^ 52 * (Dn * 2 ^ (j + 1 + i)) ≤ A / (Dn * 2 ^ (j + 1 + i)) * (Dn * 2 ^ (j + 1 + i)) :=
      Nat.mul_le_mul_right _ hQ
    have hY : my * 2 ^ j * Dn < 2 ^ 52 * (Dn * 2 ^ (j + 1 + i)) := by
      have e : 2 ^ 52 * (Dn * 2 ^ (j + 1 + i)) = (2 ^ 53 * 2 ^ j * 2 ^ i) * Dn := by
        rw [Nat.pow_add, Nat.pow_add]
        have : (2 : Nat) ^ 53 = 2 ^ 52 * 2 ^ 1 := by rw [← Nat.pow_add]
        rw [this]; ac_rfl
      rw [e]
      apply Nat.mul_lt_mul_of_pos_right _ hD
      have a1 : my * 2 ^ j < 2 ^ 53 * 2 ^ j := Nat.mul_lt_mul_of_pos_right hmy (Nat.pow_pos (by decide))
      have a2 : 2 ^ 53 * 2 ^ j * 1 ≤ 2 ^ 53 * 2 ^ j * 2 ^ i := Nat.mul_le_mul_left _ (Nat.pow_pos (by decide))
      omega
    unfold dist at *
    generalize my * 2 ^ j * Dn = Y at *
    generalize q' * (Dn * 2 ^ (j + 1 + i)) = X at *
    generalize 2 ^ 52 * (Dn * 2 ^ (j + 1 + i)) = Z at *
    generalize A / (Dn * 2 ^ (j + 1 + i)) * (Dn * 2 ^ (j + 1 + i)) = W at *
    omega


/-! ## `roundPos` in fixed point -/

theorem scale_fix (num den : Nat) (E : Int) (hE : -1074 ≤ E) :
    ∃ t, 0 < t ∧ N num E * t = num * 2 ^ 1074 ∧ D den E * t = den * 2 ^ (E + 1074).toNat := by
  unfold N D
  by_cases h : 0 ≤ E
  · refine ⟨2 ^ 1074, two_pow_pos _, ?_, ?_⟩
    · have : (-E).toNat = 0 := by omega
      rw [this, Nat.pow_zero, Nat.mul_one]
    · have : (E + 1074).toNat = E.toNat + 1074 := by omega
      rw [this, Nat.pow_add, Nat.mul_assoc]
  · refine ⟨2 ^ (E + 1074).toNat, two_pow_pos _, ?_, ?_⟩
    · have : 1074 = (-E).toNat + (E + 1074).toNat := by omega
      rw [Nat.mul_assoc, ← Nat.pow_add, ← this]
    · have : E.toNat = 0 := by omega
      rw [this, Nat.pow_zero, Nat.mul_one]

theorem halfEven_bounds (q r d : Nat) : q ≤ F64.halfEven q r d ∧ F64.halfEven q r d ≤ q + 1 := by
  unfold F64.halfEven
  repeat' split
  all_goals omega

theorem minExp_eq : F64.minExp = -1074 := rfl
theorem maxExp_eq : F64.maxExp = 971 := rfl

theorem roundPos_fix (neg : Bool) {num den : Nat} (hn : 0 < num) (hd : 0 < den) :
    F64.roundPos neg num den =
      (if F64.halfEven (num * 2 ^ 1074 / (den * 2 ^ (F64.pickExp num den + 1074).toNat))
            (num * 2 ^ 1074 % (den * 2 ^ (F64.pickExp num den + 1074).toNat))
            (den * 2 ^ (F64.pickExp num den + 1074).toNat) = 2 ^ 53
        then F64.finish neg (2 ^ 52) (F64.pickExp num den + 1)
        else F64.finish neg (F64.halfEven (num * 2 ^ 1074 / (den * 2 ^ (F64.pickExp num den + 1074).toNat))
            (num * 2 ^ 1074 % (den * 2 ^ (F64.pickExp num den + 1074).toNat))
            (den * 2 ^ (F64.pickExp num den + 1074).toNat)) (F64.pickExp num den)) ∧
    Q num den (F64.pickExp num den) = num * 2 ^ 1074 / (den * 2 ^ (F64.pickExp num den + 1074).toNat) := by
  obtain ⟨h1, _, _⟩ := pickExp_spec hn hd
  rw [minExp_eq] at h1
  obtain ⟨t, ht, e1, e2⟩ := scale_fix num den (F64.pickExp num den) h1
  rw [← e1, ← e2, Nat.mul_div_mul_right _ _ ht, Nat.mul_mod_mul_right, halfEven_scale _ _ _ _ ht]
  refine ⟨?_, rfl⟩
  unfold F64.roundPos
  rw [if_neg (by omega)]
  simp only [qr_eq]

/-- everything the rounding theorems need to know about a `roundPos` result -/
theorem roundPos_shape (neg : Bool) {num den : Nat} (hn : 0 < num) (hd : 0 < den) :
    ∃ k : Nat, (2 ^ 52 ≤ num * 2 ^ 1074 / (den * 2 ^ k) ∨ k = 0) ∧
      (F64.roundPos neg num den = .inf neg ∨
        ∃ m e, F64.roundPos neg num den = .fin neg m e ∧ F64.WF (.fin neg m e) ∧ -1074 ≤ e ∧
          m * 2 ^ (e + 1074).toNat =
            F64.halfEven (num * 2 ^ 1074 / (den * 2 ^ k)) (num * 2 ^ 1074 % (den * 2 ^ k)) (den * 2 ^ k) * 2 ^ k ∧
          (F64.halfEven (num * 2 ^ 1074 / (den * 2 ^ k)) (num * 2 ^ 1074 % (den * 2 ^ k)) (den * 2 ^ k) % 2 = 0 →
            m % 2 = 0)) := by
  obtain ⟨hfix, hQ⟩ := roundPos_fix neg hn hd
  obtain ⟨h1, h2, h3⟩ := pickExp_spec hn hd
  rw [hQ] at h2 h3
  rw [minExp_eq] at h1 h3
  refine ⟨(F64.pickExp num den + 1074).toNat, ?_, ?_⟩
  · rcases h3 with h | h
    · exact Or.inl h
    · right; omega
  · rw [hfix]
    obtain ⟨b1, b2⟩ := halfEven_bounds (num * 2 ^ 1074 / (den * 2 ^ (F64.pickExp num den + 1074).toNat))
      (num * 2 ^ 1074 % (den * 2 ^ (F64.pickExp num den + 1074).toNat)) (den * 2 ^ (F64.pickExp num den + 1074).toNat)
    generalize F64.halfEven (num * 2 ^ 1074 / (den * 2 ^ (F64.pickExp num den + 1074).toNat))
      (num * 2 ^ 1074 % (den * 2 ^ (F64.pickExp num den + 1074).toNat)) (den * 2 ^ (F64.pickExp num den + 1074).toNat) = q' at *
    generalize num * 2 ^ 1074 / (den * 2 ^ (F64.pickExp num den + 1074).toNat) = q0 at *
    generalize F64.pickExp num den = E at *
    unfold F64.finish
    rw [maxExp_eq]
    by_cases hc : q' = 2 ^ 53
    · rw [if_pos hc]
      by_cases ho : E + 1 > 971
      · rw [if_pos ho]; exact Or.inl rfl
      · rw [if_neg ho]
        refine Or.inr ⟨2 ^ 52, E + 1, rfl, ?_, by omega, ?_, fun _ => by decide⟩
        · unfold F64.WF
          rw [minExp_eq, maxExp_eq]
          exact ⟨fun h => by omega, fun _ => ⟨by decide, by omega, by omega⟩⟩
        · have : (E + 1 + 1074).toNat = (E + 1074).toNat + 1 := by omega
          rw [this, hc, Nat.pow_succ (m := (E + 1074).toNat)]
          generalize 2 ^ (E + 1074).toNat = p
          omega
    · rw [if_neg hc]
      by_cases ho : E > 971
      · rw [if_pos ho]; exact Or.inl rfl
      · rw [if_neg ho]
        refine Or.inr ⟨q', E, rfl, ?_, h1, rfl, fun h => h⟩
        unfold F64.WF
        rw [minExp_eq, maxExp_eq]
        refine ⟨fun h => ?_, fun _ => ⟨by omega, by omega, by omega⟩⟩
        rcases h3 with h' | h'
        · omega
        · exact h'

theorem wf_exp {neg : Bool} {m : Nat} {e : Int} (h : F64.WF (.fin neg m e)) : -1074 ≤ e ∧ m < 2 ^ 53 := by
  obtain ⟨a, b, _, _⟩ := wf_bounds (m := m) (e := e) h
  exact ⟨b, a⟩

theorem dist_zero (A : Nat) : dist A 0 = A := by unfold dist; omega

/-- **`roundPos` rounds to nearest, ties to even** (whenever its result is finite) -/
theorem roundPos_nearest (neg : Bool) {num den : Nat} (hn : 0 < num) (hd : 0 < den) {x : F64}
    (hx : F64.roundPos neg num den = x) (hfin : x.isFinite = true) : Nearest (sg neg num) den x := by
  obtain ⟨k, hnorm, hsh⟩ := roundPos_shape neg hn hd
  rcases hsh with h | ⟨m, e, h, hwf, he, hU, hpar⟩
  · rw [h] at hx; subst hx; cases hfin
  · rw [h] at hx; subst hx
    have hA : sg neg num * ((2 ^ 1074 : Nat) : Int) = sg neg (num * 2 ^ 1074) := sg_mul _ _ _
    refine ⟨rfl, hwf, ?_, ?_⟩
    · intro y hyf hywf
      cases y with
      | nan => cases hyf
      | inf _ => cases hyf
      | fin ny my ey =>
        obtain ⟨hey, hmy⟩ := wf_exp hywf
        rw [distLe_iff _ _ _ _ _ _ _ _ he hey, hA, sg_mul, sg_mul, natAbs_sg, natAbs_sg, if_pos rfl, hU]
        obtain ⟨c1, _⟩ := core_nearest (A := num * 2 ^ 1074) hd hnorm my (ey + 1074).toNat hmy
        by_cases hs : ny = neg
        · rw [if_pos hs]; exact c1
        · rw [if_neg hs]
          obtain ⟨c0, _⟩ := core_nearest (A := num * 2 ^ 1074) hd hnorm 0 0 (by decide)
          simp only [Nat.zero_mul, dist_zero] at c0
          omega
    · intro y hyf hywf hne hle
      cases y with
      | nan => cases hyf
      | inf _ => cases hyf
      | fin ny my ey =>
        obtain ⟨hey, hmy⟩ := wf_exp hywf
        rw [sameVal_iff _ _ _ _ _ _ he hey, hU] at hne
        rw [distLe_iff _ _ _ _ _ _ _ _ hey he, hA, sg_mul, sg_mul, natAbs_sg, natAbs_sg, if_pos rfl, hU] at hle
        apply hpar
        by_cases hs : ny = neg
        · rw [if_pos hs] at hle
          subst hs
          obtain ⟨_, c2⟩ := core_nearest (A := num * 2 ^ 1074) hd hnorm my (ey + 1074).toNat hmy
          refine (c2 hle ?_).1
          intro heq
          apply hne
          rw [heq]
        · rw [if_neg hs] at hle
          obtain ⟨c0, c2⟩ := core_nearest (A := num * 2 ^ 1074) hd hnorm 0 0 (by decide)
          simp only [Nat.zero_mul, dist_zero] at c0 c2
          have hY0 : my * 2 ^ (ey + 1074).toNat * den = 0 := by omega
          have hY : my * 2 ^ (ey + 1074).toNat = 0 := by
            rcases Nat.mul_eq_zero.mp hY0 with h0 | h0
            · exact h0
            · omega
          refine (c2 (by omega) ?_).1
          intro heq
          apply hne
          rw [← heq, hY]
          cases neg <;> cases ny <;> rfl

/-! ## overflow, zero, sign -/

theorem finish_cases' (neg : Bool) (m : Nat) (e : Int) :
    (e > 971 ∧ F64.finish neg m e = .inf neg) ∨ (e ≤ 971 ∧ F64.finish neg m e = .fin neg m e) := by
  unfold F64.finish
  rw [maxExp_eq]
  by_cases h : e > 971
  · rw [if_pos h]; exact Or.inl ⟨h, rfl⟩
  · rw [if_neg h]; exact Or.inr ⟨by omega, rfl⟩

/-- `roundPos` at the exponent `E = pickExp num den`, in the `N/D` form of `FloatText` -/
theorem roundPos_unfold (neg : Bool) {num den : Nat} (hn : 0 < num) :
    F64.roundPos neg num den =
      if F64.halfEven (N num (F64.pickExp num den) / D den (F64.pickExp num den))
          (N num (F64.pickExp num den) % D den (F64.pickExp num den)) (D den (F64.pickExp num den)) = 2 ^ 53
      then F64.finish neg (2 ^ 52) (F64.pickExp num den + 1)
      else F64.finish neg (F64.halfEven (N num (F64.pickExp num den) / D den (F64.pickExp num den))
          (N num (F64.pickExp num den) % D den (F64.pickExp num den)) (D den (F64.pickExp num den))) (F64.pickExp num den) := by
  unfold F64.roundPos
  rw [if_neg (by omega)]
  simp only [qr_eq]

theorem roundPos_sign (neg : Bool) (num den : Nat) :
    F64.roundPos neg num den = .inf neg ∨ ∃ m e, F64.roundPos neg num den = .fin neg m e := by
  unfold F64.roundPos
  split
  · exact Or.inr ⟨_, _, rfl⟩
  · simp only
    split
    · rcases finish_cases' neg (2 ^ 52) (F64.pickExp num den + 1) with ⟨_, h⟩ | ⟨_, h⟩
      · exact Or.inl h
      · exact Or.inr ⟨_, _, h⟩
    · rename_i h0 h1
      rcases finish_cases' neg (F64.halfEven (F64.qr num den (F64.pickExp num den)).1
          (F64.qr num den (F64.pickExp num den)).2.1 (F64.qr num den (F64.pickExp num den)).2.2)
          (F64.pickExp num den) with ⟨_, h⟩ | ⟨_, h⟩
      · exact Or.inl h
      · exact Or.inr ⟨_, _, h⟩

theorem N_971 (num : Nat) : N num 971 = num := by
  unfold N
  have : (-(971 : Int)).toNat = 0 := by decide
  rw [this, Nat.pow_zero, Nat.mul_one]

set_option exponentiation.threshold 2000 in
theorem D_971 (den : Nat) : D den 971 = 2 * (den * 2 ^ 970) := by
  unfold D
  have : (971 : Int).toNat = 970 + 1 := by decide
  rw [this, Nat.pow_succ (n := 2) (m := 970)]
  generalize 2 ^ 970 = p
  rw [Nat.mul_comm p 2, ← Nat.mul_assoc, Nat.mul_comm den 2, Nat.mul_assoc]

set_option exponentiation.threshold 2000 in
theorem pow_1024 : (2 : Nat) ^ 1024 = 2 ^ 54 * 2 ^ 970 := Nat.pow_add 2 54 970

theorem thr_mul (a p den : Nat) : (a * p - p) * den = (a - 1) * (den * p) := by
  rw [Nat.sub_mul, Nat.mul_assoc, Nat.mul_comm p den, Nat.sub_mul, Nat.one_mul]

/-- **overflow threshold**: the result is infinite exactly when `num/den ≥ 2^1024 − 2^970`
    (the largest finite double plus half a unit in its last place) -/
theorem roundPos_inf_iff (neg : Bool) {num den : Nat} (hd : 0 < den) :
    F64.roundPos neg num den = .inf neg ↔ (2 ^ 1024 - 2 ^ 970) * den ≤ num := by
  have hP : 0 < den * 2 ^ 970 := Nat.mul_pos hd (two_pow_pos 970)
  have hthr : (2 ^ 1024 - 2 ^ 970) * den = (2 ^ 54 - 1) * (den * 2 ^ 970) := by
    rw [pow_1024]
    set_option exponentiation.threshold 2000 in exact thr_mul _ _ _
  rw [hthr]
  by_cases hn : num = 0
  · subst hn
    constructor
    · intro h; unfold F64.roundPos at h; rw [if_pos rfl] at h; cases h
    · intro h; generalize den * 2 ^ 970 = P at *; omega
  have hn' : 0 < num := by omega
  obtain ⟨e1, e2, e3⟩ := pickExp_spec hn' hd
  rw [minExp_eq] at e1 e3
  rw [roundPos_unfold neg hn']
  have hdm := Nat.div_add_mod (N num (F64.pickExp num den)) (D den (F64.pickExp num den))
  have hml := Nat.mod_lt (N num (F64.pickExp num den)) (D_pos hd (F64.pickExp num den))
  have hQdef : Q num den (F64.pickExp num den) = N num (F64.pickExp num den) / D den (F64.pickExp num den) := rfl
  rw [hQdef] at e2 e3
  -- the quotient at exponent 971
  have hQ971 : Q num den 971 = N num 971 / D den 971 := rfl
  have hdm' := Nat.div_add_mod (N num 971) (D den 971)
  have hml' := Nat.mod_lt (N num 971) (D_pos hd 971)
  rw [N_971, D_971] at hdm' hml' hQ971
  generalize hE : F64.pickExp num den = E at *
  constructor
  · intro h
    by_cases hbig : E ≥ 972
    · -- quotient ≥ 2^52 at an exponent ≥ 972
      have hq : 2 ^ 52 ≤ N num E / D den E := by
        rcases e3 with h' | h'
        · exact h'
        · omega
      have hN : N num E = num := by
        unfold N
        have : (-E).toNat = 0 := by omega
        rw [this, Nat.pow_zero, Nat.mul_one]
      have hD : 4 * (den * 2 ^ 970) ≤ D den E := by
        unfold D
        obtain ⟨i, hi⟩ : ∃ i, E.toNat = 970 + 2 + i := ⟨E.toNat - 972, by omega⟩
        rw [hi, Nat.pow_add 2 (970 + 2) i, Nat.pow_add 2 970 2]
        have h4 : ∀ p t : Nat, den * (p * 2 ^ 2 * t) = 4 * (den * p) * t := by
          intro p t
          have : (2 : Nat) ^ 2 = 4 := rfl
          rw [this]; ac_rfl
        set_option exponentiation.threshold 2000 in rw [h4 (2 ^ 970) (2 ^ i)]
        set_option exponentiation.threshold 2000 in exact Nat.le_mul_of_pos_right (4 * (den * 2 ^ 970)) (two_pow_pos i)
      have hmul : 2 ^ 52 * D den E ≤ N num E / D den E * D den E := Nat.mul_le_mul_right _ hq
      rw [hN] at hdm hmul
      rw [Nat.mul_comm (D den E)] at hdm
      generalize N num E / D den E * D den E = X at *
      generalize D den E = DD at *
      generalize den * 2 ^ 970 = P at *
      omega
    · -- E ≤ 971: only the carry at E = 971 overflows
      by_cases hc : F64.halfEven (N num E / D den E) (N num E % D den E) (D den E) = 2 ^ 53
      · rw [if_pos hc] at h
        rcases finish_cases' neg (2 ^ 52) (E + 1) with ⟨h1, _⟩ | ⟨_, h2⟩
        · have hE971 : E = 971 := by omega
          subst hE971
          rw [N_971, D_971] at hdm hml hc e2
          -- quotient 2^53 - 1, remainder at least half
          obtain ⟨b1, b2⟩ := halfEven_bounds (num / (2 * (den * 2 ^ 970))) (num % (2 * (den * 2 ^ 970))) (2 * (den * 2 ^ 970))
          have hq : num / (2 * (den * 2 ^ 970)) = 2 ^ 53 - 1 := by omega
          rw [hq] at hdm hc
          unfold F64.halfEven at hc
          generalize num % (2 * (den * 2 ^ 970)) = R at *
          generalize den * 2 ^ 970 = P at *
          have hR : ¬ (2 * R < 2 * P) := by
            intro hlt
            rw [if_neg (by omega), if_pos hlt] at hc
            omega
          omega
        · rw [h2] at h; cases h
      · rw [if_neg hc] at h
        rcases finish_cases' neg (F64.halfEven (N num E / D den E) (N num E % D den E) (D den E)) E with ⟨h1, _⟩ | ⟨_, h2⟩
        · omega
        · rw [h2] at h; cases h
  · intro h
    -- the quotient at 971 is at least 2^53 - 1
    have hq971 : 2 ^ 53 - 1 ≤ Q num den 971 := by
      rw [hQ971, Nat.le_div_iff_mul_le (by omega)]
      generalize den * 2 ^ 970 = P at *
      omega
    have hE971 : 971 ≤ E := by
      apply Classical.byContradiction
      intro hlt
      have hj : (971 : Int) = E + ((971 - E).toNat : Nat) := by omega
      have hle := Q_add_le num den E (971 - E).toNat (by omega)
      rw [← hj, hQdef] at hle
      omega
    by_cases hbig : E ≥ 972
    · split
      · rcases finish_cases' neg (2 ^ 52) (E + 1) with ⟨_, h2⟩ | ⟨h1, _⟩
        · exact h2
        · omega
      · rcases finish_cases' neg (F64.halfEven (N num E / D den E) (N num E % D den E) (D den E)) E with ⟨_, h2⟩ | ⟨h1, _⟩
        · exact h2
        · omega
    · have hE' : E = 971 := by omega
      subst hE'
      rw [N_971, D_971] at hdm hml e2 ⊢
      rw [hQ971] at hq971
      have hq : num / (2 * (den * 2 ^ 970)) = 2 ^ 53 - 1 := by omega
      have hc : F64.halfEven (num / (2 * (den * 2 ^ 970))) (num % (2 * (den * 2 ^ 970))) (2 * (den * 2 ^ 970)) = 2 ^ 53 := by
        rw [hq] at hdm ⊢
        unfold F64.halfEven
        generalize num % (2 * (den * 2 ^ 970)) = R at *
        generalize den * 2 ^ 970 = P at *
        by_cases h1 : 2 * R > 2 * P
        · rw [if_pos h1]
        · rw [if_neg h1, if_neg (by omega), if_pos (by decide)]
      rw [if_pos hc]
      rcases finish_cases' neg (2 ^ 52) (971 + 1) with ⟨_, h2⟩ | ⟨h1, _⟩
      · exact h2
      · omega

theorem N_min (num : Nat) : N num (-1074) = num * 2 ^ 1074 := by
  unfold N
  have : (-(-1074 : Int)).toNat = 1074 := by decide
  rw [this]

theorem D_min (den : Nat) : D den (-1074) = den := by
  unfold D
  have : (-1074 : Int).toNat = 0 := by decide
  rw [this, Nat.pow_zero, Nat.mul_one]

set_option exponentiation.threshold 2000 in
theorem pow_1075 : (2 : Nat) ^ 1075 = 2 ^ 1074 * 2 := Nat.pow_succ ..

/-- **underflow to zero**: the result is zero exactly when `num/den ≤ 2^-1075` (half the smallest subnormal;
    at exactly `2^-1075` the tie goes to the even neighbour, which is zero) -/
theorem roundPos_zero_iff (neg : Bool) {num den : Nat} (hd : 0 < den) :
    F64.roundPos neg num den = .fin neg 0 F64.minExp ↔ num * 2 ^ 1075 ≤ den := by
  have h1075 : num * 2 ^ 1075 = 2 * (num * 2 ^ 1074) := by
    rw [pow_1075]
    generalize 2 ^ 1074 = p
    rw [← Nat.mul_assoc, Nat.mul_comm 2]
  rw [h1075]
  by_cases hn : num = 0
  · subst hn
    constructor
    · intro _; omega
    · intro _; unfold F64.roundPos; rw [if_pos rfl]
  have hn' : 0 < num := by omega
  constructor
  · intro h
    rw [roundPos_unfold neg hn'] at h
    have hdm := Nat.div_add_mod (N num (F64.pickExp num den)) (D den (F64.pickExp num den))
    obtain ⟨b1, b2⟩ := halfEven_bounds (N num (F64.pickExp num den) / D den (F64.pickExp num den))
      (N num (F64.pickExp num den) % D den (F64.pickExp num den)) (D den (F64.pickExp num den))
    by_cases hc : F64.halfEven (N num (F64.pickExp num den) / D den (F64.pickExp num den))
        (N num (F64.pickExp num den) % D den (F64.pickExp num den)) (D den (F64.pickExp num den)) = 2 ^ 53
    · rw [if_pos hc] at h
      rcases finish_cases' neg (2 ^ 52) (F64.pickExp num den + 1) with ⟨_, h2⟩ | ⟨_, h2⟩
      · rw [h2] at h; cases h
      · rw [h2] at h; have := (F64.fin.inj h).2.1; omega
    · rw [if_neg hc] at h
      rcases finish_cases' neg (F64.halfEven (N num (F64.pickExp num den) / D den (F64.pickExp num den))
        (N num (F64.pickExp num den) % D den (F64.pickExp num den)) (D den (F64.pickExp num den)))
        (F64.pickExp num den) with ⟨_, h2⟩ | ⟨_, h2⟩
      · rw [h2] at h; cases h
      · rw [h2] at h
        obtain ⟨_, hm, he⟩ := F64.fin.inj h
        rw [minExp_eq] at he
        rw [he] at hm hdm b1
        rw [N_min, D_min] at hm hdm b1
        have hq0 : num * 2 ^ 1074 / den = 0 := by
          rw [hm] at b1
          exact Nat.le_zero.mp b1
        rw [hq0] at hm hdm
        unfold F64.halfEven at hm
        generalize num * 2 ^ 1074 % den = R at *
        generalize num * 2 ^ 1074 = A at *
        by_cases hgt : 2 * R > den
        · rw [if_pos hgt] at hm; omega
        · omega
  · intro h
    have hlt : num * 2 ^ 1074 < den := by
      have : 0 < num * 2 ^ 1074 := Nat.mul_pos hn' (two_pow_pos 1074)
      omega
    have hE : F64.pickExp num den = -1074 := by
      apply pickExp_unique hn' hd
      refine ⟨by rw [minExp_eq]; omega, ?_, Or.inr (by rw [minExp_eq])⟩
      show N num (-1074) / D den (-1074) < 2 ^ 53
      rw [N_min, D_min, Nat.div_eq_of_lt hlt]
      decide
    rw [roundPos_unfold neg hn', hE, N_min, D_min, Nat.div_eq_of_lt hlt, Nat.mod_eq_of_lt hlt]
    have hh : F64.halfEven 0 (num * 2 ^ 1074) den = 0 := by
      unfold F64.halfEven
      generalize num * 2 ^ 1074 = A at *
      rw [if_neg (by omega)]
      by_cases h2 : 2 * A < den
      · rw [if_pos h2]
      · rw [if_neg h2, if_neg (by decide)]
    rw [hh, if_neg (by decide)]
    rcases finish_cases' neg 0 (-1074) with ⟨h1, _⟩ | ⟨_, h2⟩
    · omega
    · rw [h2, minExp_eq]

/-! ## signed fractions: `ofQ` -/

theorem sg_natAbs (n : Int) : sg (decide (n < 0)) n.natAbs = n := by
  unfold sg
  by_cases h : n < 0
  · simp only [h, decide_true, if_true]; omega
  · simp only [h, decide_false, Bool.false_eq_true, if_false]; omega

theorem num_zero (z : Bool) (e : Int) : num (.fin z 0 e) = 0 := by
  cases z <;> simp [num]

theorem wf_zero (z : Bool) : F64.WF (.fin z 0 F64.minExp) :=
  ⟨fun _ => rfl, fun h => absurd h (by decide)⟩

/-- a zero is nearest to `0` -/
theorem nearest_zero (d : Nat) (z : Bool) : Nearest 0 d (.fin z 0 F64.minExp) := by
  refine ⟨rfl, wf_zero z, ?_, fun _ _ _ _ _ => rfl⟩
  intro y _ _
  unfold DistLe
  rw [num_zero]
  simp

set_option exponentiation.threshold 2000 in
theorem thr_pos : 0 < 2 ^ 1024 - 2 ^ 970 := by
  have : (2 : Nat) ^ 970 < 2 ^ 1024 := Nat.pow_lt_pow_right (by decide) (by decide)
  omega

/-- **IEEE-754 round-to-nearest-even of the fraction `n/d`** as a relation: overflow to the infinity of the sign of
    `n` from `2^1024 − 2^970` on, otherwise the nearest finite double (ties to even) with the sign of `n` -/
def Rounds (n : Int) (d : Nat) (x : F64) : Prop :=
  ((2 ^ 1024 - 2 ^ 970) * d ≤ n.natAbs ∧ x = .inf (decide (n < 0))) ∨
  (n.natAbs < (2 ^ 1024 - 2 ^ 970) * d ∧ Nearest n d x ∧ (n ≠ 0 → x.signBit = decide (n < 0)))

theorem ofQ_zero (d : Nat) (z : Bool) : F64.ofQ 0 d z = .fin z 0 F64.minExp := by
  unfold F64.ofQ; rw [if_pos rfl]

/-- **`ofQ n d z` is the IEEE rounding of `n/d`** -/
theorem ofQ_rounds (n : Int) {d : Nat} (hd : 0 < d) (z : Bool) : Rounds n d (F64.ofQ n d z) := by
  by_cases hn : n = 0
  · subst hn
    rw [ofQ_zero]
    right
    refine ⟨?_, nearest_zero d z, fun h => absurd rfl h⟩
    set_option exponentiation.threshold 2000 in exact Nat.mul_pos thr_pos hd
  · have hna : 0 < n.natAbs := by omega
    unfold F64.ofQ
    rw [if_neg hn]
    by_cases hthr : (2 ^ 1024 - 2 ^ 970) * d ≤ n.natAbs
    · left
      exact ⟨hthr, (roundPos_inf_iff _ hd).mpr hthr⟩
    · right
      refine ⟨by omega, ?_⟩
      rcases roundPos_sign (decide (n < 0)) n.natAbs d with h | ⟨m, e, h⟩
      · exact absurd ((roundPos_inf_iff _ hd).mp h) hthr
      · have := roundPos_nearest (decide (n < 0)) hna hd h rfl
        rw [sg_natAbs] at this
        rw [h]
        exact ⟨this, fun _ => rfl⟩

/-! ## consequences of `Rounds` -/

theorem rounds_zero {d : Nat} (hd : 0 < d) (z : Bool) : Rounds 0 d (.fin z 0 F64.minExp) := by
  have := ofQ_rounds 0 hd z
  rwa [ofQ_zero] at this

/-- a rounded result is infinite exactly from the overflow threshold on -/
theorem rounds_inf_iff {n : Int} {d : Nat} {x : F64} (h : Rounds n d x) :
    x.isInf = true ↔ (2 ^ 1024 - 2 ^ 970) * d ≤ n.natAbs := by
  rcases h with ⟨h1, h2⟩ | ⟨h1, h2, _⟩
  · subst h2; exact ⟨fun _ => h1, fun _ => rfl⟩
  · constructor
    · intro hi
      have hf := h2.finite
      cases x <;> simp [F64.isInf, F64.isFinite] at hi hf
    · intro hle; omega

/-- a rounded result is never NaN -/
theorem rounds_not_nan {n : Int} {d : Nat} {x : F64} (h : Rounds n d x) : x.isNaN = false := by
  rcases h with ⟨_, h2⟩ | ⟨_, h2, _⟩
  · subst h2; rfl
  · have hf := h2.finite
    cases x <;> simp [F64.isNaN, F64.isFinite] at hf ⊢

/-- below the threshold the result is the nearest finite double -/
theorem rounds_nearest {n : Int} {d : Nat} {x : F64} (h : Rounds n d x)
    (hlt : n.natAbs < (2 ^ 1024 - 2 ^ 970) * d) : Nearest n d x := by
  rcases h with ⟨h1, _⟩ | ⟨_, h2, _⟩
  · omega
  · exact h2

theorem rounds_finite {n : Int} {d : Nat} {x : F64} (h : Rounds n d x) (hf : x.isFinite = true) :
    Nearest n d x ∧ n.natAbs < (2 ^ 1024 - 2 ^ 970) * d := by
  rcases h with ⟨_, h2⟩ | ⟨h1, h2, _⟩
  · subst h2; cases hf
  · exact ⟨h2, h1⟩

theorem num_neg (x : F64) : num (F64.neg x) = - num x := by
  cases x with
  | nan => rfl
  | inf _ => rfl
  | fin n m e => cases n <;> simp [F64.neg, num]

theorem den_neg (x : F64) : den (F64.neg x) = den x := by
  cases x <;> rfl

theorem num_ne_zero {n : Bool} {m : Nat} {e : Int} (hm : m ≠ 0) : num (.fin n m e) ≠ 0 := by
  have : 0 < m * 2 ^ e.toNat := Nat.mul_pos (Nat.pos_of_ne_zero hm) (two_pow_pos _)
  cases n <;> simp only [num, if_true, if_false, Bool.false_eq_true] <;> omega

theorem num_eq_zero_iff (n : Bool) (m : Nat) (e : Int) : num (.fin n m e) = 0 ↔ m = 0 := by
  constructor
  · intro h
    apply Classical.byContradiction
    intro hm
    exact num_ne_zero hm h
  · intro h; subst h; exact num_zero n e

/-! ## `scale10`: the shortcuts agree with the rounding -/

set_option exponentiation.threshold 2000 in
theorem thr_le_pow10 : 2 ^ 1024 - 2 ^ 970 ≤ 10 ^ 310 := by decide +kernel

set_option exponentiation.threshold 2000 in
theorem pow2_1075_le : 2 ^ 1075 ≤ 10 ^ 331 := by decide +kernel

set_option exponentiation.threshold 2000 in
/-- **`scale10 neg m e` is `roundPos` of the fraction `m * 10^e`**, for every `m` and `e`: the two shortcuts
    (more than 310 / fewer than −330 decimal digits before the point) return what the rounding would -/
theorem scale10_eq_roundPos (neg : Bool) (m : Nat) (e : Int) :
    Decimal.scale10 neg m e = F64.roundPos neg (m * 10 ^ e.toNat) (10 ^ (-e).toNat) := by
  rw [scale10_unif]
  by_cases hm : m = 0
  · subst hm
    rw [if_pos rfl, Nat.zero_mul]
    unfold F64.roundPos
    rw [if_pos rfl]
  rw [if_neg hm]
  have hmpos : 0 < m := Nat.pos_of_ne_zero hm
  have hdp := digitCount_pos m
  have h1 := pow_digitCount_le m hmpos
  have h2 := lt_pow_digitCount m
  have hden : 0 < 10 ^ (-e).toNat := Nat.pow_pos (by decide)
  generalize Decimal.digitCount m = dc at *
  by_cases hbig : (dc : Int) + e > 310
  · rw [if_pos hbig]
    symm
    rw [roundPos_inf_iff neg hden]
    -- 10^(dc-1) * 10^e⁺ = 10^(310 + e⁻ + j)
    obtain ⟨j, hj⟩ : ∃ j : Nat, dc - 1 + e.toNat = 310 + (-e).toNat + j := ⟨dc - 1 + e.toNat - 310 - (-e).toNat, by omega⟩
    have a1 : 10 ^ (dc - 1) * 10 ^ e.toNat ≤ m * 10 ^ e.toNat := Nat.mul_le_mul_right _ h1
    have a2 : 10 ^ (dc - 1) * 10 ^ e.toNat = 10 ^ 310 * 10 ^ (-e).toNat * 10 ^ j := by
      rw [← Nat.pow_add 10 310, ← Nat.pow_add 10 (310 + (-e).toNat), ← Nat.pow_add 10 (dc - 1), hj]
    have a3 : 10 ^ 310 * 10 ^ (-e).toNat * 1 ≤ 10 ^ 310 * 10 ^ (-e).toNat * 10 ^ j :=
      Nat.mul_le_mul_left _ (Nat.pow_pos (by decide))
    have a4 : (2 ^ 1024 - 2 ^ 970) * 10 ^ (-e).toNat ≤ 10 ^ 310 * 10 ^ (-e).toNat :=
      Nat.mul_le_mul_right _ thr_le_pow10
    rw [a2] at a1
    rw [Nat.mul_one] at a3
    exact Nat.le_trans a4 (Nat.le_trans a3 a1)
  · rw [if_neg hbig]
    by_cases hsmall : (dc : Int) + e < -330
    · rw [if_pos hsmall]
      symm
      rw [roundPos_zero_iff neg hden]
      obtain ⟨j, hj⟩ : ∃ j : Nat, (-e).toNat = dc + e.toNat + 331 + j := ⟨(-e).toNat - dc - e.toNat - 331, by omega⟩
      have b1 : m * 10 ^ e.toNat ≤ 10 ^ dc * 10 ^ e.toNat := Nat.mul_le_mul_right _ (Nat.le_of_lt h2)
      have b2 : 10 ^ (-e).toNat = 10 ^ dc * 10 ^ e.toNat * 10 ^ 331 * 10 ^ j := by
        rw [← Nat.pow_add, ← Nat.pow_add, ← Nat.pow_add, hj]
      have b3 : m * 10 ^ e.toNat * 2 ^ 1075 ≤ 10 ^ dc * 10 ^ e.toNat * 10 ^ 331 :=
        Nat.mul_le_mul b1 pow2_1075_le
      have b4 : 10 ^ dc * 10 ^ e.toNat * 10 ^ 331 * 1 ≤ 10 ^ dc * 10 ^ e.toNat * 10 ^ 331 * 10 ^ j :=
        Nat.mul_le_mul_left _ (Nat.pow_pos (by decide))
      rw [Nat.mul_one] at b4
      rw [b2]
      exact Nat.le_trans b3 b4
    · rw [if_neg hsmall]

theorem sg_facts (neg : Bool) {A : Nat} (hA : 0 < A) :
    sg neg A ≠ 0 ∧ decide (sg neg A < 0) = neg ∧ (sg neg A).natAbs = A := by
  cases neg
  · refine ⟨?_, ?_, ?_⟩
    · show ((A : Nat) : Int) ≠ 0; omega
    · show decide (((A : Nat) : Int) < 0) = false; simp
    · show ((A : Nat) : Int).natAbs = A; omega
  · refine ⟨?_, ?_, ?_⟩
    · show -((A : Nat) : Int) ≠ 0; omega
    · show decide (-((A : Nat) : Int) < 0) = true; simp; omega
    · show (-((A : Nat) : Int)).natAbs = A; omega

/-- **the decimal `(-1)^neg * m * 10^e` is rounded correctly** -/
theorem scale10_rounds (neg : Bool) {m : Nat} (hm : m ≠ 0) (e : Int) :
    Rounds (sg neg (m * 10 ^ e.toNat)) (10 ^ (-e).toNat) (Decimal.scale10 neg m e) := by
  have hden : 0 < 10 ^ (-e).toNat := Nat.pow_pos (by decide)
  have hnum : 0 < m * 10 ^ e.toNat := Nat.mul_pos (Nat.pos_of_ne_zero hm) (Nat.pow_pos (by decide))
  have h := ofQ_rounds (sg neg (m * 10 ^ e.toNat)) hden false
  unfold F64.ofQ at h
  obtain ⟨hne, hs, ha⟩ := sg_facts neg hnum
  rw [if_neg hne, hs, ha] at h
  rw [scale10_eq_roundPos]
  exact h

theorem scale10_zero (neg : Bool) (e : Int) : Decimal.scale10 neg 0 e = .fin neg 0 F64.minExp := by
  unfold Decimal.scale10; rw [if_pos rfl]

/-! # The specification is tight: it depends only on the rational, and it determines the value -/

/-! ## 1. only the rational number matters -/

theorem natAbs_mul_nat (a : Int) (t : Nat) : (a * (t : Int)).natAbs = a.natAbs * t := by
  rw [Int.natAbs_mul, Int.natAbs_natCast]

theorem distLe_scale (n : Int) (d t : Nat) (ht : 0 < t) (x y : F64) :
    DistLe (n * (t : Int)) (d * t) x y ↔ DistLe n d x y := by
  unfold DistLe
  have e1 : ∀ (a : Int) (c : Nat),
      n * (t : Int) * (c : Int) - a * ((d * t : Nat) : Int) = (n * (c : Int) - a * (d : Int)) * (t : Int) := by
    intro a c
    rw [Int.natCast_mul]
    grind
  rw [e1, e1, natAbs_mul_nat, natAbs_mul_nat]
  generalize (n * (den x : Int) - num x * (d : Int)).natAbs = a
  generalize (n * (den y : Int) - num y * (d : Int)).natAbs = b
  have g1 : a * t * den y = (a * den y) * t := by ac_rfl
  have g2 : b * t * den x = (b * den x) * t := by ac_rfl
  rw [g1, g2]
  exact Nat.mul_le_mul_right_iff ht

theorem distLe_congr {n n' : Int} {d d' : Nat} (hd : 0 < d) (hd' : 0 < d')
    (h : n * (d' : Int) = n' * (d : Int)) (x y : F64) : DistLe n d x y ↔ DistLe n' d' x y := by
  rw [← distLe_scale n d d' hd' x y, ← distLe_scale n' d' d hd x y, h, Nat.mul_comm d d']

theorem sameVal_refl (x : F64) : SameVal x x := rfl

theorem nearest_congr {n n' : Int} {d d' : Nat} (hd : 0 < d) (hd' : 0 < d')
    (h : n * (d' : Int) = n' * (d : Int)) (x : F64) : Nearest n d x ↔ Nearest n' d' x := by
  constructor
  · intro hx
    exact ⟨hx.finite, hx.wf,
      fun y hf hw => (distLe_congr hd hd' h x y).mp (hx.closest y hf hw),
      fun y hf hw hne hle => hx.tiesEven y hf hw hne ((distLe_congr hd hd' h y x).mpr hle)⟩
  · intro hx
    exact ⟨hx.finite, hx.wf,
      fun y hf hw => (distLe_congr hd hd' h x y).mpr (hx.closest y hf hw),
      fun y hf hw hne hle => hx.tiesEven y hf hw hne ((distLe_congr hd hd' h y x).mp hle)⟩

/-- the sign of a fraction depends only on the rational -/
theorem neg_congr {n n' : Int} {d d' : Nat} (hd : 0 < d) (hd' : 0 < d')
    (h : n * (d' : Int) = n' * (d : Int)) : n < 0 ↔ n' < 0 := by
  have pd : (0 : Int) < (d : Int) := by omega
  have pd' : (0 : Int) < (d' : Int) := by omega
  constructor
  · intro hn
    have h1 : n * (d' : Int) < 0 := Int.mul_neg_of_neg_of_pos hn pd'
    apply Classical.byContradiction
    intro hn'
    have h2 : 0 ≤ n' * (d : Int) := Int.mul_nonneg (by omega) (by omega)
    omega
  · intro hn
    have h1 : n' * (d : Int) < 0 := Int.mul_neg_of_neg_of_pos hn pd
    apply Classical.byContradiction
    intro hn'
    have h2 : 0 ≤ n * (d' : Int) := Int.mul_nonneg (by omega) (by omega)
    omega

theorem zero_congr {n n' : Int} {d d' : Nat} (hd : 0 < d) (hd' : 0 < d')
    (h : n * (d' : Int) = n' * (d : Int)) : n = 0 ↔ n' = 0 := by
  have pd : (d : Int) ≠ 0 := by omega
  have pd' : (d' : Int) ≠ 0 := by omega
  constructor
  · intro hn
    subst hn
    rw [Int.zero_mul] at h
    rcases Int.mul_eq_zero.mp h.symm with h0 | h0
    · exact h0
    · exact absurd h0 pd
  · intro hn
    subst hn
    rw [Int.zero_mul] at h
    rcases Int.mul_eq_zero.mp h with h0 | h0
    · exact h0
    · exact absurd h0 pd'

/-- comparison of `|n/d|` with a natural threshold depends only on the rational -/
theorem thr_congr {n n' : Int} {d d' : Nat} (hd : 0 < d) (hd' : 0 < d')
    (h : n * (d' : Int) = n' * (d : Int)) (C : Nat) : C * d ≤ n.natAbs ↔ C * d' ≤ n'.natAbs := by
  have hab : n.natAbs * d' = n'.natAbs * d := by
    have := congrArg Int.natAbs h
    rwa [natAbs_mul_nat, natAbs_mul_nat] at this
  have e1 : C * d ≤ n.natAbs ↔ C * d * d' ≤ n.natAbs * d' := (Nat.mul_le_mul_right_iff hd').symm
  have e2 : C * d' ≤ n'.natAbs ↔ C * d' * d ≤ n'.natAbs * d := (Nat.mul_le_mul_right_iff hd).symm
  have : C * d * d' = C * d' * d := by ac_rfl
  rw [e1, e2, hab, this]

theorem rounds_congr {n n' : Int} {d d' : Nat} (hd : 0 < d) (hd' : 0 < d')
    (h : n * (d' : Int) = n' * (d : Int)) (x : F64) : Rounds n d x ↔ Rounds n' d' x := by
  unfold Rounds
  have hneg : decide (n < 0) = decide (n' < 0) := by
    have := neg_congr hd hd' h
    by_cases hn : n < 0
    · have hn' := this.mp hn
      simp [hn, hn']
    · have hn' : ¬ n' < 0 := fun c => hn (this.mpr c)
      simp [hn, hn']
  have hzero : n ≠ 0 ↔ n' ≠ 0 := not_congr (zero_congr hd hd' h)
  have hthr := thr_congr hd hd' h (2 ^ 1024 - 2 ^ 970)
  have hnear := nearest_congr hd hd' h x
  generalize 2 ^ 1024 - 2 ^ 970 = C at *
  have hlt : n.natAbs < C * d ↔ n'.natAbs < C * d' := by
    rw [← Nat.not_le, ← Nat.not_le]
    exact not_congr hthr
  rw [hneg, hthr, hlt, hnear, hzero]

/-! ## 2. exact values -/

theorem nearest_exact {n : Int} {d : Nat} (hd : 0 < d) {x y : F64} (hx : Nearest n d x)
    (hyf : y.isFinite = true) (hyw : F64.WF y) (hy : n * (den y : Int) = num y * (d : Int)) : SameVal x y := by
  have hc := hx.closest y hyf hyw
  unfold DistLe at hc
  have h0 : n * (den y : Int) - num y * (d : Int) = 0 := by omega
  rw [h0, Int.natAbs_zero, Nat.zero_mul] at hc
  have hyp := den_pos y
  have hz : (n * (den x : Int) - num x * (d : Int)).natAbs = 0 := by
    rcases Nat.mul_eq_zero.mp (Nat.le_zero.mp hc) with h1 | h1
    · exact h1
    · omega
  have hxe : n * (den x : Int) = num x * (d : Int) := by omega
  unfold SameVal
  have pd : (d : Int) ≠ 0 := by omega
  have : (num x * (den y : Int)) * (d : Int) = (num y * (den x : Int)) * (d : Int) := by grind
  exact Int.eq_of_mul_eq_mul_right pd this

/-! ## 3. uniqueness of the nearest value -/

/-- a point strictly between two points is strictly nearer to `A` than at least one of them -/
theorem between_false (A a b c : Int) (h1 : a < c) (h2 : c < b)
    (ha : (A - a).natAbs ≤ (A - c).natAbs) (hb : (A - b).natAbs ≤ (A - c).natAbs) : False := by
  omega

theorem even_mul_two_pow {m : Nat} (hm : m % 2 = 0) (i : Nat) : (m * 2 ^ i) % 2 = 0 := by
  have : m * 2 ^ i = 2 * (m / 2 * 2 ^ i) := by
    rw [← Nat.mul_assoc]
    congr 1
    omega
  rw [this]
  exact Nat.mul_mod_right 2 _

/-- fixed-point core of uniqueness: above an even-mantissa double `mx * 2^jx` the next candidate
    `(mx + 1) * 2^jx` is still strictly below any larger even-mantissa double -/
theorem next_lt {mx jx my jy : Nat} (hmx : mx % 2 = 0) (hmy : my % 2 = 0) (hy53 : my < 2 ^ 53)
    (hxn : 0 < jx → 2 ^ 52 ≤ mx) (h : mx * 2 ^ jx < my * 2 ^ jy) :
    (mx + 1) * 2 ^ jx < my * 2 ^ jy := by
  by_cases hj : jx ≤ jy
  · obtain ⟨i, rfl⟩ : ∃ i, jy = jx + i := ⟨jy - jx, by omega⟩
    have e : my * 2 ^ (jx + i) = (my * 2 ^ i) * 2 ^ jx := by rw [Nat.pow_add]; ac_rfl
    rw [e] at h ⊢
    have hlt : mx < my * 2 ^ i := Nat.lt_of_mul_lt_mul_right h
    have hev := even_mul_two_pow hmy i
    apply Nat.mul_lt_mul_of_pos_right _ (two_pow_pos jx)
    generalize my * 2 ^ i = W at *
    omega
  · exfalso
    obtain ⟨i, rfl⟩ : ∃ i, jx = jy + 1 + i := ⟨jx - jy - 1, by omega⟩
    have hm := hxn (by omega)
    have a1 : my * 2 ^ jy < 2 ^ 53 * 2 ^ jy := Nat.mul_lt_mul_of_pos_right hy53 (two_pow_pos jy)
    have a2 : 2 ^ 52 * 2 ^ (jy + 1 + i) ≤ mx * 2 ^ (jy + 1 + i) := Nat.mul_le_mul_right _ hm
    have a3 : 2 ^ 52 * 2 ^ (jy + 1 + i) = 2 ^ 53 * 2 ^ jy * 2 ^ i := by
      rw [Nat.pow_add, Nat.pow_add]
      have : (2 : Nat) ^ 53 = 2 ^ 52 * 2 ^ 1 := by rw [← Nat.pow_add]
      rw [this]; ac_rfl
    have a4 : 2 ^ 53 * 2 ^ jy * 1 ≤ 2 ^ 53 * 2 ^ jy * 2 ^ i := Nat.mul_le_mul_left _ (two_pow_pos i)
    omega

theorem sg_false (v : Nat) : sg false v = (v : Int) := rfl
theorem sg_true (v : Nat) : sg true v = -(v : Int) := rfl

theorem wf_full {s : Bool} {m : Nat} {e : Int} (h : F64.WF (.fin s m e)) :
    m < 2 ^ 53 ∧ -1074 ≤ e ∧ e ≤ 971 ∧ (m < 2 ^ 52 → e = -1074) :=
  wf_bounds (m := m) (e := e) h

/-- the successor mantissa of an even mantissa, at the same exponent, is again well formed -/
theorem wf_succ {s s' : Bool} {m : Nat} {e : Int} (h : F64.WF (.fin s m e)) (hm : m % 2 = 0) :
    F64.WF (.fin s' (m + 1) e) := by
  obtain ⟨a, b, c, dd⟩ := wf_full h
  unfold F64.WF
  rw [minExp_eq, maxExp_eq]
  exact ⟨fun h' => dd (by omega), fun _ => ⟨by omega, b, c⟩⟩

/-- the exponent in units is positive only for normal mantissas -/
theorem wf_norm {s : Bool} {m : Nat} {e : Int} (h : F64.WF (.fin s m e)) :
    0 < (e + 1074).toNat → 2 ^ 52 ≤ m := by
  obtain ⟨_, _, _, dd⟩ := wf_full h
  intro hj
  apply Classical.byContradiction
  intro hlt
  have := dd (by omega)
  omega

/-- `closest`, in units of `2^-1074` -/
theorem closest_units {n : Int} {d : Nat} {sx : Bool} {mx : Nat} {ex : Int}
    (hx : Nearest n d (.fin sx mx ex)) (sz : Bool) (mz : Nat) (ez : Int) (hz : F64.WF (.fin sz mz ez)) :
    (n * ((2 ^ 1074 : Nat) : Int) - sg sx (mx * 2 ^ (ex + 1074).toNat) * (d : Int)).natAbs ≤
    (n * ((2 ^ 1074 : Nat) : Int) - sg sz (mz * 2 ^ (ez + 1074).toNat) * (d : Int)).natAbs :=
  (distLe_iff n d sx mx ex sz mz ez (wf_exp hx.wf).1 (wf_exp hz).1).mp (hx.closest _ rfl hz)

/-- no well-formed double lies strictly between two nearest doubles -/
theorem no_between {n : Int} {d : Nat} (hd : 0 < d) {sx sy : Bool} {mx my : Nat} {ex ey : Int}
    (hx : Nearest n d (.fin sx mx ex)) (hy : Nearest n d (.fin sy my ey))
    (sz : Bool) (mz : Nat) (ez : Int) (hz : F64.WF (.fin sz mz ez))
    (h1 : sg sx (mx * 2 ^ (ex + 1074).toNat) < sg sz (mz * 2 ^ (ez + 1074).toNat))
    (h2 : sg sz (mz * 2 ^ (ez + 1074).toNat) < sg sy (my * 2 ^ (ey + 1074).toNat)) : False := by
  have cx := closest_units hx sz mz ez hz
  have cy := closest_units hy sz mz ez hz
  have pd : (0 : Int) < (d : Int) := by omega
  have p1 := Int.mul_lt_mul_of_pos_right h1 pd
  have p2 := Int.mul_lt_mul_of_pos_right h2 pd
  exact between_false _ _ _ _ p1 p2 cx cy

/-- the asymmetric half of uniqueness -/
theorem unique_lt {n : Int} {d : Nat} (hd : 0 < d) {sx sy : Bool} {mx my : Nat} {ex ey : Int}
    (hx : Nearest n d (.fin sx mx ex)) (hy : Nearest n d (.fin sy my ey))
    (hlt : sg sx (mx * 2 ^ (ex + 1074).toNat) < sg sy (my * 2 ^ (ey + 1074).toNat)) : False := by
  have hex := (wf_exp hx.wf).1
  have hey := (wf_exp hy.wf).1
  have hy53 := (wf_exp hy.wf).2
  have hx53 := (wf_exp hx.wf).2
  -- both mantissas are even
  have hne : ¬ SameVal (.fin sx mx ex) (.fin sy my ey) := by
    rw [sameVal_iff _ _ _ _ _ _ hex hey]; omega
  have hne' : ¬ SameVal (.fin sy my ey) (.fin sx mx ex) := by
    rw [sameVal_iff _ _ _ _ _ _ hey hex]; omega
  have hmx : mx % 2 = 0 := hx.tiesEven _ rfl hy.wf hne (hy.closest _ rfl hx.wf)
  have hmy : my % 2 = 0 := hy.tiesEven _ rfl hx.wf hne' (hx.closest _ rfl hy.wf)
  have hPx := two_pow_pos (ex + 1074).toNat
  have hPy := two_pow_pos (ey + 1074).toNat
  -- the successor of `x` (away from zero) and of `y`
  have upx : mx * 2 ^ (ex + 1074).toNat < (mx + 1) * 2 ^ (ex + 1074).toNat :=
    Nat.mul_lt_mul_of_pos_right (Nat.lt_succ_self mx) hPx
  have upy : my * 2 ^ (ey + 1074).toNat < (my + 1) * 2 ^ (ey + 1074).toNat :=
    Nat.mul_lt_mul_of_pos_right (Nat.lt_succ_self my) hPy
  have nx := fun h => next_lt (mx := mx) (jx := (ex + 1074).toNat) (my := my) (jy := (ey + 1074).toNat)
    hmx hmy hy53 (wf_norm hx.wf) h
  have ny := fun h => next_lt (mx := my) (jx := (ey + 1074).toNat) (my := mx) (jy := (ex + 1074).toNat)
    hmy hmx hx53 (wf_norm hy.wf) h
  have zx : F64.WF (.fin false (mx + 1) ex) := wf_succ hx.wf hmx
  have zy : F64.WF (.fin true (my + 1) ey) := wf_succ hy.wf hmy
  have bx := no_between hd hx hy false (mx + 1) ex zx
  have by' := no_between hd hx hy true (my + 1) ey zy
  have b0 := no_between hd hx hy false 0 F64.minExp (wf_zero false)
  rw [Nat.zero_mul] at b0
  generalize mx * 2 ^ (ex + 1074).toNat = X at *
  generalize my * 2 ^ (ey + 1074).toNat = Y at *
  generalize (mx + 1) * 2 ^ (ex + 1074).toNat = X1 at *
  generalize (my + 1) * 2 ^ (ey + 1074).toNat = Y1 at *
  cases sx <;> cases sy <;> simp only [sg_false, sg_true] at hlt bx by' b0
  · -- 0 ≤ X < Y
    exact bx (by omega) (by have := nx (by omega); omega)
  · omega
  · -- -X < Y
    by_cases hX0 : X = 0
    · exact bx (by omega) (by have := nx (by omega); omega)
    · by_cases hY0 : Y = 0
      · exact by' (by have := ny (by omega); omega) (by omega)
      · exact b0 (by omega) (by omega)
  · -- -X < -Y
    exact by' (by have := ny (by omega); omega) (by omega)

theorem nearest_unique {n : Int} {d : Nat} (hd : 0 < d) {x y : F64} (hx : Nearest n d x) (hy : Nearest n d y) :
    SameVal x y := by
  cases x with
  | nan => exact absurd hx.finite (by decide)
  | inf _ => exact absurd hx.finite (fun h => by cases h)
  | fin sx mx ex =>
    cases y with
    | nan => exact absurd hy.finite (by decide)
    | inf _ => exact absurd hy.finite (fun h => by cases h)
    | fin sy my ey =>
      rw [sameVal_iff _ _ _ _ _ _ (wf_exp hx.wf).1 (wf_exp hy.wf).1]
      apply Classical.byContradiction
      intro hne
      rcases Int.lt_or_gt_of_ne hne with h | h
      · exact unique_lt hd hx hy h
      · exact unique_lt hd hy hx h

/-- consequence: the finite case of `Rounds` determines the value, the infinite case the double itself -/
theorem rounds_unique {n : Int} {d : Nat} (hd : 0 < d) {x y : F64} (hx : Rounds n d x) (hy : Rounds n d y) :
    (x = y ∧ x.isFinite = false) ∨ (x.isFinite = true ∧ y.isFinite = true ∧ SameVal x y) := by
  rcases hx with ⟨a, rfl⟩ | ⟨a, nx, _⟩ <;> rcases hy with ⟨b, rfl⟩ | ⟨b, ny, _⟩
  · exact Or.inl ⟨rfl, rfl⟩
  · omega
  · omega
  · exact Or.inr ⟨nx.finite, ny.finite, nearest_unique hd nx ny⟩

/-! ## integer → double -/

/-- **`float64(i)` is `i` correctly rounded** -/
theorem ofInt_rounds (i : Int) : Rounds i 1 (F64.ofInt i) := ofQ_rounds i (by decide) false

/-- for an int64 (indeed up to `2^1023`) the conversion is finite, hence the nearest double -/
theorem ofInt_nearest (i : Int) (h : i.natAbs ≤ 2 ^ 63) : Nearest i 1 (F64.ofInt i) := by
  apply rounds_nearest (ofInt_rounds i)
  omega

/-! # Specification ⟺ implementation: canonical forms, functionality, monotonicity -/

/-! ## 1. canonical representation is unique -/

/-- asymmetric half of `units_inj` -/
theorem units_lt_false {mx jx my jy : Nat} (h : mx * 2 ^ jx = my * 2 ^ jy) (hx : mx < 2 ^ 53)
    (ny : 0 < jy → 2 ^ 52 ≤ my) (hlt : jx < jy) : False := by
  obtain ⟨i, rfl⟩ : ∃ i, jy = jx + 1 + i := ⟨jy - jx - 1, by omega⟩
  have hm := ny (by omega)
  have e : my * 2 ^ (jx + 1 + i) = (my * 2 * 2 ^ i) * 2 ^ jx := by
    rw [Nat.pow_add, Nat.pow_add, Nat.pow_one]; ac_rfl
  rw [e] at h
  have hmx : mx = my * 2 * 2 ^ i := Nat.eq_of_mul_eq_mul_right (two_pow_pos jx) h
  have a : my * 2 * 1 ≤ my * 2 * 2 ^ i := Nat.mul_le_mul_left _ (two_pow_pos i)
  omega

/-- fixed-point core: a natural has at most one representation `m * 2^j` with `m < 2^53` that is normal
    (`2^52 ≤ m`) whenever `j > 0` -/
theorem units_inj {mx jx my jy : Nat} (h : mx * 2 ^ jx = my * 2 ^ jy) (hx : mx < 2 ^ 53) (hy : my < 2 ^ 53)
    (nx : 0 < jx → 2 ^ 52 ≤ mx) (ny : 0 < jy → 2 ^ 52 ≤ my) : jx = jy ∧ mx = my := by
  have hj : jx = jy := by
    rcases Nat.lt_trichotomy jx jy with hlt | heq | hgt
    · exact (units_lt_false h hx ny hlt).elim
    · exact heq
    · exact (units_lt_false h.symm hy nx hgt).elim
  subst hj
  exact ⟨rfl, Nat.eq_of_mul_eq_mul_right (two_pow_pos jx) h⟩

theorem sg_inj {b : Bool} {v w : Nat} (h : sg b v = sg b w) : v = w := by
  cases b <;> simp only [sg_false, sg_true] at h <;> omega

/-- **canonical form is unique**: two finite well-formed doubles of the same value and sign bit are equal -/
theorem wf_sameVal_eq {x y : F64} (hxf : x.isFinite = true) (hyf : y.isFinite = true) (hx : F64.WF x) (hy : F64.WF y)
    (hv : SameVal x y) (hs : x.signBit = y.signBit) : x = y := by
  cases x with
  | nan => cases hxf
  | inf _ => cases hxf
  | fin sx mx ex =>
    cases y with
    | nan => cases hyf
    | inf _ => cases hyf
    | fin sy my ey =>
      have hs' : sx = sy := hs
      subst hs'
      obtain ⟨hex, hx53⟩ := wf_exp hx
      obtain ⟨hey, hy53⟩ := wf_exp hy
      rw [sameVal_iff _ _ _ _ _ _ hex hey] at hv
      have hu := sg_inj hv
      obtain ⟨hj, hm⟩ := units_inj hu hx53 hy53 (wf_norm hx) (wf_norm hy)
      have he : ex = ey := by omega
      rw [hm, he]

/-- a well-formed finite double of value zero is `±0` -/
theorem wf_zero_val {x : F64} (hxf : x.isFinite = true) (hx : F64.WF x) (h0 : num x = 0) :
    ∃ z, x = .fin z 0 F64.minExp := by
  cases x with
  | nan => cases hxf
  | inf _ => cases hxf
  | fin s m e =>
    have hm : m = 0 := (num_eq_zero_iff s m e).mp h0
    subst hm
    have he : e = F64.minExp := hx.1 (by decide)
    subst he
    exact ⟨s, rfl⟩

/-! ## 2. the specification is functional, and `ofQ` is its function -/

/-- **`Rounds n d` determines the double** (for `n ≠ 0`; for `n = 0` both zeros are allowed, `rounds_zero_iff`) -/
theorem rounds_functional {n : Int} {d : Nat} (hd : 0 < d) (hn : n ≠ 0) {x y : F64}
    (hx : Rounds n d x) (hy : Rounds n d y) : x = y := by
  rcases hx with ⟨a, rfl⟩ | ⟨a, nx, sx⟩ <;> rcases hy with ⟨b, rfl⟩ | ⟨b, ny, sy⟩
  · rfl
  · omega
  · omega
  · exact wf_sameVal_eq nx.finite ny.finite nx.wf ny.wf (nearest_unique hd nx ny) ((sx hn).trans (sy hn).symm)

/-- **specification ⟺ implementation** -/
theorem rounds_iff_ofQ {n : Int} {d : Nat} (hd : 0 < d) (hn : n ≠ 0) (z : Bool) (x : F64) :
    Rounds n d x ↔ x = F64.ofQ n d z := by
  constructor
  · intro hx
    exact rounds_functional hd hn hx (ofQ_rounds n hd z)
  · intro hx
    subst hx
    exact ofQ_rounds n hd z

theorem rounds_zero_iff {d : Nat} (hd : 0 < d) (x : F64) :
    Rounds 0 d x ↔ ∃ z, x = .fin z 0 F64.minExp := by
  constructor
  · intro hx
    have hlt : (0 : Int).natAbs < (2 ^ 1024 - 2 ^ 970) * d := by
      set_option exponentiation.threshold 2000 in exact Nat.mul_pos thr_pos hd
    have hnx := rounds_nearest hx hlt
    have hv : SameVal x (.fin false 0 F64.minExp) := nearest_unique hd hnx (nearest_zero d false)
    unfold SameVal at hv
    rw [num_zero, Int.zero_mul] at hv
    have h0 : num x = 0 := by
      rcases Int.mul_eq_zero.mp hv with h | h
      · exact h
      · have := den_pos (.fin false 0 F64.minExp)
        omega
    exact wf_zero_val hnx.finite hnx.wf h0
  · rintro ⟨z, rfl⟩
    exact rounds_zero hd z

/-- for every `n` (zero included): `Rounds n d x` iff `x` is `ofQ n d z` for some sign-of-zero choice `z` -/
theorem rounds_iff_exists_ofQ {n : Int} {d : Nat} (hd : 0 < d) (x : F64) :
    Rounds n d x ↔ ∃ z, x = F64.ofQ n d z := by
  by_cases hn : n = 0
  · subst hn
    rw [rounds_zero_iff hd]
    constructor
    · rintro ⟨z, rfl⟩; exact ⟨z, (ofQ_zero d z).symm⟩
    · rintro ⟨z, rfl⟩; exact ⟨z, ofQ_zero d z⟩
  · constructor
    · intro h; exact ⟨false, (rounds_iff_ofQ hd hn false x).mp h⟩
    · rintro ⟨z, h⟩; exact (rounds_iff_ofQ hd hn z x).mpr h

/-! ## 3. monotonicity -/

/-- order of values, in units of `2^-1074` -/
theorem valLe_iff (nx : Bool) (mx : Nat) (ex : Int) (ny : Bool) (my : Nat) (ey : Int)
    (hx : -1074 ≤ ex) (hy : -1074 ≤ ey) :
    num (.fin nx mx ex) * (den (.fin ny my ey) : Int) ≤ num (.fin ny my ey) * (den (.fin nx mx ex) : Int) ↔
      sg nx (mx * 2 ^ (ex + 1074).toNat) ≤ sg ny (my * 2 ^ (ey + 1074).toNat) := by
  have sx := num_scale nx mx ex hx
  have sy := num_scale ny my ey hy
  have dxp := den_pos (.fin nx mx ex)
  have dyp := den_pos (.fin ny my ey)
  have hT := two_pow_pos 1074
  generalize num (.fin nx mx ex) = ax at *
  generalize num (.fin ny my ey) = ay at *
  generalize den (.fin nx mx ex) = dx at *
  generalize den (.fin ny my ey) = dy at *
  generalize sg nx (mx * 2 ^ (ex + 1074).toNat) = ux at *
  generalize sg ny (my * 2 ^ (ey + 1074).toNat) = uy at *
  generalize 2 ^ 1074 = T at *
  have hT' : (0 : Int) < (T : Int) := by omega
  have hd' : (0 : Int) < (dx : Int) * (dy : Int) := Int.mul_pos (by omega) (by omega)
  have e1 : (ax * (dy : Int)) * (T : Int) = ux * ((dx : Int) * (dy : Int)) := by grind
  have e2 : (ay * (dx : Int)) * (T : Int) = uy * ((dx : Int) * (dy : Int)) := by grind
  constructor
  · intro h
    have h1 := Int.mul_le_mul_of_nonneg_right h (Int.le_of_lt hT')
    rw [e1, e2] at h1
    exact Int.le_of_mul_le_mul_right h1 hd'
  · intro h
    have h1 := Int.mul_le_mul_of_nonneg_right h (Int.le_of_lt hd')
    rw [← e1, ← e2] at h1
    exact Int.le_of_mul_le_mul_right h1 hT'

/-- nearest-ness is monotone: a nearest double of a smaller fraction is not above one of a larger fraction -/
theorem nearest_mono {n n' : Int} {d : Nat} (hd : 0 < d) (hle : n ≤ n') {x y : F64}
    (hx : Nearest n d x) (hy : Nearest n' d y) :
    num x * (den y : Int) ≤ num y * (den x : Int) := by
  cases x with
  | nan => exact absurd hx.finite (by decide)
  | inf _ => exact absurd hx.finite (fun h => by cases h)
  | fin sx mx ex =>
    cases y with
    | nan => exact absurd hy.finite (by decide)
    | inf _ => exact absurd hy.finite (fun h => by cases h)
    | fin sy my ey =>
      have hex := (wf_exp hx.wf).1
      have hey := (wf_exp hy.wf).1
      by_cases hnn : n = n'
      · subst hnn
        exact Int.le_of_eq (nearest_unique hd hx hy)
      · rw [valLe_iff _ _ _ _ _ _ hex hey]
        apply Classical.byContradiction
        intro hgt
        have cx := closest_units hx sy my ey hy.wf
        have cy := closest_units hy sx mx ex hx.wf
        have hT := two_pow_pos 1074
        have pd : (0 : Int) < (d : Int) := by omega
        have pT : (0 : Int) < ((2 ^ 1074 : Nat) : Int) := by omega
        have hlt : n < n' := by omega
        have pA := Int.mul_lt_mul_of_pos_right hlt pT
        have pu := Int.mul_lt_mul_of_pos_right (Int.lt_of_not_ge hgt) pd
        generalize sg sx (mx * 2 ^ (ex + 1074).toNat) * (d : Int) = P at *
        generalize sg sy (my * 2 ^ (ey + 1074).toNat) * (d : Int) = Q at *
        generalize n * ((2 ^ 1074 : Nat) : Int) = A at *
        generalize n' * ((2 ^ 1074 : Nat) : Int) = A' at *
        omega

/-- **rounding is monotone** (finite results; with an infinite result the order of the values is the obvious one) -/
theorem rounds_mono {n n' : Int} {d : Nat} (hd : 0 < d) (hle : n ≤ n') {x y : F64}
    (hx : Rounds n d x) (hy : Rounds n' d y) (hxf : x.isFinite = true) (hyf : y.isFinite = true) :
    num x * (den y : Int) ≤ num y * (den x : Int) :=
  nearest_mono hd hle (rounds_finite hx hxf).1 (rounds_finite hy hyf).1

/-! # `fmod` is exact -/

/-! ## powers of two -/

theorem pow_units (m a b c d e : Nat) (h : a + b = c + d + e) :
    m * 2 ^ a * 2 ^ b = m * 2 ^ c * 2 ^ d * 2 ^ e := by
  rw [Nat.mul_assoc, ← Nat.pow_add, h, Nat.pow_add, Nat.pow_add, ← Nat.mul_assoc, ← Nat.mul_assoc]

theorem natAbs_num (n : Bool) (m : Nat) (e : Int) : (num (.fin n m e)).natAbs = m * 2 ^ e.toNat := by
  cases n
  · show (((m * 2 ^ e.toNat : Nat) : Int)).natAbs = _
    exact Int.natAbs_natCast _
  · show (-((m * 2 ^ e.toNat : Nat) : Int)).natAbs = _
    rw [Int.natAbs_neg]
    exact Int.natAbs_natCast _

/-- the fraction `r * 2^lo` at an exponent `E ≤ lo` is the integer `r * 2^(lo - E)` -/
theorem ND_exact (r : Nat) (lo E : Int) (j : Nat) (h : lo = E + j) :
    N (r * 2 ^ lo.toNat) E = (r * 2 ^ j) * D (2 ^ (-lo).toNat) E := by
  unfold N D
  have : lo.toNat + (-E).toNat = j + ((-lo).toNat + E.toNat) := by omega
  rw [Nat.mul_assoc, Nat.mul_assoc, ← Nat.pow_add, ← Nat.pow_add, ← Nat.pow_add, this]

/-! ## `roundPos` of a representable value -/

/-- `r * 2^lo` with `r < 2^53` and `lo` in the exponent range is a double; `roundPos` returns it (normalised) -/
theorem roundPos_pow2_exact (neg : Bool) {r : Nat} {lo : Int} (hr0 : 0 < r) (hr : r < 2 ^ 53)
    (h1 : -1074 ≤ lo) (h2 : lo ≤ 971) :
    ∃ (E : Int) (j : Nat), lo = E + j ∧ F64.WF (.fin neg (r * 2 ^ j) E) ∧
      F64.roundPos neg (r * 2 ^ lo.toNat) (2 ^ (-lo).toNat) = .fin neg (r * 2 ^ j) E := by
  have hn : 0 < r * 2 ^ lo.toNat := Nat.mul_pos hr0 (two_pow_pos _)
  have hd : 0 < 2 ^ (-lo).toNat := two_pow_pos _
  obtain ⟨e1, e2, e3⟩ := pickExp_spec hn hd
  rw [minExp_eq] at e1 e3
  generalize hE : F64.pickExp (r * 2 ^ lo.toNat) (2 ^ (-lo).toNat) = E at *
  have hQlo : Q (r * 2 ^ lo.toNat) (2 ^ (-lo).toNat) lo = r := by
    unfold Q
    have := ND_exact r lo lo 0 (by simp)
    rw [this, Nat.pow_zero, Nat.mul_one, Nat.mul_div_cancel _ (D_pos hd lo)]
  have hEle : E ≤ lo := by
    apply Classical.byContradiction
    intro hlt
    have hj : E = lo + ((E - lo).toNat : Nat) := by omega
    have hle := Q_add_le (r * 2 ^ lo.toNat) (2 ^ (-lo).toNat) lo (E - lo).toNat (by omega)
    rw [← hj, hQlo] at hle
    rcases e3 with h | h <;> omega
  obtain ⟨j, hj⟩ : ∃ j : Nat, lo = E + j := ⟨(lo - E).toNat, by omega⟩
  have hND := ND_exact r lo E j hj
  have hQE : Q (r * 2 ^ lo.toNat) (2 ^ (-lo).toNat) E = r * 2 ^ j := by
    unfold Q
    rw [hND, Nat.mul_div_cancel _ (D_pos hd E)]
  rw [hQE] at e2 e3
  refine ⟨E, j, hj, ?_, ?_⟩
  · unfold F64.WF
    rw [minExp_eq, maxExp_eq]
    refine ⟨fun h => ?_, fun _ => ⟨e2, e1, by omega⟩⟩
    rcases e3 with h' | h'
    · omega
    · exact h'
  · have hD := D_pos hd E
    apply roundPos_mid neg hn hd (by rw [minExp_eq]; exact e1) (by rw [maxExp_eq]; omega) e2
    · rw [hND]
      generalize r * 2 ^ j * D (2 ^ (-lo).toNat) E = v
      omega
    · rw [hND]
      generalize r * 2 ^ j * D (2 ^ (-lo).toNat) E = v
      omega
    · rcases e3 with h | h
      · left; rw [hND]; exact Nat.mul_le_mul_right _ h
      · right; rw [minExp_eq]; exact h

/-! ## the shape of `fmod` -/

theorem fmod_unfold (na : Bool) (ma : Nat) (ea : Int) (nb : Bool) (mb : Nat) (eb : Int) (hb : mb ≠ 0)
    (lo : Int) (hlo : lo = if ea < eb then ea else eb) :
    F64.fmod (.fin na ma ea) (.fin nb mb eb) =
      if ma = 0 then .fin na 0 F64.minExp
      else if ma * 2 ^ (ea - lo).toNat % (mb * 2 ^ (eb - lo).toNat) = 0 then .fin na 0 F64.minExp
      else F64.roundPos na (ma * 2 ^ (ea - lo).toNat % (mb * 2 ^ (eb - lo).toNat) * 2 ^ lo.toNat)
        (2 ^ (-lo).toNat) := by
  unfold F64.fmod
  simp only []
  rw [if_neg hb, ← hlo]
  by_cases ha : ma = 0
  · rw [if_pos ha, if_pos ha]
  · rw [if_neg ha, if_neg ha]
    by_cases hr : ma * 2 ^ (ea - lo).toNat % (mb * 2 ^ (eb - lo).toNat) = 0
    · rw [if_pos hr, if_pos hr]
    · rw [if_neg hr, if_neg hr]
      by_cases h0 : lo ≥ 0
      · have : (-lo).toNat = 0 := by omega
        rw [if_pos h0, this, Nat.pow_zero]
      · have : lo.toNat = 0 := by omega
        rw [if_neg h0, this, Nat.pow_zero, Nat.mul_one]

/-- the result of `fmod` is `r * 2^lo`, normalised, where `r` is the integer remainder in units of `2^lo` -/
theorem fmod_shape (na : Bool) (ma : Nat) (ea : Int) (nb : Bool) (mb : Nat) (eb : Int)
    (hwa : F64.WF (.fin na ma ea)) (hwb : F64.WF (.fin nb mb eb)) (hb : mb ≠ 0)
    (lo : Int) (hlo : lo = if ea < eb then ea else eb) :
    ∃ (E : Int) (j : Nat), lo = E + j ∧
      F64.WF (.fin na (ma * 2 ^ (ea - lo).toNat % (mb * 2 ^ (eb - lo).toNat) * 2 ^ j) E) ∧
      F64.fmod (.fin na ma ea) (.fin nb mb eb) =
        .fin na (ma * 2 ^ (ea - lo).toNat % (mb * 2 ^ (eb - lo).toNat) * 2 ^ j) E := by
  obtain ⟨ha53, ha1, ha2, _⟩ := wf_full hwa
  obtain ⟨hb53, hb1, hb2, _⟩ := wf_full hwb
  have hlo' : (lo = ea ∧ ea ≤ eb) ∨ (lo = eb ∧ eb ≤ ea) := by
    by_cases h : ea < eb
    · rw [if_pos h] at hlo; left; omega
    · rw [if_neg h] at hlo; right; omega
  rw [fmod_unfold na ma ea nb mb eb hb lo hlo]
  have hY : 0 < mb * 2 ^ (eb - lo).toNat := Nat.mul_pos (Nat.pos_of_ne_zero hb) (two_pow_pos _)
  have hr53 : ma * 2 ^ (ea - lo).toNat % (mb * 2 ^ (eb - lo).toNat) < 2 ^ 53 := by
    rcases hlo' with ⟨h, _⟩ | ⟨h, _⟩
    · have h0 : (ea - lo).toNat = 0 := by omega
      rw [h0, Nat.pow_zero, Nat.mul_one]
      exact Nat.lt_of_le_of_lt (Nat.mod_le _ _) ha53
    · have h0 : (eb - lo).toNat = 0 := by omega
      have := Nat.mod_lt (ma * 2 ^ (ea - lo).toNat) hY
      rw [h0, Nat.pow_zero, Nat.mul_one] at this ⊢
      omega
  have hzero : ∀ (r : Nat), r = 0 → ∃ (E : Int) (j : Nat), lo = E + j ∧ F64.WF (.fin na (r * 2 ^ j) E) ∧
      F64.fin na 0 F64.minExp = .fin na (r * 2 ^ j) E := by
    intro r hr
    subst hr
    refine ⟨F64.minExp, (lo + 1074).toNat, by rw [minExp_eq]; omega, ?_, ?_⟩
    · rw [Nat.zero_mul]; exact wf_zero na
    · rw [Nat.zero_mul]
  by_cases ha : ma = 0
  · rw [if_pos ha]
    apply hzero
    rw [ha, Nat.zero_mul, Nat.zero_mod]
  · rw [if_neg ha]
    by_cases hr : ma * 2 ^ (ea - lo).toNat % (mb * 2 ^ (eb - lo).toNat) = 0
    · rw [if_pos hr]
      exact hzero _ hr
    · rw [if_neg hr]
      exact roundPos_pow2_exact na (Nat.pos_of_ne_zero hr) hr53 (by omega) (by omega)

/-! ## the arithmetic -/

/-- `X = k * Y + r` in units of `2^lo`, restated for the values `ma * 2^ea`, `mb * 2^eb`, `r * 2^j * 2^E` as fractions
    with power-of-two denominators -/
theorem fmod_arith (ma mb r k j : Nat) (ea eb lo E : Int) (h1 : lo ≤ ea) (h2 : lo ≤ eb) (hj : lo = E + j)
    (hX : ma * 2 ^ (ea - lo).toNat = k * (mb * 2 ^ (eb - lo).toNat) + r)
    (hr : r < mb * 2 ^ (eb - lo).toNat) :
    ma * 2 ^ ea.toNat * 2 ^ (-eb).toNat * 2 ^ (-E).toNat =
        k * (mb * 2 ^ eb.toNat * 2 ^ (-ea).toNat * 2 ^ (-E).toNat) +
          r * 2 ^ j * 2 ^ E.toNat * 2 ^ (-ea).toNat * 2 ^ (-eb).toNat ∧
      r * 2 ^ j * 2 ^ E.toNat * 2 ^ (-eb).toNat < mb * 2 ^ eb.toNat * 2 ^ (-E).toNat := by
  have U1 : ma * 2 ^ ea.toNat * 2 ^ (-lo).toNat = ma * 2 ^ (ea - lo).toNat * 2 ^ lo.toNat * 2 ^ (-ea).toNat :=
    pow_units _ _ _ _ _ _ (by omega)
  have U2 : mb * 2 ^ eb.toNat * 2 ^ (-lo).toNat = mb * 2 ^ (eb - lo).toNat * 2 ^ lo.toNat * 2 ^ (-eb).toNat :=
    pow_units _ _ _ _ _ _ (by omega)
  have U3 : r * 2 ^ j * 2 ^ E.toNat * 2 ^ (-lo).toNat = r * 2 ^ lo.toNat * 2 ^ (-E).toNat := by
    rw [Nat.mul_assoc r, ← Nat.pow_add]
    have := pow_units r (j + E.toNat) (-lo).toNat lo.toNat (-E).toNat 0 (by omega)
    rw [Nat.pow_zero, Nat.mul_one] at this
    exact this
  have pP := two_pow_pos lo.toNat
  have pL := two_pow_pos (-lo).toNat
  have pa := two_pow_pos (-ea).toNat
  have pb := two_pow_pos (-eb).toNat
  have pE := two_pow_pos (-E).toNat
  generalize ma * 2 ^ (ea - lo).toNat = X at *
  generalize mb * 2 ^ (eb - lo).toNat = Y at *
  generalize ma * 2 ^ ea.toNat = A at *
  generalize mb * 2 ^ eb.toNat = B at *
  generalize r * 2 ^ j * 2 ^ E.toNat = C at *
  generalize 2 ^ lo.toNat = P at *
  generalize 2 ^ (-lo).toNat = L at *
  generalize 2 ^ (-ea).toNat = da at *
  generalize 2 ^ (-eb).toNat = db at *
  generalize 2 ^ (-E).toNat = dx at *
  have pLP : 0 < L * P := Nat.mul_pos pL pP
  constructor
  · apply Nat.eq_of_mul_eq_mul_right pLP
    have e1 : A * db * dx * (L * P) = (A * L) * (db * dx * P) := by ac_rfl
    have e2 : (k * (B * da * dx) + C * da * db) * (L * P) =
        k * ((B * L) * (da * dx * P)) + (C * L) * (da * db * P) := by
      rw [Nat.add_mul]
      congr 1 <;> ac_rfl
    rw [e1, e2, U1, U2, U3, hX]
    rw [Nat.add_mul, Nat.add_mul, Nat.add_mul]
    congr 1 <;> ac_rfl
  · apply Nat.lt_of_mul_lt_mul_right (a := L * P)
    have e1 : C * db * (L * P) = (C * L) * (db * P) := by ac_rfl
    have e2 : B * dx * (L * P) = (B * L) * (dx * P) := by ac_rfl
    rw [e1, e2, U2, U3]
    have e3 : r * P * dx * (db * P) = r * (P * dx * db * P) := by ac_rfl
    have e4 : Y * P * db * (dx * P) = Y * (P * dx * db * P) := by ac_rfl
    rw [e3, e4]
    exact Nat.mul_lt_mul_of_pos_right hr
      (Nat.mul_pos (Nat.mul_pos (Nat.mul_pos pP pE) pb) pP)

/-! ## main theorem -/

/-- `math.Mod(a, b)` for finite well-formed `a`, `b ≠ 0`: the result `x` is a finite well-formed double with the sign of
    `a` and `|a| = k * |b| + |x|`, `|x| < |b|` for a natural `k` — exactly, as rationals (cross-multiplied) -/
theorem fmod_exact (na : Bool) (ma : Nat) (ea : Int) (nb : Bool) (mb : Nat) (eb : Int)
    (hwa : F64.WF (.fin na ma ea)) (hwb : F64.WF (.fin nb mb eb)) (hb : mb ≠ 0) :
    ∃ (k : Nat) (x : F64), F64.fmod (.fin na ma ea) (.fin nb mb eb) = x ∧ x.isFinite = true ∧ F64.WF x ∧
      x.signBit = na ∧
      (num (.fin na ma ea)).natAbs * den (.fin nb mb eb) * den x =
        k * ((num (.fin nb mb eb)).natAbs * den (.fin na ma ea) * den x) +
          (num x).natAbs * den (.fin na ma ea) * den (.fin nb mb eb) ∧
      (num x).natAbs * den (.fin nb mb eb) < (num (.fin nb mb eb)).natAbs * den x := by
  obtain ⟨lo, hlo⟩ : ∃ lo : Int, lo = if ea < eb then ea else eb := ⟨_, rfl⟩
  have hlo' : lo ≤ ea ∧ lo ≤ eb := by
    by_cases h : ea < eb
    · rw [if_pos h] at hlo; omega
    · rw [if_neg h] at hlo; omega
  obtain ⟨E, j, hj, hwf, hx⟩ := fmod_shape na ma ea nb mb eb hwa hwb hb lo hlo
  have hY : 0 < mb * 2 ^ (eb - lo).toNat := Nat.mul_pos (Nat.pos_of_ne_zero hb) (two_pow_pos _)
  have hdm := Nat.div_add_mod (ma * 2 ^ (ea - lo).toNat) (mb * 2 ^ (eb - lo).toNat)
  have hml := Nat.mod_lt (ma * 2 ^ (ea - lo).toNat) hY
  rw [Nat.mul_comm] at hdm
  obtain ⟨g1, g2⟩ := fmod_arith ma mb _ _ j ea eb lo E hlo'.1 hlo'.2 hj hdm.symm hml
  refine ⟨ma * 2 ^ (ea - lo).toNat / (mb * 2 ^ (eb - lo).toNat), _, hx, rfl, hwf, rfl, ?_, ?_⟩
  · rw [natAbs_num, natAbs_num, natAbs_num]
    exact g1
  · rw [natAbs_num, natAbs_num]
    exact g2

/-! ## non-vacuity: concrete values -/

/-- `5.5 mod 2 = 1.5` -/
example : F64.fmod (F64.ofBits 0x4016000000000000) (F64.ofBits 0x4000000000000000) =
    F64.ofBits 0x3FF8000000000000 := by rfl

/-- `-7 mod 3 = -1` -/
example : F64.fmod (F64.ofBits 0xC01C000000000000) (F64.ofBits 0x4008000000000000) =
    F64.ofBits 0xBFF0000000000000 := by decide

/-- `0.3 mod 0.1 = 0.09999999999999998` (as in Go: the nearest doubles of `0.3`, `0.1` are not multiples) -/
example : F64.fmod (F64.ofBits 0x3FD3333333333333) (F64.ofBits 0x3FB999999999999A) =
    F64.ofBits 0x3FB9999999999998 := by decide +kernel

/-- `1e308 mod 3 = 2` (`1e308 = 0x7FE1CCF385EBC8A0`) -/
example : F64.fmod (F64.ofBits 0x7FE1CCF385EBC8A0) (F64.ofBits 0x4008000000000000) =
    F64.ofBits 0x4000000000000000 := by decide +kernel

/-- `1e308 mod 5e-324 = 0`, `5e-324 mod 3 = 5e-324` (smallest subnormal) -/
example : F64.fmod (F64.ofBits 0x7FE1CCF385EBC8A0) (F64.ofBits 0x1) = F64.ofBits 0x0 := by decide +kernel
example : F64.fmod (F64.ofBits 0x1) (F64.ofBits 0x4008000000000000) = F64.ofBits 0x1 := by decide +kernel

end Sqljson.Rounding
