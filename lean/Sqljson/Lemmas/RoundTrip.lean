import Sqljson.Props.ParseLemmas
/-!
# Round trip `Parse(p.String()) = p`: the printer's text read back by the lexer and the parser

Lemma layer of `Props/C02b`.  Contents:

* a *token-stream characterisation of the printer*: `Seg` / `Lexes` — a printed piece of text is a
  given token list whatever follows it (provided the next character satisfies a stated condition);
  built from the read-back lemmas of `ParseLemmas` (`scanString_quote`, `scanNumberBody_int`, …) and
  new ones for punctuation, two-character operators, `$`, keywords;
* a small *total-correctness calculus* `RunsV` for the parser monad over token streams (`StE`, `StP`,
  `StA`), with `peek` / `consume` / `expect` rules;
* per-construct lemmas: what `accessorOp`, `accessorLoop`, `indexList`, `parseAtom`, `predLoop`, …
  make of the tokens of a printed construct;
* the UTF-8 encoder `utf8` and `decodeAll (utf8 l) = l.map Src.ch`;
* the staged round-trip theorems (see `Props/C02b` for the statements).
-/

namespace Sqljson
namespace RoundTrip
open Parse Lex ParseLemmas
set_option linter.unusedSimpArgs false
set_option linter.unusedSectionVars false

abbrev TT := Tok × List Char

/-- no NUL character -/
def NoNul (l : List Char) : Prop := ∀ c ∈ l, c.toNat ≠ 0

theorem NoNul.nil : NoNul [] := by intro c h; simp at h
theorem NoNul.cons {c : Char} {l : List Char} (hc : c.toNat ≠ 0) (h : NoNul l) : NoNul (c :: l) := by
  intro d hd
  simp at hd
  rcases hd with hd | hd
  · subst hd; exact hc
  · exact h d hd
theorem NoNul.append {a b : List Char} (ha : NoNul a) (hb : NoNul b) : NoNul (a ++ b) := by
  intro d hd
  simp at hd
  rcases hd with hd | hd
  · exact ha d hd
  · exact hb d hd
theorem NoNul.tail {l : List Char} (h : NoNul l) : NoNul l.tail := by
  intro d hd
  exact h d (List.mem_of_mem_tail hd)
theorem NoNul.of_cons {c : Char} {l : List Char} (h : NoNul (c :: l)) : c.toNat ≠ 0 ∧ NoNul l :=
  ⟨h c (by simp), fun d hd => h d (by simp [hd])⟩

/-- the lexer state `st` with the characters `l` as the source still to be read -/
def fd (st : LState) (l : List Char) : LState := { st with rest := l.map Src.ch }

@[simp] theorem fd_err (st : LState) (l : List Char) : (fd st l).err = st.err := rfl
@[simp] theorem fd_oof (st : LState) (l : List Char) : (fd st l).oof = st.oof := rfl
@[simp] theorem fd_rest (st : LState) (l : List Char) : (fd st l).rest = l.map Src.ch := rfl
@[simp] theorem fd_fd (st : LState) (l l' : List Char) : fd (fd st l) l' = fd st l' := rfl

theorem fd_feed (st : LState) (l r : List Char) : feed st l (r.map Src.ch) = fd st (l ++ r) := by
  simp [feed, fd]

theorem next_fd (st : LState) (r : List Char) (hr : NoNul r) :
    next (fd st r) = (r.head?, fd st r.tail) := by
  cases r with
  | nil => simp [next, fd]
  | cons c r =>
    have := hr c (by simp)
    simp [next, fd, this]

theorem next_fd_cons (st : LState) (c : Char) (r : List Char) (hc : c.toNat ≠ 0) :
    next (fd st (c :: r)) = (some c, fd st r) := by
  simp [next, fd, hc]

/-- `s` is an error-free lexer state standing before the characters `l`: either nothing is in the
    look-ahead, or the first character of `l` is -/
def At (l : List Char) (s : LState) : Prop :=
  s.err = false ∧ s.oof = false ∧
  ((s.ch = none ∧ s.rest = l.map Src.ch) ∨ ∃ c r, l = c :: r ∧ s.ch = some c ∧ s.rest = r.map Src.ch)

section
variable (o : Oracles)

/-- successive calls of `Lex` from `s` return exactly the tokens `ts` and then `stopTok`, without
    error and with the source exhausted -/
def LStr : List TT → LState → Prop
  | [], s => At [] s
  | tk :: ts, s => tk.1 ≠ .stop ∧ ∃ s', Lex.lex o s = (tk.1, tk.2, s') ∧ s'.oof = false ∧ LStr ts s'

/-- the text `l` is the token sequence `ts` -/
def Lexes (l : List Char) (ts : List TT) : Prop := ∀ s, At l s → LStr o ts s

theorem lexes_nil : Lexes o [] [] := fun _ h => h

theorem lex_at_nil (s : LState) (h : At [] s) : ∃ s', Lex.lex o s = (.stop, [], s') ∧ At [] s' := by
  obtain ⟨rest, ch, err, oof⟩ := s
  obtain ⟨h1, h2, h3⟩ := h
  simp only at h1 h2 h3
  rcases h3 with ⟨h3, h4⟩ | ⟨c, r, h3, _⟩
  · subst h1; subst h2; subst h3
    simp only [List.map_nil] at h4
    subst h4
    refine ⟨{ rest := [], ch := none, err := false, oof := false }, ?_, rfl, rfl, Or.inl ⟨rfl, rfl⟩⟩
    simp [Lex.lex, next, lexFrom, skipWs]
  · simp at h3

/-- a piece of text `pre` that is the tokens `ts` whenever the character after it satisfies `C` -/
def Seg (C : Option Char → Prop) (pre : List Char) (ts : List TT) : Prop :=
  NoNul pre ∧ ts.length ≤ pre.length ∧
  ∀ r ts', NoNul r → C r.head? → Lexes o r ts' → Lexes o (pre ++ r) (ts ++ ts')

theorem Seg.nil (C : Option Char → Prop) : Seg o C [] [] :=
  ⟨NoNul.nil, Nat.le_refl _, fun _ _ _ _ h => h⟩

theorem Seg.mono {C C' : Option Char → Prop} {pre : List Char} {ts : List TT}
    (h : Seg o C pre ts) (hc : ∀ y, C' y → C y) : Seg o C' pre ts :=
  ⟨h.1, h.2.1, fun r ts' hr hy hl => h.2.2 r ts' hr (hc _ hy) hl⟩

theorem Seg.app {C1 C2 : Option Char → Prop} {p1 p2 : List Char} {t1 t2 : List TT}
    (h1 : Seg o C1 p1 t1) (h2 : Seg o C2 p2 t2)
    (hc : ∀ r, C2 r.head? → C1 (p2 ++ r).head?) : Seg o C2 (p1 ++ p2) (t1 ++ t2) := by
  refine ⟨h1.1.append h2.1, ?_, ?_⟩
  · have := h1.2.1; have := h2.2.1
    simp only [List.length_append]; omega
  · intro r ts' hr hy hl
    rw [List.append_assoc, List.append_assoc]
    exact h1.2.2 (p2 ++ r) (t2 ++ ts') (h2.1.append hr) (hc r hy) (h2.2.2 r ts' hr hy hl)

/-- composition when the second piece is known to start with `c` -/
theorem Seg.app_cons {C1 C2 : Option Char → Prop} {p1 : List Char} {c : Char} {p2 : List Char} {t1 t2 : List TT}
    (h1 : Seg o C1 p1 t1) (h2 : Seg o C2 (c :: p2) t2) (hc : C1 (some c)) :
    Seg o C2 (p1 ++ c :: p2) (t1 ++ t2) :=
  Seg.app o h1 h2 (fun _ _ => hc)

theorem Seg.lexes {C : Option Char → Prop} {pre : List Char} {ts : List TT} (h : Seg o C pre ts)
    (hc : C none) : Lexes o pre ts := by
  have := h.2.2 [] [] NoNul.nil hc (lexes_nil o)
  simpa using this

/-- the scanner started on the character `c` with `w ++ r` still unread returns the token `tk`
    having read exactly `c :: w`, provided the first character of `r` satisfies `C` -/
def TokAt (C : Option Char → Prop) (c : Char) (w : List Char) (tk : TT) : Prop :=
  ∀ (f : Nat) (st : LState) (r : List Char), st.err = false → NoNul r → C r.head? →
    lexFrom o (f + 1) (some c) (fd st (w ++ r)) = ⟨tk.1, tk.2, r.head?, fd st r.tail⟩

theorem at_of_tail (st : LState) (r : List Char) (he : st.err = false) (ho : st.oof = false) :
    At r { fd st r.tail with ch := r.head? } := by
  refine ⟨he, ho, ?_⟩
  cases r with
  | nil => exact Or.inl ⟨rfl, rfl⟩
  | cons c r => exact Or.inr ⟨c, r, rfl, rfl, rfl⟩

theorem lex_of_tokAt {C : Option Char → Prop} {c : Char} {w : List Char} {tk : TT}
    (h : TokAt o C c w tk) (hc : c.toNat ≠ 0) (r : List Char) (hr : NoNul r) (hy : C r.head?)
    (s : LState) (hs : At (c :: (w ++ r)) s) :
    ∃ s', Lex.lex o s = (tk.1, tk.2, s') ∧ At r s' := by
  obtain ⟨rest, ch, err, oof⟩ := s
  obtain ⟨h1, h2, h3⟩ := hs
  simp only at h1 h2 h3
  subst h1; subst h2
  rcases h3 with ⟨h3, h4⟩ | ⟨c', r', h3, h4, h5⟩
  · subst h3; subst h4
    let st : LState := { rest := [], ch := none, err := false, oof := false }
    refine ⟨{ fd st r.tail with ch := r.head? }, ?_, at_of_tail st r rfl rfl⟩
    have hn : next { rest := List.map Src.ch (c :: (w ++ r)), ch := none, err := false, oof := false }
        = (some c, fd st (w ++ r)) := by
      simp [next, hc, fd, st]
    unfold Lex.lex
    simp only [hn]
    rw [h _ st r rfl hr hy]
  · injection h3 with h3a h3b
    subst h3a; subst h3b; subst h4; subst h5
    let st : LState := { rest := [], ch := some c, err := false, oof := false }
    refine ⟨{ fd st r.tail with ch := r.head? }, ?_, at_of_tail st r rfl rfl⟩
    unfold Lex.lex
    simp only
    have : ({ rest := List.map Src.ch (w ++ r), ch := some c, err := false, oof := false } : LState)
        = fd st (w ++ r) := rfl
    rw [this, h _ st r rfl hr hy]

theorem seg_of_tokAt {C : Option Char → Prop} {c : Char} {w : List Char} {tk : TT}
    (h : TokAt o C c w tk) (hc : c.toNat ≠ 0) (hw : NoNul w) (hns : tk.1 ≠ .stop) :
    Seg o C (c :: w) [tk] := by
  refine ⟨NoNul.cons hc hw, by simp, ?_⟩
  intro r ts' hr hy hl s hs
  obtain ⟨s', h1, h2⟩ := lex_of_tokAt o h hc r hr hy s (by simpa using hs)
  exact ⟨hns, s', h1, h2.2.1, hl s' h2⟩

/-- the body of `Lex` skips one blank -/
theorem lexFrom_space (f : Nat) (st : LState) (c : Char) (r : List Char) (hc : c.toNat ≠ 0)
    (hws : isWhitespace c = false) :
    lexFrom o (f + 1) (some ' ') (fd st (c :: r)) = lexFrom o (f + 1) (some c) (fd st r) := by
  have h1 : ∀ n, skipWs (n + 2) (some ' ') (fd st (c :: r)) = (some c, fd st r) := by
    intro n
    rw [skipWs]
    simp only [show isWhitespace ' ' = true by decide, if_true, next_fd_cons _ _ _ hc]
    rw [skipWs_nonws _ _ _ hws]
  have h2 : ∀ n, skipWs (n + 1) (some c) (fd st r) = (some c, fd st r) := fun n => skipWs_nonws _ _ _ hws
  rw [lexFrom, lexFrom]
  rw [show (fd st (c :: r)).rest.length + 3 = (fd st (c :: r)).rest.length + 1 + 2 from rfl, h1,
    show (fd st r).rest.length + 3 = (fd st r).rest.length + 2 + 1 from rfl, h2]

theorem tokAt_space {C : Option Char → Prop} {c : Char} {w : List Char} {tk : TT}
    (h : TokAt o C c w tk) (hc : c.toNat ≠ 0) (hws : isWhitespace c = false) :
    TokAt o C ' ' (c :: w) tk := by
  intro f st r he hr hy
  rw [List.cons_append, lexFrom_space o f st c (w ++ r) hc hws]
  exact h f st r he hr hy

/-- the same piece preceded by one blank -/
theorem seg_sp_of_tokAt {C : Option Char → Prop} {c : Char} {w : List Char} {tk : TT}
    (h : TokAt o C c w tk) (hc : c.toNat ≠ 0) (hw : NoNul w) (hns : tk.1 ≠ .stop)
    (hws : isWhitespace c = false) :
    Seg o C (' ' :: c :: w) [tk] :=
  seg_of_tokAt o (tokAt_space o h hc hws) (by decide) (NoNul.cons hc hw) hns

end

/-! ## oracle hypotheses -/

def punct : List Char :=
  [' ', '!', '"', '$', '%', '&', '(', ')', '*', '+', ',', '-', '.', '/', '<', '=', '>', '?', '@', '[', ']', '{', '|', '}']
def isLow (c : Char) : Bool := 'a' ≤ c && c ≤ 'z'

structure OrOK (o : Oracles) : Prop where
  nl : o.isPrint '\n' = false
  punctS : ∀ c ∈ punct, o.xidStart c = false
  punctC : ∀ c ∈ punct, o.xidContinue c = false
  digitS : ∀ c, isDecimal c = true → o.xidStart c = false
  lowS : ∀ c, isLow c = true → o.xidStart c = true
  lowC : ∀ c, isLow c = true → o.xidContinue c = true
  lowL : ∀ c, isLow c = true ∨ c = '_' → o.toLower c = c
  lowP : ∀ c, isLow c = true → o.isPrint c = true

def T1 (c : Char) : TT := (tokOfRune c, [c])

/-- punctuation that is a token by itself whatever follows -/
def solo : List Char := ['(', ')', '[', ']', '{', '}', ',', '?', '@', '+', '-', '%']

section
variable (o : Oracles) (ok : OrOK o)
include ok

theorem tokAt_solo (c : Char) (hc : c ∈ solo) : TokAt o (fun _ => True) c [] (T1 c) := by
  intro f st r he hr _
  have hp : c ∈ punct := by
    simp only [solo, punct] at hc ⊢
    simp at hc ⊢
    rcases hc with h | h | h | h | h | h | h | h | h | h | h | h <;> simp [h]
  have hx := ok.punctS c hp
  simp [solo] at hc
  rcases hc with h | h | h | h | h | h | h | h | h | h | h | h <;> subst h <;>
    simp [lexFrom, skipWs, isWhitespace, isIdentStart, hx, isDecimal, isPrivateTokenRune, pathPrivate, pathTok2Len,
      scanOperator, next_fd _ _ hr, T1]

theorem tokAt_star : TokAt o (fun y => y ≠ some '*') '*' [] (T1 '*') := by
  intro f st r he hr hy
  have hx := ok.punctS '*' (by decide)
  simp [lexFrom, skipWs, isWhitespace, isIdentStart, hx, isDecimal, isPrivateTokenRune, pathPrivate, pathTok2Len,
      scanOperator, next_fd _ _ hr, T1, hy]

theorem tokAt_lt : TokAt o (fun y => y ≠ some '=' ∧ y ≠ some '>') '<' [] (.less, ['<']) := by
  intro f st r he hr hy
  have hx := ok.punctS '<' (by decide)
  simp [lexFrom, skipWs, isWhitespace, isIdentStart, hx, isDecimal, isPrivateTokenRune, pathPrivate, pathTok2Len,
      scanOperator, next_fd _ _ hr, hy.1, hy.2]

theorem tokAt_gt : TokAt o (fun y => y ≠ some '=') '>' [] (.greater, ['>']) := by
  intro f st r he hr hy
  have hx := ok.punctS '>' (by decide)
  simp [lexFrom, skipWs, isWhitespace, isIdentStart, hx, isDecimal, isPrivateTokenRune, pathPrivate, pathTok2Len,
      scanOperator, next_fd _ _ hr, hy]

theorem tokAt_bang : TokAt o (fun y => y ≠ some '=') '!' [] (.not, ['!']) := by
  intro f st r he hr hy
  have hx := ok.punctS '!' (by decide)
  simp [lexFrom, skipWs, isWhitespace, isIdentStart, hx, isDecimal, isPrivateTokenRune, pathPrivate, pathTok2Len,
      scanOperator, next_fd _ _ hr, hy]

/-- the two-character operators the printer writes -/
def twoOps : List (Char × Char × Tok) :=
  [('=', '=', .equal), ('!', '=', .notEq), ('<', '=', .lessEq), ('>', '=', .greaterEq),
   ('&', '&', .and), ('|', '|', .or), ('*', '*', .any)]

theorem tokAt_two (c d : Char) (t : Tok) (h : (c, d, t) ∈ twoOps) :
    TokAt o (fun _ => True) c [d] (t, []) := by
  intro f st r he hr _
  have hr' : NoNul (d :: r) := by
    refine NoNul.cons ?_ hr
    simp [twoOps] at h
    rcases h with h | h | h | h | h | h | h <;> (rw [h.2.1]; decide)
  have hp : c ∈ punct := by
    simp [twoOps] at h
    rcases h with h | h | h | h | h | h | h <;> (rw [h.1]; decide)
  have hx := ok.punctS c hp
  simp [twoOps] at h
  rcases h with h | h | h | h | h | h | h <;> obtain ⟨h1, h2, h3⟩ := h <;> subst h1 <;> subst h2 <;> subst h3 <;>
    simp [lexFrom, skipWs, isWhitespace, isIdentStart, hx, isDecimal, isPrivateTokenRune, pathPrivate, pathTok2Len,
      scanOperator, next_fd _ _ hr', next_fd _ _ hr]

theorem tokAt_dot : TokAt o (fun y => isDecimalR y = false) '.' [] (T1 '.') := by
  intro f st r he hr hy
  have hx := ok.punctS '.' (by decide)
  cases r with
  | nil =>
    simp [lexFrom, skipWs, isWhitespace, isIdentStart, hx, isDecimal, next_fd _ _ hr, T1, tokOfRune]
  | cons y r =>
    simp only [List.head?_cons, isDecimalR] at hy
    simp [lexFrom, skipWs, isWhitespace, isIdentStart, hx, isDecimal, next_fd _ _ hr, T1, tokOfRune]
    simp [isDecimal] at hy
    intro h1 h2
    exact absurd h2 (by simpa using hy h1)

theorem tokAt_dollar : TokAt o (fun y => y ≠ some '"' ∧ isVariableRune o y = false) '$' [] (T1 '$') := by
  intro f st r he hr hy
  have hx := ok.punctS '$' (by decide)
  simp [lexFrom, skipWs, isWhitespace, isIdentStart, hx, isDecimal, scanVariable, next_fd _ _ hr, T1, tokOfRune,
    hy.1, hy.2]

theorem tokAt_string (s : List Char) (hs : NoNul s) :
    TokAt o (fun _ => True) '"' (body o.isPrint s ++ ['"']) (.string, s) := by
  intro f st r he hr _
  have hx := ok.punctS '"' (by decide)
  have hscan := scanString_quote o.isPrint ok.nl s hs (fd st ((body o.isPrint s ++ ['"']) ++ r)) (r.map Src.ch)
    (by simp [Print.quote, body])
  have hfd : ({ fd st ((body o.isPrint s ++ ['"']) ++ r) with rest := r.map Src.ch } : LState) = fd st r := rfl
  rw [hfd, next_fd _ _ hr] at hscan
  simp only [lexFrom]
  rw [skipWs_nonws _ _ _ (by decide)]
  simp only [List.append_assoc, List.cons_append, List.nil_append] at hscan
  simp [isIdentStart, hx, isDecimal, hscan]

theorem tokAt_int (d : Char) (ds : List Char) (hd : ∀ c ∈ d :: ds, isDecimal c = true) (hz : d = '0' → ds = []) :
    TokAt o (EndsNumber o) d ds (.int, d :: ds) := by
  intro f st r he hr hy
  have hdd := isDecimal_facts d (hd d (by simp))
  have hx := ok.digitS d (hd d (by simp))
  have hid : isIdentStart o (some d) = false := by
    simp [isIdentStart, hdd.2.1, hdd.2.2.2.2.1, hx]
  have hfin : next (feed st [] (r.map Src.ch)) = (r.head?, fd st r.tail) := by
    have := next_fd st r hr
    simpa [feed, fd] using this
  simp only [lexFrom]
  rw [skipWs_nonws _ _ _ hdd.2.2.2.1]
  simp only [hid, Bool.false_eq_true, if_false, hd d (by simp), if_true]
  by_cases h0 : d = '0'
  · subst h0
    have := hz rfl
    subst this
    have hfin' : next (fd st ([] ++ r)) = (r.head?, fd st r.tail) := by simpa using next_fd st r hr
    rw [scanNumber_zero o _ _ _ hfin' hy]
  · unfold scanNumber
    simp only [Bool.false_eq_true, if_false, h0]
    rw [← fd_feed, scanNumberBody_int o st _ _ _ hfin hy d ds hd]

/-! ### words -/

omit ok in
theorem isLow_facts (c : Char) (h : isLow c = true) :
    c.toNat ≠ 0 ∧ c ≠ '\\' ∧ c ≠ '_' ∧ isWhitespace c = false ∧ isDecimal c = false := by
  simp only [isLow, Bool.and_eq_true, decide_eq_true_eq] at h
  have a1 : 97 ≤ c.toNat := h.1
  have a2 : c.toNat ≤ 122 := h.2
  refine ⟨by omega, ?_, ?_, ?_, ?_⟩
  · intro hh; subst hh; revert a1 a2; decide
  · intro hh; subst hh; revert a1 a2; decide
  · unfold isWhitespace
    have : c ≠ '\t' ∧ c ≠ '\n' ∧ c ≠ '\r' ∧ c ≠ ' ' := by
      refine ⟨?_, ?_, ?_, ?_⟩ <;> (intro hh; subst hh; revert a1 a2; decide)
    simp [this.1, this.2.1, this.2.2.1, this.2.2.2]
  · simp only [isDecimal, Bool.and_eq_false_iff, decide_eq_false_iff_not]
    right
    intro hle
    have : c.toNat ≤ 57 := hle
    omega

def isWordCh (c : Char) : Bool := isLow c || c = '_'

theorem isWordCh_facts (c : Char) (h : isWordCh c = true) :
    c.toNat ≠ 0 ∧ c ≠ '\\' ∧ isIdentCont o (some c) = true := by
  simp only [isWordCh, Bool.or_eq_true, decide_eq_true_eq] at h
  rcases h with h | h
  · have := isLow_facts c h
    exact ⟨this.1, this.2.1, by simp [isIdentCont, ok.lowC c h]⟩
  · subst h
    exact ⟨by decide, by decide, by simp [isIdentCont]⟩

theorem noNul_word (w : List Char) (hw : ∀ c ∈ w, isWordCh c = true) : NoNul w :=
  fun c hc => (isWordCh_facts o ok c (hw c hc)).1

theorem identLoop_word (w : List Char) (hw : ∀ c ∈ w, isWordCh c = true) :
    ∀ (f : Nat) (buf : List Char) (st : LState) (r : List Char), w.length + 1 ≤ f → NoNul r →
      isIdentCont o r.head? = false →
      identLoop o f (w ++ r).head? buf (fd st (w ++ r).tail) = (r.head?, w.reverse ++ buf, fd st r.tail) := by
  induction w with
  | nil =>
    intro f buf st r hf hr hy
    obtain ⟨f', rfl⟩ : ∃ f', f = f' + 1 := ⟨f - 1, by simp at hf; omega⟩
    simp only [List.nil_append, List.reverse_nil]
    unfold identLoop
    simp [hy]
  | cons c w ih =>
    intro f buf st r hf hr hy
    obtain ⟨f', rfl⟩ : ∃ f', f = f' + 1 := ⟨f - 1, by simp at hf; omega⟩
    have hc := isWordCh_facts o ok c (hw c (by simp))
    have hw' : ∀ c ∈ w, isWordCh c = true := fun d hd => hw d (by simp [hd])
    have hn : NoNul (w ++ r) := (noNul_word o ok w hw').append hr
    simp only [List.cons_append, List.head?_cons, List.tail_cons]
    unfold identLoop
    simp only [hc.2.2, if_true, hc.2.1, if_false, next_fd _ _ hn]
    rw [ih hw' f' (c :: buf) st r (by simp at hf; omega) hr hy]
    simp

theorem tokAt_word (c : Char) (w : List Char) (hc : isLow c = true) (hw : ∀ x ∈ w, isWordCh x = true) :
    TokAt o (fun y => isIdentCont o y = false) c w (identToken o (c :: w), c :: w) := by
  intro f st r he hr hy
  have hcf := isLow_facts c hc
  have hn : NoNul (w ++ r) := (noNul_word o ok w hw).append hr
  have hid : isIdentStart o (some c) = true := by simp [isIdentStart, ok.lowS c hc]
  simp only [lexFrom]
  rw [skipWs_nonws _ _ _ hcf.2.2.2.1]
  simp only [hid, if_true]
  unfold scanIdent
  simp only [hcf.2.1, if_false, next_fd _ _ hn]
  rw [identLoop_word o ok w hw _ [c] st r ?_ hr hy]
  · simp [he]
  · simp only [fd_rest, List.length_map, List.length_tail, List.length_append]
    omega

theorem map_toLower_word (w : List Char) (hw : ∀ x ∈ w, isWordCh x = true) : w.map o.toLower = w := by
  induction w with
  | nil => rfl
  | cons c w ih =>
    have h1 : o.toLower c = c := by
      have := hw c (by simp)
      simp only [isWordCh, Bool.or_eq_true, decide_eq_true_eq] at this
      exact ok.lowL c this
    simp [h1, ih (fun d hd => hw d (by simp [hd]))]

/-- the keywords the printer writes, with their tokens -/
def kwList : List (List Char × Tok) :=
  [("strict".toList, .strict), ("last".toList, .last), ("to".toList, .to), ("is".toList, .is),
   ("unknown".toList, .unknown), ("exists".toList, .exists), ("starts".toList, .starts),
   ("with".toList, .with_), ("like_regex".toList, .likeRegex), ("flag".toList, .flag),
   ("true".toList, .true_), ("false".toList, .false_), ("null".toList, .null),
   ("abs".toList, .abs), ("size".toList, .size), ("type".toList, .type), ("floor".toList, .floor),
   ("ceiling".toList, .ceiling), ("double".toList, .double), ("keyvalue".toList, .keyvalue),
   ("bigint".toList, .bigint), ("boolean".toList, .boolean), ("integer".toList, .integer),
   ("number".toList, .number), ("string".toList, .stringfunc), ("date".toList, .date),
   ("datetime".toList, .datetime), ("time".toList, .time), ("time_tz".toList, .timeTz),
   ("timestamp".toList, .timestamp), ("timestamp_tz".toList, .timestampTz), ("decimal".toList, .decimal)]

omit ok in
theorem kw_wordChars : ∀ p ∈ kwList, ∀ x ∈ p.1, isWordCh x = true := by decide

omit ok in
theorem kw_shape : ∀ p ∈ kwList, ∃ c w, p.1 = c :: w ∧ isLow c = true := by
  intro p hp
  have : ∀ p ∈ kwList, (match p.1 with | c :: _ => isLow c | [] => false) = true := by decide
  have h := this p hp
  cases hp1 : p.1 with
  | nil => rw [hp1] at h; simp at h
  | cons c w => rw [hp1] at h; exact ⟨c, w, rfl, h⟩

/-- oracles whose `toLower` is the identity (on lower-case words `unicode.ToLower` is) -/
def idOracles : Oracles where
  xidStart _ := false
  xidContinue _ := false
  isPrint _ := false
  toLower c := c
  regexAccepts _ _ := false

omit ok in
theorem kw_identToken_id : ∀ p ∈ kwList, identToken idOracles p.1 = p.2 := by decide

theorem kw_identToken (p : List Char × Tok) (hp : p ∈ kwList) : identToken o p.1 = p.2 := by
  have hm := map_toLower_word o ok p.1 (kw_wordChars p hp)
  rw [← kw_identToken_id p hp]
  unfold identToken
  simp only [hm]
  have : p.1.map idOracles.toLower = p.1 := by
    show p.1.map (fun c => c) = p.1
    simp
  simp only [this]

/-- a keyword followed by a character that does not continue an identifier -/
theorem tokAt_kw (c : Char) (w : List Char) (t : Tok) (hp : (c :: w, t) ∈ kwList) :
    TokAt o (fun y => isIdentCont o y = false) c w (t, c :: w) := by
  have hs := kw_shape (c :: w, t) hp
  obtain ⟨c', w', h1, h2⟩ := hs
  injection h1 with h1a h1b
  subst h1a; subst h1b
  have hw := kw_wordChars (c :: w, t) hp
  have := tokAt_word o ok c w h2 (fun x hx => hw x (by simp [hx]))
  rw [kw_identToken o ok (c :: w, t) hp] at this
  exact this

end

/-! ## The parser on a token stream: a small total-correctness calculus -/

section
variable (o : Oracles)

/-- nothing cached, the lexer will deliver `ts` -/
def StF (ts : List TT) (s : PS) : Prop := s.la = none ∧ LStr o ts s.lx

/-- the first token of `ts` is the cached look-ahead, the lexer will deliver the others -/
def StP : List TT → PS → Prop
  | [], _ => False
  | tk :: ts, s => s.la = some tk ∧ tk.1 ≠ .stop ∧ LStr o ts s.lx

/-- the parser stands before the tokens `ts` -/
def StE (ts : List TT) (s : PS) : Prop := StF o ts s ∨ StP o ts s

/-- from every state satisfying `pre`, `m` returns `v` in a state satisfying `post` -/
def RunsV {α : Type} (pre : PS → Prop) (m : P α) (v : α) (post : PS → Prop) : Prop :=
  ∀ s, pre s → ∃ s', m s = .ok v s' ∧ post s'

variable {o}

theorem RunsV.bind {α β : Type} {pre mid post : PS → Prop} {m : P α} {f : α → P β} {v : α} {w : β}
    (h1 : RunsV pre m v mid) (h2 : RunsV mid (f v) w post) : RunsV pre (m >>= f) w post := by
  intro s hs
  obtain ⟨s1, e1, p1⟩ := h1 s hs
  obtain ⟨s2, e2, p2⟩ := h2 s1 p1
  exact ⟨s2, by rw [bind_apply, e1]; exact e2, p2⟩

theorem RunsV.pre {α : Type} {pre pre' post : PS → Prop} {m : P α} {v : α}
    (h : RunsV pre m v post) (hp : ∀ s, pre' s → pre s) : RunsV pre' m v post :=
  fun s hs => h s (hp s hs)

theorem RunsV.post {α : Type} {pre post post' : PS → Prop} {m : P α} {v : α}
    (h : RunsV pre m v post) (hp : ∀ s, post s → post' s) : RunsV pre m v post' := by
  intro s hs
  obtain ⟨s1, e1, p1⟩ := h s hs
  exact ⟨s1, e1, hp s1 p1⟩

theorem RunsV.pure {α : Type} {pre : PS → Prop} (a : α) : RunsV pre (pure a : P α) a pre :=
  fun s hs => ⟨s, rfl, hs⟩

theorem RunsV.pure' {α : Type} {pre post : PS → Prop} {a b : α} (h : a = b) (hp : ∀ s, pre s → post s) :
    RunsV pre (Pure.pure a : P α) b post := by
  subst h
  exact fun s hs => ⟨s, rfl, hp s hs⟩

theorem StE.ofP {ts : List TT} {s : PS} (h : StP o ts s) : StE o ts s := Or.inr h
theorem StE.ofF {ts : List TT} {s : PS} (h : StF o ts s) : StE o ts s := Or.inl h

theorem RunsV.bindP {α β : Type} {ts : List TT} {mid post : PS → Prop} {m : P α} {f : α → P β} {v : α} {w : β}
    (h1 : RunsV (StE o ts) m v mid) (h2 : RunsV mid (f v) w post) : RunsV (StP o ts) (m >>= f) w post :=
  RunsV.bind (h1.pre (fun _ => StE.ofP)) h2

theorem RunsV.ofE {α : Type} {ts : List TT} {post : PS → Prop} {m : P α} {v : α}
    (h : RunsV (StE o ts) m v post) : RunsV (StP o ts) m v post := h.pre (fun _ => StE.ofP)

/-- the token the parser sees next: the head of the stream, `stopTok` at its end -/
def hd : List TT → TT
  | [] => (.stop, [])
  | tk :: _ => tk

/-- the state after the next token has been examined -/
def StA (o : Oracles) : List TT → PS → Prop
  | [], s => StE o [] s
  | tk :: ts, s => StP o (tk :: ts) s

theorem StE.ofA {ts : List TT} {s : PS} (h : StA o ts s) : StE o ts s := by
  cases ts with
  | nil => exact h
  | cons tk ts => exact Or.inr h

theorem RunsV.bindA {α β : Type} {ts : List TT} {mid post : PS → Prop} {m : P α} {f : α → P β} {v : α} {w : β}
    (h1 : RunsV (StE o ts) m v mid) (h2 : RunsV mid (f v) w post) : RunsV (StA o ts) (m >>= f) w post :=
  RunsV.bind (h1.pre (fun _ => StE.ofA)) h2

theorem RunsV.ofA {α : Type} {ts : List TT} {post : PS → Prop} {m : P α} {v : α}
    (h : RunsV (StE o ts) m v post) : RunsV (StA o ts) m v post := h.pre (fun _ => StE.ofA)

theorem RunsV.toE {α : Type} {ts : List TT} {pre : PS → Prop} {m : P α} {v : α}
    (h : RunsV pre m v (StA o ts)) : RunsV pre m v (StE o ts) := h.post (fun _ => StE.ofA)

theorem RunsV.toEP {α : Type} {ts : List TT} {pre : PS → Prop} {m : P α} {v : α}
    (h : RunsV pre m v (StP o ts)) : RunsV pre m v (StE o ts) := h.post (fun _ => StE.ofP)

theorem peek_cons (tk : TT) (ts : List TT) : RunsV (StE o (tk :: ts)) (peek o) tk (StP o (tk :: ts)) := by
  intro s hs
  rcases hs with ⟨h1, h2⟩ | ⟨h1, h2, h3⟩
  · obtain ⟨hns, lx', hl, hoof, hrest⟩ := h2
    refine ⟨{ lx := lx', la := some tk }, ?_, rfl, hns, hrest⟩
    unfold peek
    simp only [h1, hl, hoof, hns]
    simp
  · exact ⟨s, by unfold peek; simp only [h1], h1, h2, h3⟩

theorem peek_nil : RunsV (StE o []) (peek o) (.stop, []) (StE o []) := by
  intro s hs
  rcases hs with ⟨h1, h2⟩ | h
  · obtain ⟨lx', hl, hat⟩ := lex_at_nil o s.lx h2
    refine ⟨{ s with lx := lx' }, ?_, Or.inl ⟨h1, hat⟩⟩
    unfold peek
    simp only [h1, hl, hat.2.1]
    simp
  · exact absurd h (by simp [StP])

theorem peek_any (ts : List TT) : RunsV (StE o ts) (peek o) (hd ts) (StA o ts) := by
  cases ts with
  | nil => exact peek_nil
  | cons tk ts => exact peek_cons tk ts

theorem consume_spec (tk : TT) (ts : List TT) : RunsV (StP o (tk :: ts)) consume () (StE o ts) := by
  intro s hs
  exact ⟨{ s with la := none }, rfl, Or.inl ⟨rfl, hs.2.2⟩⟩

theorem expect_spec (t : Tok) (x : List Char) (ts : List TT) :
    RunsV (StE o ((t, x) :: ts)) (expect o t) () (StE o ts) := by
  unfold expect
  refine RunsV.bind (peek_cons _ _) ?_
  simp only [if_true]
  exact consume_spec _ _

end

/-- one step: `m >>= f` where the specification `h` of `m` is known -/
macro "rstep " h:term : tactic =>
  `(tactic| (first
    | refine RunsV.bind $h ?_
    | refine RunsV.bindP $h ?_
    | refine RunsV.bindA $h ?_
    | refine RunsV.bind (RunsV.toE $h) ?_
    | refine RunsV.bindP (RunsV.toE $h) ?_
    | refine RunsV.bindA (RunsV.toE $h) ?_
    | refine RunsV.bind (RunsV.toEP $h) ?_
    | refine RunsV.bindP (RunsV.toEP $h) ?_
    | refine RunsV.bindA (RunsV.toEP $h) ?_
    | fail "rstep: specification does not fit"))

/-- close the goal with the specification `h`, weakening the state predicates as needed -/
macro "rexact " h:term : tactic =>
  `(tactic| (first
    | exact $h
    | exact RunsV.ofE $h
    | exact RunsV.ofA $h
    | exact RunsV.toE $h
    | exact RunsV.toE (RunsV.ofE $h)
    | exact RunsV.toE (RunsV.ofA $h)
    | exact RunsV.toEP $h
    | exact RunsV.toEP (RunsV.ofE $h)
    | exact RunsV.toEP (RunsV.ofA $h)
    | fail "rexact: specification does not fit"))

/-! ## `strconv.ParseInt` reads back `strconv.FormatInt` (non-negative values) -/

theorem digit_of_lt10 (d : Nat) (h : d < 10) :
    Nat.toDigits 10 d = [Nat.digitChar d] ∧ digitVal36 (Nat.digitChar d) = some d ∧ Nat.digitChar d ≠ '_' := by
  have : d = 0 ∨ d = 1 ∨ d = 2 ∨ d = 3 ∨ d = 4 ∨ d = 5 ∨ d = 6 ∨ d = 7 ∨ d = 8 ∨ d = 9 := by omega
  rcases this with h | h | h | h | h | h | h | h | h | h <;> subst h <;> decide

theorem uintLoop_append (base : Nat) (l1 l2 : List Char) (n : Nat) :
    uintLoop base (l1 ++ l2) n = (uintLoop base l1 n).bind (uintLoop base l2) := by
  induction l1 generalizing n with
  | nil => rfl
  | cons c l1 ih =>
    simp only [List.cons_append, uintLoop]
    split
    · exact ih n
    · split
      · rfl
      · split
        · rfl
        · exact ih _

theorem uintLoop_toDigits (n : Nat) : uintLoop 10 (Nat.toDigits 10 n) 0 = some n := by
  induction n using Nat.strongRecOn with
  | _ n ih =>
    by_cases hlt : n < 10
    · obtain ⟨h1, h2, h3⟩ := digit_of_lt10 n hlt
      rw [h1]
      simp [uintLoop, h2, h3]
      omega
    · have hq : 0 < n / 10 := by omega
      have happ := Nat.toDigits_append_toDigits (b := 10) (n := n / 10) (d := n % 10) (by decide) hq
        (Nat.mod_lt _ (by decide))
      have hn' : 10 * (n / 10) + n % 10 = n := by omega
      rw [hn'] at happ
      rw [← happ, uintLoop_append, ih (n / 10) (by omega)]
      obtain ⟨h1, h2, h3⟩ := digit_of_lt10 (n % 10) (Nat.mod_lt _ (by decide))
      rw [h1]
      simp [uintLoop, h2, h3]
      omega

theorem toDigits_not_underscore (n : Nat) : (Nat.toDigits 10 n).contains '_' = false := by
  cases h : (Nat.toDigits 10 n).contains '_' with
  | false => rfl
  | true =>
    have hm : '_' ∈ Nat.toDigits 10 n := by
      rw [List.contains_iff_mem] at h; exact h
    exact absurd (Nat.isDigit_of_mem_toDigits (by decide) (by decide) hm) (by decide)

theorem parseIntBase0_toDigits (bits n : Nat) (h : n < 2 ^ (bits - 1)) :
    parseIntBase0 bits (Nat.toDigits 10 n) = some (n : Int) := by
  have hall : ∀ c ∈ Nat.toDigits 10 n, c.isDigit = true := fun c hc =>
    Nat.isDigit_of_mem_toDigits (by decide) (by decide) hc
  have hcore : parseIntCore bits false (Nat.toDigits 10 n) = some (n : Int) := by
    have hu := uintLoop_toDigits n
    by_cases hn : n = 0
    · subst hn
      have h0 : Nat.toDigits 10 0 = ['0'] := by decide
      rw [h0]
      simp [parseIntCore, basePrefix, uintLoop, intRange]
    · obtain ⟨c, cs, hc, hc0⟩ := toDigits_head n (by omega)
      have hnc := toDigits_not_underscore n
      rw [hc] at hu hnc
      rw [hc]
      simp only [parseIntCore, basePrefix, hc0, if_false, hu, hnc, Bool.false_and, Bool.false_eq_true]
      simp [intRange]
      omega
  obtain ⟨c, cs, hc⟩ : ∃ c cs, Nat.toDigits 10 n = c :: cs := by
    by_cases hn : n = 0
    · subst hn; exact ⟨'0', [], by decide⟩
    · obtain ⟨c, cs, hc, _⟩ := toDigits_head n (by omega); exact ⟨c, cs, hc⟩
  have hd := hall c (by rw [hc]; simp)
  have h1 : c ≠ '+' := by intro hh; subst hh; simp at hd
  have h2 : c ≠ '-' := by intro hh; subst hh; simp at hd
  rw [hc] at hcore ⊢
  rw [parseIntBase0_unsigned bits c cs h2 h1]
  exact hcore

/-! ## Tokens of the printed text -/

def tDot : TT := (.dot, ['.'])
def tLb : TT := (.lbrack, ['['])
def tRb : TT := (.rbrack, [']'])
def tLp : TT := (.lparen, ['('])
def tRp : TT := (.rparen, [')'])
def tLc : TT := (.lbrace, ['{'])
def tRc : TT := (.rbrace, ['}'])
def tStar : TT := (.star, ['*'])
def tComma : TT := (.comma, [','])
def tQ : TT := (.question, ['?'])
def tAt : TT := (.at, ['@'])
def tDollar : TT := (.dollar, ['$'])
def tAny : TT := (.any, [])
def tLast : TT := (.last, ['l', 'a', 's', 't'])
def tTo : TT := (.to, ['t', 'o'])
def tInt (n : Nat) : TT := (.int, Nat.toDigits 10 n)

theorem T1_dot : T1 '.' = tDot := by decide
theorem T1_lb : T1 '[' = tLb := by decide
theorem T1_rb : T1 ']' = tRb := by decide
theorem T1_lp : T1 '(' = tLp := by decide
theorem T1_rp : T1 ')' = tRp := by decide
theorem T1_lc : T1 '{' = tLc := by decide
theorem T1_rc : T1 '}' = tRc := by decide
theorem T1_star : T1 '*' = tStar := by decide
theorem T1_comma : T1 ',' = tComma := by decide
theorem T1_q : T1 '?' = tQ := by decide
theorem T1_at : T1 '@' = tAt := by decide
theorem T1_dollar : T1 '$' = tDollar := by decide

/-! ## Stage 1: accessor steps -/

def noNulB (s : List Char) : Bool := s.all (fun c => c.toNat != 0)

theorem noNul_of_B {s : List Char} (h : noNulB s = true) : NoNul s := by
  intro c hc
  simp only [noNulB, List.all_eq_true] at h
  simpa using h c hc

/-- a level of `.**` the parser can produce: a literal below 2³¹ or `last` -/
def lvlOK (a : Nat) : Bool := a < 2147483648 || a == maxU32

/-- an integer literal the parser can produce without sign: 0 … 2⁶³-1 -/
def intOK (i : Int) : Bool := 0 ≤ i && i < 9223372036854775808

/-- a subscript bound of the class: a non-negative integer literal or `last` -/
def okIdx : Node → Bool
  | .integer i none => intOK i
  | .const .last none => true
  | _ => false

def okSub : Node → Bool
  | .binary .subscript (some l) none none => okIdx l
  | .binary .subscript (some l) (some r) none => okIdx l && okIdx r
  | _ => false

/-- an accessor of stage 1 (its `next` is not looked at) -/
def simpleStep : Node → Bool
  | .key s _ => noNulB s
  | .const .anyKey _ => true
  | .const .anyArray _ => true
  | .any a b _ => lvlOK a && lvlOK b
  | .method _ _ => true
  | .unary .date none _ => true
  | .unary .datetime none _ => true
  | .unary .datetime (some (.str t none)) _ => noNulB t
  | .arrayIndex subs _ => !subs.isEmpty && subs.all okSub
  | _ => false

def lvlTok (a : Nat) : TT := if a = maxU32 then tLast else tInt a

def anyToks (a b : Nat) : List TT :=
  if a = 0 ∧ b = maxU32 then [tAny]
  else if a = b then [tAny, tLc, lvlTok a, tRc]
  else [tAny, tLc, lvlTok a, tTo, lvlTok b, tRc]

def idxTok : Node → TT
  | .integer i _ => tInt i.toNat
  | _ => tLast

def subToks : Node → List TT
  | .binary _ (some l) (some r) _ => [idxTok l, tTo, idxTok r]
  | .binary _ (some l) none _ => [idxTok l]
  | _ => []

def subsToks : List Node → List TT
  | [] => []
  | [s] => subToks s
  | s :: ss => subToks s ++ tComma :: subsToks ss

def methodName : Method → List Char
  | .abs => ['a','b','s'] | .size => ['s','i','z','e'] | .type => ['t','y','p','e']
  | .floor => ['f','l','o','o','r'] | .ceiling => ['c','e','i','l','i','n','g']
  | .double => ['d','o','u','b','l','e'] | .keyvalue => ['k','e','y','v','a','l','u','e']
  | .bigint => ['b','i','g','i','n','t'] | .boolean => ['b','o','o','l','e','a','n']
  | .integer => ['i','n','t','e','g','e','r'] | .number => ['n','u','m','b','e','r']
  | .string => ['s','t','r','i','n','g']

def tMethod (m : Method) : TT := (methodTok m, methodName m)
def tDate : TT := (.date, ['d','a','t','e'])
def tDatetime : TT := (.datetime, ['d','a','t','e','t','i','m','e'])

/-- the tokens of one stage-1 accessor -/
def stepToks : Node → List TT
  | .key s _ => [tDot, (.string, s)]
  | .const .anyKey _ => [tDot, tStar]
  | .const .anyArray _ => [tLb, tStar, tRb]
  | .any a b _ => tDot :: anyToks a b
  | .method m _ => [tDot, tMethod m, tLp, tRp]
  | .unary .date _ _ => [tDot, tDate, tLp, tRp]
  | .unary .datetime none _ => [tDot, tDatetime, tLp, tRp]
  | .unary .datetime (some (.str t _)) _ => [tDot, tDatetime, tLp, (.string, t), tRp]
  | .arrayIndex subs _ => tLb :: (subsToks subs ++ [tRb])
  | _ => []

section
variable {o : Oracles}

theorem accLoop_nil (f : Nat) (head : EV) (ops : List Node) (rest : List TT)
    (hf : isAccessorStart (hd rest).1 = false) :
    RunsV (StE o rest) (accessorLoop o (f + 1) head ops) (linkNodes head ops) (StA o rest) := by
  rw [accessorLoop]
  rstep (peek_any rest)
  simp only [hf]
  exact RunsV.pure _

theorem accOp_key (f : Nat) (s : List Char) (rest : List TT) :
    RunsV (StP o (tDot :: (.string, s) :: rest)) (accessorOp o (f + 1) .dot) (.key s none) (StE o rest) := by
  rw [accessorOp]
  rstep (consume_spec _ _)
  simp only [reduceCtorEq, ↓reduceIte]
  rstep (peek_cons _ _)
  simp [isPlainKeyName]
  rstep (consume_spec _ _)
  exact RunsV.pure _

theorem accOp_anyKey (f : Nat) (rest : List TT) :
    RunsV (StP o (tDot :: tStar :: rest)) (accessorOp o (f + 1) .dot) (.const .anyKey none) (StE o rest) := by
  rw [accessorOp]
  rstep (consume_spec _ _)
  simp only [reduceCtorEq, ↓reduceIte]
  rstep (peek_cons _ _)
  simp [tStar]
  rstep (consume_spec _ _)
  exact RunsV.pure _

theorem accOp_anyArray (f : Nat) (rest : List TT) :
    RunsV (StP o (tLb :: tStar :: tRb :: rest)) (accessorOp o (f + 1) .lbrack) (.const .anyArray none)
      (StE o rest) := by
  rw [accessorOp]
  rstep (consume_spec _ _)
  simp only [reduceCtorEq, ↓reduceIte]
  rstep (peek_cons _ _)
  simp [tStar]
  rstep (consume_spec _ _)
  rstep (expect_spec _ _ _)
  exact RunsV.pure _

theorem accOp_method (f : Nat) (m : Method) (rest : List TT) :
    RunsV (StP o (tDot :: tMethod m :: tLp :: tRp :: rest)) (accessorOp o (f + 1) .dot) (.method m none)
      (StE o rest) := by
  have hm := (methodStr_lexes_back m).2
  have h1 : methodTok m ≠ .star ∧ methodTok m ≠ .any ∧ isPlainKeyName (methodTok m) = false := by
    cases m <;> decide
  rw [accessorOp]
  rstep (consume_spec _ _)
  simp only [reduceCtorEq, ↓reduceIte]
  rstep (peek_cons _ _)
  simp only [tMethod, h1.1, h1.2.1, h1.2.2, hm, ↓reduceIte, Bool.false_eq_true]
  rstep (consume_spec _ _)
  rstep (peek_cons _ _)
  simp only [tLp, ↓reduceIte]
  rstep (consume_spec _ _)
  rstep (expect_spec _ _ _)
  exact RunsV.pure _

theorem accOp_date (f : Nat) (rest : List TT) :
    RunsV (StP o (tDot :: tDate :: tLp :: tRp :: rest)) (accessorOp o (f + 1) .dot) (.unary .date none none)
      (StE o rest) := by
  rw [accessorOp]
  rstep (consume_spec _ _)
  simp only [reduceCtorEq, ↓reduceIte]
  rstep (peek_cons _ _)
  simp [tDate, isPlainKeyName, methodOf]
  rstep (consume_spec _ _)
  rstep (peek_cons _ _)
  simp only [tLp, ↓reduceIte]
  rstep (consume_spec _ _)
  rstep (expect_spec _ _ _)
  exact RunsV.pure _

theorem accOp_datetime0 (f : Nat) (rest : List TT) :
    RunsV (StP o (tDot :: tDatetime :: tLp :: tRp :: rest)) (accessorOp o (f + 1) .dot)
      (.unary .datetime none none) (StE o rest) := by
  rw [accessorOp]
  rstep (consume_spec _ _)
  simp only [reduceCtorEq, ↓reduceIte]
  rstep (peek_cons _ _)
  simp [tDatetime, isPlainKeyName, methodOf]
  rstep (consume_spec _ _)
  rstep (peek_cons _ _)
  simp only [tLp, ↓reduceIte]
  rstep (consume_spec _ _)
  rstep (peek_cons _ _)
  simp [tRp]
  rstep (expect_spec _ _ _).ofE
  exact RunsV.pure _

theorem accOp_datetime1 (f : Nat) (t : List Char) (rest : List TT) :
    RunsV (StP o (tDot :: tDatetime :: tLp :: (.string, t) :: tRp :: rest)) (accessorOp o (f + 1) .dot)
      (.unary .datetime (some (.str t none)) none) (StE o rest) := by
  rw [accessorOp]
  rstep (consume_spec _ _)
  simp only [reduceCtorEq, ↓reduceIte]
  rstep (peek_cons _ _)
  simp [tDatetime, isPlainKeyName, methodOf]
  rstep (consume_spec _ _)
  rstep (peek_cons _ _)
  simp only [tLp, ↓reduceIte]
  rstep (consume_spec _ _)
  rstep (peek_cons _ _)
  simp
  rstep (consume_spec _ _)
  rstep (expect_spec _ _ _)
  exact RunsV.pure _

/-! ### `.**` -/

def lvlVal (a : Nat) : Option Nat := if a = maxU32 then none else some a

theorem anyLevel_lvl (a : Nat) (h : lvlOK a = true) (rest : List TT) :
    RunsV (StE o (lvlTok a :: rest)) (anyLevel o) (lvlVal a) (StE o rest) := by
  unfold anyLevel lvlTok lvlVal
  by_cases ha : a = maxU32
  · simp only [ha, if_true]
    rstep (peek_cons _ _)
    simp [tLast]
    rstep (consume_spec _ _)
    exact RunsV.pure _
  · simp only [ha, if_false]
    have hlt : a < 2 ^ (32 - 1) := by
      simp only [lvlOK, Bool.or_eq_true, decide_eq_true_eq, beq_iff_eq] at h
      rcases h with h | h
      · exact h
      · exact absurd h ha
    rstep (peek_cons _ _)
    simp only [tInt, ↓reduceIte]
    rstep (consume_spec _ _)
    simp only [anyLevelOf, parseIntBase0_toDigits 32 a hlt]
    rstep (RunsV.pure _)
    exact RunsV.pure' (by simp) (fun _ h => h)

theorem newAny_lvl (a b : Nat) (ha : lvlOK a = true) (hb : lvlOK b = true) :
    newAny (lvlVal a) (lvlVal b) = .any a b none := by
  have hc : ∀ x, lvlOK x = true →
      (match lvlVal x with | some n => if n < maxU32 then n else maxU32 | none => maxU32) = x := by
    intro x hx
    unfold lvlVal
    by_cases h : x = maxU32
    · simp [h]
    · simp only [h, if_false]
      simp only [lvlOK, Bool.or_eq_true, decide_eq_true_eq, beq_iff_eq] at hx
      have : x < maxU32 := by
        rcases hx with hx | hx
        · simp only [maxU32]; omega
        · exact absurd hx h
      simp [this]
  unfold newAny
  simp only [Node.any.injEq, and_true]
  exact ⟨hc a ha, hc b hb⟩

theorem accOp_any (f : Nat) (a b : Nat) (ha : lvlOK a = true) (hb : lvlOK b = true) (rest : List TT)
    (hr : (hd rest).1 ≠ .lbrace) :
    RunsV (StP o (tDot :: (anyToks a b ++ rest))) (accessorOp o (f + 1) .dot) (.any a b none) (StE o rest) := by
  rw [accessorOp]
  rstep (consume_spec _ _)
  simp only [reduceCtorEq, ↓reduceIte]
  unfold anyToks
  split
  · rename_i h0
    rstep (peek_cons _ _)
    simp [tAny]
    rstep (consume_spec _ _)
    rstep (peek_any rest)
    simp only [hr, ↓reduceIte]
    refine RunsV.pure' ?_ (fun _ h => StE.ofA h)
    rw [h0.1, h0.2]
    simp [newAny, maxU32]
  · split
    · rename_i _ hab
      subst hab
      rstep (peek_cons _ _)
      simp [tAny]
      rstep (consume_spec _ _)
      rstep (peek_cons _ _)
      simp only [tLc, ↓reduceIte]
      rstep (consume_spec _ _)
      rstep (anyLevel_lvl a ha _)
      rstep (peek_cons _ _)
      simp only [tRc, ↓reduceIte]
      rstep (consume_spec _ _)
      exact RunsV.pure' (newAny_lvl a a ha ha) (fun _ h => h)
    · rstep (peek_cons _ _)
      simp [tAny]
      rstep (consume_spec _ _)
      rstep (peek_cons _ _)
      simp only [tLc, ↓reduceIte]
      rstep (consume_spec _ _)
      rstep (anyLevel_lvl a ha _)
      rstep (peek_cons _ _)
      simp [tTo]
      rstep (consume_spec _ _)
      rstep (anyLevel_lvl b hb _)
      rstep (expect_spec _ _ _)
      exact RunsV.pure' (newAny_lvl a b ha hb) (fun _ h => h)

/-! ### subscripts -/

def evIdx : Node → EV
  | .integer i _ => { node := .integer i none, lit := Nat.toDigits 10 i.toNat }
  | _ => { node := .const .last none }

theorem newInteger_toDigits (n : Nat) (h : n < 9223372036854775808) :
    newInteger (Nat.toDigits 10 n) = pure { node := .integer (n : Int) none, lit := Nat.toDigits 10 n } := by
  unfold newInteger parseInt0
  rw [parseIntBase0_toDigits 64 n (by simpa using h)]

theorem okIdx_cases {l : Node} (h : okIdx l = true) :
    (∃ i, l = .integer i none ∧ intOK i = true) ∨ l = .const .last none := by
  unfold okIdx at h
  split at h
  · rename_i i; exact Or.inl ⟨i, rfl, h⟩
  · exact Or.inr rfl
  · simp at h

theorem evIdx_node {l : Node} (h : okIdx l = true) : (evIdx l).node = l := by
  rcases okIdx_cases h with ⟨i, rfl, _⟩ | rfl <;> rfl

theorem intOK_toNat {i : Int} (h : intOK i = true) : ((i.toNat : Nat) : Int) = i ∧ i.toNat < 9223372036854775808 := by
  simp only [intOK, Bool.and_eq_true, decide_eq_true_eq] at h
  omega

/-- a subscript bound, where only an `expr` may start -/
theorem unaryT_idx (f : Nat) (l : Node) (hl : okIdx l = true) (rest : List TT)
    (hr : isAccessorStart (hd rest).1 = false) :
    RunsV (StP o (idxTok l :: rest)) (parseUnaryT o (f + 3) (idxTok l)) (evIdx l) (StA o rest) := by
  rcases okIdx_cases hl with ⟨i, rfl, hi⟩ | rfl
  · obtain ⟨h1, h2⟩ := intOK_toNat hi
    simp only [idxTok, tInt, evIdx]
    rw [parseUnaryT]
    simp only [reduceCtorEq, ↓reduceIte]
    rw [parseScalar]
    rstep (consume_spec _ _)
    rw [newInteger_toDigits _ h2]
    rstep (RunsV.pure _)
    rw [h1]
    exact accLoop_nil f _ [] rest hr
  · simp only [idxTok, tLast, evIdx]
    rw [parseUnaryT]
    simp only [reduceCtorEq, ↓reduceIte]
    rw [parseScalar]
    rstep (consume_spec _ _)
    rstep (RunsV.pure _)
    exact accLoop_nil f _ [] rest hr

theorem unary_idx (f : Nat) (l : Node) (hl : okIdx l = true) (rest : List TT)
    (hr : isAccessorStart (hd rest).1 = false) :
    RunsV (StE o (idxTok l :: rest)) (parseUnary o (f + 4)) (evIdx l) (StA o rest) := by
  rw [parseUnary]
  rstep (peek_cons _ _)
  exact unaryT_idx f l hl rest hr

theorem arith_nil (f : Nat) (lhs : EV) (rest : List TT)
    (h1 : addOp (hd rest).1 = none) (h2 : mulOp (hd rest).1 = none) :
    RunsV (StE o rest) (arithLoop o (f + 1) lhs) (lhs, (hd rest).1) (StA o rest) := by
  rw [arithLoop]
  rstep (peek_any rest)
  simp only [h1, h2]
  exact RunsV.pure _

theorem okSub_cases {s : Node} (h : okSub s = true) :
    ∃ l r, s = .binary .subscript (some l) r none ∧ okIdx l = true ∧ ∀ r', r = some r' → okIdx r' = true := by
  unfold okSub at h
  split at h
  · rename_i l; exact ⟨l, none, rfl, h, by intro r' hr'; cases hr'⟩
  · rename_i l r
    simp only [Bool.and_eq_true] at h
    exact ⟨l, some r, rfl, h.1, by intro r' hr'; injection hr' with hr'; subst hr'; exact h.2⟩
  · simp at h

theorem idxTok_ne_stop (l : Node) : (idxTok l).1 ≠ .stop := by
  unfold idxTok; split <;> simp [tInt, tLast]

/-- one element of an index list followed by `]` -/
theorem indexList_last (f : Nat) (s : Node) (hs : okSub s = true) (acc : List Node) (rest : List TT) :
    RunsV (StP o (subToks s ++ tRb :: rest)) (indexList o (f + 5) (hd (subToks s)) acc) (acc ++ [s])
      (StE o rest) := by
  obtain ⟨l, r, rfl, hl, hr⟩ := okSub_cases hs
  cases r with
  | none =>
    simp only [subToks, hd, List.cons_append, List.nil_append]
    rw [indexList]
    rstep (unaryT_idx (f + 1) l hl _ rfl)
    rstep (arith_nil _ _ _ rfl rfl)
    simp only [hd, tRb, reduceCtorEq, ↓reduceIte]
    rstep (RunsV.pure _)
    rstep (peek_cons _ _)
    simp only [reduceCtorEq, ↓reduceIte]
    rstep (consume_spec _ _)
    exact RunsV.pure' (by rw [evIdx_node hl]) (fun _ h => h)
  | some r =>
    have hr' := hr r rfl
    simp only [subToks, hd, List.cons_append, List.nil_append]
    rw [indexList]
    rstep (unaryT_idx (f + 1) l hl _ rfl)
    rstep (arith_nil _ _ _ rfl rfl)
    simp only [hd, tTo, ↓reduceIte]
    rstep (consume_spec _ _)
    rstep (unary_idx f r hr' _ rfl)
    rstep (arith_nil _ _ _ rfl rfl)
    rstep (RunsV.pure _)
    rstep (peek_cons _ _)
    simp only [hd, tRb, reduceCtorEq, ↓reduceIte]
    rstep (consume_spec _ _)
    exact RunsV.pure' (by rw [evIdx_node hl, evIdx_node hr']) (fun _ h => h)

/-- one element of an index list followed by `,` and more elements -/
theorem indexList_more (f : Nat) (s : Node) (hs : okSub s = true) (acc : List Node) (tk : TT) (more : List TT)
    (htk : tk.1 ≠ .stop) (w : List Node) (post : PS → Prop)
    (h : RunsV (StP o (tk :: more)) (indexList o (f + 4) tk (acc ++ [s])) w post) :
    RunsV (StP o (subToks s ++ tComma :: tk :: more)) (indexList o (f + 5) (hd (subToks s)) acc) w post := by
  obtain ⟨l, r, rfl, hl, hr⟩ := okSub_cases hs
  cases r with
  | none =>
    simp only [subToks, hd, List.cons_append, List.nil_append]
    rw [indexList]
    rstep (unaryT_idx (f + 1) l hl _ rfl)
    rstep (arith_nil _ _ _ rfl rfl)
    simp only [hd, tComma, reduceCtorEq, ↓reduceIte]
    rstep (RunsV.pure _)
    rstep (peek_cons _ _)
    simp only [reduceCtorEq, ↓reduceIte]
    rstep (consume_spec _ _)
    rstep (peek_cons _ _)
    simp only [htk, ↓reduceIte]
    rw [evIdx_node hl]
    exact h
  | some r =>
    have hr' := hr r rfl
    simp only [subToks, hd, List.cons_append, List.nil_append]
    rw [indexList]
    rstep (unaryT_idx (f + 1) l hl _ rfl)
    rstep (arith_nil _ _ _ rfl rfl)
    simp only [hd, tTo, ↓reduceIte]
    rstep (consume_spec _ _)
    rstep (unary_idx f r hr' _ rfl)
    rstep (arith_nil _ _ _ rfl rfl)
    rstep (RunsV.pure _)
    rstep (peek_cons _ _)
    simp only [hd, tComma, reduceCtorEq, ↓reduceIte]
    rstep (consume_spec _ _)
    rstep (peek_cons _ _)
    simp only [htk, ↓reduceIte]
    rw [evIdx_node hl, evIdx_node hr']
    exact h

theorem subToks_shape {s : Node} (hs : okSub s = true) : ∃ tk ts, subToks s = tk :: ts ∧ tk.1 ≠ .stop := by
  obtain ⟨l, r, rfl, _, _⟩ := okSub_cases hs
  cases r with
  | none => exact ⟨idxTok l, [], rfl, idxTok_ne_stop l⟩
  | some r => exact ⟨idxTok l, _, rfl, idxTok_ne_stop l⟩

/-- a whole index list -/
theorem indexList_spec (subs : List Node) (hne : subs ≠ []) (hs : ∀ s ∈ subs, okSub s = true) :
    ∀ (f : Nat) (acc : List Node) (rest : List TT), subs.length + 4 ≤ f →
    RunsV (StP o (subsToks subs ++ tRb :: rest)) (indexList o f (hd (subsToks subs)) acc) (acc ++ subs)
      (StE o rest) := by
  induction subs with
  | nil => exact absurd rfl hne
  | cons s ss ih =>
    intro f acc rest hf
    have hs1 := hs s (by simp)
    cases ss with
    | nil =>
      obtain ⟨f', rfl⟩ : ∃ f', f = f' + 5 := ⟨f - 5, by simp at hf; omega⟩
      simp only [subsToks]
      exact indexList_last f' s hs1 acc rest
    | cons s2 ss2 =>
      obtain ⟨f', rfl⟩ : ∃ f', f = f' + 5 := ⟨f - 5, by simp at hf; omega⟩
      have hs' : ∀ x ∈ s2 :: ss2, okSub x = true := fun x hx => hs x (by simp at hx ⊢; right; exact hx)
      have ih' := ih (by simp) hs' (f' + 4) (acc ++ [s]) rest (by simp at hf ⊢; omega)
      obtain ⟨tk, ts, htk, hns⟩ : ∃ tk ts, subsToks (s2 :: ss2) = tk :: ts ∧ tk.1 ≠ .stop := by
        obtain ⟨tk, ts, h1, h2⟩ := subToks_shape (hs s2 (by simp))
        cases ss2 with
        | nil => exact ⟨tk, ts, by simp [subsToks, h1], h2⟩
        | cons s3 ss3 => exact ⟨tk, ts ++ tComma :: subsToks (s3 :: ss3), by simp [subsToks, h1], h2⟩
      obtain ⟨tk1, ts1, htk1, _⟩ := subToks_shape hs1
      have e1 : subsToks (s :: s2 :: ss2) = subToks s ++ tComma :: subsToks (s2 :: ss2) := by simp [subsToks]
      rw [e1, htk]
      rw [htk] at ih'
      simp only [List.cons_append, List.append_assoc] at ih' ⊢
      have hh : hd (subToks s ++ tComma :: tk :: ts) = hd (subToks s) := by rw [htk1]; rfl
      rw [hh]
      have := indexList_more f' s hs1 acc tk (ts ++ tRb :: rest) hns (acc ++ s :: s2 :: ss2) (StE o rest)
        (by simpa [hd] using ih')
      simpa using this

theorem accOp_index (f : Nat) (subs : List Node) (hne : subs ≠ []) (hs : ∀ s ∈ subs, okSub s = true)
    (rest : List TT) (hf : subs.length + 4 ≤ f) :
    RunsV (StP o (tLb :: (subsToks subs ++ tRb :: rest))) (accessorOp o (f + 1) .lbrack)
      (.arrayIndex subs none) (StE o rest) := by
  have hsh : ∃ tk ts, subsToks subs = tk :: ts ∧ tk.1 ≠ .stop ∧ tk.1 ≠ .star := by
    cases subs with
    | nil => exact absurd rfl hne
    | cons s ss =>
      obtain ⟨l, r, rfl, _, _⟩ := okSub_cases (hs s (by simp))
      have h2 : (idxTok l).1 ≠ .star := by unfold idxTok; split <;> simp [tInt, tLast]
      cases ss with
      | nil => cases r <;> exact ⟨idxTok l, _, rfl, idxTok_ne_stop l, h2⟩
      | cons s2 ss2 => cases r <;> exact ⟨idxTok l, _, rfl, idxTok_ne_stop l, h2⟩
  obtain ⟨tk, ts, htk, h1, h2⟩ := hsh
  have hspec := indexList_spec (o := o) subs hne hs f [] rest hf
  rw [htk] at hspec ⊢
  rw [accessorOp]
  rstep (consume_spec _ _)
  simp only [reduceCtorEq, ↓reduceIte]
  rstep (peek_cons _ _)
  simp only [h1, h2, ↓reduceIte]
  rstep (by simpa [hd] using hspec)
  exact RunsV.pure _

end

/-! ## The characters that may follow a printed piece -/

/-- what follows a complete operand: the end, a blank, `)`, `]`, `,`, `}` -/
def brk (y : Option Char) : Prop :=
  y = none ∨ y = some ' ' ∨ y = some ')' ∨ y = some ']' ∨ y = some ',' ∨ y = some '}'

/-- what follows an accessor: the above or the start of the next accessor -/
def brkS (y : Option Char) : Prop := brk y ∨ y = some '.' ∨ y = some '[' ∨ y = some '?'

theorem brk_none : brk none := Or.inl rfl
theorem brkS_of_brk {y : Option Char} (h : brk y) : brkS y := Or.inl h

theorem noNul_nil_iff : NoNul [] ↔ True := ⟨fun _ => trivial, fun _ => NoNul.nil⟩
theorem noNul_cons_iff (c : Char) (l : List Char) : NoNul (c :: l) ↔ c.toNat ≠ 0 ∧ NoNul l :=
  ⟨NoNul.of_cons, fun h => NoNul.cons h.1 h.2⟩
theorem noNul_append_iff (a b : List Char) : NoNul (a ++ b) ↔ NoNul a ∧ NoNul b :=
  ⟨fun h => ⟨fun c hc => h c (by simp [hc]), fun c hc => h c (by simp [hc])⟩, fun h => h.1.append h.2⟩

theorem noNul_toDigits (n : Nat) : NoNul (Nat.toDigits 10 n) := by
  intro c hc
  have := Nat.isDigit_of_mem_toDigits (by decide) (by decide) hc
  intro h0
  have hc0 : c = Char.ofNat 0 := by
    rw [← h0]; simp
  subst hc0
  exact absurd this (by decide)

theorem noNul_hexDigits (k n : Nat) : NoNul (Print.hexDigits k n) := by
  induction k with
  | zero => exact NoNul.nil
  | succ k ih =>
    simp only [Print.hexDigits]
    exact NoNul.cons (lowerHex_toNat_ne_zero _ (Nat.mod_lt _ (by decide))) ih

theorem noNul_escapeRune (isPrint : Char → Bool) (c : Char) (hc : c.toNat ≠ 0) :
    NoNul (Print.escapeRune isPrint c) := by
  unfold Print.escapeRune Print.hexTrim
  simp [apply_ite NoNul, noNul_cons_iff, noNul_append_iff, noNul_nil_iff, noNul_hexDigits, hc]

theorem noNul_quote (isPrint : Char → Bool) (s : List Char) (hs : NoNul s) : NoNul (Print.quote isPrint s) := by
  unfold Print.quote
  refine NoNul.cons (by decide) (NoNul.append ?_ (NoNul.cons (by decide) NoNul.nil))
  intro c hc
  simp only [List.mem_flatMap] at hc
  obtain ⟨a, ha, hca⟩ := hc
  exact noNul_escapeRune isPrint a (hs a ha) c hca

section
variable (o : Oracles) (ok : OrOK o)
include ok

theorem brkS_punct {y : Option Char} (h : brkS y) : y = none ∨ ∃ c, y = some c ∧ c ∈ punct ∧ c ≠ '*' ∧ c ≠ '"'
    ∧ c ≠ '=' ∧ c ≠ '>' ∧ c ≠ '_' ∧ c ≠ '\\' ∧ isDecimal c = false := by
  rcases h with (h | h | h | h | h | h) | h | h | h
  · exact Or.inl h
  all_goals (right; exact ⟨_, h, by decide, by decide, by decide, by decide, by decide, by decide, by decide, by decide⟩)

theorem brkS_identCont {y : Option Char} (h : brkS y) : isIdentCont o y = false := by
  rcases brkS_punct o ok h with h | ⟨c, h, hp, _, _, _, _, h1, h2, _⟩
  · subst h; rfl
  · subst h; simp [isIdentCont, h1, h2, ok.punctC c hp]

theorem brkS_dollar {y : Option Char} (h : brkS y) : y ≠ some '"' ∧ isVariableRune o y = false := by
  rcases brkS_punct o ok h with h | ⟨c, h, hp, _, h0, _, _, h1, h2, _⟩
  · subst h; exact ⟨by simp, rfl⟩
  · subst h; exact ⟨by simpa using h0, by simp [isVariableRune, ok.punctC c hp]⟩

omit ok in
theorem brkS_star {y : Option Char} (h : brkS y) : y ≠ some '*' := by
  rcases h with (h | h | h | h | h | h) | h | h | h <;> subst h <;> simp

omit ok in
theorem brkS_notDigit {y : Option Char} (h : brkS y) : isDecimalR y = false := by
  rcases h with (h | h | h | h | h | h) | h | h | h <;> subst h <;> decide

theorem brk_endsNumber {y : Option Char} (h : brk y) : EndsNumber o y := by
  have hs := ok.punctS
  rcases h with h | h | h | h | h | h <;> subst h
  · exact ⟨rfl, by simp, by simp, by simp, by simp, by simp, by simp, rfl, rfl⟩
  all_goals
    refine ⟨by decide, by decide, by decide, by decide, by decide, by decide, by decide, ?_, ?_⟩
    · simp only [Option.map]
      first
        | exact (by simpa [isIdentStart, lowerBit] using hs ' ' (by decide))
        | exact (by simpa [isIdentStart, lowerBit] using hs ')' (by decide))
        | exact (by simpa [isIdentStart, lowerBit] using hs '}' (by decide))
        | exact (by simpa [isIdentStart, lowerBit] using hs ',' (by decide))
    · first
        | exact (by simpa [isIdentStart] using hs ' ' (by decide))
        | exact (by simpa [isIdentStart] using hs ')' (by decide))
        | exact (by simpa [isIdentStart] using hs ']' (by decide))
        | exact (by simpa [isIdentStart] using hs '}' (by decide))
        | exact (by simpa [isIdentStart] using hs ',' (by decide))

/-! ## Text and tokens of the stage-1 accessors -/

/-- the decimal text of a natural number is one `INT_P` token -/
theorem tokAt_nat (n : Nat) : ∃ d ds, Nat.toDigits 10 n = d :: ds ∧ TokAt o (EndsNumber o) d ds (tInt n) ∧
    d.toNat ≠ 0 ∧ NoNul ds ∧ isWhitespace d = false := by
  have hall : ∀ c ∈ Nat.toDigits 10 n, isDecimal c = true := fun c hc =>
    isDecimal_of_isDigit c (Nat.isDigit_of_mem_toDigits (by decide) (by decide) hc)
  have hnn := noNul_toDigits n
  by_cases hn : n = 0
  · subst hn
    have h0 : Nat.toDigits 10 0 = ['0'] := by decide
    refine ⟨'0', [], h0, ?_, by decide, NoNul.nil, by decide⟩
    have := tokAt_int o ok '0' [] (by rw [← h0]; exact hall) (fun _ => rfl)
    simpa [tInt, h0] using this
  · obtain ⟨c, cs, hc, hc0⟩ := toDigits_head n (by omega)
    rw [hc] at hall hnn
    refine ⟨c, cs, hc, ?_, (NoNul.of_cons hnn).1, (NoNul.of_cons hnn).2,
      (isDecimal_facts c (hall c (by simp))).2.2.2.1⟩
    have := tokAt_int o ok c cs hall (fun h => absurd h hc0)
    simpa [tInt, hc] using this

theorem seg_nat (n : Nat) : Seg o brk (Nat.toDigits 10 n) [tInt n] := by
  obtain ⟨d, ds, h, ht, h1, h2, _⟩ := tokAt_nat o ok n
  rw [h]
  exact (seg_of_tokAt o ht h1 h2 (by simp [tInt])).mono o (fun y hy => brk_endsNumber o ok hy)

theorem seg_sp_nat (n : Nat) : Seg o brk (' ' :: Nat.toDigits 10 n) [tInt n] := by
  obtain ⟨d, ds, h, ht, h1, h2, h3⟩ := tokAt_nat o ok n
  rw [h]
  exact (seg_sp_of_tokAt o ht h1 h2 (by simp [tInt]) h3).mono o (fun y hy => brk_endsNumber o ok hy)

/-- a keyword as a piece of text -/
theorem seg_kw (c : Char) (w : List Char) (t : Tok) (hp : (c :: w, t) ∈ kwList) (ht : t ≠ .stop) :
    Seg o (fun y => isIdentCont o y = false) (c :: w) [(t, c :: w)] := by
  have hw := kw_wordChars (c :: w, t) hp
  have hn := noNul_word o ok (c :: w) hw
  exact seg_of_tokAt o (tokAt_kw o ok c w t hp) (NoNul.of_cons hn).1 (NoNul.of_cons hn).2 ht

theorem seg_sp_kw (c : Char) (w : List Char) (t : Tok) (hp : (c :: w, t) ∈ kwList) (ht : t ≠ .stop) :
    Seg o (fun y => isIdentCont o y = false) (' ' :: c :: w) [(t, c :: w)] := by
  have hw := kw_wordChars (c :: w, t) hp
  have hn := noNul_word o ok (c :: w) hw
  obtain ⟨c', w', h1, h2⟩ := kw_shape (c :: w, t) hp
  injection h1 with h1a h1b
  subst h1a
  exact seg_sp_of_tokAt o (tokAt_kw o ok c w t hp) (NoNul.of_cons hn).1 (NoNul.of_cons hn).2 ht
    (isLow_facts c h2).2.2.2.1

theorem seg_solo (c : Char) (hc : c ∈ solo) : Seg o (fun _ => True) [c] [T1 c] := by
  have h0 : c.toNat ≠ 0 := by
    simp [solo] at hc
    rcases hc with h | h | h | h | h | h | h | h | h | h | h | h <;> subst h <;> decide
  have hns : (T1 c).1 ≠ .stop := by
    simp [solo] at hc
    rcases hc with h | h | h | h | h | h | h | h | h | h | h | h <;> subst h <;> decide
  exact seg_of_tokAt o (tokAt_solo o ok c hc) h0 NoNul.nil hns

theorem seg_string (s : List Char) (hs : NoNul s) :
    Seg o (fun _ => True) (Print.quote o.isPrint s) [(.string, s)] := by
  have hq := noNul_quote o.isPrint s hs
  have hb : NoNul (body o.isPrint s ++ ['"']) := by
    have : Print.quote o.isPrint s = '"' :: (body o.isPrint s ++ ['"']) := by simp [Print.quote, body]
    rw [this] at hq
    exact (NoNul.of_cons hq).2
  have := seg_of_tokAt o (tokAt_string o ok s hs) (by decide) hb (by simp)
  simpa [Print.quote, body] using this

end

/-! ## Stage-1 accessors: shapes, text, tokens -/

inductive StepShape : Node → Prop
  | key (s : List Char) (nx : Option Node) (h : NoNul s) : StepShape (.key s nx)
  | anyKey (nx : Option Node) : StepShape (.const .anyKey nx)
  | anyArray (nx : Option Node) : StepShape (.const .anyArray nx)
  | any (a b : Nat) (nx : Option Node) (ha : lvlOK a = true) (hb : lvlOK b = true) : StepShape (.any a b nx)
  | method (m : Method) (nx : Option Node) : StepShape (.method m nx)
  | date (nx : Option Node) : StepShape (.unary .date none nx)
  | datetime0 (nx : Option Node) : StepShape (.unary .datetime none nx)
  | datetime1 (t : List Char) (nx : Option Node) (h : NoNul t) : StepShape (.unary .datetime (some (.str t none)) nx)
  | index (subs : List Node) (nx : Option Node) (hne : subs ≠ []) (hs : ∀ s ∈ subs, okSub s = true) :
      StepShape (.arrayIndex subs nx)

theorem simpleStep_cases {n : Node} (h : simpleStep n = true) : StepShape n := by
  unfold simpleStep at h
  split at h
  · exact .key _ _ (noNul_of_B h)
  · exact .anyKey _
  · exact .anyArray _
  · simp only [Bool.and_eq_true] at h; exact .any _ _ _ h.1 h.2
  · exact .method _ _
  · exact .date _
  · exact .datetime0 _
  · exact .datetime1 _ _ (noNul_of_B h)
  · rename_i subs nx
    simp only [Bool.and_eq_true, Bool.not_eq_true', List.isEmpty_eq_false_iff, List.all_eq_true] at h
    exact .index _ _ h.1 h.2
  · simp at h

def lastTxt : List Char := ['l', 'a', 's', 't']
def lvlTxt (a : Nat) : List Char := if a = maxU32 then lastTxt else Nat.toDigits 10 a

def anyTxt (a b : Nat) : List Char :=
  if a = 0 ∧ b = maxU32 then ['*', '*']
  else if a = b then '*' :: '*' :: '{' :: (lvlTxt a ++ ['}'])
  else '*' :: '*' :: '{' :: (lvlTxt a ++ ' ' :: 't' :: 'o' :: ' ' :: (lvlTxt b ++ ['}']))

theorem anyStr_eq (a b : Nat) : Print.anyStr a b = anyTxt a b := by
  unfold Print.anyStr anyTxt lvlTxt lastTxt Print.natStr
  by_cases h1 : a = 0 ∧ b = maxU32
  · simp [h1.1, h1.2]
  · have h1' : (decide (a = 0) && decide (b = maxU32)) = false := by
      simp only [Bool.and_eq_false_iff, decide_eq_false_iff_not]
      by_cases ha : a = 0
      · right; intro hb; exact h1 ⟨ha, hb⟩
      · left; exact ha
    simp only [h1', Bool.false_eq_true, if_false, h1]
    by_cases h2 : a = b
    · subst h2
      by_cases h3 : a = maxU32 <;> simp [h3]
    · simp only [h2, if_false]
      by_cases h3 : a = maxU32
      · have h4 : b ≠ maxU32 := fun hb => h2 (by rw [h3, hb])
        simp [h3, h4]
      · by_cases h4 : b = maxU32 <;> simp [h3, h4]

def idxTxt : Node → List Char
  | .integer i _ => Nat.toDigits 10 i.toNat
  | _ => lastTxt

def subTxt : Node → List Char
  | .binary _ (some l) (some r) _ => idxTxt l ++ ' ' :: 't' :: 'o' :: ' ' :: idxTxt r
  | .binary _ (some l) none _ => idxTxt l
  | _ => []

def subsTxt : List Node → List Char
  | [] => []
  | [s] => subTxt s
  | s :: ss => subTxt s ++ ',' :: subsTxt ss

def stepTxt (isPrint : Char → Bool) : Node → List Char
  | .key s _ => '.' :: Print.quote isPrint s
  | .const .anyKey _ => ['.', '*']
  | .const .anyArray _ => ['[', '*', ']']
  | .any a b _ => '.' :: anyTxt a b
  | .method m _ => '.' :: (methodName m ++ ['(', ')'])
  | .unary .date _ _ => ['.', 'd', 'a', 't', 'e', '(', ')']
  | .unary .datetime none _ => ['.', 'd', 'a', 't', 'e', 't', 'i', 'm', 'e', '(', ')']
  | .unary .datetime (some (.str t _)) _ =>
      '.' :: 'd' :: 'a' :: 't' :: 'e' :: 't' :: 'i' :: 'm' :: 'e' :: '(' :: (Print.quote isPrint t ++ [')'])
  | .arrayIndex subs _ => '[' :: (subsTxt subs ++ [']'])
  | _ => []

/-! ### the printer on these accessors -/

theorem writeTo_idx (isPrint : Char → Bool) {l : Node} (h : okIdx l = true) :
    Print.writeTo isPrint l false false = some (idxTxt l) := by
  rcases okIdx_cases h with ⟨i, rfl, hi⟩ | rfl
  · simp only [intOK, Bool.and_eq_true, decide_eq_true_eq] at hi
    have hneg : ¬ i < 0 := by omega
    have : i.natAbs = i.toNat := by omega
    simp [Print.writeTo, Print.writeNext, Print.parenIf, Decimal.formatInt, Decimal.formatNat, hneg, this, idxTxt]
  · simp [Print.writeTo, Print.writeNext, Print.constStr, idxTxt, lastTxt]

theorem writeTo_sub (isPrint : Char → Bool) {s : Node} (h : okSub s = true) :
    Print.writeTo isPrint s false false = some (subTxt s) := by
  obtain ⟨l, r, rfl, hl, hr⟩ := okSub_cases h
  cases r with
  | none =>
    simp [Print.writeTo, Print.writeOpd, Print.writeNext, writeTo_idx isPrint hl, subTxt]
  | some r =>
    simp [Print.writeTo, Print.writeOpd, Print.writeNext, writeTo_idx isPrint hl, writeTo_idx isPrint (hr r rfl),
      subTxt]

theorem writeSubs_eq (isPrint : Char → Bool) (subs : List Node) (hne : subs ≠ [])
    (hs : ∀ s ∈ subs, okSub s = true) :
    Print.writeSubs isPrint subs true = some (subsTxt subs) ∧
    Print.writeSubs isPrint subs false = some (',' :: subsTxt subs) := by
  induction subs with
  | nil => exact absurd rfl hne
  | cons s ss ih =>
    have h1 := writeTo_sub isPrint (hs s (by simp))
    cases ss with
    | nil => simp [Print.writeSubs, h1, subsTxt]
    | cons s2 ss2 =>
      have ih' := ih (by simp) (fun x hx => hs x (by simp at hx ⊢; right; exact hx))
      constructor
      · rw [Print.writeSubs]; simp [h1, ih'.2, subsTxt]
      · rw [Print.writeSubs]; simp [h1, ih'.2, subsTxt]

theorem methodStr_eq (m : Method) : Print.methodStr m = '.' :: (methodName m ++ ['(', ')']) := by
  cases m <;> decide

theorem unStr_date : Print.unStr .date = ['.', 'd', 'a', 't', 'e'] := by decide
theorem unStr_datetime : Print.unStr .datetime = ['.', 'd', 'a', 't', 'e', 't', 'i', 'm', 'e'] := by decide
theorem constStr_anyKey : Print.constStr .anyKey = ['*'] := by decide
theorem constStr_anyArray : Print.constStr .anyArray = ['[', '*', ']'] := by decide

theorem writeTo_step (isPrint : Char → Bool) {n : Node} (h : StepShape n) (wp : Bool) :
    Print.writeTo isPrint n true wp
      = (Print.writeNext isPrint n.next).bind (fun tl => some (stepTxt isPrint n ++ tl)) := by
  cases h with
  | key s nx h =>
    rw [Print.writeTo]; simp only [Node.next]
    generalize Print.writeNext isPrint nx = w
    cases w <;> simp [stepTxt]
  | anyKey nx =>
    rw [Print.writeTo]; simp only [Node.next]
    generalize Print.writeNext isPrint nx = w
    cases w <;> simp [stepTxt, constStr_anyKey]
  | anyArray nx =>
    rw [Print.writeTo]; simp only [Node.next]
    generalize Print.writeNext isPrint nx = w
    cases w <;> simp [stepTxt, constStr_anyArray]
  | any a b nx ha hb =>
    rw [Print.writeTo]; simp only [Node.next]
    generalize Print.writeNext isPrint nx = w
    cases w <;> simp [stepTxt, anyStr_eq]
  | method m nx =>
    rw [Print.writeTo]; simp only [Node.next]
    generalize Print.writeNext isPrint nx = w
    cases w <;> simp [stepTxt, methodStr_eq]
  | date nx =>
    rw [Print.writeTo]; simp only [Node.next, Print.stringOpt, unStr_date]
    generalize Print.writeNext isPrint nx = w
    cases w <;> simp [stepTxt]
  | datetime0 nx =>
    rw [Print.writeTo]; simp only [Node.next, Print.stringOpt, unStr_datetime]
    generalize Print.writeNext isPrint nx = w
    cases w <;> simp [stepTxt]
  | datetime1 t nx h =>
    rw [Print.writeTo]; simp only [Node.next, Print.stringOpt, Print.simpleString?, unStr_datetime]
    generalize Print.writeNext isPrint nx = w
    cases w <;> simp [stepTxt]
  | index subs nx hne hs =>
    rw [Print.writeTo]; simp only [Node.next, (writeSubs_eq isPrint subs hne hs).1]
    generalize Print.writeNext isPrint nx = w
    cases w <;> simp [stepTxt]

section
variable (o : Oracles) (ok : OrOK o)
include ok

/-! ### single pieces -/

abbrev CT : Option Char → Prop := fun _ => True

theorem Seg.app_true {C : Option Char → Prop} {p1 p2 : List Char} {t1 t2 : List TT}
    (h1 : Seg o CT p1 t1) (h2 : Seg o C p2 t2) : Seg o C (p1 ++ p2) (t1 ++ t2) :=
  Seg.app o h1 h2 (fun _ _ => trivial)

theorem Seg.weak {C : Option Char → Prop} {p : List Char} {t : List TT} (h : Seg o CT p t) : Seg o C p t :=
  h.mono o (fun _ _ => trivial)

theorem seg_lb : Seg o CT ['['] [tLb] := by simpa [T1_lb] using seg_solo o ok '[' (by decide)
theorem seg_rb : Seg o CT [']'] [tRb] := by simpa [T1_rb] using seg_solo o ok ']' (by decide)
theorem seg_lp : Seg o CT ['('] [tLp] := by simpa [T1_lp] using seg_solo o ok '(' (by decide)
theorem seg_rp : Seg o CT [')'] [tRp] := by simpa [T1_rp] using seg_solo o ok ')' (by decide)
theorem seg_lc : Seg o CT ['{'] [tLc] := by simpa [T1_lc] using seg_solo o ok '{' (by decide)
theorem seg_rc : Seg o CT ['}'] [tRc] := by simpa [T1_rc] using seg_solo o ok '}' (by decide)
theorem seg_comma : Seg o CT [','] [tComma] := by simpa [T1_comma] using seg_solo o ok ',' (by decide)
theorem seg_q : Seg o CT ['?'] [tQ] := by simpa [T1_q] using seg_solo o ok '?' (by decide)
theorem seg_at : Seg o CT ['@'] [tAt] := by simpa [T1_at] using seg_solo o ok '@' (by decide)

theorem seg_dot : Seg o (fun y => isDecimalR y = false) ['.'] [tDot] := by
  simpa [T1_dot] using seg_of_tokAt o (tokAt_dot o ok) (by decide) NoNul.nil (by decide)

theorem seg_star : Seg o (fun y => y ≠ some '*') ['*'] [tStar] := by
  simpa [T1_star] using seg_of_tokAt o (tokAt_star o ok) (by decide) NoNul.nil (by decide)

theorem seg_dollar : Seg o (fun y => y ≠ some '"' ∧ isVariableRune o y = false) ['$'] [tDollar] := by
  simpa [T1_dollar] using seg_of_tokAt o (tokAt_dollar o ok) (by decide) NoNul.nil (by decide)

theorem seg_anyTok : Seg o CT ['*', '*'] [tAny] :=
  seg_of_tokAt o (tokAt_two o ok '*' '*' .any (by decide)) (by decide) (NoNul.cons (by decide) NoNul.nil) (by decide)

theorem identCont_punct (c : Char) (hc : c ∈ punct) : isIdentCont o (some c) = false := by
  have h1 : c ≠ '_' := by intro h; subst h; revert hc; decide
  have h2 : c ≠ '\\' := by intro h; subst h; revert hc; decide
  simp [isIdentCont, h1, h2, ok.punctC c hc]

/-! ### composite pieces -/

theorem seg_last : Seg o brkS lastTxt [tLast] :=
  (seg_kw o ok 'l' ['a', 's', 't'] .last (by decide) (by decide)).mono o (fun _ h => brkS_identCont o ok h)

theorem seg_sp_last : Seg o brkS (' ' :: lastTxt) [tLast] :=
  (seg_sp_kw o ok 'l' ['a', 's', 't'] .last (by decide) (by decide)).mono o (fun _ h => brkS_identCont o ok h)

theorem seg_sp_to : Seg o (fun y => isIdentCont o y = false) [' ', 't', 'o'] [tTo] :=
  seg_sp_kw o ok 't' ['o'] .to (by decide) (by decide)

theorem seg_lvl (a : Nat) : Seg o brk (lvlTxt a) [lvlTok a] := by
  unfold lvlTxt lvlTok
  split
  · exact (seg_last o ok).mono o (fun _ h => brkS_of_brk h)
  · exact seg_nat o ok a

theorem seg_sp_lvl (a : Nat) : Seg o brk (' ' :: lvlTxt a) [lvlTok a] := by
  unfold lvlTxt lvlTok
  split
  · exact (seg_sp_last o ok).mono o (fun _ h => brkS_of_brk h)
  · exact seg_sp_nat o ok a

theorem seg_idx {l : Node} (h : okIdx l = true) : Seg o brk (idxTxt l) [idxTok l] := by
  rcases okIdx_cases h with ⟨i, rfl, _⟩ | rfl
  · exact seg_nat o ok _
  · exact (seg_last o ok).mono o (fun _ h => brkS_of_brk h)

theorem seg_sp_idx {l : Node} (h : okIdx l = true) : Seg o brk (' ' :: idxTxt l) [idxTok l] := by
  rcases okIdx_cases h with ⟨i, rfl, _⟩ | rfl
  · exact seg_sp_nat o ok _
  · exact (seg_sp_last o ok).mono o (fun _ h => brkS_of_brk h)

theorem seg_any (a b : Nat) : Seg o CT (anyTxt a b) (anyToks a b) := by
  unfold anyTxt anyToks
  split
  · exact seg_anyTok o ok
  · split
    · have h1 := Seg.app_cons o (seg_lvl o ok a) (seg_rc o ok) (Or.inr (Or.inr (Or.inr (Or.inr (Or.inr rfl)))))
      have h2 := Seg.app_true o ok (seg_lc o ok) h1
      have h3 := Seg.app_true o ok (seg_anyTok o ok) h2
      simpa using h3
    · have h1 := Seg.app_cons o (seg_sp_lvl o ok b) (seg_rc o ok) (Or.inr (Or.inr (Or.inr (Or.inr (Or.inr rfl)))))
      have h2 := Seg.app_cons o (seg_sp_to o ok) h1 (identCont_punct o ok ' ' (by decide))
      have h3 := Seg.app_cons o (seg_lvl o ok a) h2 (Or.inr (Or.inl rfl))
      have h4 := Seg.app_true o ok (seg_lc o ok) h3
      have h5 := Seg.app_true o ok (seg_anyTok o ok) h4
      simpa using h5

theorem seg_sub {s : Node} (h : okSub s = true) : Seg o brk (subTxt s) (subToks s) := by
  obtain ⟨l, r, rfl, hl, hr⟩ := okSub_cases h
  cases r with
  | none => exact seg_idx o ok hl
  | some r =>
    have h2 := Seg.app_cons o (seg_sp_to o ok) (seg_sp_idx o ok (hr r rfl)) (identCont_punct o ok ' ' (by decide))
    have h3 := Seg.app_cons o (seg_idx o ok hl) h2 (Or.inr (Or.inl rfl))
    simpa [subTxt, subToks] using h3

theorem seg_subs (subs : List Node) (hne : subs ≠ []) (hs : ∀ s ∈ subs, okSub s = true) :
    Seg o brk (subsTxt subs) (subsToks subs) := by
  induction subs with
  | nil => exact absurd rfl hne
  | cons s ss ih =>
    have h1 := seg_sub o ok (hs s (by simp))
    cases ss with
    | nil => simpa [subsTxt, subsToks] using h1
    | cons s2 ss2 =>
      have ih' := ih (by simp) (fun x hx => hs x (by simp at hx ⊢; right; exact hx))
      have h2 := Seg.app_true o ok (seg_comma o ok) ih'
      have h3 := Seg.app_cons o h1 h2 (Or.inr (Or.inr (Or.inr (Or.inr (Or.inl rfl)))))
      simpa [subsTxt, subsToks] using h3

/-- `.name()` -/
theorem seg_dot_kw_call (c : Char) (w : List Char) (t : Tok) (hp : (c :: w, t) ∈ kwList) (hns : t ≠ .stop) :
    Seg o CT ('.' :: ((c :: w) ++ ['(', ')'])) [tDot, (t, c :: w), tLp, tRp] := by
  obtain ⟨c', w', h1, h2⟩ := kw_shape (c :: w, t) hp
  injection h1 with h1a h1b
  subst h1a
  have hd : isDecimalR (some c) = false := (isLow_facts c h2).2.2.2.2
  have h3 := Seg.app_true o ok (seg_lp o ok) (seg_rp o ok)
  have h4 := Seg.app_cons o (seg_kw o ok c w t hp hns) h3 (identCont_punct o ok '(' (by decide))
  have h5 := Seg.app_cons o (seg_dot o ok) h4 hd
  simpa using h5

omit ok in
theorem methodName_kw (m : Method) : ∃ c w, methodName m = c :: w ∧ (c :: w, methodTok m) ∈ kwList ∧
    methodTok m ≠ .stop := by
  cases m <;> exact ⟨_, _, rfl, by decide, by decide⟩

/-- one stage-1 accessor as a piece of text -/
theorem seg_step {n : Node} (h : StepShape n) : Seg o brkS (stepTxt o.isPrint n) (stepToks n) := by
  cases h with
  | key s nx h =>
    have h1 := Seg.app_cons o (seg_dot o ok) (seg_string o ok s h) (by decide)
    exact Seg.weak o ok (by simpa [stepTxt, stepToks, Print.quote] using h1)
  | anyKey nx =>
    have h1 := Seg.app_cons o (seg_dot o ok) (seg_star o ok) (by decide)
    exact h1.mono o (fun _ h => brkS_star h)
  | anyArray nx =>
    have h1 := Seg.app_cons o (seg_star o ok) (seg_rb o ok) (by decide)
    have h2 := Seg.app_true o ok (seg_lb o ok) h1
    exact Seg.weak o ok h2
  | any a b nx ha hb =>
    have hh : isDecimalR (anyTxt a b).head? = false := by
      unfold anyTxt; split
      · rfl
      · split <;> rfl
    have h1 := Seg.app o (seg_dot o ok) (seg_any o ok a b) (fun r _ => by
      have : (anyTxt a b ++ r).head? = (anyTxt a b).head? := by
        unfold anyTxt; split
        · rfl
        · split <;> rfl
      rw [this]; exact hh)
    exact Seg.weak o ok (by simpa [stepTxt, stepToks] using h1)
  | method m nx =>
    obtain ⟨c, w, h1, h2, h3⟩ := methodName_kw m
    have := seg_dot_kw_call o ok c w (methodTok m) h2 h3
    simp only [stepTxt, stepToks, tMethod, h1]
    exact Seg.weak o ok this
  | date nx =>
    exact Seg.weak o ok (seg_dot_kw_call o ok 'd' ['a', 't', 'e'] .date (by decide) (by decide))
  | datetime0 nx =>
    exact Seg.weak o ok
      (seg_dot_kw_call o ok 'd' ['a', 't', 'e', 't', 'i', 'm', 'e'] .datetime (by decide) (by decide))
  | datetime1 t nx h =>
    have h2 := Seg.app_true o ok (seg_string o ok t h) (seg_rp o ok)
    have h3 := Seg.app_true o ok (seg_lp o ok) h2
    have h4 := Seg.app_cons o (seg_kw o ok 'd' ['a', 't', 'e', 't', 'i', 'm', 'e'] .datetime (by decide) (by decide)) h3
      (identCont_punct o ok '(' (by decide))
    have h5 := Seg.app_cons o (seg_dot o ok) h4 (by decide)
    exact Seg.weak o ok (by simpa [stepTxt, stepToks, tDatetime] using h5)
  | index subs nx hne hs =>
    have h1 := Seg.app_cons o (seg_subs o ok subs hne hs) (seg_rb o ok) (Or.inr (Or.inr (Or.inr (Or.inl rfl))))
    have h2 := Seg.app_true o ok (seg_lb o ok) h1
    exact Seg.weak o ok (by simpa [stepTxt, stepToks] using h2)

end

/-! ## One accessor, uniformly -/

theorem subsToks_length (subs : List Node) (hs : ∀ s ∈ subs, okSub s = true) :
    subs.length ≤ (subsToks subs).length := by
  induction subs with
  | nil => simp
  | cons s ss ih =>
    obtain ⟨tk, ts, h1, _⟩ := subToks_shape (hs s (by simp))
    have ih' := ih (fun x hx => hs x (by simp [hx]))
    cases ss with
    | nil => simp [subsToks, h1]
    | cons s2 ss2 =>
      simp only [subsToks, h1, List.length_cons, List.length_append] at ih' ⊢
      omega

section
variable {o : Oracles}

theorem accOp_simple {n : Node} (h : StepShape n) (rest : List TT) (hr : (hd rest).1 ≠ .lbrace) (f : Nat)
    (hf : 16 * (stepToks n).length + 1 ≤ f) :
    ∃ t x ts, stepToks n = (t, x) :: ts ∧ isAccessorStart t = true ∧
      RunsV (StP o (stepToks n ++ rest)) (accessorOp o f t) (n.setNext none) (StE o rest) := by
  obtain ⟨f', rfl⟩ : ∃ f', f = f' + 1 := ⟨f - 1, by omega⟩
  cases h with
  | key s nx h => exact ⟨.dot, _, _, rfl, rfl, accOp_key f' s rest⟩
  | anyKey nx => exact ⟨.dot, _, _, rfl, rfl, accOp_anyKey f' rest⟩
  | anyArray nx => exact ⟨.lbrack, _, _, rfl, rfl, accOp_anyArray f' rest⟩
  | any a b nx ha hb => exact ⟨.dot, _, _, rfl, rfl, accOp_any f' a b ha hb rest hr⟩
  | method m nx => exact ⟨.dot, _, _, rfl, rfl, accOp_method f' m rest⟩
  | date nx => exact ⟨.dot, _, _, rfl, rfl, accOp_date f' rest⟩
  | datetime0 nx => exact ⟨.dot, _, _, rfl, rfl, accOp_datetime0 f' rest⟩
  | datetime1 t nx h => exact ⟨.dot, _, _, rfl, rfl, accOp_datetime1 f' t rest⟩
  | index subs nx hne hs =>
    refine ⟨.lbrack, _, _, rfl, rfl, ?_⟩
    have hl := subsToks_length subs hs
    have := accOp_index (o := o) f' subs hne hs rest (by
      simp only [stepToks, List.length_cons, List.length_append, List.length_nil] at hf
      omega)
    simpa [stepToks, Node.setNext] using this

end

/-! ## Chains -/

theorem setNext_setNext (n : Node) (a b : Option Node) : (n.setNext a).setNext b = n.setNext b := by
  cases n <;> rfl

theorem setNext_next (n : Node) : n.setNext n.next = n := by cases n <;> rfl

theorem next_setNext (n : Node) (a : Option Node) : (n.setNext a).next = a := by cases n <;> rfl

theorem appendEnd_of_next_none (n : Node) (t : Option Node) (h : n.next = none) : appendEnd n t = n.setNext t := by
  cases n <;> simp only [Node.next] at h <;> subst h <;> rfl

theorem linkNodes_node (head : EV) (L : List Node) (h : head.node.next = none) :
    (linkNodes head L).node = head.node.setNext (chainOf L) := by
  cases L with
  | nil =>
    simp only [linkNodes, chainOf]
    rw [← h, setNext_next]
  | cons a L =>
    simp only [linkNodes]
    exact appendEnd_of_next_none _ _ h

theorem sizeOf_next_lt (n : Node) : sizeOf n.next < sizeOf n := by
  cases n <;> simp [Node.next] <;> omega

/-! ## What is proved of an accessor and of a chain of accessors -/

/-- the tokens start with an accessor (`.`, `[`, `?`) or there are none -/
def HeadT (toks : List TT) : Prop := toks = [] ∨ ∃ t x ts, toks = (t, x) :: ts ∧ isAccessorStart t = true

theorem HeadT.lbrace {toks rest : List TT} (h : HeadT toks) (hr : (hd rest).1 ≠ .lbrace) :
    (hd (toks ++ rest)).1 ≠ .lbrace := by
  rcases h with h | ⟨t, x, ts, h, ht⟩
  · subst h; exact hr
  · subst h
    simp only [List.cons_append, hd]
    intro hh; rw [hh] at ht; exact absurd ht (by decide)

/-- the accessor `n` (whatever its `next`): printed text, tokens, and what `accessorOp` makes of them -/
def StepOK (o : Oracles) (n : Node) : Prop :=
  ∃ (stxt : List Char) (t : Tok) (x : List Char) (ts : List TT) (c : Char) (cs : List Char),
    (∀ wp, Print.writeTo o.isPrint n true wp
        = (Print.writeNext o.isPrint n.next).bind (fun tl => some (stxt ++ tl))) ∧
    Seg o brkS stxt ((t, x) :: ts) ∧ stxt = c :: cs ∧ brkS (some c) ∧ isAccessorStart t = true ∧
    ∀ rest f, (hd rest).1 ≠ .lbrace → 16 * (ts.length + 1) + 1 ≤ f →
      RunsV (StP o ((t, x) :: ts ++ rest)) (accessorOp o f t) (n.setNext none) (StE o rest)

/-- the chain `nx` of accessors: printed text, tokens, and what `accessorLoop` makes of them -/
def ChainOK (o : Oracles) (nx : Option Node) : Prop :=
  ∃ (txt : List Char) (toks : List TT) (L : List Node),
    Print.writeNext o.isPrint nx = some txt ∧ Seg o brk txt toks ∧
    (∀ r, brk r.head? → brkS (txt ++ r).head?) ∧ HeadT toks ∧ chainOf L = nx ∧
    ∀ f head ops rest, 16 * toks.length + 2 ≤ f → isAccessorStart (hd rest).1 = false →
      (hd rest).1 ≠ .lbrace →
      RunsV (StE o (toks ++ rest)) (accessorLoop o f head ops) (linkNodes head (ops ++ L)) (StA o rest)

section
variable {o : Oracles}

theorem chain_nil : ChainOK o none := by
  refine ⟨[], [], [], rfl, Seg.nil o _, fun r h => brkS_of_brk h, Or.inl rfl, rfl, ?_⟩
  intro f head ops rest hf h1 _
  obtain ⟨f', rfl⟩ : ∃ f', f = f' + 1 := ⟨f - 1, by omega⟩
  simpa using accLoop_nil f' head ops rest h1

theorem chain_cons {n : Node} (hs : StepOK o n) (hc : ChainOK o n.next) : ChainOK o (some n) := by
  obtain ⟨stxt, t, x, ts, c, cs, hw, hseg, hcs, hbc, hacc, hop⟩ := hs
  obtain ⟨txt, toks, L, hw', hseg', hhead, hheadT, hL, hloop⟩ := hc
  refine ⟨stxt ++ txt, ((t, x) :: ts) ++ toks, n.setNext none :: L, ?_, ?_, ?_, ?_, ?_, ?_⟩
  · simp only [Print.writeNext, hw true, hw']
    rfl
  · exact Seg.app o hseg hseg' hhead
  · intro r _
    rw [hcs]; exact hbc
  · exact Or.inr ⟨t, x, ts ++ toks, rfl, hacc⟩
  · simp only [chainOf, hL, setNext_setNext, setNext_next]
  · intro f head ops rest hf h1 h2
    obtain ⟨f', rfl⟩ : ∃ f', f = f' + 1 := ⟨f - 1, by omega⟩
    simp only [List.length_append, List.length_cons] at hf
    rw [accessorLoop]
    simp only [List.cons_append, List.append_assoc]
    rstep (peek_cons _ _)
    simp only [hacc, ↓reduceIte]
    have hop' := hop (toks ++ rest) f' (hheadT.lbrace h2) (by omega)
    simp only [List.cons_append, List.append_assoc] at hop'
    rstep hop'
    have := hloop f' head (ops ++ [n.setNext none]) rest (by omega) h1 h2
    simpa using this

theorem stepOK_simple (ok : OrOK o) {n : Node} (h : StepShape n) : StepOK o n := by
  have hseg := seg_step o ok h
  obtain ⟨t, x, ts, hts, hacc, _⟩ := accOp_simple (o := o) h [] (by decide) (16 * (stepToks n).length + 1)
    (Nat.le_refl _)
  have hhead : ∃ c cs, stepTxt o.isPrint n = c :: cs ∧ brkS (some c) := by
    cases h <;> first
      | exact ⟨'.', _, rfl, Or.inr (Or.inl rfl)⟩
      | exact ⟨'[', _, rfl, Or.inr (Or.inr (Or.inl rfl))⟩
  obtain ⟨c, cs, hcs, hbc⟩ := hhead
  refine ⟨stepTxt o.isPrint n, t, x, ts, c, cs, writeTo_step o.isPrint h, by rw [← hts]; exact hseg, hcs, hbc,
    hacc, ?_⟩
  intro rest f hr hf
  obtain ⟨t', x', ts', hts', _, hrun⟩ := accOp_simple (o := o) h rest hr f (by rw [hts]; simpa using hf)
  rw [hts] at hts' hrun
  injection hts' with h1 h2
  injection h1 with h1a h1b
  subst h1a
  exact hrun

end

/-! ## From `parseBody` to `Parse` -/

theorem decodeAllAux_length : ∀ (bs : List UInt8) (k : Nat), (decodeAllAux k bs).length ≤ bs.length := by
  intro bs
  induction bs with
  | nil => intro k; cases k <;> simp [decodeAllAux]
  | cons b bs ih =>
    intro k
    cases k with
    | zero =>
      simp only [decodeAllAux, List.length_cons]
      have := ih ((decodeRune (b :: bs)).2 - 1)
      omega
    | succ k =>
      simp only [decodeAllAux, List.length_cons]
      have := ih k
      omega

theorem decodeAll_length (bs : List UInt8) : (decodeAll bs).length ≤ bs.length := decodeAllAux_length bs 0

section
variable {o : Oracles}

theorem stE_nil_err {s : PS} (h : StE o [] s) : s.lx.err = false := by
  rcases h with h | h
  · exact h.2.1
  · exact absurd h (by simp [StP])

/-- if `parseBody` consumes the tokens of the text and the tree is valid, `Parse` returns it -/
theorem parse_of_body (bytes : List UInt8) (txt : List Char) (toks : List TT) (lax isPred : Bool) (root : EV)
    (hdec : decodeAll bytes = txt.map Src.ch) (hlex : Lexes o txt toks)
    (hbody : RunsV (StE o toks) (parseBody o (fuelFor bytes)) (lax, isPred, root) (StE o []))
    (hv : validate root.node = true) :
    parse o bytes = .ok ⟨root.node, lax, isPred⟩ := by
  have h0 : StE o toks { lx := LState.init bytes, la := none } := by
    refine Or.inl ⟨rfl, hlex _ ⟨rfl, rfl, Or.inl ⟨rfl, ?_⟩⟩⟩
    simp only [LState.init, hdec]
  obtain ⟨s1, e1, p1⟩ := hbody _ h0
  have herr := stE_nil_err p1
  obtain ⟨s2, e2, p2⟩ := peek_nil (o := o) s1 p1
  have hfin : finish o lax isPred root s1 = .ok (some ⟨root.node, lax, isPred⟩) s2 := by
    unfold finish
    simp only [bind_apply, hasError, herr, Bool.false_eq_true, if_false, hv, if_true, pure_apply, e2]
    simp
    rfl
  unfold parse Parse.run parseTop
  simp only [bind_apply, e1, hfin, stE_nil_err p2]
  simp

/-! ## A scalar head followed by its accessors -/

/-- the node a `path_primary` token stands for (number literals are treated separately) -/
def headOf : TT → Option Node
  | (.string, s) => some (.str s none)
  | (.null, _) => some (.const .null none)
  | (.true_, _) => some (.const .true_ none)
  | (.false_, _) => some (.const .false_ none)
  | (.variable, s) => some (.var s none)
  | (.dollar, _) => some (.const .root none)
  | (.at, _) => some (.const .current none)
  | (.last, _) => some (.const .last none)
  | _ => none

theorem parseUnaryT_head (f : Nat) (tk : TT) (hn : Node) (h : headOf tk = some hn) :
    parseUnaryT o (f + 2) tk = (consume >>= fun _ => accessorLoop o f { node := hn } []) := by
  obtain ⟨t, txt⟩ := tk
  cases t <;> simp only [headOf, reduceCtorEq] at h <;> injection h with h <;> subst h <;> rfl

theorem headOf_next {tk : TT} {hn : Node} (h : headOf tk = some hn) : hn.next = none := by
  obtain ⟨t, txt⟩ := tk
  cases t <;> simp only [headOf, reduceCtorEq] at h <;> injection h with h <;> subst h <;> rfl

/-- head token, then a chain: the operand `hn` with the chain attached -/
theorem unaryT_chain (tk : TT) (hn : Node) (h : headOf tk = some hn) {nx : Option Node} (hc : ChainOK o nx) :
    ∃ txt toks, Print.writeNext o.isPrint nx = some txt ∧ Seg o brk txt toks ∧
      (∀ r, brk r.head? → brkS (txt ++ r).head?) ∧
      ∀ f rest, 16 * toks.length + 4 ≤ f → isAccessorStart (hd rest).1 = false → (hd rest).1 ≠ .lbrace →
        ∃ ev : EV, ev.node = hn.setNext nx ∧
          RunsV (StP o (tk :: toks ++ rest)) (parseUnaryT o f tk) ev (StA o rest) := by
  obtain ⟨txt, toks, L, hw, hseg, hhead, _, hL, hloop⟩ := hc
  refine ⟨txt, toks, hw, hseg, hhead, ?_⟩
  intro f rest hf h1 h2
  obtain ⟨f', rfl⟩ : ∃ f', f = f' + 2 := ⟨f - 2, by omega⟩
  refine ⟨linkNodes { node := hn } L, ?_, ?_⟩
  · rw [linkNodes_node _ _ (headOf_next h), hL]
  · rw [parseUnaryT_head f' tk hn h]
    simp only [List.cons_append]
    rstep (consume_spec _ _)
    have := hloop f' { node := hn } [] rest (by omega) h1 h2
    simpa using this

/-- the literal text a value carries: that of an integer literal (accessors attached to it later do
    not change it), nothing otherwise -/
def litOf : Node → List Char
  | .integer i _ => Decimal.formatInt i
  | _ => []

/-- the value (`EV`) the parser's actions build for the node `n` -/
def evOf (n : Node) : EV := { node := n, lit := litOf n }

@[simp] theorem evOf_node (n : Node) : (evOf n).node = n := rfl

theorem headOf_lit {tk : TT} {hn : Node} (h : headOf tk = some hn) (nx : Option Node) :
    litOf (hn.setNext nx) = [] := by
  obtain ⟨t, txt⟩ := tk
  cases t <;> simp only [headOf, reduceCtorEq] at h <;> injection h with h <;> subst h <;> rfl

theorem linkNodes_lit (head : EV) (L : List Node) : (linkNodes head L).lit = head.lit := by
  cases L <;> rfl

/-- head token, then a chain: exactly the value of the operand `hn` with the chain attached -/
theorem unaryT_chain' (tk : TT) (hn : Node) (h : headOf tk = some hn) {nx : Option Node} (hc : ChainOK o nx) :
    ∃ txt toks, Print.writeNext o.isPrint nx = some txt ∧ Seg o brk txt toks ∧
      (∀ r, brk r.head? → brkS (txt ++ r).head?) ∧
      ∀ f rest, 16 * toks.length + 4 ≤ f → isAccessorStart (hd rest).1 = false → (hd rest).1 ≠ .lbrace →
        RunsV (StP o (tk :: toks ++ rest)) (parseUnaryT o f tk) (evOf (hn.setNext nx)) (StA o rest) := by
  obtain ⟨txt, toks, L, hw, hseg, hhead, _, hL, hloop⟩ := hc
  refine ⟨txt, toks, hw, hseg, hhead, ?_⟩
  intro f rest hf h1 h2
  obtain ⟨f', rfl⟩ : ∃ f', f = f' + 2 := ⟨f - 2, by omega⟩
  have hev : linkNodes { node := hn } L = evOf (hn.setNext nx) := by
    have h1 := linkNodes_node { node := hn } L (headOf_next h)
    have h2 := linkNodes_lit { node := hn } L
    rw [hL] at h1
    cases hh : linkNodes { node := hn } L with
    | mk nd lt =>
      rw [hh] at h1 h2
      simp only at h1 h2
      simp only [evOf, h1, headOf_lit h nx]
      rw [h2]
  rw [parseUnaryT_head f' tk hn h]
  simp only [List.cons_append]
  rstep (consume_spec _ _)
  have := hloop f' { node := hn } [] rest (by omega) h1 h2
  rw [← hev]
  simpa using this

end

/-! ## A path `$ …` at the top -/

def tStrict : TT := (.strict, ['s', 't', 'r', 'i', 'c', 't'])

section
variable {o : Oracles}

theorem seg_sp_dollar (ok : OrOK o) : Seg o brkS [' ', '$'] [tDollar] := by
  have := seg_sp_of_tokAt o (tokAt_dollar o ok) (by decide) NoNul.nil (by decide) (by decide)
  rw [T1_dollar] at this
  exact this.mono o (fun _ h => brkS_dollar o ok h)

theorem seg_dollar' (ok : OrOK o) : Seg o brkS ['$'] [tDollar] :=
  (seg_dollar o ok).mono o (fun _ h => brkS_dollar o ok h)

theorem strict_eq : "strict ".toList = ['s', 't', 'r', 'i', 'c', 't', ' '] := by decide

/-- the expression `$ chain` at the top level, from the state after the mode -/
theorem atom_top_root {nx : Option Node} (hc : ChainOK o nx) :
    ∃ ctxt ctoks, Print.writeNext o.isPrint nx = some ctxt ∧ Seg o brk ctxt ctoks ∧
      (∀ r, brk r.head? → brkS (ctxt ++ r).head?) ∧
      ∀ f, 16 * ctoks.length + 8 ≤ f →
        ∃ ev : EV, ev.node = .const .root nx ∧
          RunsV (StE o (tDollar :: ctoks)) (parseAtom o f .top) (.expr ev .stop) (StE o []) := by
  obtain ⟨ctxt, ctoks, hw, hseg, hhead, hrun⟩ := unaryT_chain (o := o) tDollar (.const .root none) rfl hc
  refine ⟨ctxt, ctoks, hw, hseg, hhead, ?_⟩
  intro f hf
  obtain ⟨f', rfl⟩ : ∃ f', f = f' + 3 := ⟨f - 3, by omega⟩
  obtain ⟨ev, hev, hr⟩ := hrun (f' + 2) [] (by omega) rfl (by decide)
  refine ⟨ev, hev, ?_⟩
  rw [parseAtom]
  rstep (peek_cons _ _)
  simp only [tDollar, reduceCtorEq, ↓reduceIte]
  simp only [List.append_nil] at hr
  rstep hr
  rw [exprTail]
  rstep (arith_nil f' ev [] rfl rfl)
  simp only [hd, compOp, reduceCtorEq, ↓reduceIte]
  exact RunsV.pure _

/-- `mode expr` for a path `$ chain` -/
theorem body_root (ok : OrOK o) {nx : Option Node} (hc : ChainOK o nx) (lax : Bool) :
    ∃ txt toks, Print.toString o.isPrint ⟨.const .root nx, lax, false⟩ = some txt ∧ Lexes o txt toks ∧
      toks.length ≤ txt.length ∧
      ∀ f, 16 * toks.length + 8 ≤ f →
        ∃ ev : EV, ev.node = .const .root nx ∧
          RunsV (StE o toks) (parseBody o f) (lax, false, ev) (StE o []) := by
  obtain ⟨ctxt, ctoks, hw, hseg, hhead, hrun⟩ := atom_top_root (o := o) hc
  have hpr : Print.writeTo o.isPrint (.const .root nx) false true = some ('$' :: ctxt) := by
    rw [Print.writeTo]; simp [hw, Print.constStr]
  cases lax with
  | true =>
    have hs : Seg o brk ('$' :: ctxt) (tDollar :: ctoks) := by
      have := Seg.app o (seg_dollar' ok) hseg hhead
      simpa using this
    refine ⟨'$' :: ctxt, tDollar :: ctoks, ?_, hs.lexes o brk_none, hs.2.1, ?_⟩
    · simp [Print.toString, hpr]
    · intro f hf
      simp only [List.length_cons] at hf
      obtain ⟨ev, hev, hr⟩ := hrun f (by omega)
      refine ⟨ev, hev, ?_⟩
      unfold parseBody
      rstep (peek_cons _ _)
      simp only [tDollar, reduceCtorEq, ↓reduceIte]
      rstep (RunsV.pure _)
      rstep hr
      exact RunsV.pure _
  | false =>
    have hs : Seg o brk ('s' :: 't' :: 'r' :: 'i' :: 'c' :: 't' :: ' ' :: '$' :: ctxt) (tStrict :: tDollar :: ctoks) := by
      have h1 := Seg.app o (seg_sp_dollar ok) hseg hhead
      have h2 := Seg.app_cons o (seg_kw o ok 's' ['t', 'r', 'i', 'c', 't'] .strict (by decide) (by decide)) h1
        (identCont_punct o ok ' ' (by decide))
      simpa [tStrict] using h2
    refine ⟨_, tStrict :: tDollar :: ctoks, ?_, hs.lexes o brk_none, hs.2.1, ?_⟩
    · simp [Print.toString, hpr, strict_eq]
    · intro f hf
      simp only [List.length_cons] at hf
      obtain ⟨ev, hev, hr⟩ := hrun f (by omega)
      refine ⟨ev, hev, ?_⟩
      unfold parseBody
      rstep (peek_cons _ _)
      simp only [tStrict, reduceCtorEq, ↓reduceIte]
      rstep (consume_spec _ _)
      rstep (RunsV.pure _)
      rstep hr
      exact RunsV.pure _

/-- the round trip for a path `$ chain` whose chain is understood -/
theorem roundtrip_root (ok : OrOK o) {nx : Option Node} (hc : ChainOK o nx)
    (hv : validate (.const .root nx) = true) (lax : Bool) :
    ∃ txt, Print.toString o.isPrint ⟨.const .root nx, lax, false⟩ = some txt ∧
      ∀ bytes, decodeAll bytes = txt.map Src.ch → parse o bytes = .ok ⟨.const .root nx, lax, false⟩ := by
  obtain ⟨txt, toks, hpr, hlex, hlen, hrun⟩ := body_root ok hc lax
  refine ⟨txt, hpr, ?_⟩
  intro bytes hb
  have hl : txt.length ≤ bytes.length := by
    have := decodeAll_length bytes
    rw [hb] at this
    simpa using this
  obtain ⟨ev, hev, hr⟩ := hrun (fuelFor bytes) (by unfold fuelFor; omega)
  have := parse_of_body bytes txt toks lax false ev hb hlex hr (by rw [hev]; exact hv)
  rw [hev] at this
  exact this

end

/-! ## Stage 1: the class of accessor paths -/

mutual
  /-- a stage-1 accessor followed by stage-1 accessors -/
  def okStep1 : Node → Bool
    | .key s nx => noNulB s && okNext1 nx
    | .const .anyKey nx => okNext1 nx
    | .const .anyArray nx => okNext1 nx
    | .any a b nx => lvlOK a && lvlOK b && okNext1 nx
    | .method _ nx => okNext1 nx
    | .unary .date none nx => okNext1 nx
    | .unary .datetime none nx => okNext1 nx
    | .unary .datetime (some (.str t none)) nx => noNulB t && okNext1 nx
    | .arrayIndex subs nx => !subs.isEmpty && subs.all okSub && okNext1 nx
    | _ => false
  def okNext1 : Option Node → Bool
    | none => true
    | some n => okStep1 n
end

theorem okStep1_iff (n : Node) : okStep1 n = (simpleStep n && okNext1 n.next) := by
  unfold okStep1 simpleStep
  split <;> simp [Node.next]

/-- stage 1: `$` followed by stage-1 accessors, in either mode -/
def RT1 (a : AST) : Bool :=
  !a.pred && validate a.root &&
  match a.root with
  | .const .root nx => okNext1 nx
  | _ => false

section
variable {o : Oracles}

theorem chain1 (ok : OrOK o) : ∀ (k : Nat) (nx : Option Node), sizeOf nx ≤ k → okNext1 nx = true → ChainOK o nx := by
  intro k
  induction k with
  | zero =>
    intro nx hk _
    cases nx with
    | none => exact chain_nil
    | some n => simp at hk
  | succ k ih =>
    intro nx hk h
    cases nx with
    | none => exact chain_nil
    | some n =>
      rw [okNext1, okStep1_iff, Bool.and_eq_true] at h
      have hlt := sizeOf_next_lt n
      simp only [Option.some.sizeOf_spec] at hk
      exact chain_cons (stepOK_simple ok (simpleStep_cases h.1)) (ih n.next (by omega) h.2)

/-- **Stage 1.** -/
theorem roundtrip_accessors' (ok : OrOK o) (a : AST) (h : RT1 a = true) :
    ∃ txt, Print.toString o.isPrint a = some txt ∧
      ∀ bytes, decodeAll bytes = txt.map Src.ch → parse o bytes = .ok a := by
  obtain ⟨root, lax, pred⟩ := a
  simp only [RT1, Bool.and_eq_true, Bool.not_eq_true'] at h
  obtain ⟨⟨hp, hv⟩, hr⟩ := h
  try simp only at hp hv hr
  subst hp
  split at hr
  · rename_i nx
    exact roundtrip_root ok (chain1 ok _ nx (Nat.le_refl _) hr) hv lax
  · simp at hr

end

/-! ## UTF-8: Go's `string` → bytes, read back by `decodeAll` -/

/-- `utf8.EncodeRune` of a valid rune -/
def encodeRune (c : Char) : List UInt8 :=
  let n := c.toNat
  if n < 0x80 then [UInt8.ofNat n]
  else if n < 0x800 then [UInt8.ofNat (0xC0 + n / 64), UInt8.ofNat (0x80 + n % 64)]
  else if n < 0x10000 then
    [UInt8.ofNat (0xE0 + n / 4096), UInt8.ofNat (0x80 + n / 64 % 64), UInt8.ofNat (0x80 + n % 64)]
  else
    [UInt8.ofNat (0xF0 + n / 262144), UInt8.ofNat (0x80 + n / 4096 % 64), UInt8.ofNat (0x80 + n / 64 % 64),
      UInt8.ofNat (0x80 + n % 64)]

/-- the bytes of a Go string holding the runes `l` -/
def utf8 (l : List Char) : List UInt8 := l.flatMap encodeRune

theorem char_range (c : Char) : c.toNat < 0xD800 ∨ (0xDFFF < c.toNat ∧ c.toNat < 0x110000) := by
  have := c.valid
  unfold UInt32.isValidChar Nat.isValidChar at this
  have e : c.val.toNat = c.toNat := rfl
  rw [e] at this
  omega

theorem u8 (k : Nat) (h : k < 256) : (UInt8.ofNat k).toNat = k := by
  rw [UInt8.toNat_ofNat']; omega

theorem decode_encode (c : Char) (bs : List UInt8) :
    decodeAllAux 0 (encodeRune c ++ bs) = .ch c :: decodeAllAux 0 bs := by
  have hr := char_range c
  unfold encodeRune
  simp only []
  by_cases h1 : c.toNat < 0x80
  · simp only [h1, if_true, List.cons_append, List.nil_append, decodeAllAux, decodeRune, u8 _ (by omega : c.toNat < 256)]
    simp [h1, Char.ofNat_toNat]
  · by_cases h2 : c.toNat < 0x800
    · have a0 := u8 (0xC0 + c.toNat / 64) (by omega)
      have a1 := u8 (0x80 + c.toNat % 64) (by omega)
      have e : (0xC0 + c.toNat / 64) % 32 * 64 + (0x80 + c.toNat % 64) % 64 = c.toNat := by omega
      have c1 : ¬ (0xC0 + c.toNat / 64 < 0x80) := by omega
      have c2 : ¬ (0xC0 + c.toNat / 64 < 0xC2) := by omega
      have c3 : 0xC0 + c.toNat / 64 < 0xE0 := by omega
      have c4 : isCont (UInt8.ofNat (0x80 + c.toNat % 64)) = true := by
        simp only [isCont, a1, Bool.and_eq_true, decide_eq_true_eq]; omega
      simp only [h1, h2, if_true, if_false, List.cons_append, List.nil_append, decodeAllAux, decodeRune, a0, a1, c1, c2,
        c3, c4, e, Char.ofNat_toNat]
    · by_cases h3 : c.toNat < 0x10000
      · have a0 := u8 (0xE0 + c.toNat / 4096) (by omega)
        have a1 := u8 (0x80 + c.toNat / 64 % 64) (by omega)
        have a2 := u8 (0x80 + c.toNat % 64) (by omega)
        have e : (0xE0 + c.toNat / 4096) % 16 * 4096 + (0x80 + c.toNat / 64 % 64) % 64 * 64
            + (0x80 + c.toNat % 64) % 64 = c.toNat := by omega
        have c1 : ¬ (0xE0 + c.toNat / 4096 < 0x80) := by omega
        have c2 : ¬ (0xE0 + c.toNat / 4096 < 0xC2) := by omega
        have c3 : ¬ (0xE0 + c.toNat / 4096 < 0xE0) := by omega
        have c4 : 0xE0 + c.toNat / 4096 < 0xF0 := by omega
        have c5 : isCont (UInt8.ofNat (0x80 + c.toNat % 64)) = true := by
          simp only [isCont, a2, Bool.and_eq_true, decide_eq_true_eq]; omega
        have c6 : (decide ((if 0xE0 + c.toNat / 4096 = 0xE0 then 0xA0 else 0x80) ≤ 0x80 + c.toNat / 64 % 64) &&
            decide (0x80 + c.toNat / 64 % 64 ≤ (if 0xE0 + c.toNat / 4096 = 0xED then 0x9F else 0xBF))) = true := by
          simp only [Bool.and_eq_true, decide_eq_true_eq]
          constructor
          · split <;> omega
          · split <;> omega
        simp only [h1, h2, h3, if_true, if_false, List.cons_append, List.nil_append, decodeAllAux, decodeRune, a0, a1, a2,
          c1, c2, c3, c4, c5, c6, e, Char.ofNat_toNat, Bool.and_self, Bool.true_and]
      · have h4 : c.toNat < 0x110000 := by omega
        have a0 := u8 (0xF0 + c.toNat / 262144) (by omega)
        have a1 := u8 (0x80 + c.toNat / 4096 % 64) (by omega)
        have a2 := u8 (0x80 + c.toNat / 64 % 64) (by omega)
        have a3 := u8 (0x80 + c.toNat % 64) (by omega)
        have e : (0xF0 + c.toNat / 262144) % 8 * 262144 + (0x80 + c.toNat / 4096 % 64) % 64 * 4096
            + (0x80 + c.toNat / 64 % 64) % 64 * 64 + (0x80 + c.toNat % 64) % 64 = c.toNat := by omega
        have c1 : ¬ (0xF0 + c.toNat / 262144 < 0x80) := by omega
        have c2 : ¬ (0xF0 + c.toNat / 262144 < 0xC2) := by omega
        have c3 : ¬ (0xF0 + c.toNat / 262144 < 0xE0) := by omega
        have c4 : ¬ (0xF0 + c.toNat / 262144 < 0xF0) := by omega
        have c4' : 0xF0 + c.toNat / 262144 < 0xF5 := by omega
        have c5 : isCont (UInt8.ofNat (0x80 + c.toNat % 64)) = true := by
          simp only [isCont, a3, Bool.and_eq_true, decide_eq_true_eq]; omega
        have c5' : isCont (UInt8.ofNat (0x80 + c.toNat / 64 % 64)) = true := by
          simp only [isCont, a2, Bool.and_eq_true, decide_eq_true_eq]; omega
        have c6 : (decide ((if 0xF0 + c.toNat / 262144 = 0xF0 then 0x90 else 0x80) ≤ 0x80 + c.toNat / 4096 % 64) &&
            decide (0x80 + c.toNat / 4096 % 64 ≤ (if 0xF0 + c.toNat / 262144 = 0xF4 then 0x8F else 0xBF))) = true := by
          simp only [Bool.and_eq_true, decide_eq_true_eq]
          constructor
          · split <;> omega
          · split <;> omega
        simp only [h1, h2, h3, if_true, if_false, List.cons_append, List.nil_append, decodeAllAux, decodeRune, a0, a1, a2,
          a3, c1, c2, c3, c4, c4', c5, c5', c6, e, Char.ofNat_toNat, Bool.and_self, Bool.true_and]

theorem decodeAll_utf8 (l : List Char) : decodeAll (utf8 l) = l.map Src.ch := by
  unfold decodeAll utf8
  induction l with
  | nil => rfl
  | cons c l ih =>
    simp only [List.flatMap_cons, List.map_cons]
    rw [decode_encode, ih]

/-! ## Stage 2: pieces that may be preceded by a blank -/

/-- a piece of text that lexes to `toks` with or without a blank before it -/
def Seg2 (o : Oracles) (C : Option Char → Prop) (txt : List Char) (toks : List TT) : Prop :=
  Seg o C txt toks ∧ Seg o C (' ' :: txt) toks

section
variable (o : Oracles)

theorem Seg2.app {C1 C2 : Option Char → Prop} {p1 p2 : List Char} {t1 t2 : List TT}
    (h1 : Seg2 o C1 p1 t1) (h2 : Seg o C2 p2 t2)
    (hc : ∀ r, C2 r.head? → C1 (p2 ++ r).head?) : Seg2 o C2 (p1 ++ p2) (t1 ++ t2) :=
  ⟨Seg.app o h1.1 h2 hc, by simpa using Seg.app o h1.2 h2 hc⟩

theorem Seg2.app_cons {C1 C2 : Option Char → Prop} {p1 : List Char} {c : Char} {p2 : List Char} {t1 t2 : List TT}
    (h1 : Seg2 o C1 p1 t1) (h2 : Seg o C2 (c :: p2) t2) (hc : C1 (some c)) :
    Seg2 o C2 (p1 ++ c :: p2) (t1 ++ t2) :=
  Seg2.app o h1 h2 (fun _ _ => hc)

theorem Seg2.mono {C C' : Option Char → Prop} {p : List Char} {t : List TT}
    (h : Seg2 o C p t) (hc : ∀ y, C' y → C y) : Seg2 o C' p t :=
  ⟨h.1.mono o hc, h.2.mono o hc⟩

variable (ok : OrOK o)
include ok

theorem seg2_tokAt {C : Option Char → Prop} {c : Char} {w : List Char} {tk : TT}
    (h : TokAt o C c w tk) (hc : c.toNat ≠ 0) (hw : NoNul w) (hns : tk.1 ≠ .stop)
    (hws : isWhitespace c = false) : Seg2 o C (c :: w) [tk] :=
  ⟨seg_of_tokAt o h hc hw hns, seg_sp_of_tokAt o h hc hw hns hws⟩

theorem seg2_solo (c : Char) (hc : c ∈ solo) : Seg2 o CT [c] [T1 c] := by
  have h0 : c.toNat ≠ 0 ∧ (T1 c).1 ≠ .stop ∧ isWhitespace c = false := by
    simp [solo] at hc
    rcases hc with h | h | h | h | h | h | h | h | h | h | h | h <;> subst h <;> decide
  exact seg2_tokAt o ok (tokAt_solo o ok c hc) h0.1 NoNul.nil h0.2.1 h0.2.2

theorem seg2_lp : Seg2 o CT ['('] [tLp] := by simpa [T1_lp] using seg2_solo o ok '(' (by decide)
theorem seg2_at : Seg2 o CT ['@'] [tAt] := by simpa [T1_at] using seg2_solo o ok '@' (by decide)

theorem seg2_dollar : Seg2 o brkS ['$'] [tDollar] := ⟨seg_dollar' ok, seg_sp_dollar ok⟩

theorem seg2_kw (c : Char) (w : List Char) (t : Tok) (hp : (c :: w, t) ∈ kwList) (ht : t ≠ .stop) :
    Seg2 o (fun y => isIdentCont o y = false) (c :: w) [(t, c :: w)] :=
  ⟨seg_kw o ok c w t hp ht, seg_sp_kw o ok c w t hp ht⟩

theorem seg2_string (s : List Char) (hs : NoNul s) :
    Seg2 o CT (Print.quote o.isPrint s) [(.string, s)] := by
  have hq := noNul_quote o.isPrint s hs
  have hb : NoNul (body o.isPrint s ++ ['"']) := by
    have : Print.quote o.isPrint s = '"' :: (body o.isPrint s ++ ['"']) := by simp [Print.quote, body]
    rw [this] at hq
    exact (NoNul.of_cons hq).2
  have := seg2_tokAt o ok (tokAt_string o ok s hs) (by decide) hb (by simp) (by decide)
  have e : Print.quote o.isPrint s = '"' :: (body o.isPrint s ++ ['"']) := by simp [Print.quote, body]
  rw [e]; exact this

theorem seg2_nat (n : Nat) : Seg2 o brk (Nat.toDigits 10 n) [tInt n] := ⟨seg_nat o ok n, seg_sp_nat o ok n⟩

theorem seg2_bang : Seg2 o (fun y => y ≠ some '=') ['!'] [(.not, ['!'])] :=
  seg2_tokAt o ok (tokAt_bang o ok) (by decide) NoNul.nil (by decide) (by decide)

/-! ### infix operators -/

def opTok : BinOp → TT
  | .eq => (.equal, []) | .ne => (.notEq, []) | .lt => (.less, ['<']) | .gt => (.greater, ['>'])
  | .le => (.lessEq, []) | .ge => (.greaterEq, []) | .and => (.and, []) | .or => (.or, [])
  | _ => (.stop, [])

/-- comparison and logical operators -/
def isCmp (op : BinOp) : Bool := op == .eq || op == .ne || op == .lt || op == .gt || op == .le || op == .ge
def isLogic (op : BinOp) : Bool := op == .and || op == .or

/-- ` op` as written between two operands; it is always followed by a blank -/
theorem seg_sp_op (op : BinOp) (h : isCmp op = true ∨ isLogic op = true) :
    Seg o (fun y => y = some ' ') (' ' :: Print.binStr op) [opTok op] := by
  have two : ∀ c d t, (c, d, t) ∈ twoOps → isWhitespace c = false → Seg o (fun y => y = some ' ') [' ', c, d] [(t, [])] := by
    intro c d t hm hws
    have hd0 : d.toNat ≠ 0 ∧ c.toNat ≠ 0 ∧ t ≠ .stop := by
      simp [twoOps] at hm
      rcases hm with h | h | h | h | h | h | h <;> obtain ⟨h1, h2, h3⟩ := h <;> subst h1 <;> subst h2 <;> subst h3 <;>
        decide
    exact (seg_sp_of_tokAt o (tokAt_two o ok c d t hm) hd0.2.1 (NoNul.cons hd0.1 NoNul.nil) hd0.2.2 hws).mono o
      (fun _ _ => trivial)
  cases op <;> simp [isCmp, isLogic] at h
  · exact two '&' '&' .and (by decide) (by decide)
  · exact two '|' '|' .or (by decide) (by decide)
  · exact two '=' '=' .equal (by decide) (by decide)
  · exact two '!' '=' .notEq (by decide) (by decide)
  · exact (seg_sp_of_tokAt o (tokAt_lt o ok) (by decide) NoNul.nil (by decide) (by decide)).mono o
      (fun y hy => by subst hy; exact ⟨by decide, by decide⟩)
  · exact (seg_sp_of_tokAt o (tokAt_gt o ok) (by decide) NoNul.nil (by decide) (by decide)).mono o
      (fun y hy => by subst hy; decide)
  · exact two '<' '=' .lessEq (by decide) (by decide)
  · exact two '>' '=' .greaterEq (by decide) (by decide)

end

/-! ## Stage 2: operands and predicates — what is proved of them -/

/-- the token kinds with which a stage-2 operand starts -/
def isOpdStart (t : Tok) : Bool :=
  t == .dollar || t == .at || t == .string || t == .null || t == .true_ || t == .false_ || t == .int
    || t == .variable

/-- what may follow a predicate: `)`, `&&`, `||`, the end -/
def PFollow (t : Tok) : Prop := t = .rparen ∨ t = .and ∨ t = .or ∨ t = .stop

theorem PFollow.facts {t : Tok} (h : PFollow t) :
    isAccessorStart t = false ∧ t ≠ .lbrace ∧ addOp t = none ∧ mulOp t = none ∧ t ≠ .is ∧ compOp t = none ∧
      t ≠ .starts ∧ t ≠ .likeRegex := by
  rcases h with h | h | h | h <;> subst h <;> decide

/-- an operand (an `expr` of the grammar): text, tokens, and what `parseUnaryT` makes of them -/
def OpdOK (o : Oracles) (n : Node) : Prop :=
  ∃ (txt : List Char) (tk : TT) (ts : List TT),
    (∀ wp, Print.writeTo o.isPrint n false wp = some txt) ∧ Seg2 o brk txt (tk :: ts) ∧
    isOpdStart tk.1 = true ∧
    ∀ f rest, 16 * (ts.length + 1) + 4 ≤ f → isAccessorStart (hd rest).1 = false → (hd rest).1 ≠ .lbrace →
      RunsV (StP o (tk :: ts ++ rest)) (parseUnaryT o f tk) (evOf n) (StA o rest)

def isAndOr : Node → Bool
  | .binary .and _ _ _ => true
  | .binary .or _ _ _ => true
  | _ => false

def isOr : Node → Bool
  | .binary .or _ _ _ => true
  | _ => false

/-- `parseAtom` reads the tokens as the complete predicate `p` -/
def AtomSpec (o : Oracles) (p : Node) (toks : List TT) : Prop :=
  ∀ f ctx rest, 16 * toks.length + 8 ≤ f → PFollow (hd rest).1 →
    RunsV (StE o (toks ++ rest)) (parseAtom o f ctx) (.pred { node := p }) (StE o rest)

/-- what may follow a predicate that is not an operand of `&&`: `)`, `||`, the end -/
def LFollow (t : Tok) : Prop := t = .rparen ∨ t = .or ∨ t = .stop

theorem LFollow.p {t : Tok} (h : LFollow t) : PFollow t := by
  rcases h with h | h | h
  · exact Or.inl h
  · exact Or.inr (Or.inr (Or.inl h))
  · exact Or.inr (Or.inr (Or.inr h))

theorem LFollow.notAnd {t : Tok} (h : LFollow t) : t ≠ .and := by
  rcases h with h | h | h <;> subst h <;> decide

/-- `parseAtom` followed by `predLoop` (the left operand position of `||`, or a whole predicate):
    after the tokens, the loop stands at `rest` with `p` as its left operand, having used at most
    `k` units of fuel -/
def LeftSpec (o : Oracles) (p : Node) (toks : List TT) (k : Nat) : Prop :=
  ∀ f ctx rest, 16 * toks.length + 8 ≤ f → LFollow (hd rest).1 →
    ∃ (v0 : EV) (mid : List TT),
      RunsV (StE o (toks ++ rest)) (parseAtom o f ctx) (.pred v0) (StE o mid) ∧
      ∀ (w : EV × Tok) (post : PS → Prop),
        (∀ g, g ≤ f → f ≤ g + k → RunsV (StE o rest) (predLoop o g { node := p }) w post) →
        RunsV (StE o mid) (predLoop o f v0) w post

/-- the right operand position of `||`: `parseAtom` followed by `orLoop` -/
def RightSpec (o : Oracles) (p : Node) (toks : List TT) : Prop :=
  ∀ f rest, 16 * toks.length + 8 ≤ f → LFollow (hd rest).1 →
    ∃ (v0 : EV) (mid : List TT),
      RunsV (StE o (toks ++ rest)) (parseAtom o f .pred) (.pred v0) (StE o mid) ∧
      RunsV (StE o mid) (orLoop o f v0) { node := p } (StA o rest)

/-- a whole predicate up to `)` or the end: `parseAtom` followed by `predLoop` -/
def FullSpec (o : Oracles) (p : Node) (toks : List TT) : Prop :=
  ∀ f ctx rest, 16 * toks.length + 8 ≤ f → ((hd rest).1 = .rparen ∨ (hd rest).1 = .stop) →
    ∃ (v0 : EV) (mid : List TT),
      RunsV (StE o (toks ++ rest)) (parseAtom o f ctx) (.pred v0) (StE o mid) ∧
      RunsV (StE o mid) (predLoop o f v0) ({ node := p }, (hd rest).1) (StA o rest)

/-- the token kinds with which a predicate starts -/
def isPredStart (t : Tok) : Bool :=
  isOpdStart t || t == .lparen || t == .not || t == .exists || t == .minus || t == .plus || t == .last

def PHead (toks : List TT) : Prop := ∃ tk ts, toks = tk :: ts ∧ isPredStart tk.1 = true

/-- a predicate: text and tokens for either value of the printer's `withParens`, and what the parser
    makes of the tokens in the positions where they can stand -/
def PredOK (o : Oracles) (p : Node) : Prop :=
  ∀ wp : Bool, ∃ (txt : List Char) (toks : List TT),
    Print.writeTo o.isPrint p false wp = some txt ∧ Seg2 o brk txt toks ∧ PHead toks ∧
    ((wp = true ∨ isAndOr p = false) → AtomSpec o p toks) ∧
    ((wp = true ∨ isOr p = false) → LeftSpec o p toks 1 ∧ RightSpec o p toks) ∧
    LeftSpec o p toks 2

section
variable {o : Oracles}

theorem predLoop_nil (f : Nat) (l : EV) (rest : List TT) (h1 : (hd rest).1 ≠ .and) (h2 : (hd rest).1 ≠ .or) :
    RunsV (StE o rest) (predLoop o (f + 1) l) (l, (hd rest).1) (StA o rest) := by
  rw [predLoop]
  rstep (peek_any rest)
  simp only [h1, h2, ↓reduceIte]
  exact RunsV.pure _

theorem orLoop_nil (f : Nat) (r : EV) (rest : List TT) (h1 : (hd rest).1 ≠ .and) :
    RunsV (StE o rest) (orLoop o (f + 1) r) r (StA o rest) := by
  rw [orLoop]
  rstep (peek_any rest)
  simp only [h1, ↓reduceIte]
  exact RunsV.pure _

/-- an atom is fine in the left position … -/
theorem left_of_atom {p : Node} {toks : List TT} (h : AtomSpec o p toks) (k : Nat) : LeftSpec o p toks k := by
  intro f ctx rest hf hfol
  refine ⟨{ node := p }, rest, h f ctx rest hf hfol.p, ?_⟩
  intro w post hk
  exact hk f (Nat.le_refl _) (by omega)

/-- … and in the right position of `||` -/
theorem right_of_atom {p : Node} {toks : List TT} (h : AtomSpec o p toks) : RightSpec o p toks := by
  intro f rest hf hfol
  obtain ⟨f', rfl⟩ : ∃ f', f = f' + 1 := ⟨f - 1, by omega⟩
  exact ⟨{ node := p }, rest, h (f' + 1) .pred rest hf hfol.p, orLoop_nil f' _ rest hfol.notAnd⟩

theorem LeftSpec.mono {p : Node} {toks : List TT} {k k' : Nat} (h : LeftSpec o p toks k) (hk : k ≤ k') :
    LeftSpec o p toks k' := by
  intro f ctx rest hf hfol
  obtain ⟨v0, mid, h1, h2⟩ := h f ctx rest hf hfol
  exact ⟨v0, mid, h1, fun w post hc => h2 w post (fun g hg1 hg2 => hc g hg1 (by omega))⟩

theorem full_of_left {p : Node} {toks : List TT} {k : Nat} (hk : k ≤ 4) (h : LeftSpec o p toks k) :
    FullSpec o p toks := by
  intro f ctx rest hf hfol
  have hpf : LFollow (hd rest).1 := by
    rcases hfol with h | h
    · exact Or.inl h
    · exact Or.inr (Or.inr h)
  obtain ⟨v0, mid, h1, h2⟩ := h f ctx rest hf hpf
  refine ⟨v0, mid, h1, h2 _ _ ?_⟩
  intro g hg1 hg2
  obtain ⟨g', rfl⟩ : ∃ g', g = g' + 1 := ⟨g - 1, by omega⟩
  refine predLoop_nil g' _ rest ?_ ?_
  · rcases hfol with h | h <;> rw [h] <;> decide
  · rcases hfol with h | h <;> rw [h] <;> decide

def tAnd : TT := (.and, [])
def tOr : TT := (.or, [])

/-- `a && b` (both atoms) in the left position -/
theorem and_left {a b : Node} {A B : List TT} (ha : AtomSpec o a A) (hb : AtomSpec o b B) :
    LeftSpec o (.binary .and (some a) (some b) none) (A ++ tAnd :: B) 1 := by
  intro f ctx rest hf hfol
  simp only [List.length_cons, List.length_append] at hf
  refine ⟨{ node := a }, tAnd :: B ++ rest, ?_, ?_⟩
  · have := ha f ctx (tAnd :: B ++ rest) (by omega) (Or.inr (Or.inl rfl))
    simpa using this
  · intro w post hk
    obtain ⟨f', rfl⟩ : ∃ f', f = f' + 1 := ⟨f - 1, by omega⟩
    rw [predLoop]
    simp only [List.cons_append]
    rstep (peek_cons _ _)
    simp only [tAnd, ↓reduceIte]
    rstep (consume_spec _ _)
    rstep (hb f' .pred rest (by omega) hfol.p)
    exact hk f' (by omega) (by omega)

/-- `a && b` (both atoms) in the right position of `||` -/
theorem and_right {a b : Node} {A B : List TT} (ha : AtomSpec o a A) (hb : AtomSpec o b B) :
    RightSpec o (.binary .and (some a) (some b) none) (A ++ tAnd :: B) := by
  intro f rest hf hfol
  simp only [List.length_cons, List.length_append] at hf
  refine ⟨{ node := a }, tAnd :: B ++ rest, ?_, ?_⟩
  · have := ha f .pred (tAnd :: B ++ rest) (by omega) (Or.inr (Or.inl rfl))
    simpa using this
  · obtain ⟨f', rfl⟩ : ∃ f', f = f' + 2 := ⟨f - 2, by omega⟩
    rw [orLoop]
    simp only [List.cons_append]
    rstep (peek_cons _ _)
    simp only [tAnd, ↓reduceIte]
    rstep (consume_spec _ _)
    rstep (hb (f' + 1) .pred rest (by omega) hfol.p)
    exact orLoop_nil f' _ rest hfol.notAnd

/-- `x || y` in the left position -/
theorem or_left {x y : Node} {X Y : List TT} (hx : LeftSpec o x X 1) (hy : RightSpec o y Y) :
    LeftSpec o (.binary .or (some x) (some y) none) (X ++ tOr :: Y) 2 := by
  intro f ctx rest hf hfol
  simp only [List.length_cons, List.length_append] at hf
  obtain ⟨v0, mid, h1, h2⟩ := hx f ctx (tOr :: Y ++ rest) (by omega) (Or.inr (Or.inl rfl))
  refine ⟨v0, mid, by simpa using h1, ?_⟩
  intro w post hk
  refine h2 w post ?_
  intro g hg1 hg2
  obtain ⟨g', rfl⟩ : ∃ g', g = g' + 1 := ⟨g - 1, by omega⟩
  obtain ⟨r0, midY, h3, h4⟩ := hy g' rest (by omega) hfol
  rw [predLoop]
  simp only [List.cons_append]
  rstep (peek_cons _ _)
  simp only [tOr, reduceCtorEq, ↓reduceIte]
  rstep (consume_spec _ _)
  rstep h3
  rstep h4
  exact RunsV.ofA (hk g' (by omega) (by omega))

def tIs : TT := (.is, ['i', 's'])
def tUnknown : TT := (.unknown, ['u', 'n', 'k', 'n', 'o', 'w', 'n'])

/-- after `(`: a predicate, `)`, and something that is neither an accessor nor `is` -/
theorem parenTail_pred {p : Node} {toks : List TT} (h : FullSpec o p toks) (f : Nat) (rest : List TT)
    (hf : 16 * toks.length + 8 ≤ f) (hfol : PFollow (hd rest).1) :
    RunsV (StE o (toks ++ tRp :: rest)) (parenTail o (f + 1) .paren) (.pred { node := p }) (StE o rest) := by
  obtain ⟨v0, mid, h1, h2⟩ := h f .paren (tRp :: rest) hf (Or.inl rfl)
  have hfacts := hfol.facts
  rw [parenTail]
  rstep h1
  rstep h2
  simp only [hd, tRp, ne_eq, not_true_eq_false, ↓reduceIte]
  rstep (consume_spec _ _)
  rstep (peek_any rest)
  simp only [hfacts.1, hfacts.2.2.2.2.1, reduceCtorEq, ↓reduceIte, Bool.false_eq_true]
  exact RunsV.pure' rfl (fun _ h => StE.ofA h)

/-- after `(`: a predicate, `) is unknown` -/
theorem parenTail_isUnknown {p : Node} {toks : List TT} (h : FullSpec o p toks) (f : Nat) (rest : List TT)
    (hf : 16 * toks.length + 8 ≤ f) :
    RunsV (StE o (toks ++ tRp :: tIs :: tUnknown :: rest)) (parenTail o (f + 1) .paren)
      (.pred (unary .isUnknown { node := p })) (StE o rest) := by
  obtain ⟨v0, mid, h1, h2⟩ := h f .paren (tRp :: tIs :: tUnknown :: rest) hf (Or.inl rfl)
  rw [parenTail]
  rstep h1
  rstep h2
  simp only [hd, tRp, ne_eq, not_true_eq_false, ↓reduceIte]
  rstep (consume_spec _ _)
  rstep (peek_cons _ _)
  simp only [tIs, isAccessorStart, reduceCtorEq, ↓reduceIte, decide_false, Bool.or_self, Bool.false_eq_true]
  rstep (consume_spec _ _)
  rstep (expect_spec _ _ _)
  exact RunsV.pure _

/-- a parenthesised predicate is an atom -/
theorem paren_atom {p : Node} {toks : List TT} (h : FullSpec o p toks) :
    AtomSpec o p (tLp :: toks ++ [tRp]) := by
  intro f ctx rest hf hfol
  simp only [List.length_cons, List.length_append, List.length_nil] at hf
  obtain ⟨f', rfl⟩ : ∃ f', f = f' + 2 := ⟨f - 2, by omega⟩
  rw [parseAtom]
  simp only [List.cons_append, List.append_assoc, List.nil_append]
  rstep (peek_cons _ _)
  simp only [tLp, reduceCtorEq, ↓reduceIte]
  rstep (consume_spec _ _)
  rstep (parenTail_pred h f' rest (by omega) hfol)
  exact RunsV.pure _

/-- `(p) is unknown` is an atom -/
theorem isUnknown_atom {p : Node} {toks : List TT} (h : FullSpec o p toks) :
    AtomSpec o (.unary .isUnknown (some p) none) (tLp :: toks ++ [tRp, tIs, tUnknown]) := by
  intro f ctx rest hf hfol
  simp only [List.length_cons, List.length_append, List.length_nil] at hf
  obtain ⟨f', rfl⟩ : ∃ f', f = f' + 2 := ⟨f - 2, by omega⟩
  rw [parseAtom]
  simp only [List.cons_append, List.append_assoc, List.nil_append]
  rstep (peek_cons _ _)
  simp only [tLp, reduceCtorEq, ↓reduceIte]
  rstep (consume_spec _ _)
  rstep (parenTail_isUnknown h f' rest (by omega))
  exact RunsV.pure _

def tNot : TT := (.not, ['!'])

/-- `!(p)` is an atom -/
theorem not_atom {p : Node} {toks : List TT} (h : FullSpec o p toks) :
    AtomSpec o (.unary .not (some p) none) (tNot :: tLp :: toks ++ [tRp]) := by
  intro f ctx rest hf hfol
  simp only [List.length_cons, List.length_append, List.length_nil] at hf
  obtain ⟨f', rfl⟩ : ∃ f', f = f' + 1 := ⟨f - 1, by omega⟩
  obtain ⟨v0, mid, h1, h2⟩ := h f' .pred (tRp :: rest) (by omega) (Or.inl rfl)
  rw [parseAtom]
  simp only [List.cons_append, List.append_assoc, List.nil_append]
  rstep (peek_cons _ _)
  simp only [tNot, ↓reduceIte]
  rstep (consume_spec _ _)
  rstep (peek_cons _ _)
  simp only [tLp, reduceCtorEq, ↓reduceIte]
  rstep (consume_spec _ _)
  rstep h1
  rstep h2
  simp only [hd, tRp, ne_eq, not_true_eq_false, ↓reduceIte]
  rstep (consume_spec _ _)
  exact RunsV.pure _

theorem unary_of_unaryT {tk : TT} {ts : List TT} {f : Nat} {ev : EV} {post : PS → Prop}
    (h : RunsV (StP o (tk :: ts)) (parseUnaryT o f tk) ev post) :
    RunsV (StE o (tk :: ts)) (parseUnary o (f + 1)) ev post := by
  rw [parseUnary]
  rstep (peek_cons _ _)
  exact h

/-- what `parseUnaryT` makes of the tokens `tk :: ts` of the operand `n` -/
def OpdSpec (o : Oracles) (n : Node) (tk : TT) (ts : List TT) : Prop :=
  ∀ f rest, 16 * (ts.length + 1) + 4 ≤ f → isAccessorStart (hd rest).1 = false → (hd rest).1 ≠ .lbrace →
    RunsV (StP o (tk :: ts ++ rest)) (parseUnaryT o f tk) (evOf n) (StA o rest)

theorem opdStart_facts {t : Tok} (h : isOpdStart t = true) :
    t ≠ .not ∧ t ≠ .exists ∧ t ≠ .lparen ∧ t ≠ .stop := by
  simp only [isOpdStart, Bool.or_eq_true, beq_iff_eq] at h
  rcases h with ((((((h | h) | h) | h) | h) | h) | h) | h <;> subst h <;> decide

theorem cmp_facts {op : BinOp} (h : isCmp op = true) :
    addOp (opTok op).1 = none ∧ mulOp (opTok op).1 = none ∧ compOp (opTok op).1 = some op ∧
      isAccessorStart (opTok op).1 = false ∧ (opTok op).1 ≠ .lbrace := by
  cases op <;> simp [isCmp] at h <;> decide

/-- `l op r` for a comparison operator is an atom -/
theorem cmp_atom {l r : Node} {tkl tkr : TT} {tsl tsr : List TT} {op : BinOp}
    (hl : OpdSpec o l tkl tsl) (hsl : isOpdStart tkl.1 = true) (hr : OpdSpec o r tkr tsr) (hop : isCmp op = true) :
    AtomSpec o (.binary op (some l) (some r) none) (tkl :: tsl ++ opTok op :: tkr :: tsr) := by
  intro f ctx rest hf hfol
  simp only [List.length_cons, List.length_append] at hf
  obtain ⟨f', rfl⟩ : ∃ f', f = f' + 4 := ⟨f - 4, by omega⟩
  have hfacts := hfol.facts
  have hst := opdStart_facts hsl
  have hc := cmp_facts hop
  obtain ⟨tl, xl⟩ := tkl
  have hrunl := hl (f' + 3) (opTok op :: tkr :: tsr ++ rest) (by omega) hc.2.2.2.1 hc.2.2.2.2
  have hrunr := hr (f' + 1) rest (by omega) hfacts.1 hfacts.2.1
  simp only at hst
  rw [parseAtom]
  simp only [List.cons_append, List.append_assoc]
  rstep (peek_cons _ _)
  simp only [hst.1, hst.2.1, hst.2.2.1, hst.2.2.2, ↓reduceIte]
  simp only [List.cons_append, List.append_assoc] at hrunl
  rstep hrunl
  rw [exprTail]
  rstep (arith_nil (f' + 1) (evOf l) _ hc.1 hc.2.1)
  simp only [hd, hc.2.2.1]
  rstep (consume_spec _ _)
  simp only [List.cons_append] at hrunr
  rstep (unary_of_unaryT hrunr)
  rstep (arith_nil (f' + 1) (evOf r) rest hfacts.2.2.1 hfacts.2.2.2.1)
  exact RunsV.pure' (by simp [binary]) (fun _ h => StE.ofA h)

def tStarts : TT := (.starts, ['s', 't', 'a', 'r', 't', 's'])
def tWith : TT := (.with_, ['w', 'i', 't', 'h'])
def tExists : TT := (.exists, ['e', 'x', 'i', 's', 't', 's'])

/-- `l starts with "s"` is an atom -/
theorem startsWith_atom {l : Node} {tkl : TT} {tsl : List TT} (s : List Char)
    (hl : OpdSpec o l tkl tsl) (hsl : isOpdStart tkl.1 = true) :
    AtomSpec o (.binary .startsWith (some l) (some (.str s none)) none)
      (tkl :: tsl ++ [tStarts, tWith, (.string, s)]) := by
  intro f ctx rest hf hfol
  simp only [List.length_cons, List.length_append, List.length_nil] at hf
  obtain ⟨f', rfl⟩ : ∃ f', f = f' + 4 := ⟨f - 4, by omega⟩
  have hst := opdStart_facts hsl
  obtain ⟨tl, xl⟩ := tkl
  have hrunl := hl (f' + 3) (tStarts :: tWith :: (.string, s) :: rest) (by omega) rfl (by simp [hd, tStarts])
  simp only at hst
  rw [parseAtom]
  simp only [List.cons_append, List.append_assoc, List.nil_append]
  rstep (peek_cons _ _)
  simp only [hst.1, hst.2.1, hst.2.2.1, hst.2.2.2, ↓reduceIte]
  simp only [List.cons_append, List.append_assoc] at hrunl
  rstep hrunl
  rw [exprTail]
  rstep (arith_nil (f' + 1) (evOf l) _ rfl rfl)
  simp only [hd, tStarts, compOp, ↓reduceIte]
  rstep (consume_spec _ _)
  rstep (expect_spec _ _ _)
  rstep (peek_cons _ _)
  simp only [↓reduceIte]
  rstep (consume_spec _ _)
  exact RunsV.pure' (by simp [binary]) (fun _ h => h)

/-- `exists (x)` is an atom -/
theorem exists_atom {x : Node} {tk : TT} {ts : List TT} (hx : OpdSpec o x tk ts) :
    AtomSpec o (.unary .exists (some x) none) (tExists :: tLp :: tk :: ts ++ [tRp]) := by
  intro f ctx rest hf hfol
  simp only [List.length_cons, List.length_append, List.length_nil] at hf
  obtain ⟨f', rfl⟩ : ∃ f', f = f' + 4 := ⟨f - 4, by omega⟩
  have hrun := hx (f' + 1) (tRp :: rest) (by omega) rfl (by simp [hd, tRp])
  have hex : RunsV (StE o (tLp :: tk :: ts ++ tRp :: rest)) (existsTail o (f' + 3)) (unary .exists (evOf x))
      (StE o rest) := by
    rw [existsTail]
    rstep (expect_spec _ _ _)
    simp only [List.cons_append] at hrun
    rstep (unary_of_unaryT hrun)
    rstep (arith_nil (f' + 1) (evOf x) _ rfl rfl)
    simp only [hd, tRp, ne_eq, not_true_eq_false, ↓reduceIte]
    rstep (consume_spec _ _)
    exact RunsV.pure _
  rw [parseAtom]
  simp only [List.cons_append, List.append_assoc, List.nil_append]
  rstep (peek_cons _ _)
  simp only [tExists, reduceCtorEq, ↓reduceIte]
  rstep (consume_spec _ _)
  simp only [List.cons_append, List.append_assoc, List.nil_append] at hex
  rstep hex
  exact RunsV.pure' (by simp [unary]) (fun _ h => h)

end

/-! ## Stage 2: the class -/

def isOpdConst (k : Const) : Bool := k == .root || k == .current || k == .null || k == .true_ || k == .false_

/-- a string literal without accessors -/
def strLit? : Node → Option (List Char)
  | .str s none => some s
  | _ => none

mutual
  /-- an operand of a comparison: `$`/`@`/a string/`null`/`true`/`false` with accessors, or a
      non-negative integer literal -/
  def okOpd : Node → Bool
    | .const k nx => isOpdConst k && okNext nx
    | .str s nx => noNulB s && okNext nx
    | .integer i none => intOK i
    | _ => false
  /-- a predicate -/
  def okPred : Node → Bool
    | .binary op (some l) (some r) none =>
      if isCmp op then okOpd l && okOpd r
      else if isLogic op then okPred l && okPred r
      else if op = .startsWith then
        okOpd l && (match strLit? r with | some s => noNulB s | none => false)
      else false
    | .unary .not (some p) none => okPred p
    | .unary .exists (some x) none => okOpd x
    | .unary .isUnknown (some p) none => okPred p
    | _ => false
  /-- an accessor followed by accessors: those of stage 1 and filters -/
  def okStep : Node → Bool
    | .unary .filter (some p) nx => okPred p && okNext nx
    | .key s nx => noNulB s && okNext nx
    | .const .anyKey nx => okNext nx
    | .const .anyArray nx => okNext nx
    | .any a b nx => lvlOK a && lvlOK b && okNext nx
    | .method _ nx => okNext nx
    | .unary .date none nx => okNext nx
    | .unary .datetime none nx => okNext nx
    | .unary .datetime (some (.str t none)) nx => noNulB t && okNext nx
    | .arrayIndex subs nx => !subs.isEmpty && subs.all okSub && okNext nx
    | _ => false
  def okNext : Option Node → Bool
    | none => true
    | some n => okStep n
end

theorem okStep_cases {n : Node} (h : okStep n = true) :
    (simpleStep n = true ∧ okNext n.next = true) ∨
      ∃ p nx, n = .unary .filter (some p) nx ∧ okPred p = true ∧ okNext nx = true := by
  unfold okStep at h
  split at h
  · rename_i p nx
    simp only [Bool.and_eq_true] at h
    exact Or.inr ⟨p, nx, rfl, h.1, h.2⟩
  · left; simpa [simpleStep, Node.next] using h
  · left; simpa [simpleStep, Node.next] using h
  · left; simpa [simpleStep, Node.next] using h
  · left; simpa [simpleStep, Node.next, Bool.and_assoc, and_assoc] using h
  · left; simpa [simpleStep, Node.next] using h
  · left; simpa [simpleStep, Node.next] using h
  · left; simpa [simpleStep, Node.next] using h
  · left; simpa [simpleStep, Node.next] using h
  · left; simpa [simpleStep, Node.next, Bool.and_assoc, and_assoc] using h
  · simp at h

inductive OpdShape : Node → Prop
  | const (k : Const) (nx : Option Node) (hk : isOpdConst k = true) (h : okNext nx = true) : OpdShape (.const k nx)
  | str (s : List Char) (nx : Option Node) (hs : NoNul s) (h : okNext nx = true) : OpdShape (.str s nx)
  | int (i : Int) (h : intOK i = true) : OpdShape (.integer i none)

theorem okOpd_cases {n : Node} (h : okOpd n = true) : OpdShape n := by
  unfold okOpd at h
  split at h
  · simp only [Bool.and_eq_true] at h; exact .const _ _ h.1 h.2
  · simp only [Bool.and_eq_true] at h; exact .str _ _ (noNul_of_B h.1) h.2
  · exact .int _ h
  · simp at h

inductive PredShape : Node → Prop
  | cmp (op : BinOp) (l r : Node) (hop : isCmp op = true) (hl : okOpd l = true) (hr : okOpd r = true) :
      PredShape (.binary op (some l) (some r) none)
  | logic (op : BinOp) (l r : Node) (hop : isLogic op = true) (hl : okPred l = true) (hr : okPred r = true) :
      PredShape (.binary op (some l) (some r) none)
  | starts (l : Node) (s : List Char) (hl : okOpd l = true) (hs : NoNul s) :
      PredShape (.binary .startsWith (some l) (some (.str s none)) none)
  | not (p : Node) (h : okPred p = true) : PredShape (.unary .not (some p) none)
  | exists_ (x : Node) (h : okOpd x = true) : PredShape (.unary .exists (some x) none)
  | isUnknown (p : Node) (h : okPred p = true) : PredShape (.unary .isUnknown (some p) none)

theorem strLit?_some {r : Node} {s : List Char} (h : strLit? r = some s) : r = .str s none := by
  unfold strLit? at h
  split at h
  · injection h with h; subst h; rfl
  · simp at h

theorem okPred_cases {p : Node} (h : okPred p = true) : PredShape p := by
  unfold okPred at h
  split at h
  · rename_i op l r
    split at h
    · rename_i hc; simp only [Bool.and_eq_true] at h; exact .cmp op l r hc h.1 h.2
    · split at h
      · rename_i hc; simp only [Bool.and_eq_true] at h; exact .logic op l r hc h.1 h.2
      · split at h
        · rename_i hc
          subst hc
          simp only [Bool.and_eq_true] at h
          obtain ⟨h1, h2⟩ := h
          split at h2
          · rename_i s hs
            rw [strLit?_some hs]
            exact .starts l s h1 (noNul_of_B h2)
          · simp at h2
        · simp at h
  · exact .not _ h
  · exact .exists_ _ h
  · exact .isUnknown _ h
  · simp at h

section
variable {o : Oracles} (ok : OrOK o)
include ok

/-! ## Building `PredOK` -/

theorem seg2_paren {txt : List Char} {toks : List TT} (h : Seg2 o brk txt toks) :
    Seg2 o brk ('(' :: (txt ++ [')'])) (tLp :: toks ++ [tRp]) := by
  have h1 := Seg.app_cons o h.1 (seg_rp o ok) (Or.inr (Or.inr (Or.inl rfl)))
  have h2 := Seg2.app o (seg2_lp o ok) h1 (fun _ _ => trivial)
  have h3 : Seg2 o brk ('(' :: (txt ++ [')'])) (tLp :: toks ++ [tRp]) := by
    have := Seg2.mono o h2 (C' := brk) (fun _ _ => trivial)
    simpa using this
  exact h3

/-- a node whose text is wrapped in parentheses when `withParens` is set -/
theorem predOK_binary {p : Node} {txt : List Char} {toks : List TT}
    (hpr : ∀ wp, Print.writeTo o.isPrint p false wp = some (Print.parenIf wp txt))
    (hseg : Seg2 o brk txt toks) (hhead : PHead toks)
    (hatom : isAndOr p = false → AtomSpec o p toks)
    (hlr : isOr p = false → LeftSpec o p toks 1 ∧ RightSpec o p toks)
    (hl2 : LeftSpec o p toks 2) : PredOK o p := by
  intro wp
  cases wp with
  | false =>
    refine ⟨txt, toks, by simpa [Print.parenIf] using hpr false, hseg, hhead, ?_, ?_, hl2⟩
    · intro h; exact hatom (h.resolve_left (by simp))
    · intro h; exact hlr (h.resolve_left (by simp))
  | true =>
    have hat := paren_atom (full_of_left (by decide) hl2)
    refine ⟨'(' :: (txt ++ [')']), tLp :: toks ++ [tRp], by simpa [Print.parenIf] using hpr true,
      seg2_paren ok hseg, ⟨tLp, _, rfl, rfl⟩, fun _ => hat, fun _ => ⟨left_of_atom hat 1, right_of_atom hat⟩, left_of_atom hat 2⟩

/-- a node that is an atom however it is printed -/
theorem predOK_unary {p : Node} {txt : List Char} {toks : List TT}
    (hpr : ∀ wp, Print.writeTo o.isPrint p false wp = some txt)
    (hseg : Seg2 o brk txt toks) (hhead : PHead toks) (hatom : AtomSpec o p toks) : PredOK o p := by
  intro wp
  exact ⟨txt, toks, hpr wp, hseg, hhead, fun _ => hatom, fun _ => ⟨left_of_atom hatom 1, right_of_atom hatom⟩,
    left_of_atom hatom 2⟩

/-! ## Building `OpdOK` -/

theorem opdOK_int (i : Int) (h : intOK i = true) : OpdOK o (.integer i none) := by
  have hl : okIdx (.integer i none) = true := h
  refine ⟨Nat.toDigits 10 i.toNat, tInt i.toNat, [], ?_, seg2_nat o ok _, rfl, ?_⟩
  · intro wp
    simp only [intOK, Bool.and_eq_true, decide_eq_true_eq] at h
    have hneg : ¬ i < 0 := by omega
    have : i.natAbs = i.toNat := by omega
    simp [Print.writeTo, Print.writeNext, Print.parenIf, Decimal.formatInt, Decimal.formatNat, hneg, this]
  · intro f rest hf h1 _
    obtain ⟨f', rfl⟩ : ∃ f', f = f' + 3 := ⟨f - 3, by omega⟩
    have hev : evIdx (.integer i none) = evOf (.integer i none) := by
      simp only [intOK, Bool.and_eq_true, decide_eq_true_eq] at h
      have hneg : ¬ i < 0 := by omega
      have : i.natAbs = i.toNat := by omega
      simp [evIdx, evOf, litOf, Decimal.formatInt, Decimal.formatNat, hneg, this]
    rw [← hev]
    simpa [idxTok] using unaryT_idx f' _ hl rest h1

/-- a head token (`$`, `@`, a string, `null`, `true`, `false`) with a chain -/
theorem opdOK_head (tk : TT) (hn : Node) (hh : headOf tk = some hn) (hst : isOpdStart tk.1 = true)
    {htxt : List Char} (hseg : Seg2 o brkS htxt [tk]) {nx : Option Node} (hc : ChainOK o nx)
    (hpr : ∀ wp tl, Print.writeNext o.isPrint nx = some tl →
      Print.writeTo o.isPrint (hn.setNext nx) false wp = some (htxt ++ tl)) :
    OpdOK o (hn.setNext nx) := by
  obtain ⟨ctxt, ctoks, hw, hcseg, hhead, hrun⟩ := unaryT_chain' (o := o) tk hn hh hc
  refine ⟨htxt ++ ctxt, tk, ctoks, fun wp => hpr wp ctxt hw, ?_, hst, ?_⟩
  · have := Seg2.app o hseg hcseg hhead
    simpa using this
  · intro f rest hf h1 h2
    exact hrun f rest (by omega) h1 h2

theorem opdOK_const (k : Const) (hk : isOpdConst k = true) {nx : Option Node} (hc : ChainOK o nx) :
    OpdOK o (.const k nx) := by
  have hpr : ∀ wp tl, Print.writeNext o.isPrint nx = some tl →
      Print.writeTo o.isPrint (.const k nx) false wp = some (Print.constStr k ++ tl) := by
    intro wp tl htl
    rw [Print.writeTo]; simp [htl]
  have kwc : ∀ (c : Char) (w : List Char) (t : Tok), (c :: w, t) ∈ kwList → t ≠ .stop →
      Seg2 o brkS (c :: w) [(t, c :: w)] := fun c w t hp ht =>
    (seg2_kw o ok c w t hp ht).mono o (fun _ h => brkS_identCont o ok h)
  cases k <;> simp [isOpdConst] at hk
  · exact opdOK_head ok tDollar (.const .root none) rfl rfl (seg2_dollar o ok) hc
      (by intro wp tl h; simpa [Print.constStr, Node.setNext] using hpr wp tl h)
  · exact opdOK_head ok tAt (.const .current none) rfl rfl ((seg2_at o ok).mono o (fun _ _ => trivial)) hc
      (by intro wp tl h; simpa [Print.constStr, Node.setNext] using hpr wp tl h)
  · exact opdOK_head ok (.true_, ['t', 'r', 'u', 'e']) (.const .true_ none) rfl rfl
      (kwc 't' ['r', 'u', 'e'] .true_ (by decide) (by decide)) hc
      (by intro wp tl h; simpa [Print.constStr, Node.setNext] using hpr wp tl h)
  · exact opdOK_head ok (.false_, ['f', 'a', 'l', 's', 'e']) (.const .false_ none) rfl rfl
      (kwc 'f' ['a', 'l', 's', 'e'] .false_ (by decide) (by decide)) hc
      (by intro wp tl h; simpa [Print.constStr, Node.setNext] using hpr wp tl h)
  · exact opdOK_head ok (.null, ['n', 'u', 'l', 'l']) (.const .null none) rfl rfl
      (kwc 'n' ['u', 'l', 'l'] .null (by decide) (by decide)) hc
      (by intro wp tl h; simpa [Print.constStr, Node.setNext] using hpr wp tl h)

theorem opdOK_str (s : List Char) (hs : NoNul s) {nx : Option Node} (hc : ChainOK o nx) :
    OpdOK o (.str s nx) := by
  refine opdOK_head ok (.string, s) (.str s none) rfl rfl ((seg2_string o ok s hs).mono o (fun _ _ => trivial)) hc ?_
  intro wp tl htl
  simp only [Node.setNext]
  rw [Print.writeTo]; simp [htl]

end

theorem binStr_startsWith : Print.binStr .startsWith = ['s', 't', 'a', 'r', 't', 's', ' ', 'w', 'i', 't', 'h'] := by
  decide

theorem unStr_not : Print.unStr .not = ['!'] := by decide
theorem unStr_filter : Print.unStr .filter = ['?'] := by decide

theorem brk_sp : brk (some ' ') := Or.inr (Or.inl rfl)
theorem brk_rp : brk (some ')') := Or.inr (Or.inr (Or.inl rfl))

theorem prio_facts {p : Node} (h : PredShape p) :
    decide (Print.priority p ≤ Print.binPriority .and) = isAndOr p ∧
      decide (Print.priority p ≤ Print.binPriority .or) = isOr p := by
  cases h with
  | cmp op l r hop _ _ => cases op <;> simp [isCmp] at hop <;> exact ⟨rfl, rfl⟩
  | logic op l r hop _ _ => cases op <;> simp [isLogic] at hop <;> exact ⟨rfl, rfl⟩
  | starts => exact ⟨rfl, rfl⟩
  | not => exact ⟨rfl, rfl⟩
  | exists_ => exact ⟨rfl, rfl⟩
  | isUnknown => exact ⟨rfl, rfl⟩

section
variable {o : Oracles} (ok : OrOK o)
include ok

theorem brk_identCont {y : Option Char} (h : brk y) : isIdentCont o y = false :=
  brkS_identCont o ok (brkS_of_brk h)

/-- `l op r` with a comparison operator -/
theorem predOK_cmp (op : BinOp) (l r : Node) (hop : isCmp op = true) (hl : OpdOK o l) (hr : OpdOK o r) :
    PredOK o (.binary op (some l) (some r) none) := by
  obtain ⟨ltxt, tkl, tsl, hprl, hsegl, hstl, hrunl⟩ := hl
  obtain ⟨rtxt, tkr, tsr, hprr, hsegr, hstr, hrunr⟩ := hr
  have hat := cmp_atom (o := o) (l := l) (r := r) (op := op) hrunl hstl hrunr hop
  have hno : isAndOr (.binary op (some l) (some r) none) = false := by
    cases op <;> simp [isCmp] at hop <;> rfl
  have hno' : isOr (.binary op (some l) (some r) none) = false := by
    cases op <;> simp [isCmp] at hop <;> rfl
  refine predOK_binary ok (txt := ltxt ++ ' ' :: (Print.binStr op ++ ' ' :: rtxt))
    (toks := tkl :: tsl ++ opTok op :: tkr :: tsr) ?_ ?_ ⟨tkl, _, rfl, by simp [isPredStart, hstl]⟩ (fun _ => hat)
    (fun _ => ⟨left_of_atom hat 1, right_of_atom hat⟩) (left_of_atom hat 2)
  · intro wp
    cases op <;> simp [isCmp] at hop <;>
      simp [Print.writeTo, Print.writeOpd, Print.writeNext, hprl, hprr]
  · have h1 := Seg.app_cons o (seg_sp_op o ok op (Or.inl hop)) hsegr.2 rfl
    have h2 := Seg2.app_cons o hsegl h1 brk_sp
    simpa using h2

/-- `l && r`, `l || r` -/
theorem predOK_logic (op : BinOp) (l r : Node) (hop : isLogic op = true)
    (hsl : decide (Print.priority l ≤ Print.binPriority .and) = isAndOr l ∧
      decide (Print.priority l ≤ Print.binPriority .or) = isOr l)
    (hsr : decide (Print.priority r ≤ Print.binPriority .and) = isAndOr r ∧
      decide (Print.priority r ≤ Print.binPriority .or) = isOr r)
    (hl : PredOK o l) (hr : PredOK o r) : PredOK o (.binary op (some l) (some r) none) := by
  have hop' : op = .and ∨ op = .or := by
    cases op <;> simp [isLogic] at hop <;> simp
  rcases hop' with rfl | rfl
  · obtain ⟨ltxt, ltoks, hprl, hsegl, ⟨tkh, tsh, hh1, hh2⟩, hatl, _, _⟩ := hl (isAndOr l)
    obtain ⟨rtxt, rtoks, hprr, hsegr, _, hatr, _, _⟩ := hr (isAndOr r)
    have hal : AtomSpec o l ltoks := hatl (by cases isAndOr l <;> simp)
    have har : AtomSpec o r rtoks := hatr (by cases isAndOr r <;> simp)
    refine predOK_binary ok (txt := ltxt ++ ' ' :: (Print.binStr .and ++ ' ' :: rtxt))
      (toks := ltoks ++ tAnd :: rtoks) ?_ ?_ ⟨tkh, tsh ++ tAnd :: rtoks, by simp [hh1], hh2⟩
      (fun h => by simp [isAndOr] at h)
      (fun _ => ⟨and_left hal har, and_right hal har⟩) ((and_left hal har).mono (by decide))
    · intro wp
      simp only [Print.writeTo, Print.writeOpd, Print.writeNext]
      rw [hsl.1, hsr.1, hprl, hprr]
      simp
    · have h1 := Seg.app_cons o (seg_sp_op o ok .and (Or.inr rfl)) hsegr.2 rfl
      have h2 := Seg2.app_cons o hsegl h1 brk_sp
      simpa [opTok, tAnd] using h2
  · obtain ⟨ltxt, ltoks, hprl, hsegl, ⟨tkh, tsh, hh1, hh2⟩, _, hlrl, _⟩ := hl (isOr l)
    obtain ⟨rtxt, rtoks, hprr, hsegr, _, _, hlrr, _⟩ := hr (isOr r)
    have hll := (hlrl (by cases isOr l <;> simp)).1
    have hrr := (hlrr (by cases isOr r <;> simp)).2
    refine predOK_binary ok (txt := ltxt ++ ' ' :: (Print.binStr .or ++ ' ' :: rtxt))
      (toks := ltoks ++ tOr :: rtoks) ?_ ?_ ⟨tkh, tsh ++ tOr :: rtoks, by simp [hh1], hh2⟩
      (fun h => by simp [isAndOr] at h)
      (fun h => by simp [isOr] at h) (or_left hll hrr)
    · intro wp
      simp only [Print.writeTo, Print.writeOpd, Print.writeNext]
      rw [hsl.2, hsr.2, hprl, hprr]
      simp
    · have h1 := Seg.app_cons o (seg_sp_op o ok .or (Or.inr rfl)) hsegr.2 rfl
      have h2 := Seg2.app_cons o hsegl h1 brk_sp
      simpa [opTok, tOr] using h2

/-- `l starts with "s"` -/
theorem predOK_starts (l : Node) (s : List Char) (hl : OpdOK o l) (hs : NoNul s) :
    PredOK o (.binary .startsWith (some l) (some (.str s none)) none) := by
  obtain ⟨ltxt, tkl, tsl, hprl, hsegl, hstl, hrunl⟩ := hl
  have hat := startsWith_atom (o := o) (l := l) s hrunl hstl
  refine predOK_binary ok
    (txt := ltxt ++ ' ' :: 's' :: 't' :: 'a' :: 'r' :: 't' :: 's' :: ' ' :: 'w' :: 'i' :: 't' :: 'h' :: ' ' ::
      Print.quote o.isPrint s)
    (toks := tkl :: tsl ++ [tStarts, tWith, (.string, s)]) ?_ ?_ ⟨tkl, _, rfl, by simp [isPredStart, hstl]⟩
    (fun _ => hat)
    (fun _ => ⟨left_of_atom hat 1, right_of_atom hat⟩) (left_of_atom hat 2)
  · intro wp
    simp [Print.writeTo, Print.writeOpd, Print.writeNext, hprl, binStr_startsWith]
  · have h0 : Seg o brk (' ' :: Print.quote o.isPrint s) [(.string, s)] :=
      (seg2_string o ok s hs).2.mono o (fun _ _ => trivial)
    have h1 := Seg.app_cons o (seg_sp_kw o ok 'w' ['i', 't', 'h'] .with_ (by decide) (by decide)) h0
      (identCont_punct o ok ' ' (by decide))
    have h2 := Seg.app_cons o (seg_sp_kw o ok 's' ['t', 'a', 'r', 't', 's'] .starts (by decide) (by decide)) h1
      (identCont_punct o ok ' ' (by decide))
    have h3 := Seg2.app_cons o hsegl h2 brk_sp
    simpa [tStarts, tWith] using h3

/-- `!(p)` -/
theorem predOK_not (p : Node) (hp : PredOK o p) : PredOK o (.unary .not (some p) none) := by
  obtain ⟨ptxt, ptoks, hpr, hseg, _, _, _, hl2⟩ := hp false
  have hat := not_atom (full_of_left (by decide) hl2)
  refine predOK_unary ok (txt := '!' :: '(' :: (ptxt ++ [')'])) (toks := tNot :: tLp :: ptoks ++ [tRp]) ?_ ?_ ⟨tNot, _, rfl, rfl⟩ hat
  · intro wp
    simp [Print.writeTo, Print.writeOpd, Print.writeNext, hpr, unStr_not]
  · have h1 := Seg.app_cons o hseg.1 (seg_rp o ok) brk_rp
    have h2 := Seg.app o (seg_lp o ok) h1 (fun _ _ => trivial)
    have h3 := Seg2.app_cons o (seg2_bang o ok) h2 (by decide)
    have := Seg2.mono o h3 (C' := brk) (fun _ _ => trivial)
    simpa [tNot] using this

/-- `exists (x)` -/
theorem predOK_exists (x : Node) (hx : OpdOK o x) : PredOK o (.unary .exists (some x) none) := by
  obtain ⟨xtxt, tk, ts, hpr, hseg, hst, hrun⟩ := hx
  have hat := exists_atom (o := o) (x := x) hrun
  refine predOK_unary ok (txt := 'e' :: 'x' :: 'i' :: 's' :: 't' :: 's' :: ' ' :: '(' :: (xtxt ++ [')']))
    (toks := tExists :: tLp :: tk :: ts ++ [tRp]) ?_ ?_ ⟨tExists, _, rfl, rfl⟩ hat
  · intro wp
    have : "exists (".toList = ['e', 'x', 'i', 's', 't', 's', ' ', '('] := by decide
    simp [Print.writeTo, Print.writeOpd, Print.writeNext, hpr, this]
  · have h1 := Seg.app_cons o hseg.1 (seg_rp o ok) brk_rp
    have h2 := Seg.app o (seg2_lp o ok).2 h1 (fun _ _ => trivial)
    have h3 := Seg2.app_cons o (seg2_kw o ok 'e' ['x', 'i', 's', 't', 's'] .exists (by decide) (by decide)) h2
      (identCont_punct o ok ' ' (by decide))
    have := Seg2.mono o h3 (C' := brk) (fun _ _ => trivial)
    simpa [tExists] using this

/-- `(p) is unknown` -/
theorem predOK_isUnknown (p : Node) (hp : PredOK o p) : PredOK o (.unary .isUnknown (some p) none) := by
  obtain ⟨ptxt, ptoks, hpr, hseg, _, _, _, hl2⟩ := hp false
  have hat := isUnknown_atom (full_of_left (by decide) hl2)
  refine predOK_unary ok
    (txt := '(' :: (ptxt ++ ')' :: ' ' :: 'i' :: 's' :: ' ' :: 'u' :: 'n' :: 'k' :: 'n' :: 'o' :: 'w' :: 'n' :: []))
    (toks := tLp :: ptoks ++ [tRp, tIs, tUnknown]) ?_ ?_ ⟨tLp, _, rfl, rfl⟩ hat
  · intro wp
    have : ") is unknown".toList = [')', ' ', 'i', 's', ' ', 'u', 'n', 'k', 'n', 'o', 'w', 'n'] := by decide
    simp [Print.writeTo, Print.writeOpd, Print.writeNext, hpr, this]
  · have h0 := (seg_sp_kw o ok 'u' ['n', 'k', 'n', 'o', 'w', 'n'] .unknown (by decide) (by decide)).mono o
      (C' := brk) (fun _ h => brk_identCont ok h)
    have h1 := Seg.app_cons o (seg_sp_kw o ok 'i' ['s'] .is (by decide) (by decide)) h0
      (identCont_punct o ok ' ' (by decide))
    have h2 := Seg.app o (seg_rp o ok) h1 (fun _ _ => trivial)
    have h3 := Seg.app_cons o hseg.1 h2 brk_rp
    have h4 := Seg2.app o (seg2_lp o ok) h3 (fun _ _ => trivial)
    simpa [tIs, tUnknown] using h4

/-- the filter accessor `?(p)` -/
theorem stepOK_filter (p : Node) (nx : Option Node) (hp : PredOK o p) :
    StepOK o (.unary .filter (some p) nx) := by
  obtain ⟨ptxt, ptoks, hpr, hseg, _, _, _, hl2⟩ := hp false
  have hfull := full_of_left (by decide) hl2
  refine ⟨'?' :: '(' :: (ptxt ++ [')']), .question, ['?'], tLp :: ptoks ++ [tRp], '?', _, ?_, ?_, rfl,
    Or.inr (Or.inr (Or.inr rfl)), rfl, ?_⟩
  · intro wp
    rw [Print.writeTo]
    simp only [Node.next, Print.writeOpd, hpr, unStr_filter]
    generalize Print.writeNext o.isPrint nx = w
    cases w <;> simp
  · have h1 := Seg.app_cons o hseg.1 (seg_rp o ok) brk_rp
    have h2 := Seg.app o (seg_lp o ok) h1 (fun _ _ => trivial)
    have h3 := Seg.app o (seg_q o ok) h2 (fun _ _ => trivial)
    have := h3.mono o (C' := brkS) (fun _ _ => trivial)
    simpa [tQ] using this
  · intro rest f hr hf
    simp only [List.length_cons, List.length_append, List.length_nil] at hf
    obtain ⟨f', rfl⟩ : ∃ f', f = f' + 1 := ⟨f - 1, by omega⟩
    obtain ⟨v0, mid, h1, h2⟩ := hfull f' .pred (tRp :: rest) (by omega) (Or.inl rfl)
    rw [accessorOp]
    simp only [List.cons_append, List.append_assoc, List.nil_append]
    rstep (consume_spec _ _)
    simp only [↓reduceIte]
    rstep (expect_spec _ _ _)
    rstep h1
    rstep h2
    simp only [hd, tRp, ne_eq, not_true_eq_false, ↓reduceIte]
    rstep (consume_spec _ _)
    exact RunsV.pure _

end

/-! ## Stage 2: the induction over the tree -/

/-- everything of size at most `k` in the class is understood -/
structure AllOK (o : Oracles) (k : Nat) : Prop where
  opd : ∀ n : Node, sizeOf n ≤ k → okOpd n = true → OpdOK o n
  pred : ∀ p : Node, sizeOf p ≤ k → okPred p = true → PredOK o p
  chain : ∀ nx : Option Node, sizeOf nx ≤ k → okNext nx = true → ChainOK o nx

theorem sizeOf_node_pos (n : Node) : 0 < sizeOf n := by
  cases n <;> simp <;> omega

section
variable {o : Oracles} (ok : OrOK o)
include ok

theorem allOK : ∀ k, AllOK o k := by
  intro k
  induction k with
  | zero =>
    refine ⟨?_, ?_, ?_⟩
    · intro n hk _; have := sizeOf_node_pos n; omega
    · intro n hk _; have := sizeOf_node_pos n; omega
    · intro nx hk _
      cases nx with
      | none => exact chain_nil
      | some n => simp at hk
  | succ k ih =>
    refine ⟨?_, ?_, ?_⟩
    · intro n hk h
      cases okOpd_cases h with
      | const c nx hc hnx =>
        simp only [Node.const.sizeOf_spec] at hk
        exact opdOK_const ok c hc (ih.chain nx (by omega) hnx)
      | str s nx hs hnx =>
        simp only [Node.str.sizeOf_spec] at hk
        exact opdOK_str ok s hs (ih.chain nx (by omega) hnx)
      | int i hi => exact opdOK_int ok i hi
    · intro p hk h
      cases okPred_cases h with
      | cmp op l r hop hl hr =>
        simp only [Node.binary.sizeOf_spec, Option.some.sizeOf_spec] at hk
        exact predOK_cmp ok op l r hop (ih.opd l (by omega) hl) (ih.opd r (by omega) hr)
      | logic op l r hop hl hr =>
        simp only [Node.binary.sizeOf_spec, Option.some.sizeOf_spec] at hk
        exact predOK_logic ok op l r hop (prio_facts (okPred_cases hl)) (prio_facts (okPred_cases hr))
          (ih.pred l (by omega) hl)
          (ih.pred r (by omega) hr)
      | starts l s hl hs =>
        simp only [Node.binary.sizeOf_spec, Option.some.sizeOf_spec] at hk
        exact predOK_starts ok l s (ih.opd l (by omega) hl) hs
      | not q hq =>
        simp only [Node.unary.sizeOf_spec, Option.some.sizeOf_spec] at hk
        exact predOK_not ok q (ih.pred q (by omega) hq)
      | exists_ x hx =>
        simp only [Node.unary.sizeOf_spec, Option.some.sizeOf_spec] at hk
        exact predOK_exists ok x (ih.opd x (by omega) hx)
      | isUnknown q hq =>
        simp only [Node.unary.sizeOf_spec, Option.some.sizeOf_spec] at hk
        exact predOK_isUnknown ok q (ih.pred q (by omega) hq)
    · intro nx hk h
      cases nx with
      | none => exact chain_nil
      | some n =>
        simp only [Option.some.sizeOf_spec] at hk
        rcases okStep_cases (by simpa [okNext] using h) with ⟨h1, h2⟩ | ⟨p, nx', rfl, hp, hnx⟩
        · have := sizeOf_next_lt n
          exact chain_cons (stepOK_simple ok (simpleStep_cases h1)) (ih.chain n.next (by omega) h2)
        · simp only [Node.unary.sizeOf_spec, Option.some.sizeOf_spec] at hk
          exact chain_cons (stepOK_filter ok p nx' (ih.pred p (by omega) hp)) (ih.chain nx' (by omega) hnx)

end

/-- stage 2: `$` followed by accessors and filters, in either mode -/
def RT2 (a : AST) : Bool :=
  !a.pred && validate a.root &&
  match a.root with
  | .const .root nx => okNext nx
  | _ => false

section
variable {o : Oracles}

/-- **Stage 2.** -/
theorem roundtrip_filters' (ok : OrOK o) (a : AST) (h : RT2 a = true) :
    ∃ txt, Print.toString o.isPrint a = some txt ∧
      ∀ bytes, decodeAll bytes = txt.map Src.ch → parse o bytes = .ok a := by
  obtain ⟨root, lax, pred⟩ := a
  simp only [RT2, Bool.and_eq_true, Bool.not_eq_true'] at h
  obtain ⟨⟨hp, hv⟩, hr⟩ := h
  try simp only at hp hv hr
  subst hp
  split at hr
  · rename_i nx
    exact roundtrip_root ok ((allOK ok _).chain nx (Nat.le_refl _) hr) hv lax
  · simp at hr

theorem okNext1_okNext : ∀ (k : Nat) (nx : Option Node), sizeOf nx ≤ k → okNext1 nx = true → okNext nx = true := by
  intro k
  induction k with
  | zero =>
    intro nx hk _
    cases nx with
    | none => rfl
    | some n => simp at hk
  | succ k ih =>
    intro nx hk h
    cases nx with
    | none => rfl
    | some n =>
      simp only [Option.some.sizeOf_spec] at hk
      have hlt := sizeOf_next_lt n
      rw [okNext1, okStep1_iff, Bool.and_eq_true] at h
      have h2 := ih n.next (by omega) h.2
      have h1 := h.1
      simp only [okNext]
      cases simpleStep_cases h1 <;> simp_all [okStep, simpleStep, Node.next]

/-- stage 1 is part of stage 2 -/
theorem RT1_RT2 (a : AST) (h : RT1 a = true) : RT2 a = true := by
  obtain ⟨root, lax, pred⟩ := a
  simp only [RT1, RT2, Bool.and_eq_true] at h ⊢
  refine ⟨h.1, ?_⟩
  have h2 := h.2
  split at h2
  · rename_i nx
    exact okNext1_okNext _ nx (Nat.le_refl _) h2
  · simp at h2

end

/-! ## Stage 3a: any operand, or a predicate, at the top level -/

section
variable {o : Oracles}

def modeTxt (lax : Bool) : List Char := if lax then [] else ['s', 't', 'r', 'i', 'c', 't', ' ']

theorem toString_eq (isPrint : Char → Bool) (root : Node) (lax pred : Bool) (txt : List Char)
    (h : Print.writeTo isPrint root false true = some txt) :
    Print.toString isPrint ⟨root, lax, pred⟩ = some (modeTxt lax ++ txt) := by
  unfold Print.toString modeTxt
  rw [strict_eq]
  simp only [h]
  cases lax <;> rfl

theorem seg_strict (ok : OrOK o) : Seg o (fun y => isIdentCont o y = false) ['s', 't', 'r', 'i', 'c', 't'] [tStrict] :=
  seg_kw o ok 's' ['t', 'r', 'i', 'c', 't'] .strict (by decide) (by decide)

/-- the mode prefix: text, tokens, and `parseBody` up to the call of `parseAtom` -/
theorem body_mode (ok : OrOK o) (lax : Bool) {txt : List Char} {tk : TT} {ts : List TT}
    (hseg : Seg2 o brk txt (tk :: ts)) (h1 : tk.1 ≠ .strict) (h2 : tk.1 ≠ .lax)
    {isPred : Bool} {ev : EV} {f : Nat}
    (hatom : ∃ a mid, RunsV (StE o (tk :: ts)) (parseAtom o f .top) a (StE o mid) ∧
      RunsV (StE o mid) (match a with
        | .expr v _ => (pure (lax, false, v) : P (Bool × Bool × EV))
        | .pred v0 => do
          let (v, _) ← predLoop o f v0
          pure (lax, true, v)) (lax, isPred, ev) (StE o [])) :
    ∃ txt' toks', txt' = modeTxt lax ++ txt ∧ Lexes o txt' toks' ∧
      toks'.length ≤ txt'.length ∧ toks'.length ≤ ts.length + 2 ∧
      RunsV (StE o toks') (parseBody o f) (lax, isPred, ev) (StE o []) := by
  obtain ⟨a, mid, ha1, ha2⟩ := hatom
  obtain ⟨t, x⟩ := tk
  simp only at h1 h2
  cases lax with
  | true =>
    refine ⟨txt, (t, x) :: ts, by simp [modeTxt], hseg.1.lexes o brk_none, hseg.1.2.1, by simp, ?_⟩
    unfold parseBody
    rstep (peek_cons _ _)
    simp only [h1, h2, ↓reduceIte]
    rstep (RunsV.pure _)
    rstep ha1
    exact ha2
  | false =>
    have hs := Seg.app_cons o (seg_strict ok) hseg.2 (identCont_punct o ok ' ' (by decide))
    refine ⟨_, tStrict :: (t, x) :: ts, rfl, ?_, ?_, by simp, ?_⟩
    · have := hs.lexes o brk_none
      simpa [modeTxt] using this
    · have := hs.2.1
      simpa [modeTxt] using this
    · unfold parseBody
      rstep (peek_cons _ _)
      simp only [tStrict, reduceCtorEq, ↓reduceIte]
      rstep (consume_spec _ _)
      rstep (RunsV.pure _)
      rstep ha1
      exact ha2

theorem opdStart_mode {t : Tok} (h : isOpdStart t = true) : t ≠ .strict ∧ t ≠ .lax := by
  simp only [isOpdStart, Bool.or_eq_true, beq_iff_eq] at h
  rcases h with ((((((h | h) | h) | h) | h) | h) | h) | h <;> subst h <;> decide

theorem predStart_mode {t : Tok} (h : isPredStart t = true) : t ≠ .strict ∧ t ≠ .lax := by
  simp only [isPredStart, Bool.or_eq_true, beq_iff_eq] at h
  rcases h with (((((h | h) | h) | h) | h) | h) | h
  · exact opdStart_mode h
  all_goals (subst h; decide)

/-- the round trip for an operand at the top level -/
theorem roundtrip_opd (ok : OrOK o) {n : Node} (hn : OpdOK o n) (hv : validate n = true) (lax : Bool) :
    ∃ txt, Print.toString o.isPrint ⟨n, lax, false⟩ = some txt ∧
      ∀ bytes, decodeAll bytes = txt.map Src.ch → parse o bytes = .ok ⟨n, lax, false⟩ := by
  obtain ⟨txt, tk, ts, hpr, hseg, hst, hrun⟩ := hn
  have hm := opdStart_mode hst
  have hf := opdStart_facts hst
  have key : ∀ f, 16 * (ts.length + 1) + 8 ≤ f → ∃ ev : EV, ev.node = n ∧
      ∃ txt' toks', txt' = modeTxt lax ++ txt ∧ Lexes o txt' toks' ∧
        toks'.length ≤ txt'.length ∧ toks'.length ≤ ts.length + 2 ∧
        RunsV (StE o toks') (parseBody o f) (lax, false, ev) (StE o []) := by
    intro f hf'
    obtain ⟨f', rfl⟩ : ∃ f', f = f' + 3 := ⟨f - 3, by omega⟩
    have hr := hrun (f' + 2) [] (by omega) rfl (by decide)
    refine ⟨evOf n, rfl, body_mode ok lax hseg hm.1 hm.2 ⟨.expr (evOf n) .stop, [], ?_, RunsV.pure _⟩⟩
    obtain ⟨t, x⟩ := tk
    simp only at hf
    rw [parseAtom]
    rstep (peek_cons _ _)
    simp only [hf.1, hf.2.1, hf.2.2.1, hf.2.2.2, ↓reduceIte]
    simp only [List.append_nil] at hr
    rstep hr
    rw [exprTail]
    rstep (arith_nil f' (evOf n) [] rfl rfl)
    simp only [hd, compOp, reduceCtorEq, ↓reduceIte]
    exact RunsV.pure _
  obtain ⟨_, _, txt', _, htxt', _, _, _, _⟩ := key _ (Nat.le_refl _)
  refine ⟨txt', by rw [htxt']; exact toString_eq _ _ _ _ _ (hpr true), ?_⟩
  intro bytes hb
  have hl : txt'.length ≤ bytes.length := by
    have := decodeAll_length bytes
    rw [hb] at this
    simpa using this
  have hlen : txt.length ≤ txt'.length := by rw [htxt']; simp
  have hts : ts.length + 1 ≤ txt.length := hseg.1.2.1
  obtain ⟨ev, hev, txt'', toks', htxt'', hlex, hlen1, hlen2, hr⟩ := key (fuelFor bytes) (by unfold fuelFor; omega)
  subst htxt''
  subst htxt'
  have := parse_of_body bytes _ toks' lax false ev hb hlex hr (by rw [hev]; exact hv)
  rw [hev] at this
  exact this

/-- the round trip for a predicate at the top level -/
theorem roundtrip_pred (ok : OrOK o) {p : Node} (hp : PredOK o p) (hv : validate p = true) (lax : Bool) :
    ∃ txt, Print.toString o.isPrint ⟨p, lax, true⟩ = some txt ∧
      ∀ bytes, decodeAll bytes = txt.map Src.ch → parse o bytes = .ok ⟨p, lax, true⟩ := by
  obtain ⟨txt, toks, hpr, hseg, ⟨tk, ts, htoks, hst⟩, _, _, hl2⟩ := hp true
  subst htoks
  have hm := predStart_mode hst
  have hfull := full_of_left (by decide) hl2
  have key : ∀ f, 16 * (ts.length + 1) + 8 ≤ f →
      ∃ txt' toks', txt' = modeTxt lax ++ txt ∧ Lexes o txt' toks' ∧
        toks'.length ≤ txt'.length ∧ toks'.length ≤ ts.length + 2 ∧
        RunsV (StE o toks') (parseBody o f) (lax, true, { node := p }) (StE o []) := by
    intro f hf'
    obtain ⟨v0, mid, h1, h2⟩ := hfull f .top [] (by simpa using hf') (Or.inr rfl)
    refine body_mode ok lax hseg hm.1 hm.2 ⟨.pred v0, mid, by simpa using h1, ?_⟩
    simp only []
    rstep h2
    exact RunsV.pure' rfl (fun _ h => StE.ofA h)
  obtain ⟨txt', _, htxt', _, _, _, _⟩ := key _ (Nat.le_refl _)
  refine ⟨txt', by rw [htxt']; exact toString_eq _ _ _ _ _ hpr, ?_⟩
  intro bytes hb
  have hl : txt'.length ≤ bytes.length := by
    have := decodeAll_length bytes
    rw [hb] at this
    simpa using this
  have hlen : txt.length ≤ txt'.length := by rw [htxt']; simp
  have hts : ts.length + 1 ≤ txt.length := hseg.1.2.1
  obtain ⟨txt'', toks', htxt'', hlex, hlen1, hlen2, hr⟩ := key (fuelFor bytes) (by unfold fuelFor; omega)
  subst htxt''
  subst htxt'
  exact parse_of_body bytes _ toks' lax true { node := p } hb hlex hr hv

end

/-! ## Stage 3b: variables `$"name"` -/

/-- the token kind `scanString` was asked to return replaces `STRING_P` -/
def retag (ret : Tok) (r : ScanR) : ScanR := if r.tok = .string then { r with tok := ret } else r

theorem stringLoop_ret (ret : Tok) : ∀ (f : Nat) (ch : Option Char) (buf : List Char) (s : LState),
    stringLoop f ret ch buf s = retag ret (stringLoop f .string ch buf s) := by
  intro f
  induction f with
  | zero => intro ch buf s; simp [stringLoop, retag]
  | succ f ih =>
    intro ch buf s
    cases ch with
    | none => simp [stringLoop, retag]
    | some c =>
      rw [stringLoop_succ, stringLoop_succ]
      by_cases h1 : c = '"'
      · simp [h1, retag]
      · by_cases h2 : c = '\n'
        · simp [h1, h2, retag]
        · by_cases h3 : c = '\\'
          · simp only [h1, h2, h3, if_false, if_true]
            exact ih _ _ _
          · simp only [h1, h2, h3, if_false]
            exact ih _ _ _

theorem scanString_ret (ret : Tok) (s : LState) : scanString ret s = retag ret (scanString .string s) := by
  unfold scanString
  exact stringLoop_ret ret _ _ _ _

def tVar (s : List Char) : TT := (.variable, s)

section
variable (o : Oracles) (ok : OrOK o)
include ok

theorem tokAt_variable (s : List Char) (hs : NoNul s) :
    TokAt o CT '$' (Print.quote o.isPrint s) (tVar s) := by
  intro f st r he hr _
  have hx := ok.punctS '$' (by decide)
  have hq : Print.quote o.isPrint s = '"' :: (body o.isPrint s ++ ['"']) := by simp [Print.quote, body]
  have hscan := scanString_quote o.isPrint ok.nl s hs (fd st ((body o.isPrint s ++ ['"']) ++ r)) (r.map Src.ch)
    (by simp [Print.quote, body])
  have hfd : ({ fd st ((body o.isPrint s ++ ['"']) ++ r) with rest := r.map Src.ch } : LState) = fd st r := rfl
  rw [hfd, next_fd _ _ hr] at hscan
  simp only [List.append_assoc, List.cons_append, List.nil_append] at hscan
  simp only [lexFrom]
  rw [skipWs_nonws _ _ _ (by decide)]
  have e1 : isIdentStart o (some '$') = false := by simp [isIdentStart, hx]
  have e2 : isDecimal '$' = false := by decide
  have e3 : ('$' = '"') = False := by decide
  simp only [e1, e2, e3, Bool.false_eq_true, if_false, if_true]
  simp only [hq, List.cons_append, List.append_assoc, List.nil_append]
  unfold scanVariable
  rw [next_fd_cons _ _ _ (by decide)]
  simp only [if_true]
  rw [scanString_ret, hscan]
  simp [retag, tVar]

theorem seg2_variable (s : List Char) (hs : NoNul s) :
    Seg2 o CT ('$' :: Print.quote o.isPrint s) [tVar s] :=
  seg2_tokAt o ok (tokAt_variable o ok s hs) (by decide) (noNul_quote o.isPrint s hs) (by simp [tVar]) (by decide)

end

section
variable {o : Oracles} (ok : OrOK o)
include ok

theorem opdOK_var (s : List Char) (hs : NoNul s) {nx : Option Node} (hc : ChainOK o nx) :
    OpdOK o (.var s nx) := by
  refine opdOK_head ok (tVar s) (.var s none) rfl rfl ((seg2_variable o ok s hs).mono o (fun _ _ => trivial)) hc ?_
  intro wp tl htl
  simp only [Node.setNext]
  rw [Print.writeTo]; simp [htl]

end

section
variable {o : Oracles}

/-- `l starts with $"s"` is an atom -/
theorem startsWithVar_atom {l : Node} {tkl : TT} {tsl : List TT} (s : List Char)
    (hl : OpdSpec o l tkl tsl) (hsl : isOpdStart tkl.1 = true) :
    AtomSpec o (.binary .startsWith (some l) (some (.var s none)) none)
      (tkl :: tsl ++ [tStarts, tWith, tVar s]) := by
  intro f ctx rest hf hfol
  simp only [List.length_cons, List.length_append, List.length_nil] at hf
  obtain ⟨f', rfl⟩ : ∃ f', f = f' + 4 := ⟨f - 4, by omega⟩
  have hst := opdStart_facts hsl
  obtain ⟨tl, xl⟩ := tkl
  have hrunl := hl (f' + 3) (tStarts :: tWith :: tVar s :: rest) (by omega) rfl (by simp [hd, tStarts])
  simp only at hst
  rw [parseAtom]
  simp only [List.cons_append, List.append_assoc, List.nil_append]
  rstep (peek_cons _ _)
  simp only [hst.1, hst.2.1, hst.2.2.1, hst.2.2.2, ↓reduceIte]
  simp only [List.cons_append, List.append_assoc] at hrunl
  rstep hrunl
  rw [exprTail]
  rstep (arith_nil (f' + 1) (evOf l) _ rfl rfl)
  simp only [hd, tStarts, compOp, ↓reduceIte]
  rstep (consume_spec _ _)
  rstep (expect_spec _ _ _)
  rstep (peek_cons _ _)
  simp only [tVar, reduceCtorEq, ↓reduceIte]
  rstep (consume_spec _ _)
  exact RunsV.pure' (by simp [binary]) (fun _ h => h)

/-- `l starts with $"s"` -/
theorem predOK_startsVar (ok : OrOK o) (l : Node) (s : List Char) (hl : OpdOK o l) (hs : NoNul s) :
    PredOK o (.binary .startsWith (some l) (some (.var s none)) none) := by
  obtain ⟨ltxt, tkl, tsl, hprl, hsegl, hstl, hrunl⟩ := hl
  have hat := startsWithVar_atom (o := o) (l := l) s hrunl hstl
  refine predOK_binary ok
    (txt := ltxt ++ ' ' :: 's' :: 't' :: 'a' :: 'r' :: 't' :: 's' :: ' ' :: 'w' :: 'i' :: 't' :: 'h' :: ' ' :: '$' ::
      Print.quote o.isPrint s)
    (toks := tkl :: tsl ++ [tStarts, tWith, tVar s]) ?_ ?_ ⟨tkl, _, rfl, by simp [isPredStart, hstl]⟩
    (fun _ => hat) (fun _ => ⟨left_of_atom hat 1, right_of_atom hat⟩) (left_of_atom hat 2)
  · intro wp
    simp [Print.writeTo, Print.writeOpd, Print.writeNext, hprl, binStr_startsWith]
  · have h0 : Seg o brk (' ' :: '$' :: Print.quote o.isPrint s) [tVar s] :=
      (seg2_variable o ok s hs).2.mono o (fun _ _ => trivial)
    have h1 := Seg.app_cons o (seg_sp_kw o ok 'w' ['i', 't', 'h'] .with_ (by decide) (by decide)) h0
      (identCont_punct o ok ' ' (by decide))
    have h2 := Seg.app_cons o (seg_sp_kw o ok 's' ['t', 'a', 'r', 't', 's'] .starts (by decide) (by decide)) h1
      (identCont_punct o ok ' ' (by decide))
    have h3 := Seg2.app_cons o hsegl h2 brk_sp
    simpa [tStarts, tWith] using h3

end

/-! ## Stage 3c: `like_regex` -/

/-- the flag letters `regexFlags.String()` writes for the bit mask `f` -/
def flagChars (f : Nat) : List Char :=
  (if f / 1 % 2 = 1 then ['i'] else []) ++ (if f / 2 % 2 = 1 then ['s'] else []) ++
  (if f / 4 % 2 = 1 then ['m'] else []) ++ (if f / 8 % 2 = 1 then ['x'] else []) ++
  (if f / 16 % 2 = 1 then ['q'] else [])

/-- a flag mask `newRegexFlags` can produce: five bits, `x` only together with `q` -/
def okFlags (f : Nat) : Bool := f < 32 && !(f / 8 % 2 == 1 && f / 16 % 2 == 0)

theorem regexFlags_flagChars : ∀ f, f < 32 → okFlags f = true → regexFlags (flagChars f) = some f := by
  decide

theorem flagChars_low : ∀ f, f < 32 → ∀ c ∈ flagChars f, isLow c = true := by decide

theorem flagsStr_eq (f : Nat) (h : f < 32) :
    Print.flagsStr f = if f = 0 then [] else ' ' :: 'f' :: 'l' :: 'a' :: 'g' :: ' ' :: '"' :: (flagChars f ++ ['"']) := by
  have e : " flag \"".toList = [' ', 'f', 'l', 'a', 'g', ' ', '"'] := by decide
  unfold Print.flagsStr flagChars
  have : f % 65536 = f := by omega
  rw [this, e]
  split
  · rfl
  · simp

def tLike : TT := (.likeRegex, ['l', 'i', 'k', 'e', '_', 'r', 'e', 'g', 'e', 'x'])
def tFlag : TT := (.flag, ['f', 'l', 'a', 'g'])

def flagToks (f : Nat) : List TT := if f = 0 then [] else [tFlag, (.string, flagChars f)]

theorem PFollow.notFlag {t : Tok} (h : PFollow t) : t ≠ .flag := by
  rcases h with h | h | h | h <;> subst h <;> decide

section
variable {o : Oracles}

/-- `x like_regex "pat" [flag "…"]` is an atom -/
theorem regex_atom {x : Node} {tk : TT} {ts : List TT} (pat : List Char) (fl : Nat)
    (hx : OpdSpec o x tk ts) (hst : isOpdStart tk.1 = true) (hfl : fl < 32) (hok : okFlags fl = true)
    (hacc : o.regexAccepts pat fl = true) :
    AtomSpec o (.regex x pat fl none) (tk :: ts ++ tLike :: (.string, pat) :: flagToks fl) := by
  intro f ctx rest hf hfol
  have hlen : (flagToks fl).length ≤ 2 := by unfold flagToks; split <;> simp
  simp only [List.length_cons, List.length_append] at hf
  obtain ⟨f', rfl⟩ : ∃ f', f = f' + 4 := ⟨f - 4, by omega⟩
  have hs := opdStart_facts hst
  have hfacts := hfol.facts
  obtain ⟨t, xt⟩ := tk
  have hrun := hx (f' + 3) (tLike :: (.string, pat) :: flagToks fl ++ rest) (by omega) rfl
    (by simp [hd, tLike])
  simp only at hs
  rw [parseAtom]
  simp only [List.cons_append, List.append_assoc]
  rstep (peek_cons _ _)
  simp only [hs.1, hs.2.1, hs.2.2.1, hs.2.2.2, ↓reduceIte]
  simp only [List.cons_append, List.append_assoc] at hrun
  rstep hrun
  rw [exprTail]
  rstep (arith_nil (f' + 1) (evOf x) _ rfl rfl)
  simp only [hd, tLike, compOp, reduceCtorEq, ↓reduceIte]
  rstep (consume_spec _ _)
  rstep (peek_cons _ _)
  simp only [ne_eq, not_true_eq_false, ↓reduceIte]
  rstep (consume_spec _ _)
  unfold flagToks
  by_cases h0 : fl = 0
  · subst h0
    simp only [↓reduceIte, List.nil_append]
    rstep (peek_any rest)
    simp only [hfol.notFlag, ↓reduceIte]
    have : regexFlags [] = some 0 := by decide
    simp only [mkRegex, this, hacc, ↓reduceIte]
    exact RunsV.pure' (by simp) (fun _ h => StE.ofA h)
  · simp only [h0, ↓reduceIte, List.cons_append, List.nil_append]
    rstep (peek_cons _ _)
    simp only [tFlag, ↓reduceIte]
    rstep (consume_spec _ _)
    rstep (peek_cons _ _)
    simp only [ne_eq, not_true_eq_false, ↓reduceIte]
    rstep (consume_spec _ _)
    simp only [mkRegex, regexFlags_flagChars fl hfl hok, hacc, ↓reduceIte]
    exact RunsV.pure' (by simp) (fun _ h => h)

end

section
variable {o : Oracles} (ok : OrOK o)
include ok

theorem quote_flagChars (f : Nat) (h : f < 32) :
    Print.quote o.isPrint (flagChars f) = '"' :: (flagChars f ++ ['"']) := by
  have hl := flagChars_low f h
  have : ∀ l : List Char, (∀ c ∈ l, isLow c = true) → l.flatMap (Print.escapeRune o.isPrint) = l := by
    intro l
    induction l with
    | nil => intro _; rfl
    | cons c l ih =>
      intro hc
      have h1 := hc c (by simp)
      have hf := isLow_facts c h1
      have h2 : c ≠ '"' := by
        intro hh; subst hh; revert h1; decide
      have : Print.escapeRune o.isPrint c = [c] := by
        unfold Print.escapeRune
        simp [h2, hf.2.1, ok.lowP c h1]
      simp [this, ih (fun d hd => hc d (by simp [hd]))]
  simp [Print.quote, this _ hl]

theorem likeRegex_txt : " like_regex ".toList = [' ', 'l', 'i', 'k', 'e', '_', 'r', 'e', 'g', 'e', 'x', ' '] := by decide

/-- `x like_regex "pat" [flag "…"]` -/
theorem predOK_regex (x : Node) (pat : List Char) (fl : Nat) (hx : OpdOK o x) (hp : NoNul pat) (hfl : fl < 32)
    (hok : okFlags fl = true) (hacc : o.regexAccepts pat fl = true) :
    PredOK o (.regex x pat fl none) := by
  obtain ⟨xtxt, tk, ts, hpr, hseg, hst, hrun⟩ := hx
  have hat := regex_atom (o := o) (x := x) pat fl hrun hst hfl hok hacc
  have hfs : Seg o brk (Print.flagsStr fl) (flagToks fl) := by
    rw [flagsStr_eq fl hfl]
    unfold flagToks
    split
    · exact Seg.nil o _
    · have hn : NoNul (flagChars fl) := fun c hc => (isLow_facts c (flagChars_low fl hfl c hc)).1
      have h0 := (seg2_string o ok (flagChars fl) hn).2
      rw [quote_flagChars ok fl hfl] at h0
      have h1 := Seg.app_cons o (seg_sp_kw o ok 'f' ['l', 'a', 'g'] .flag (by decide) (by decide)) h0
        (identCont_punct o ok ' ' (by decide))
      exact (by simpa [tFlag] using h1.mono o (C' := brk) (fun _ _ => trivial))
  refine predOK_binary ok
    (txt := xtxt ++ ' ' :: 'l' :: 'i' :: 'k' :: 'e' :: '_' :: 'r' :: 'e' :: 'g' :: 'e' :: 'x' :: ' ' ::
      (Print.quote o.isPrint pat ++ Print.flagsStr fl))
    (toks := tk :: ts ++ tLike :: (.string, pat) :: flagToks fl) ?_ ?_ ⟨tk, _, rfl, by simp [isPredStart, hst]⟩
    (fun _ => hat) (fun _ => ⟨left_of_atom hat 1, right_of_atom hat⟩) (left_of_atom hat 2)
  · intro wp
    rw [Print.writeTo]
    simp [hpr, Print.writeNext, likeRegex_txt]
  · have h0 := Seg.app o ((seg2_string o ok pat hp).2) hfs (fun _ _ => trivial)
    have h1 := Seg.app_cons o
      (seg_sp_kw o ok 'l' ['i', 'k', 'e', '_', 'r', 'e', 'g', 'e', 'x'] .likeRegex (by decide) (by decide)) h0
      (identCont_punct o ok ' ' (by decide))
    have h2 := Seg2.app_cons o hseg h1 brk_sp
    simpa [tLike] using h2

end

/-! ## Stage 3: the class (variables, `like_regex`, any operand or a predicate at the top) -/

/-- a string literal or a variable without accessors: `(isVariable, text)` -/
def strOrVar? : Node → Option (Bool × List Char)
  | .str s none => some (false, s)
  | .var s none => some (true, s)
  | _ => none

mutual
  def okOpd3 (o : Oracles) : Node → Bool
    | .const k nx => isOpdConst k && okNext3 o nx
    | .str s nx => noNulB s && okNext3 o nx
    | .var s nx => noNulB s && okNext3 o nx
    | .integer i none => intOK i
    | _ => false
  def okPred3 (o : Oracles) : Node → Bool
    | .binary op (some l) (some r) none =>
      if isCmp op then okOpd3 o l && okOpd3 o r
      else if isLogic op then okPred3 o l && okPred3 o r
      else if op = .startsWith then
        okOpd3 o l && (match strOrVar? r with | some (_, s) => noNulB s | none => false)
      else false
    | .unary .not (some p) none => okPred3 o p
    | .unary .exists (some x) none => okOpd3 o x
    | .unary .isUnknown (some p) none => okPred3 o p
    | .regex x pat fl none => okOpd3 o x && noNulB pat && okFlags fl && o.regexAccepts pat fl
    | _ => false
  def okStep3 (o : Oracles) : Node → Bool
    | .unary .filter (some p) nx => okPred3 o p && okNext3 o nx
    | .key s nx => noNulB s && okNext3 o nx
    | .const .anyKey nx => okNext3 o nx
    | .const .anyArray nx => okNext3 o nx
    | .any a b nx => lvlOK a && lvlOK b && okNext3 o nx
    | .method _ nx => okNext3 o nx
    | .unary .date none nx => okNext3 o nx
    | .unary .datetime none nx => okNext3 o nx
    | .unary .datetime (some (.str t none)) nx => noNulB t && okNext3 o nx
    | .arrayIndex subs nx => !subs.isEmpty && subs.all okSub && okNext3 o nx
    | _ => false
  def okNext3 (o : Oracles) : Option Node → Bool
    | none => true
    | some n => okStep3 o n
end

theorem okStep3_cases {o : Oracles} {n : Node} (h : okStep3 o n = true) :
    (simpleStep n = true ∧ okNext3 o n.next = true) ∨
      ∃ p nx, n = .unary .filter (some p) nx ∧ okPred3 o p = true ∧ okNext3 o nx = true := by
  unfold okStep3 at h
  split at h
  · rename_i p nx
    simp only [Bool.and_eq_true] at h
    exact Or.inr ⟨p, nx, rfl, h.1, h.2⟩
  · left; simpa [simpleStep, Node.next] using h
  · left; simpa [simpleStep, Node.next] using h
  · left; simpa [simpleStep, Node.next] using h
  · left; simpa [simpleStep, Node.next, Bool.and_assoc, and_assoc] using h
  · left; simpa [simpleStep, Node.next] using h
  · left; simpa [simpleStep, Node.next] using h
  · left; simpa [simpleStep, Node.next] using h
  · left; simpa [simpleStep, Node.next] using h
  · left; simpa [simpleStep, Node.next, Bool.and_assoc, and_assoc] using h
  · simp at h

inductive OpdShape3 (o : Oracles) : Node → Prop
  | const (k : Const) (nx : Option Node) (hk : isOpdConst k = true) (h : okNext3 o nx = true) : OpdShape3 o (.const k nx)
  | str (s : List Char) (nx : Option Node) (hs : NoNul s) (h : okNext3 o nx = true) : OpdShape3 o (.str s nx)
  | var (s : List Char) (nx : Option Node) (hs : NoNul s) (h : okNext3 o nx = true) : OpdShape3 o (.var s nx)
  | int (i : Int) (h : intOK i = true) : OpdShape3 o (.integer i none)

theorem okOpd3_cases {o : Oracles} {n : Node} (h : okOpd3 o n = true) : OpdShape3 o n := by
  unfold okOpd3 at h
  split at h
  · simp only [Bool.and_eq_true] at h; exact .const _ _ h.1 h.2
  · simp only [Bool.and_eq_true] at h; exact .str _ _ (noNul_of_B h.1) h.2
  · simp only [Bool.and_eq_true] at h; exact .var _ _ (noNul_of_B h.1) h.2
  · exact .int _ h
  · simp at h

inductive PredShape3 (o : Oracles) : Node → Prop
  | cmp (op : BinOp) (l r : Node) (hop : isCmp op = true) (hl : okOpd3 o l = true) (hr : okOpd3 o r = true) :
      PredShape3 o (.binary op (some l) (some r) none)
  | logic (op : BinOp) (l r : Node) (hop : isLogic op = true) (hl : okPred3 o l = true) (hr : okPred3 o r = true) :
      PredShape3 o (.binary op (some l) (some r) none)
  | starts (l : Node) (s : List Char) (hl : okOpd3 o l = true) (hs : NoNul s) :
      PredShape3 o (.binary .startsWith (some l) (some (.str s none)) none)
  | startsVar (l : Node) (s : List Char) (hl : okOpd3 o l = true) (hs : NoNul s) :
      PredShape3 o (.binary .startsWith (some l) (some (.var s none)) none)
  | not (p : Node) (h : okPred3 o p = true) : PredShape3 o (.unary .not (some p) none)
  | exists_ (x : Node) (h : okOpd3 o x = true) : PredShape3 o (.unary .exists (some x) none)
  | isUnknown (p : Node) (h : okPred3 o p = true) : PredShape3 o (.unary .isUnknown (some p) none)
  | regex (x : Node) (pat : List Char) (fl : Nat) (hx : okOpd3 o x = true) (hp : NoNul pat) (hfl : fl < 32)
      (hok : okFlags fl = true) (hacc : o.regexAccepts pat fl = true) : PredShape3 o (.regex x pat fl none)

theorem strOrVar?_some {r : Node} {b : Bool} {s : List Char} (h : strOrVar? r = some (b, s)) :
    (b = false ∧ r = .str s none) ∨ (b = true ∧ r = .var s none) := by
  unfold strOrVar? at h
  split at h
  · injection h with h; injection h with h1 h2; subst h1; subst h2; exact Or.inl ⟨rfl, rfl⟩
  · injection h with h; injection h with h1 h2; subst h1; subst h2; exact Or.inr ⟨rfl, rfl⟩
  · simp at h

theorem okPred3_cases {o : Oracles} {p : Node} (h : okPred3 o p = true) : PredShape3 o p := by
  unfold okPred3 at h
  split at h
  · rename_i op l r
    split at h
    · rename_i hc; simp only [Bool.and_eq_true] at h; exact .cmp op l r hc h.1 h.2
    · split at h
      · rename_i hc; simp only [Bool.and_eq_true] at h; exact .logic op l r hc h.1 h.2
      · split at h
        · rename_i hc
          subst hc
          simp only [Bool.and_eq_true] at h
          obtain ⟨h1, h2⟩ := h
          split at h2
          · rename_i b s hs
            rcases strOrVar?_some hs with ⟨_, hr⟩ | ⟨_, hr⟩
            · rw [hr]; exact .starts l s h1 (noNul_of_B h2)
            · rw [hr]; exact .startsVar l s h1 (noNul_of_B h2)
          · simp at h2
        · simp at h
  · exact .not _ h
  · exact .exists_ _ h
  · exact .isUnknown _ h
  · rename_i x pat fl
    simp only [Bool.and_eq_true] at h
    obtain ⟨⟨⟨h1, h2⟩, h3⟩, h4⟩ := h
    have hfl : fl < 32 := by
      simp only [okFlags, Bool.and_eq_true, decide_eq_true_eq] at h3
      exact h3.1
    exact .regex x pat fl h1 (noNul_of_B h2) hfl h3 h4
  · simp at h

theorem prio_facts3 {o : Oracles} {p : Node} (h : PredShape3 o p) :
    decide (Print.priority p ≤ Print.binPriority .and) = isAndOr p ∧
      decide (Print.priority p ≤ Print.binPriority .or) = isOr p := by
  cases h with
  | cmp op l r hop _ _ => cases op <;> simp [isCmp] at hop <;> exact ⟨rfl, rfl⟩
  | logic op l r hop _ _ => cases op <;> simp [isLogic] at hop <;> exact ⟨rfl, rfl⟩
  | starts => exact ⟨rfl, rfl⟩
  | startsVar => exact ⟨rfl, rfl⟩
  | not => exact ⟨rfl, rfl⟩
  | exists_ => exact ⟨rfl, rfl⟩
  | isUnknown => exact ⟨rfl, rfl⟩
  | regex => exact ⟨rfl, rfl⟩

/-! ## Stage 3: the induction -/

structure AllOK3 (o : Oracles) (k : Nat) : Prop where
  opd : ∀ n : Node, sizeOf n ≤ k → okOpd3 o n = true → OpdOK o n
  pred : ∀ p : Node, sizeOf p ≤ k → okPred3 o p = true → PredOK o p
  chain : ∀ nx : Option Node, sizeOf nx ≤ k → okNext3 o nx = true → ChainOK o nx

section
variable {o : Oracles} (ok : OrOK o)
include ok

theorem allOK3 : ∀ k, AllOK3 o k := by
  intro k
  induction k with
  | zero =>
    refine ⟨?_, ?_, ?_⟩
    · intro n hk _; have := sizeOf_node_pos n; omega
    · intro n hk _; have := sizeOf_node_pos n; omega
    · intro nx hk _
      cases nx with
      | none => exact chain_nil
      | some n => simp at hk
  | succ k ih =>
    refine ⟨?_, ?_, ?_⟩
    · intro n hk h
      cases okOpd3_cases h with
      | const c nx hc hnx =>
        simp only [Node.const.sizeOf_spec] at hk
        exact opdOK_const ok c hc (ih.chain nx (by omega) hnx)
      | str s nx hs hnx =>
        simp only [Node.str.sizeOf_spec] at hk
        exact opdOK_str ok s hs (ih.chain nx (by omega) hnx)
      | var s nx hs hnx =>
        simp only [Node.var.sizeOf_spec] at hk
        exact opdOK_var ok s hs (ih.chain nx (by omega) hnx)
      | int i hi => exact opdOK_int ok i hi
    · intro p hk h
      cases okPred3_cases h with
      | cmp op l r hop hl hr =>
        simp only [Node.binary.sizeOf_spec, Option.some.sizeOf_spec] at hk
        exact predOK_cmp ok op l r hop (ih.opd l (by omega) hl) (ih.opd r (by omega) hr)
      | logic op l r hop hl hr =>
        simp only [Node.binary.sizeOf_spec, Option.some.sizeOf_spec] at hk
        exact predOK_logic ok op l r hop (prio_facts3 (okPred3_cases hl)) (prio_facts3 (okPred3_cases hr))
          (ih.pred l (by omega) hl) (ih.pred r (by omega) hr)
      | starts l s hl hs =>
        simp only [Node.binary.sizeOf_spec, Option.some.sizeOf_spec] at hk
        exact predOK_starts ok l s (ih.opd l (by omega) hl) hs
      | startsVar l s hl hs =>
        simp only [Node.binary.sizeOf_spec, Option.some.sizeOf_spec] at hk
        exact predOK_startsVar ok l s (ih.opd l (by omega) hl) hs
      | not q hq =>
        simp only [Node.unary.sizeOf_spec, Option.some.sizeOf_spec] at hk
        exact predOK_not ok q (ih.pred q (by omega) hq)
      | exists_ x hx =>
        simp only [Node.unary.sizeOf_spec, Option.some.sizeOf_spec] at hk
        exact predOK_exists ok x (ih.opd x (by omega) hx)
      | isUnknown q hq =>
        simp only [Node.unary.sizeOf_spec, Option.some.sizeOf_spec] at hk
        exact predOK_isUnknown ok q (ih.pred q (by omega) hq)
      | regex x pat fl hx hp hfl hok hacc =>
        simp only [Node.regex.sizeOf_spec] at hk
        exact predOK_regex ok x pat fl (ih.opd x (by omega) hx) hp hfl hok hacc
    · intro nx hk h
      cases nx with
      | none => exact chain_nil
      | some n =>
        simp only [Option.some.sizeOf_spec] at hk
        rcases okStep3_cases (by simpa [okNext3] using h) with ⟨h1, h2⟩ | ⟨p, nx', rfl, hp, hnx⟩
        · have := sizeOf_next_lt n
          exact chain_cons (stepOK_simple ok (simpleStep_cases h1)) (ih.chain n.next (by omega) h2)
        · simp only [Node.unary.sizeOf_spec, Option.some.sizeOf_spec] at hk
          exact chain_cons (stepOK_filter ok p nx' (ih.pred p (by omega) hp)) (ih.chain nx' (by omega) hnx)

end

/-- stage 3: a valid tree that is a stage-3 predicate (`pred = true`) or a stage-3 operand with its
    accessors (`pred = false`), in either mode -/
def RT3 (o : Oracles) (a : AST) : Bool :=
  validate a.root && (if a.pred then okPred3 o a.root else okOpd3 o a.root)

section
variable {o : Oracles}

/-- **Stage 3.** -/
theorem roundtrip_stage3' (ok : OrOK o) (a : AST) (h : RT3 o a = true) :
    ∃ txt, Print.toString o.isPrint a = some txt ∧
      ∀ bytes, decodeAll bytes = txt.map Src.ch → parse o bytes = .ok a := by
  obtain ⟨root, lax, pred⟩ := a
  simp only [RT3, Bool.and_eq_true] at h
  obtain ⟨hv, hr⟩ := h
  cases pred with
  | true =>
    simp only [if_true] at hr
    exact roundtrip_pred ok ((allOK3 ok _).pred root (Nat.le_refl _) hr) hv lax
  | false =>
    simp only [Bool.false_eq_true, if_false] at hr
    exact roundtrip_opd ok ((allOK3 ok _).opd root (Nat.le_refl _) hr) hv lax

end

/-! ## Stage 4: arithmetic — lexing and literals -/

def isArith (op : BinOp) : Bool := op == .add || op == .sub || op == .mul || op == .div || op == .mod
def isAddOp (op : BinOp) : Bool := op == .add || op == .sub
def isMulOp (op : BinOp) : Bool := op == .mul || op == .div || op == .mod

def arithTok : BinOp → TT
  | .add => (.plus, ['+']) | .sub => (.minus, ['-']) | .mul => (.star, ['*']) | .div => (.slash, ['/'])
  | .mod => (.percent, ['%']) | _ => (.stop, [])

def tMinus : TT := (.minus, ['-'])
def tPlus : TT := (.plus, ['+'])

section
variable (o : Oracles) (ok : OrOK o)
include ok

theorem tokAt_slash : TokAt o (fun y => y ≠ some '*') '/' [] (.slash, ['/']) := by
  intro f st r he hr hy
  have hx := ok.punctS '/' (by decide)
  simp [lexFrom, skipWs, isWhitespace, isIdentStart, hx, isDecimal, next_fd _ _ hr, hy]

/-- ` op` for an arithmetic operator; it is always followed by a blank -/
theorem seg_sp_arith (op : BinOp) (h : isArith op = true) :
    Seg o (fun y => y = some ' ') (' ' :: Print.binStr op) [arithTok op] := by
  have solo1 : ∀ c, c ∈ solo → isWhitespace c = false → c.toNat ≠ 0 → (T1 c).1 ≠ .stop →
      Seg o (fun y => y = some ' ') [' ', c] [T1 c] := fun c hc hws h0 hns =>
    (seg_sp_of_tokAt o (tokAt_solo o ok c hc) h0 NoNul.nil hns hws).mono o (fun _ _ => trivial)
  cases op <;> simp [isArith] at h
  · exact solo1 '+' (by decide) (by decide) (by decide) (by decide)
  · exact solo1 '-' (by decide) (by decide) (by decide) (by decide)
  · have := (seg_sp_of_tokAt o (tokAt_star o ok) (by decide) NoNul.nil (by decide) (by decide)).mono o
      (C' := fun y => y = some ' ') (fun y hy => by subst hy; decide)
    exact this
  · exact (seg_sp_of_tokAt o (tokAt_slash o ok) (by decide) NoNul.nil (by decide) (by decide)).mono o
      (fun y hy => by subst hy; decide)
  · exact solo1 '%' (by decide) (by decide) (by decide) (by decide)

theorem seg2_minus : Seg2 o CT ['-'] [tMinus] := seg2_solo o ok '-' (by decide)
theorem seg2_plus : Seg2 o CT ['+'] [tPlus] := seg2_solo o ok '+' (by decide)

end

/-! ### negative integer literals -/

theorem parseIntCore_toDigits (bits : Nat) (neg : Bool) (n : Nat) :
    parseIntCore bits neg (Nat.toDigits 10 n) = intRange bits neg n := by
  have hu := uintLoop_toDigits n
  by_cases hn : n = 0
  · subst hn
    have h0 : Nat.toDigits 10 0 = ['0'] := by decide
    rw [h0]
    simp [parseIntCore, basePrefix, uintLoop]
  · obtain ⟨c, cs, hc, hc0⟩ := toDigits_head n (by omega)
    have hnc := toDigits_not_underscore n
    rw [hc] at hu hnc
    rw [hc]
    simp only [parseIntCore, basePrefix, hc0, if_false, hu, hnc, Bool.false_and, Bool.false_eq_true]

theorem parseInt0_neg_toDigits (n : Nat) (h : n ≤ 9223372036854775808) :
    parseInt0 ('-' :: Nat.toDigits 10 n) = some (-(n : Int)) := by
  unfold parseInt0 parseIntBase0
  simp only []
  rw [parseIntCore_toDigits]
  simp only [intRange, if_true]
  have : ¬ (n > 2 ^ (64 - 1)) := by
    have : (2 : Nat) ^ (64 - 1) = 9223372036854775808 := by decide
    omega
  simp [this]

theorem negLit_toDigits (n : Nat) : negLit (Nat.toDigits 10 n) = '-' :: Nat.toDigits 10 n := by
  obtain ⟨c, cs, hc⟩ : ∃ c cs, Nat.toDigits 10 n = c :: cs := by
    by_cases hn : n = 0
    · subst hn; exact ⟨'0', [], by decide⟩
    · obtain ⟨c, cs, hc, _⟩ := toDigits_head n (by omega); exact ⟨c, cs, hc⟩
  have hd : c.isDigit = true :=
    Nat.isDigit_of_mem_toDigits (b := 10) (n := n) (by decide) (by decide) (by rw [hc]; simp)
  have h2 : c ≠ '-' := by intro hh; subst hh; simp at hd
  rw [hc]
  unfold negLit
  split
  · rename_i heq; injection heq with a b; exact absurd a h2
  · rfl

/-! ## Stage 4: arithmetic — the parser on expressions -/

/-- `parseAtom`, where an expression may start, on the tokens of the unit `x`: it goes on with
    `exprTail` applied to `x` -/
def HeadA (o : Oracles) (x : Node) (tk : TT) (ts : List TT) : Prop :=
  ∀ f ctx rest (w : AtomR) (post : PS → Prop), 16 * (ts.length + 1) + 8 ≤ f + 1 →
    isAccessorStart (hd rest).1 = false → (hd rest).1 ≠ .lbrace →
    RunsV (StA o rest) (exprTail o f ctx (evOf x)) w post →
    RunsV (StE o (tk :: ts ++ rest)) (parseAtom o (f + 1) ctx) w post

/-- `arithLoop` with the head unit `x` as left operand, standing before the tokens `M`: it comes to
    stand before `rest` with the whole expression `e` as left operand, having used at most `k`
    units of fuel -/
def ELoop (o : Oracles) (x e : Node) (M : List TT) (k : Nat) : Prop :=
  ∀ g rest (w : EV × Tok) (post : PS → Prop), 16 * M.length + 4 ≤ g →
    isAccessorStart (hd rest).1 = false → (hd rest).1 ≠ .lbrace → mulOp (hd rest).1 = none →
    (∀ g', g' ≤ g → g ≤ g' + k → RunsV (StE o rest) (arithLoop o g' (evOf e)) w post) →
    RunsV (StA o (M ++ rest)) (arithLoop o g (evOf x)) w post

/-- the right operand of `+` / `-`: `parseUnary` followed by `mulLoop` -/
def MulR (o : Oracles) (e : Node) (tk : TT) (ts : List TT) : Prop :=
  ∀ g rest, 16 * (ts.length + 1) + 8 ≤ g → isAccessorStart (hd rest).1 = false → (hd rest).1 ≠ .lbrace →
    mulOp (hd rest).1 = none →
    ∃ (u0 : EV) (mid : List TT),
      RunsV (StE o (tk :: ts ++ rest)) (parseUnary o g) u0 (StA o mid) ∧
      RunsV (StA o mid) (mulLoop o g u0) (evOf e) (StA o rest)

/-- what follows the head unit inside an expression is an operator, not an accessor -/
def MHead (M : List TT) : Prop :=
  ∀ rest, isAccessorStart (hd rest).1 = false → (hd rest).1 ≠ .lbrace →
    isAccessorStart (hd (M ++ rest)).1 = false ∧ (hd (M ++ rest)).1 ≠ .lbrace

/-- the parser on the tokens `tk :: ts` of the expression `e` -/
def ESpec (o : Oracles) (e : Node) (tk : TT) (ts : List TT) (unitOK mulOK : Prop) : Prop :=
  (∃ (x : Node) (tsH M : List TT), ts = tsH ++ M ∧ MHead M ∧ OpdSpec o x tk tsH ∧ HeadA o x tk tsH ∧
      ELoop o x e M 2 ∧ (mulOK → ELoop o x e M 1)) ∧
  (mulOK → MulR o e tk ts) ∧ (unitOK → OpdSpec o e tk ts ∧ HeadA o e tk ts)

section
variable {o : Oracles}

theorem headA_of_opdSpec {x : Node} {tk : TT} {ts : List TT} (h : OpdSpec o x tk ts)
    (h1 : tk.1 ≠ .not) (h2 : tk.1 ≠ .exists) (h3 : tk.1 ≠ .lparen) (h4 : tk.1 ≠ .stop) : HeadA o x tk ts := by
  intro f ctx rest w post hf ha hb hk
  have hrun := h f rest (by omega) ha hb
  obtain ⟨t, xt⟩ := tk
  simp only at h1 h2 h3 h4
  rw [parseAtom]
  rstep (peek_cons _ _)
  simp only [h1, h2, h3, h4, ↓reduceIte]
  rstep hrun
  exact hk

theorem mulLoop_nil (f : Nat) (l : EV) (rest : List TT) (h : mulOp (hd rest).1 = none) :
    RunsV (StE o rest) (mulLoop o (f + 1) l) l (StA o rest) := by
  rw [mulLoop]
  rstep (peek_any rest)
  simp only [h]
  exact RunsV.pure _

theorem eloop_unit (x : Node) : ELoop o x x [] 0 := by
  intro g rest w post hg _ _ _ hk
  simp only [List.nil_append]
  exact RunsV.ofA (hk g (Nat.le_refl _) (by omega))

theorem ELoop.mono {x e : Node} {M : List TT} {k k' : Nat} (h : ELoop o x e M k) (hk : k ≤ k') :
    ELoop o x e M k' := by
  intro g rest w post hg ha hb hm hc
  exact h g rest w post hg ha hb hm (fun g' h1 h2 => hc g' h1 (by omega))

theorem mulR_unit {x : Node} {tk : TT} {ts : List TT} (h : OpdSpec o x tk ts) : MulR o x tk ts := by
  intro g rest hg ha hb hm
  obtain ⟨g', rfl⟩ : ∃ g', g = g' + 1 := ⟨g - 1, by omega⟩
  have hrun := h g' rest (by omega) ha hb
  exact ⟨evOf x, rest, unary_of_unaryT hrun, RunsV.ofA (mulLoop_nil g' _ rest hm)⟩

theorem mhead_nil : MHead [] := fun _ h1 h2 => ⟨h1, h2⟩

/-- a unit is an expression -/
theorem espec_unit {x : Node} {tk : TT} {ts : List TT} (h : OpdSpec o x tk ts) (ha : HeadA o x tk ts)
    (p q : Prop) : ESpec o x tk ts p q :=
  ⟨⟨x, ts, [], by simp, mhead_nil, h, ha, (eloop_unit x).mono (by decide),
      fun _ => (eloop_unit x).mono (by decide)⟩,
    fun _ => mulR_unit h, fun _ => ⟨h, ha⟩⟩

theorem mul_facts {op : BinOp} (h : isMulOp op = true) :
    addOp (arithTok op).1 = none ∧ mulOp (arithTok op).1 = some op ∧
      isAccessorStart (arithTok op).1 = false ∧ (arithTok op).1 ≠ .lbrace := by
  cases op <;> simp [isMulOp] at h <;> decide

theorem add_facts {op : BinOp} (h : isAddOp op = true) :
    addOp (arithTok op).1 = some op ∧ mulOp (arithTok op).1 = none ∧
      isAccessorStart (arithTok op).1 = false ∧ (arithTok op).1 ≠ .lbrace := by
  cases op <;> simp [isAddOp] at h <;> decide

theorem mhead_op (op : BinOp) (h : isArith op = true) (ts : List TT) : MHead (arithTok op :: ts) := by
  intro rest _ _
  cases op <;> simp [isArith] at h <;> exact ⟨rfl, by simp [hd, arithTok]⟩

theorem evOf_binary (op : BinOp) (l r : Node) :
    binary op (evOf l) (evOf r) = evOf (.binary op (some l) (some r) none) := rfl

/-- `l op r` for `* / %` with units `l`, `r` -/
theorem espec_mul {l r : Node} {tkl tkr : TT} {tsl tsr : List TT} {op : BinOp} (hop : isMulOp op = true)
    (hl : OpdSpec o l tkl tsl) (hal : HeadA o l tkl tsl) (hr : OpdSpec o r tkr tsr) (p : Prop) :
    ESpec o (.binary op (some l) (some r) none) tkl (tsl ++ arithTok op :: tkr :: tsr) False p := by
  have hf := mul_facts hop
  have har : isArith op = true := by cases op <;> simp [isMulOp] at hop <;> rfl
  have hloop : ELoop o l (.binary op (some l) (some r) none) (arithTok op :: tkr :: tsr) 1 := by
    intro g rest w post hg ha hb _ hk
    simp only [List.length_cons] at hg
    obtain ⟨g', rfl⟩ : ∃ g', g = g' + 2 := ⟨g - 2, by omega⟩
    have hrun := hr g' rest (by omega) ha hb
    rw [arithLoop]
    simp only [List.cons_append]
    rstep (peek_cons _ _)
    simp only [hf.1, hf.2.1]
    rstep (consume_spec _ _)
    rstep (unary_of_unaryT hrun)
    rw [evOf_binary]
    exact RunsV.ofA (hk (g' + 1) (by omega) (by omega))
  refine ⟨⟨l, tsl, arithTok op :: tkr :: tsr, rfl, mhead_op op har _, hl, hal, hloop.mono (by decide),
    fun _ => hloop⟩, ?_, fun h => absurd h id⟩
  intro _ g rest hg ha hb hm
  simp only [List.length_cons, List.length_append] at hg
  obtain ⟨g', rfl⟩ : ∃ g', g = g' + 3 := ⟨g - 3, by omega⟩
  have hrunl := hl (g' + 2) (arithTok op :: tkr :: tsr ++ rest) (by omega) hf.2.2.1 hf.2.2.2
  have hrunr := hr (g' + 1) rest (by omega) ha hb
  refine ⟨evOf l, arithTok op :: tkr :: tsr ++ rest, ?_, ?_⟩
  · have := unary_of_unaryT hrunl
    simpa using this
  · rw [mulLoop]
    simp only [List.cons_append]
    rstep (peek_cons _ _)
    simp only [hf.2.1]
    rstep (consume_spec _ _)
    rstep (unary_of_unaryT hrunr)
    rw [evOf_binary]
    exact RunsV.ofA (mulLoop_nil (g' + 1) _ rest hm)

/-- `X op Y` for `+ -`: `X` with its loop, `Y` a right operand -/
theorem espec_add {X Y : Node} {tkx tky : TT} {tsx tsy : List TT} {op : BinOp} {p q : Prop} (hop : isAddOp op = true)
    (hx : ESpec o X tkx tsx p q) (hq : q) (hy : MulR o Y tky tsy) :
    ESpec o (.binary op (some X) (some Y) none) tkx (tsx ++ arithTok op :: tky :: tsy) False False := by
  have hf := add_facts hop
  have har : isArith op = true := by cases op <;> simp [isAddOp] at hop <;> rfl
  obtain ⟨⟨x, tsH, M, hts, hmh, hopd, hha, _, hl1⟩, _, _⟩ := hx
  have hl1 := hl1 hq
  refine ⟨⟨x, tsH, M ++ arithTok op :: tky :: tsy, by simp [hts], ?_, hopd, hha, ?_, fun h => absurd h id⟩,
    fun h => absurd h id, fun h => absurd h id⟩
  · intro rest h1 h2
    have := hmh (arithTok op :: tky :: tsy ++ rest) hf.2.2.1 (by simpa [hd] using hf.2.2.2)
    simpa using this
  · intro g rest w post hg ha hb hm hk
    simp only [List.length_cons, List.length_append] at hg
    have := hl1 g (arithTok op :: tky :: tsy ++ rest) w post (by omega) hf.2.2.1 (by simpa [hd] using hf.2.2.2)
      (by simpa [hd] using hf.2.1) ?_
    · simpa using this
    · intro g1 h1 h2
      obtain ⟨g2, rfl⟩ : ∃ g2, g1 = g2 + 1 := ⟨g1 - 1, by omega⟩
      obtain ⟨u0, mid, hr1, hr2⟩ := hy g2 rest (by omega) ha hb hm
      rw [arithLoop]
      simp only [List.cons_append]
      rstep (peek_cons _ _)
      simp only [hf.1]
      rstep (consume_spec _ _)
      rstep hr1
      rstep hr2
      rw [evOf_binary]
      exact RunsV.ofA (hk g2 (by omega) (by omega))

end

/-! ## Stage 4: what follows an expression in `exprTail` -/

/-- the part of `exprTail` after `arithLoop` -/
def exprTailK (o : Oracles) (f : Nat) (ctx : Ctx) (lhs : EV) (t : Tok) : P AtomR :=
  match compOp t with
  | some op => do
    consume
    let u ← parseUnary o f
    let (rhs, _) ← arithLoop o f u
    pure (.pred (binary op lhs rhs))
  | none =>
    if t = .starts then do
      consume
      expect o .with_
      let (t2, txt2) ← peek o
      if t2 = .string then do
        consume
        pure (.pred (binary .startsWith lhs { node := .str txt2 none }))
      else if t2 = .variable then do
        consume
        pure (.pred (binary .startsWith lhs { node := .var txt2 none }))
      else syn
    else if t = .likeRegex then do
      consume
      let (t2, pat) ← peek o
      if t2 ≠ .string then syn
      else do
        consume
        let (t3, _) ← peek o
        if t3 = .flag then do
          consume
          let (t4, fl) ← peek o
          if t4 ≠ .string then syn
          else do
            consume
            let r ← mkRegex o lhs pat fl
            pure (.pred r)
        else do
          let r ← mkRegex o lhs pat []
          pure (.pred r)
    else if ctx = .pred then syn
    else pure (.expr lhs t)

theorem exprTail_eq (o : Oracles) (f : Nat) (ctx : Ctx) (v : EV) :
    exprTail o (f + 1) ctx v = (arithLoop o f v >>= fun p => exprTailK o f ctx p.1 p.2) := by
  rw [exprTail]
  congr 1

/-- what may follow a whole arithmetic expression -/
def EFollow (t : Tok) : Prop :=
  isAccessorStart t = false ∧ t ≠ .lbrace ∧ addOp t = none ∧ mulOp t = none

section
variable {o : Oracles}

/-- where an expression may start, `parseAtom` on the tokens of `e` goes on with the part of
    `exprTail` after the arithmetic -/
theorem atom_of_expr {e : Node} {tk : TT} {ts : List TT} {p q : Prop} (h : ESpec o e tk ts p q)
    (F : Nat) (ctx : Ctx) (rest : List TT) (w : AtomR) (post : PS → Prop)
    (hF : 16 * (ts.length + 1) + 8 ≤ F + 2) (hfol : EFollow (hd rest).1)
    (hk : RunsV (StA o rest) (exprTailK o F ctx (evOf e) (hd rest).1) w post) :
    RunsV (StE o (tk :: ts ++ rest)) (parseAtom o (F + 2) ctx) w post := by
  obtain ⟨⟨x, tsH, M, hts, hmh, _, hha, hl2, _⟩, _, _⟩ := h
  subst hts
  simp only [List.length_append] at hF
  have hm := hmh rest hfol.1 hfol.2.1
  have := hha (F + 1) ctx (M ++ rest) w post (by omega) hm.1 hm.2 ?_
  · simpa using this
  · rw [exprTail_eq]
    refine RunsV.bind (hl2 F rest (evOf e, (hd rest).1) (StA o rest) (by omega) hfol.1 hfol.2.1 hfol.2.2.2 ?_) hk
    intro g' h1 h2
    obtain ⟨g'', rfl⟩ : ∃ g'', g' = g'' + 1 := ⟨g' - 1, by omega⟩
    exact arith_nil g'' _ rest hfol.2.2.1 hfol.2.2.2

/-- an expression in a position where only an expression may stand: `parseUnary` then `arithLoop` -/
theorem expr_full {e : Node} {tk : TT} {ts : List TT} {p q : Prop} (h : ESpec o e tk ts p q)
    (g : Nat) (rest : List TT) (hg : 16 * (ts.length + 1) + 8 ≤ g) (hfol : EFollow (hd rest).1) :
    ∃ (u : EV) (mid : List TT),
      RunsV (StE o (tk :: ts ++ rest)) (parseUnary o g) u (StA o mid) ∧
      RunsV (StA o mid) (arithLoop o g u) (evOf e, (hd rest).1) (StA o rest) := by
  obtain ⟨⟨x, tsH, M, hts, hmh, hopd, _, hl2, _⟩, _, _⟩ := h
  subst hts
  simp only [List.length_append] at hg
  have hm := hmh rest hfol.1 hfol.2.1
  obtain ⟨g', rfl⟩ : ∃ g', g = g' + 1 := ⟨g - 1, by omega⟩
  have hrun := hopd g' (M ++ rest) (by omega) hm.1 hm.2
  refine ⟨evOf x, M ++ rest, by simpa using unary_of_unaryT hrun, ?_⟩
  refine hl2 (g' + 1) rest _ _ (by omega) hfol.1 hfol.2.1 hfol.2.2.2 ?_
  intro g1 h1 h2
  obtain ⟨g2, rfl⟩ : ∃ g2, g1 = g2 + 1 := ⟨g1 - 1, by omega⟩
  exact arith_nil g2 _ rest hfol.2.2.1 hfol.2.2.2

theorem PFollow.efollow {t : Tok} (h : PFollow t) : EFollow t :=
  ⟨h.facts.1, h.facts.2.1, h.facts.2.2.1, h.facts.2.2.2.1⟩

/-- `l op r`, comparison of two expressions, is an atom -/
theorem cmpE_atom {l r : Node} {tkl tkr : TT} {tsl tsr : List TT} {op : BinOp} {p q p' q' : Prop}
    (hl : ESpec o l tkl tsl p q) (hr : ESpec o r tkr tsr p' q') (hop : isCmp op = true) :
    AtomSpec o (.binary op (some l) (some r) none) (tkl :: tsl ++ opTok op :: tkr :: tsr) := by
  intro f ctx rest hf hfol
  simp only [List.length_cons, List.length_append] at hf
  obtain ⟨f', rfl⟩ : ∃ f', f = f' + 2 := ⟨f - 2, by omega⟩
  have hc := cmp_facts hop
  obtain ⟨u, mid, hr1, hr2⟩ := expr_full hr f' rest (by omega) hfol.efollow
  have := atom_of_expr hl f' ctx (opTok op :: tkr :: (tsr ++ rest)) (.pred { node := .binary op (some l) (some r) none })
    (StE o rest) (by omega) ⟨hc.2.2.2.1, hc.2.2.2.2, hc.1, hc.2.1⟩ ?_
  · simpa using this
  · simp only [hd, exprTailK, hc.2.2.1]
    rstep (consume_spec _ _)
    simp only [List.cons_append] at hr1
    rstep hr1
    rstep hr2
    exact RunsV.pure' rfl (fun _ h => StE.ofA h)

/-- `l starts with "s"` / `l starts with $"s"` with an expression `l` -/
theorem startsE_atom {l : Node} {tkl : TT} {tsl : List TT} {p q : Prop} (s : List Char) (isVar : Bool)
    (hl : ESpec o l tkl tsl p q) :
    AtomSpec o (.binary .startsWith (some l) (some (if isVar then .var s none else .str s none)) none)
      (tkl :: tsl ++ [tStarts, tWith, if isVar then tVar s else (.string, s)]) := by
  intro f ctx rest hf hfol
  simp only [List.length_cons, List.length_append, List.length_nil] at hf
  obtain ⟨f', rfl⟩ : ∃ f', f = f' + 2 := ⟨f - 2, by omega⟩
  have := atom_of_expr hl f' ctx (tStarts :: tWith :: (if isVar then tVar s else (.string, s)) :: rest)
    (.pred { node := .binary .startsWith (some l) (some (if isVar then .var s none else .str s none)) none })
    (StE o rest) (by omega) ⟨rfl, by simp [hd, tStarts], rfl, rfl⟩ ?_
  · simpa using this
  · simp only [hd, List.cons_append, List.nil_append, tStarts, exprTailK, compOp, ↓reduceIte]
    rstep (consume_spec _ _)
    rstep (expect_spec _ _ _)
    cases isVar with
    | false =>
      simp only [Bool.false_eq_true, ↓reduceIte]
      rstep (peek_cons _ _)
      simp only [↓reduceIte]
      rstep (consume_spec _ _)
      exact RunsV.pure' rfl (fun _ h => h)
    | true =>
      simp only [↓reduceIte]
      rstep (peek_cons _ _)
      simp only [tVar, reduceCtorEq, ↓reduceIte]
      rstep (consume_spec _ _)
      exact RunsV.pure' rfl (fun _ h => h)

/-- `x like_regex "pat" [flag "…"]` with an expression `x` -/
theorem regexE_atom {x : Node} {tk : TT} {ts : List TT} {p q : Prop} (pat : List Char) (fl : Nat)
    (hx : ESpec o x tk ts p q) (hfl : fl < 32) (hok : okFlags fl = true)
    (hacc : o.regexAccepts pat fl = true) :
    AtomSpec o (.regex x pat fl none) (tk :: ts ++ tLike :: (.string, pat) :: flagToks fl) := by
  intro f ctx rest hf hfol
  have hlen : (flagToks fl).length ≤ 2 := by unfold flagToks; split <;> simp
  simp only [List.length_cons, List.length_append] at hf
  obtain ⟨f', rfl⟩ : ∃ f', f = f' + 2 := ⟨f - 2, by omega⟩
  have := atom_of_expr hx f' ctx (tLike :: (.string, pat) :: (flagToks fl ++ rest))
    (.pred { node := .regex x pat fl none }) (StE o rest) (by omega) ⟨rfl, by simp [hd, tLike], rfl, rfl⟩ ?_
  · simpa using this
  · simp only [hd, List.cons_append, tLike, exprTailK, compOp, reduceCtorEq, ↓reduceIte]
    rstep (consume_spec _ _)
    rstep (peek_cons _ _)
    simp only [ne_eq, not_true_eq_false, ↓reduceIte]
    rstep (consume_spec _ _)
    unfold flagToks
    by_cases h0 : fl = 0
    · subst h0
      simp only [↓reduceIte, List.nil_append]
      rstep (peek_any rest)
      simp only [hfol.notFlag, ↓reduceIte]
      have : regexFlags [] = some 0 := by decide
      simp only [mkRegex, this, hacc, ↓reduceIte]
      exact RunsV.pure' rfl (fun _ h => StE.ofA h)
    · simp only [h0, ↓reduceIte, List.cons_append, List.nil_append]
      rstep (peek_cons _ _)
      simp only [tFlag, ↓reduceIte]
      rstep (consume_spec _ _)
      rstep (peek_cons _ _)
      simp only [ne_eq, not_true_eq_false, ↓reduceIte]
      rstep (consume_spec _ _)
      simp only [mkRegex, regexFlags_flagChars fl hfl hok, hacc, ↓reduceIte]
      exact RunsV.pure' rfl (fun _ h => h)

/-- `exists (e)` with an expression `e` -/
theorem existsE_atom {x : Node} {tk : TT} {ts : List TT} {p q : Prop} (hx : ESpec o x tk ts p q) :
    AtomSpec o (.unary .exists (some x) none) (tExists :: tLp :: tk :: ts ++ [tRp]) := by
  intro f ctx rest hf hfol
  simp only [List.length_cons, List.length_append, List.length_nil] at hf
  obtain ⟨f', rfl⟩ : ∃ f', f = f' + 3 := ⟨f - 3, by omega⟩
  obtain ⟨u, mid, hr1, hr2⟩ := expr_full hx (f' + 1) (tRp :: rest) (by omega) ⟨rfl, by simp [hd, tRp], rfl, rfl⟩
  have hex : RunsV (StE o (tLp :: tk :: ts ++ tRp :: rest)) (existsTail o (f' + 2)) (unary .exists (evOf x))
      (StE o rest) := by
    rw [existsTail]
    rstep (expect_spec _ _ _)
    simp only [List.cons_append] at hr1
    rstep hr1
    rstep hr2
    simp only [hd, tRp, ne_eq, not_true_eq_false, ↓reduceIte]
    rstep (consume_spec _ _)
    exact RunsV.pure _
  rw [parseAtom]
  simp only [List.cons_append, List.append_assoc, List.nil_append]
  rstep (peek_cons _ _)
  simp only [tExists, reduceCtorEq, ↓reduceIte]
  rstep (consume_spec _ _)
  simp only [List.cons_append, List.append_assoc, List.nil_append] at hex
  rstep hex
  exact RunsV.pure' rfl (fun _ h => h)

/-- an expression up to `)` or the end, where a predicate could have started as well -/
theorem exprK_end (F : Nat) (ctx : Ctx) (hctx : ctx ≠ .pred) (lhs : EV) (rest : List TT)
    (ht : (hd rest).1 = .rparen ∨ (hd rest).1 = .stop) :
    RunsV (StA o rest) (exprTailK o F ctx lhs (hd rest).1) (.expr lhs (hd rest).1) (StA o rest) := by
  have h1 : compOp (hd rest).1 = none := by rcases ht with h | h <;> rw [h] <;> rfl
  have h2 : (hd rest).1 ≠ .starts := by rcases ht with h | h <;> rw [h] <;> decide
  have h3 : (hd rest).1 ≠ .likeRegex := by rcases ht with h | h <;> rw [h] <;> decide
  simp only [exprTailK, h1, h2, h3, hctx, ↓reduceIte]
  exact RunsV.pure _

end

/-! ## Stage 4: the units of arithmetic -/

section
variable {o : Oracles}

/-- after `(`: an expression and `)`, followed by something that is not an accessor -/
theorem parenTail_expr {e : Node} {tk : TT} {ts : List TT} {p q : Prop} (h : ESpec o e tk ts p q)
    (F : Nat) (ctx : Ctx) (hctx : ctx ≠ .pred) (rest : List TT) (hF : 16 * (ts.length + 1) + 8 ≤ F + 2)
    (ha : isAccessorStart (hd rest).1 = false) :
    RunsV (StE o (tk :: ts ++ tRp :: rest)) (parenTail o (F + 3) ctx) (.expr (evOf e)) (StA o rest) := by
  rw [parenTail]
  have h1 := atom_of_expr h F ctx (tRp :: rest) (.expr (evOf e) .rparen) (StA o (tRp :: rest)) hF
    ⟨rfl, by simp [hd, tRp], rfl, rfl⟩ (exprK_end F ctx hctx (evOf e) (tRp :: rest) (Or.inl rfl))
  rstep h1
  simp only [ne_eq, not_true_eq_false, ↓reduceIte]
  rstep (consume_spec _ _)
  rstep (peek_any rest)
  simp only [ha, Bool.false_eq_true, ↓reduceIte]
  exact RunsV.pure _

/-- `(e)` is a unit for `parseUnaryT` … -/
theorem paren_opdSpec {e : Node} {tk : TT} {ts : List TT} {p q : Prop} (h : ESpec o e tk ts p q) :
    OpdSpec o e tLp (tk :: ts ++ [tRp]) := by
  intro f rest hf ha _
  simp only [List.length_cons, List.length_append, List.length_nil] at hf
  obtain ⟨F, rfl⟩ : ∃ F, f = F + 4 := ⟨f - 4, by omega⟩
  rw [parseUnaryT]
  simp only [tLp, reduceCtorEq, ↓reduceIte]
  simp only [List.cons_append, List.append_assoc, List.nil_append]
  rstep (consume_spec _ _)
  rstep (parenTail_expr h F .parenE (by decide) rest (by omega) ha)
  exact RunsV.pure _

/-- … and for `parseAtom` -/
theorem paren_headA {e : Node} {tk : TT} {ts : List TT} {p q : Prop} (h : ESpec o e tk ts p q) :
    HeadA o e tLp (tk :: ts ++ [tRp]) := by
  intro f ctx rest w post hf ha _ hk
  simp only [List.length_cons, List.length_append, List.length_nil] at hf
  obtain ⟨F, rfl⟩ : ∃ F, f = F + 3 := ⟨f - 3, by omega⟩
  rw [parseAtom]
  simp only [List.cons_append, List.append_assoc, List.nil_append]
  rstep (peek_cons _ _)
  simp only [tLp, reduceCtorEq, ↓reduceIte]
  rstep (consume_spec _ _)
  rstep (parenTail_expr h F .paren (by decide) rest (by omega) ha)
  exact hk

/-- the node is not a number literal (on which a sign is folded into the literal) -/
def notNumLit : Node → Bool
  | .integer _ _ => false
  | .numeric _ _ => false
  | _ => true

def isSign (op : UnOp) : Bool := op == .plus || op == .minus

def signTok : UnOp → TT
  | .plus => tPlus
  | _ => tMinus

theorem newUnaryOrNumber_other (op : UnOp) (x : Node) (h : notNumLit x = true) :
    newUnaryOrNumber op (evOf x) = pure (evOf (.unary op (some x) none)) := by
  unfold newUnaryOrNumber
  by_cases hc : (evOf x).node.next.isNone = true
  · rw [if_pos hc]
    cases x <;> simp [notNumLit] at h <;> rfl
  · rw [if_neg hc]
    rfl

/-- `-x` / `+x` for a unit `x` that is not a number literal -/
theorem sign_opdSpec {x : Node} {tk : TT} {ts : List TT} (op : UnOp) (hop : isSign op = true)
    (hx : OpdSpec o x tk ts) (hn : notNumLit x = true) :
    OpdSpec o (.unary op (some x) none) (signTok op) (tk :: ts) := by
  intro f rest hf ha hb
  simp only [List.length_cons] at hf
  obtain ⟨f', rfl⟩ : ∃ f', f = f' + 2 := ⟨f - 2, by omega⟩
  have hrun := hx f' rest (by omega) ha hb
  rw [parseUnaryT]
  cases op <;> simp [isSign] at hop
  · simp only [signTok, tPlus, ↓reduceIte]
    rstep (consume_spec _ _)
    simp only [List.cons_append] at hrun ⊢
    rstep (unary_of_unaryT hrun)
    rw [newUnaryOrNumber_other _ _ hn]
    exact RunsV.pure' rfl (fun _ h => h)
  · simp only [signTok, tMinus, reduceCtorEq, ↓reduceIte]
    rstep (consume_spec _ _)
    simp only [List.cons_append] at hrun ⊢
    rstep (unary_of_unaryT hrun)
    rw [newUnaryOrNumber_other _ _ hn]
    exact RunsV.pure' rfl (fun _ h => h)

theorem signTok_facts (op : UnOp) :
    (signTok op).1 ≠ .not ∧ (signTok op).1 ≠ .exists ∧ (signTok op).1 ≠ .lparen ∧ (signTok op).1 ≠ .stop ∧
      isPredStart (signTok op).1 = true := by
  cases op <;> decide

/-- a negative integer literal the parser can produce -/
def negOK (i : Int) : Bool := i < 0 && -9223372036854775808 < i

theorem neg_opdSpec (i : Int) (h : negOK i = true) :
    OpdSpec o (.integer i none) tMinus [tInt i.natAbs] := by
  intro f rest hf ha hb
  simp only [negOK, Bool.and_eq_true, decide_eq_true_eq] at h
  obtain ⟨f', rfl⟩ : ∃ f', f = f' + 5 := ⟨f - 5, by simp at hf; omega⟩
  have hl : okIdx (.integer (i.natAbs : Int) none) = true := by
    simp only [okIdx, intOK, Bool.and_eq_true, decide_eq_true_eq]; omega
  have hrun := unaryT_idx (o := o) f' (.integer (i.natAbs : Int) none) hl rest ha
  have e1 : idxTok (.integer (i.natAbs : Int) none) = tInt i.natAbs := by simp [idxTok]
  rw [e1] at hrun
  rw [parseUnaryT]
  simp only [tMinus, reduceCtorEq, ↓reduceIte]
  rstep (consume_spec _ _)
  rstep (unary_of_unaryT hrun)
  have e2 : evIdx (.integer (i.natAbs : Int) none)
      = { node := .integer (i.natAbs : Int) none, lit := Nat.toDigits 10 i.natAbs } := by simp [evIdx]
  rw [e2]
  unfold newUnaryOrNumber
  simp only [Node.next, Option.isNone_none, ↓reduceIte, reduceCtorEq]
  unfold astNewInteger
  rw [negLit_toDigits, parseInt0_neg_toDigits _ (by omega)]
  have e3 : -(i.natAbs : Int) = i := by omega
  have hneg : i < 0 := h.1
  refine RunsV.pure' ?_ (fun _ h => h)
  simp [evOf, litOf, Decimal.formatInt, Decimal.formatNat, hneg, e3]

end

/-! ## Stage 4: expressions — what is proved of them -/

def isBin : Node → Bool
  | .binary _ _ _ _ => true
  | _ => false

def isAddLevel : Node → Bool
  | .binary .add _ _ _ => true
  | .binary .sub _ _ _ => true
  | _ => false

/-- an arithmetic expression: text and tokens for either value of `withParens`, and the parser -/
def ExprOK (o : Oracles) (e : Node) : Prop :=
  ∀ wp : Bool, ∃ (txt : List Char) (tk : TT) (ts : List TT),
    Print.writeTo o.isPrint e false wp = some txt ∧ Seg2 o brk txt (tk :: ts) ∧ isPredStart tk.1 = true ∧
    ESpec o e tk ts (wp = true ∨ isBin e = false) (wp = true ∨ isAddLevel e = false)

section
variable {o : Oracles} (ok : OrOK o)
include ok

theorem opdStart_pred {t : Tok} (h : isOpdStart t = true) : isPredStart t = true := by
  simp [isPredStart, h]

/-- an operand of stage 2/3 is an expression -/
theorem exprOK_opd {n : Node} (h : OpdOK o n) : ExprOK o n := by
  intro wp
  obtain ⟨txt, tk, ts, hpr, hseg, hst, hrun⟩ := h
  have hf := opdStart_facts hst
  exact ⟨txt, tk, ts, hpr wp, hseg, opdStart_pred ok hst,
    espec_unit hrun (headA_of_opdSpec hrun hf.1 hf.2.1 hf.2.2.1 hf.2.2.2) _ _⟩

/-- the parenthesised form of an expression -/
theorem espec_paren {e : Node} {tk : TT} {ts : List TT} {p q : Prop} (h : ESpec o e tk ts p q) (p' q' : Prop) :
    ESpec o e tLp (tk :: ts ++ [tRp]) p' q' :=
  espec_unit (paren_opdSpec h) (paren_headA h) _ _

/-- from the unparenthesised form of a node that `parenIf` wraps -/
theorem exprOK_wrap {e : Node} {txt : List Char} {tk : TT} {ts : List TT}
    (hpr : ∀ wp, Print.writeTo o.isPrint e false wp = some (Print.parenIf wp txt))
    (hseg : Seg2 o brk txt (tk :: ts)) (hst : isPredStart tk.1 = true)
    (hsp : ESpec o e tk ts (isBin e = false) (isAddLevel e = false)) : ExprOK o e := by
  intro wp
  cases wp with
  | false =>
    refine ⟨txt, tk, ts, by simpa [Print.parenIf] using hpr false, hseg, hst, ?_⟩
    obtain ⟨h1, h2, h3⟩ := hsp
    exact ⟨h1 |> fun ⟨x, tsH, M, a, b, c, d, e1, e2⟩ =>
        ⟨x, tsH, M, a, b, c, d, e1, fun hh => e2 (hh.resolve_left (by simp))⟩,
      fun hh => h2 (hh.resolve_left (by simp)), fun hh => h3 (hh.resolve_left (by simp))⟩
  | true =>
    have := seg2_paren ok hseg
    exact ⟨'(' :: (txt ++ [')']), tLp, tk :: ts ++ [tRp], by simpa [Print.parenIf] using hpr true,
      by simpa using this, rfl, espec_paren ok hsp _ _⟩

/-- a negative integer literal -/
theorem exprOK_neg (i : Int) (h : negOK i = true) : ExprOK o (.integer i none) := by
  intro wp
  have hneg : i < 0 := by
    simp only [negOK, Bool.and_eq_true, decide_eq_true_eq] at h; exact h.1
  have hs := neg_opdSpec (o := o) i h
  refine ⟨'-' :: Nat.toDigits 10 i.natAbs, tMinus, [tInt i.natAbs], ?_, ?_, rfl,
    espec_unit hs (headA_of_opdSpec hs (by decide) (by decide) (by decide) (by decide)) _ _⟩
  · simp [Print.writeTo, Print.writeNext, Print.parenIf, Decimal.formatInt, Decimal.formatNat, hneg]
  · have := Seg2.app o (seg2_minus o ok) (seg_nat o ok i.natAbs) (fun _ _ => trivial)
    simpa using this

omit ok in
theorem ESpec.imp {e : Node} {tk : TT} {ts : List TT} {p q p' q' : Prop} (h : ESpec o e tk ts p q)
    (hp : p' → p) (hq : q' → q) : ESpec o e tk ts p' q' := by
  obtain ⟨⟨x, tsH, M, a, b, c, d, e1, e2⟩, h2, h3⟩ := h
  exact ⟨⟨x, tsH, M, a, b, c, d, e1, fun hh => e2 (hq hh)⟩, fun hh => h2 (hq hh), fun hh => h3 (hp hh)⟩

omit ok in
theorem unStr_plus : Print.unStr .plus = ['+'] := by decide
omit ok in
theorem unStr_minus : Print.unStr .minus = ['-'] := by decide

/-- `+x`, `-x` -/
theorem exprOK_sign (op : UnOp) (x : Node) (hop : isSign op = true) (hx : ExprOK o x) (hn : notNumLit x = true)
    (hu : decide (Print.priority x ≤ Print.unPriority op) = true ∨ isBin x = false) :
    ExprOK o (.unary op (some x) none) := by
  obtain ⟨xtxt, tk, ts, hpr, hseg, hst, _, _, hunit⟩ := hx (decide (Print.priority x ≤ Print.unPriority op))
  obtain ⟨hopd, _⟩ := hunit hu
  have hs := sign_opdSpec (o := o) op hop hopd hn
  have hf := signTok_facts op
  refine exprOK_wrap ok (txt := (signTok op).2 ++ xtxt) (tk := signTok op) (ts := tk :: ts) ?_ ?_ hf.2.2.2.2
    (espec_unit hs (headA_of_opdSpec hs hf.1 hf.2.1 hf.2.2.1 hf.2.2.2.1) _ _)
  · intro wp
    cases op <;> simp [isSign] at hop
    · simp [Print.writeTo, Print.writeOpd, Print.writeNext, hpr, unStr_plus, signTok, tPlus]
    · simp [Print.writeTo, Print.writeOpd, Print.writeNext, hpr, unStr_minus, signTok, tMinus]
  · cases op <;> simp [isSign] at hop
    · have := Seg2.app o (seg2_plus o ok) hseg.1 (fun _ _ => trivial)
      simpa [signTok, tPlus] using this
    · have := Seg2.app o (seg2_minus o ok) hseg.1 (fun _ _ => trivial)
      simpa [signTok, tMinus] using this

/-- `l * r`, `l / r`, `l % r` -/
theorem exprOK_mul (op : BinOp) (l r : Node) (hop : isMulOp op = true) (hl : ExprOK o l) (hr : ExprOK o r)
    (hul : decide (Print.priority l ≤ Print.binPriority op) = true ∨ isBin l = false)
    (hur : decide (Print.priority r ≤ Print.binPriority op) = true ∨ isBin r = false) :
    ExprOK o (.binary op (some l) (some r) none) := by
  obtain ⟨ltxt, tkl, tsl, hprl, hsegl, hstl, _, _, hunitl⟩ := hl (decide (Print.priority l ≤ Print.binPriority op))
  obtain ⟨rtxt, tkr, tsr, hprr, hsegr, _, _, _, hunitr⟩ := hr (decide (Print.priority r ≤ Print.binPriority op))
  obtain ⟨hol, hal⟩ := hunitl hul
  obtain ⟨hor, _⟩ := hunitr hur
  have har : isArith op = true := by cases op <;> simp [isMulOp] at hop <;> rfl
  refine exprOK_wrap ok (txt := ltxt ++ ' ' :: (Print.binStr op ++ ' ' :: rtxt)) (tk := tkl)
    (ts := tsl ++ arithTok op :: tkr :: tsr) ?_ ?_ hstl
    ((espec_mul hop hol hal hor (isAddLevel (.binary op (some l) (some r) none) = false)).imp
      (fun h => by simp [isBin] at h) id)
  · intro wp
    cases op <;> simp [isMulOp] at hop <;>
      simp [Print.writeTo, Print.writeOpd, Print.writeNext, hprl, hprr]
  · have h1 := Seg.app_cons o (seg_sp_arith o ok op har) hsegr.2 rfl
    have h2 := Seg2.app_cons o hsegl h1 brk_sp
    simpa using h2

/-- `l + r`, `l - r` -/
theorem exprOK_add (op : BinOp) (l r : Node) (hop : isAddOp op = true) (hl : ExprOK o l) (hr : ExprOK o r)
    (hml : decide (Print.priority l ≤ Print.binPriority op) = true ∨ isAddLevel l = false)
    (hmr : decide (Print.priority r ≤ Print.binPriority op) = true ∨ isAddLevel r = false) :
    ExprOK o (.binary op (some l) (some r) none) := by
  obtain ⟨ltxt, tkl, tsl, hprl, hsegl, hstl, hspl⟩ := hl (decide (Print.priority l ≤ Print.binPriority op))
  obtain ⟨rtxt, tkr, tsr, hprr, hsegr, _, _, hmulr, _⟩ := hr (decide (Print.priority r ≤ Print.binPriority op))
  have har : isArith op = true := by cases op <;> simp [isAddOp] at hop <;> rfl
  refine exprOK_wrap ok (txt := ltxt ++ ' ' :: (Print.binStr op ++ ' ' :: rtxt)) (tk := tkl)
    (ts := tsl ++ arithTok op :: tkr :: tsr) ?_ ?_ hstl
    ((espec_add hop hspl hml (hmulr hmr)).imp (fun h => by simp [isBin] at h)
      (fun h => by cases op <;> simp [isAddOp] at hop <;> simp [isAddLevel] at h))
  · intro wp
    cases op <;> simp [isAddOp] at hop <;>
      simp [Print.writeTo, Print.writeOpd, Print.writeNext, hprl, hprr]
  · have h1 := Seg.app_cons o (seg_sp_arith o ok op har) hsegr.2 rfl
    have h2 := Seg2.app_cons o hsegl h1 brk_sp
    simpa using h2

/-! ## Predicates over expressions -/

/-- `l op r` with a comparison operator -/
theorem predOK_cmpE (op : BinOp) (l r : Node) (hop : isCmp op = true) (hl : ExprOK o l) (hr : ExprOK o r)
    (hpl : decide (Print.priority l ≤ Print.binPriority op) = false)
    (hpr' : decide (Print.priority r ≤ Print.binPriority op) = false) :
    PredOK o (.binary op (some l) (some r) none) := by
  obtain ⟨ltxt, tkl, tsl, hprl, hsegl, hstl, hspl⟩ := hl false
  obtain ⟨rtxt, tkr, tsr, hprr, hsegr, _, hspr⟩ := hr false
  have hat := cmpE_atom (o := o) hspl hspr hop
  refine predOK_binary ok (txt := ltxt ++ ' ' :: (Print.binStr op ++ ' ' :: rtxt))
    (toks := tkl :: tsl ++ opTok op :: tkr :: tsr) ?_ ?_ ⟨tkl, _, rfl, hstl⟩ (fun _ => hat)
    (fun _ => ⟨left_of_atom hat 1, right_of_atom hat⟩) (left_of_atom hat 2)
  · intro wp
    have e1 : Print.writeOpd o.isPrint (some l) (some (Print.binPriority op)) = some ltxt := by
      simp only [Print.writeOpd, hpl, hprl]
    have e2 : Print.writeOpd o.isPrint (some r) (some (Print.binPriority op)) = some rtxt := by
      simp only [Print.writeOpd, hpr', hprr]
    cases op <;> simp [isCmp] at hop <;> (simp only [Print.writeTo, e1, e2]; simp [Print.writeNext])
  · have h1 := Seg.app_cons o (seg_sp_op o ok op (Or.inl hop)) hsegr.2 rfl
    have h2 := Seg2.app_cons o hsegl h1 brk_sp
    simpa using h2

/-- `l starts with "s"` / `l starts with $"s"` -/
theorem predOK_startsE (l : Node) (s : List Char) (isVar : Bool) (hl : ExprOK o l) (hs : NoNul s)
    (hpl : decide (Print.priority l ≤ Print.binPriority .startsWith) = false) :
    PredOK o (.binary .startsWith (some l) (some (if isVar then .var s none else .str s none)) none) := by
  obtain ⟨ltxt, tkl, tsl, hprl, hsegl, hstl, hspl⟩ := hl false
  have hat := startsE_atom (o := o) s isVar hspl
  refine predOK_binary ok
    (txt := ltxt ++ ' ' :: 's' :: 't' :: 'a' :: 'r' :: 't' :: 's' :: ' ' :: 'w' :: 'i' :: 't' :: 'h' :: ' ' ::
      (if isVar then '$' :: Print.quote o.isPrint s else Print.quote o.isPrint s))
    (toks := tkl :: tsl ++ [tStarts, tWith, if isVar then tVar s else (.string, s)]) ?_ ?_ ⟨tkl, _, rfl, hstl⟩
    (fun _ => hat) (fun _ => ⟨left_of_atom hat 1, right_of_atom hat⟩) (left_of_atom hat 2)
  · intro wp
    have e1 : Print.writeOpd o.isPrint (some l) (some (Print.binPriority .startsWith)) = some ltxt := by
      simp only [Print.writeOpd, hpl, hprl]
    simp only [Print.writeTo, e1]
    cases isVar <;> simp [Print.writeTo, Print.writeOpd, Print.writeNext, binStr_startsWith]
  · have h0 : Seg o brk (' ' :: (if isVar then '$' :: Print.quote o.isPrint s else Print.quote o.isPrint s))
        [if isVar then tVar s else (.string, s)] := by
      cases isVar
      · exact (seg2_string o ok s hs).2.mono o (fun _ _ => trivial)
      · exact (seg2_variable o ok s hs).2.mono o (fun _ _ => trivial)
    have h1 := Seg.app_cons o (seg_sp_kw o ok 'w' ['i', 't', 'h'] .with_ (by decide) (by decide)) h0
      (identCont_punct o ok ' ' (by decide))
    have h2 := Seg.app_cons o (seg_sp_kw o ok 's' ['t', 'a', 'r', 't', 's'] .starts (by decide) (by decide)) h1
      (identCont_punct o ok ' ' (by decide))
    have h3 := Seg2.app_cons o hsegl h2 brk_sp
    simpa [tStarts, tWith] using h3

/-- `exists (e)` -/
theorem predOK_existsE (x : Node) (hx : ExprOK o x) : PredOK o (.unary .exists (some x) none) := by
  obtain ⟨xtxt, tk, ts, hpr, hseg, hst, hsp⟩ := hx false
  have hat := existsE_atom (o := o) hsp
  refine predOK_unary ok (txt := 'e' :: 'x' :: 'i' :: 's' :: 't' :: 's' :: ' ' :: '(' :: (xtxt ++ [')']))
    (toks := tExists :: tLp :: tk :: ts ++ [tRp]) ?_ ?_ ⟨tExists, _, rfl, rfl⟩ hat
  · intro wp
    have : "exists (".toList = ['e', 'x', 'i', 's', 't', 's', ' ', '('] := by decide
    simp [Print.writeTo, Print.writeOpd, Print.writeNext, hpr, this]
  · have h1 := Seg.app_cons o hseg.1 (seg_rp o ok) brk_rp
    have h2 := Seg.app o (seg2_lp o ok).2 h1 (fun _ _ => trivial)
    have h3 := Seg2.app_cons o (seg2_kw o ok 'e' ['x', 'i', 's', 't', 's'] .exists (by decide) (by decide)) h2
      (identCont_punct o ok ' ' (by decide))
    have := Seg2.mono o h3 (C' := brk) (fun _ _ => trivial)
    simpa [tExists] using this

/-- `x like_regex "pat" [flag "…"]` -/
theorem predOK_regexE (x : Node) (pat : List Char) (fl : Nat) (hx : ExprOK o x) (hp : NoNul pat) (hfl : fl < 32)
    (hok : okFlags fl = true) (hacc : o.regexAccepts pat fl = true)
    (hpx : decide (Print.priority x ≤ 6) = true) :
    PredOK o (.regex x pat fl none) := by
  obtain ⟨xtxt, tk, ts, hpr, hseg, hst, hsp⟩ := hx true
  have hat := regexE_atom (o := o) pat fl hsp hfl hok hacc
  have hfs : Seg o brk (Print.flagsStr fl) (flagToks fl) := by
    rw [flagsStr_eq fl hfl]
    unfold flagToks
    split
    · exact Seg.nil o _
    · have hn : NoNul (flagChars fl) := fun c hc => (isLow_facts c (flagChars_low fl hfl c hc)).1
      have h0 := (seg2_string o ok (flagChars fl) hn).2
      rw [quote_flagChars ok fl hfl] at h0
      have h1 := Seg.app_cons o (seg_sp_kw o ok 'f' ['l', 'a', 'g'] .flag (by decide) (by decide)) h0
        (identCont_punct o ok ' ' (by decide))
      exact (by simpa [tFlag] using h1.mono o (C' := brk) (fun _ _ => trivial))
  refine predOK_binary ok
    (txt := xtxt ++ ' ' :: 'l' :: 'i' :: 'k' :: 'e' :: '_' :: 'r' :: 'e' :: 'g' :: 'e' :: 'x' :: ' ' ::
      (Print.quote o.isPrint pat ++ Print.flagsStr fl))
    (toks := tk :: ts ++ tLike :: (.string, pat) :: flagToks fl) ?_ ?_ ⟨tk, _, rfl, hst⟩
    (fun _ => hat) (fun _ => ⟨left_of_atom hat 1, right_of_atom hat⟩) (left_of_atom hat 2)
  · intro wp
    rw [Print.writeTo]
    simp only [hpx] 
    simp [hpr, Print.writeNext, likeRegex_txt]
  · have h0 := Seg.app o ((seg2_string o ok pat hp).2) hfs (fun _ _ => trivial)
    have h1 := Seg.app_cons o
      (seg_sp_kw o ok 'l' ['i', 'k', 'e', '_', 'r', 'e', 'g', 'e', 'x'] .likeRegex (by decide) (by decide)) h0
      (identCont_punct o ok ' ' (by decide))
    have h2 := Seg2.app_cons o hseg h1 brk_sp
    simpa [tLike] using h2

end

/-! ## Stage 4: the class with arithmetic -/

/-- an integer literal the parser can produce, with either sign: -(2⁶³-1) … 2⁶³-1 -/
def litOK (i : Int) : Bool := -9223372036854775808 < i && i < 9223372036854775808

mutual
  /-- an expression: an operand of stage 3, a negative integer literal, a sign applied to an
      expression that is not a number literal, or `+ - * / %` between expressions -/
  def okExpr4 (o : Oracles) : Node → Bool
    | .const k nx => isOpdConst k && okNext4 o nx
    | .str s nx => noNulB s && okNext4 o nx
    | .var s nx => noNulB s && okNext4 o nx
    | .integer i none => litOK i
    | .unary op (some x) none => isSign op && okExpr4 o x && notNumLit x
    | .binary op (some l) (some r) none => isArith op && okExpr4 o l && okExpr4 o r
    | _ => false
  def okPred4 (o : Oracles) : Node → Bool
    | .binary op (some l) (some r) none =>
      if isCmp op then okExpr4 o l && okExpr4 o r
      else if isLogic op then okPred4 o l && okPred4 o r
      else if op = .startsWith then
        okExpr4 o l && (match strOrVar? r with | some (_, s) => noNulB s | none => false)
      else false
    | .unary .not (some p) none => okPred4 o p
    | .unary .exists (some x) none => okExpr4 o x
    | .unary .isUnknown (some p) none => okPred4 o p
    | .regex x pat fl none => okExpr4 o x && noNulB pat && okFlags fl && o.regexAccepts pat fl
    | _ => false
  def okStep4 (o : Oracles) : Node → Bool
    | .unary .filter (some p) nx => okPred4 o p && okNext4 o nx
    | .key s nx => noNulB s && okNext4 o nx
    | .const .anyKey nx => okNext4 o nx
    | .const .anyArray nx => okNext4 o nx
    | .any a b nx => lvlOK a && lvlOK b && okNext4 o nx
    | .method _ nx => okNext4 o nx
    | .unary .date none nx => okNext4 o nx
    | .unary .datetime none nx => okNext4 o nx
    | .unary .datetime (some (.str t none)) nx => noNulB t && okNext4 o nx
    | .arrayIndex subs nx => !subs.isEmpty && subs.all okSub && okNext4 o nx
    | _ => false
  def okNext4 (o : Oracles) : Option Node → Bool
    | none => true
    | some n => okStep4 o n
end

theorem okStep4_cases {o : Oracles} {n : Node} (h : okStep4 o n = true) :
    (simpleStep n = true ∧ okNext4 o n.next = true) ∨
      ∃ p nx, n = .unary .filter (some p) nx ∧ okPred4 o p = true ∧ okNext4 o nx = true := by
  unfold okStep4 at h
  split at h
  · rename_i p nx
    simp only [Bool.and_eq_true] at h
    exact Or.inr ⟨p, nx, rfl, h.1, h.2⟩
  · left; simpa [simpleStep, Node.next] using h
  · left; simpa [simpleStep, Node.next] using h
  · left; simpa [simpleStep, Node.next] using h
  · left; simpa [simpleStep, Node.next, Bool.and_assoc, and_assoc] using h
  · left; simpa [simpleStep, Node.next] using h
  · left; simpa [simpleStep, Node.next] using h
  · left; simpa [simpleStep, Node.next] using h
  · left; simpa [simpleStep, Node.next] using h
  · left; simpa [simpleStep, Node.next, Bool.and_assoc, and_assoc] using h
  · simp at h

inductive ExprShape4 (o : Oracles) : Node → Prop
  | const (k : Const) (nx : Option Node) (hk : isOpdConst k = true) (h : okNext4 o nx = true) : ExprShape4 o (.const k nx)
  | str (s : List Char) (nx : Option Node) (hs : NoNul s) (h : okNext4 o nx = true) : ExprShape4 o (.str s nx)
  | var (s : List Char) (nx : Option Node) (hs : NoNul s) (h : okNext4 o nx = true) : ExprShape4 o (.var s nx)
  | nat (i : Int) (h : intOK i = true) : ExprShape4 o (.integer i none)
  | neg (i : Int) (h : negOK i = true) : ExprShape4 o (.integer i none)
  | sign (op : UnOp) (x : Node) (hop : isSign op = true) (hx : okExpr4 o x = true) (hn : notNumLit x = true) :
      ExprShape4 o (.unary op (some x) none)
  | arith (op : BinOp) (l r : Node) (hop : isArith op = true) (hl : okExpr4 o l = true) (hr : okExpr4 o r = true) :
      ExprShape4 o (.binary op (some l) (some r) none)

theorem okExpr4_cases {o : Oracles} {n : Node} (h : okExpr4 o n = true) : ExprShape4 o n := by
  unfold okExpr4 at h
  split at h
  · simp only [Bool.and_eq_true] at h; exact .const _ _ h.1 h.2
  · simp only [Bool.and_eq_true] at h; exact .str _ _ (noNul_of_B h.1) h.2
  · simp only [Bool.and_eq_true] at h; exact .var _ _ (noNul_of_B h.1) h.2
  · rename_i i
    simp only [litOK, Bool.and_eq_true, decide_eq_true_eq] at h
    by_cases hi : 0 ≤ i
    · exact .nat i (by simp only [intOK, Bool.and_eq_true, decide_eq_true_eq]; omega)
    · exact .neg i (by simp only [negOK, Bool.and_eq_true, decide_eq_true_eq]; omega)
  · simp only [Bool.and_eq_true] at h; exact .sign _ _ h.1.1 h.1.2 h.2
  · simp only [Bool.and_eq_true] at h; exact .arith _ _ _ h.1.1 h.1.2 h.2
  · simp at h

theorem exprPrio {o : Oracles} {e : Node} (h : ExprShape4 o e) :
    3 ≤ Print.priority e ∧ Print.priority e ≤ 6 ∧ (isBin e = true → Print.priority e ≤ 4) ∧
      (isAddLevel e = true → Print.priority e = 3) := by
  cases h with
  | const => refine ⟨?_, ?_, ?_, ?_⟩ <;> simp [Print.priority, isBin, isAddLevel]
  | str => refine ⟨?_, ?_, ?_, ?_⟩ <;> simp [Print.priority, isBin, isAddLevel]
  | var => refine ⟨?_, ?_, ?_, ?_⟩ <;> simp [Print.priority, isBin, isAddLevel]
  | nat => refine ⟨?_, ?_, ?_, ?_⟩ <;> simp [Print.priority, isBin, isAddLevel]
  | neg => refine ⟨?_, ?_, ?_, ?_⟩ <;> simp [Print.priority, isBin, isAddLevel]
  | sign op x hop _ _ =>
    cases op <;> simp [isSign] at hop <;>
      (refine ⟨?_, ?_, ?_, ?_⟩ <;> simp [Print.priority, Print.unPriority, isBin, isAddLevel])
  | arith op l r hop _ _ =>
    cases op <;> simp [isArith] at hop <;>
      (refine ⟨?_, ?_, ?_, ?_⟩ <;> simp [Print.priority, Print.binPriority, isBin, isAddLevel])

inductive PredShape4 (o : Oracles) : Node → Prop
  | cmp (op : BinOp) (l r : Node) (hop : isCmp op = true) (hl : okExpr4 o l = true) (hr : okExpr4 o r = true) :
      PredShape4 o (.binary op (some l) (some r) none)
  | logic (op : BinOp) (l r : Node) (hop : isLogic op = true) (hl : okPred4 o l = true) (hr : okPred4 o r = true) :
      PredShape4 o (.binary op (some l) (some r) none)
  | starts (l : Node) (s : List Char) (isVar : Bool) (hl : okExpr4 o l = true) (hs : NoNul s) :
      PredShape4 o (.binary .startsWith (some l) (some (if isVar then .var s none else .str s none)) none)
  | not (p : Node) (h : okPred4 o p = true) : PredShape4 o (.unary .not (some p) none)
  | exists_ (x : Node) (h : okExpr4 o x = true) : PredShape4 o (.unary .exists (some x) none)
  | isUnknown (p : Node) (h : okPred4 o p = true) : PredShape4 o (.unary .isUnknown (some p) none)
  | regex (x : Node) (pat : List Char) (fl : Nat) (hx : okExpr4 o x = true) (hp : NoNul pat) (hfl : fl < 32)
      (hok : okFlags fl = true) (hacc : o.regexAccepts pat fl = true) : PredShape4 o (.regex x pat fl none)

theorem okPred4_cases {o : Oracles} {p : Node} (h : okPred4 o p = true) : PredShape4 o p := by
  unfold okPred4 at h
  split at h
  · rename_i op l r
    split at h
    · rename_i hc; simp only [Bool.and_eq_true] at h; exact .cmp op l r hc h.1 h.2
    · split at h
      · rename_i hc; simp only [Bool.and_eq_true] at h; exact .logic op l r hc h.1 h.2
      · split at h
        · rename_i hc
          subst hc
          simp only [Bool.and_eq_true] at h
          obtain ⟨h1, h2⟩ := h
          split at h2
          · rename_i b s hs
            rcases strOrVar?_some hs with ⟨hb, hr⟩ | ⟨hb, hr⟩
            · rw [hr]; exact .starts l s false h1 (noNul_of_B h2)
            · rw [hr]; exact .starts l s true h1 (noNul_of_B h2)
          · simp at h2
        · simp at h
  · exact .not _ h
  · exact .exists_ _ h
  · exact .isUnknown _ h
  · rename_i x pat fl
    simp only [Bool.and_eq_true] at h
    obtain ⟨⟨⟨h1, h2⟩, h3⟩, h4⟩ := h
    have hfl : fl < 32 := by
      simp only [okFlags, Bool.and_eq_true, decide_eq_true_eq] at h3
      exact h3.1
    exact .regex x pat fl h1 (noNul_of_B h2) hfl h3 h4
  · simp at h

theorem prio_facts4 {o : Oracles} {p : Node} (h : PredShape4 o p) :
    decide (Print.priority p ≤ Print.binPriority .and) = isAndOr p ∧
      decide (Print.priority p ≤ Print.binPriority .or) = isOr p := by
  cases h with
  | cmp op l r hop _ _ => cases op <;> simp [isCmp] at hop <;> exact ⟨rfl, rfl⟩
  | logic op l r hop _ _ => cases op <;> simp [isLogic] at hop <;> exact ⟨rfl, rfl⟩
  | starts l s isVar => exact ⟨rfl, rfl⟩
  | not => exact ⟨rfl, rfl⟩
  | exists_ => exact ⟨rfl, rfl⟩
  | isUnknown => exact ⟨rfl, rfl⟩
  | regex => exact ⟨rfl, rfl⟩

/-! ## Stage 4: the induction -/

structure AllOK4 (o : Oracles) (k : Nat) : Prop where
  expr : ∀ n : Node, sizeOf n ≤ k → okExpr4 o n = true → ExprOK o n
  pred : ∀ p : Node, sizeOf p ≤ k → okPred4 o p = true → PredOK o p
  chain : ∀ nx : Option Node, sizeOf nx ≤ k → okNext4 o nx = true → ChainOK o nx

theorem cmp_prio {op : BinOp} (h : isCmp op = true) : Print.binPriority op = 2 := by
  cases op <;> simp [isCmp] at h <;> rfl

theorem mul_prio {op : BinOp} (h : isMulOp op = true) : Print.binPriority op = 4 := by
  cases op <;> simp [isMulOp] at h <;> rfl

theorem add_prio {op : BinOp} (h : isAddOp op = true) : Print.binPriority op = 3 := by
  cases op <;> simp [isAddOp] at h <;> rfl

theorem sign_prio {op : UnOp} (h : isSign op = true) : Print.unPriority op = 5 := by
  cases op <;> simp [isSign] at h <;> rfl

theorem arith_split {op : BinOp} (h : isArith op = true) : isMulOp op = true ∨ isAddOp op = true := by
  cases op <;> simp [isArith] at h <;> simp [isMulOp, isAddOp]

section
variable {o : Oracles} (ok : OrOK o)
include ok

theorem allOK4 : ∀ k, AllOK4 o k := by
  intro k
  induction k with
  | zero =>
    refine ⟨?_, ?_, ?_⟩
    · intro n hk _; have := sizeOf_node_pos n; omega
    · intro n hk _; have := sizeOf_node_pos n; omega
    · intro nx hk _
      cases nx with
      | none => exact chain_nil
      | some n => simp at hk
  | succ k ih =>
    refine ⟨?_, ?_, ?_⟩
    · intro n hk h
      cases okExpr4_cases h with
      | const c nx hc hnx =>
        simp only [Node.const.sizeOf_spec] at hk
        exact exprOK_opd ok (opdOK_const ok c hc (ih.chain nx (by omega) hnx))
      | str s nx hs hnx =>
        simp only [Node.str.sizeOf_spec] at hk
        exact exprOK_opd ok (opdOK_str ok s hs (ih.chain nx (by omega) hnx))
      | var s nx hs hnx =>
        simp only [Node.var.sizeOf_spec] at hk
        exact exprOK_opd ok (opdOK_var ok s hs (ih.chain nx (by omega) hnx))
      | nat i hi => exact exprOK_opd ok (opdOK_int ok i hi)
      | neg i hi => exact exprOK_neg ok i hi
      | sign op x hop hx hn =>
        simp only [Node.unary.sizeOf_spec, Option.some.sizeOf_spec] at hk
        have hp := exprPrio (okExpr4_cases hx)
        refine exprOK_sign ok op x hop (ih.expr x (by omega) hx) hn ?_
        rw [sign_prio hop]
        cases hb : isBin x with
        | false => exact Or.inr rfl
        | true => left; have := hp.2.2.1 hb; simp only [decide_eq_true_eq]; omega
      | arith op l r hop hl hr =>
        simp only [Node.binary.sizeOf_spec, Option.some.sizeOf_spec] at hk
        have hpl := exprPrio (okExpr4_cases hl)
        have hpr := exprPrio (okExpr4_cases hr)
        rcases arith_split hop with hm | ha
        · refine exprOK_mul ok op l r hm (ih.expr l (by omega) hl) (ih.expr r (by omega) hr) ?_ ?_
          · rw [mul_prio hm]
            cases hb : isBin l with
            | false => exact Or.inr rfl
            | true => left; have := hpl.2.2.1 hb; simp only [decide_eq_true_eq]; omega
          · rw [mul_prio hm]
            cases hb : isBin r with
            | false => exact Or.inr rfl
            | true => left; have := hpr.2.2.1 hb; simp only [decide_eq_true_eq]; omega
        · refine exprOK_add ok op l r ha (ih.expr l (by omega) hl) (ih.expr r (by omega) hr) ?_ ?_
          · rw [add_prio ha]
            cases hb : isAddLevel l with
            | false => exact Or.inr rfl
            | true => left; have := hpl.2.2.2 hb; simp only [decide_eq_true_eq]; omega
          · rw [add_prio ha]
            cases hb : isAddLevel r with
            | false => exact Or.inr rfl
            | true => left; have := hpr.2.2.2 hb; simp only [decide_eq_true_eq]; omega
    · intro p hk h
      cases okPred4_cases h with
      | cmp op l r hop hl hr =>
        simp only [Node.binary.sizeOf_spec, Option.some.sizeOf_spec] at hk
        have hpl := exprPrio (okExpr4_cases hl)
        have hpr := exprPrio (okExpr4_cases hr)
        refine predOK_cmpE ok op l r hop (ih.expr l (by omega) hl) (ih.expr r (by omega) hr) ?_ ?_
        · rw [cmp_prio hop]; simp only [decide_eq_false_iff_not]; omega
        · rw [cmp_prio hop]; simp only [decide_eq_false_iff_not]; omega
      | logic op l r hop hl hr =>
        simp only [Node.binary.sizeOf_spec, Option.some.sizeOf_spec] at hk
        exact predOK_logic ok op l r hop (prio_facts4 (okPred4_cases hl)) (prio_facts4 (okPred4_cases hr))
          (ih.pred l (by omega) hl) (ih.pred r (by omega) hr)
      | starts l s isVar hl hs =>
        simp only [Node.binary.sizeOf_spec, Option.some.sizeOf_spec] at hk
        have hpl := exprPrio (okExpr4_cases hl)
        refine predOK_startsE ok l s isVar (ih.expr l (by omega) hl) hs ?_
        have : Print.binPriority .startsWith = 2 := rfl
        rw [this]; simp only [decide_eq_false_iff_not]; omega
      | not q hq =>
        simp only [Node.unary.sizeOf_spec, Option.some.sizeOf_spec] at hk
        exact predOK_not ok q (ih.pred q (by omega) hq)
      | exists_ x hx =>
        simp only [Node.unary.sizeOf_spec, Option.some.sizeOf_spec] at hk
        exact predOK_existsE ok x (ih.expr x (by omega) hx)
      | isUnknown q hq =>
        simp only [Node.unary.sizeOf_spec, Option.some.sizeOf_spec] at hk
        exact predOK_isUnknown ok q (ih.pred q (by omega) hq)
      | regex x pat fl hx hp hfl hok hacc =>
        simp only [Node.regex.sizeOf_spec] at hk
        have hpx := exprPrio (okExpr4_cases hx)
        exact predOK_regexE ok x pat fl (ih.expr x (by omega) hx) hp hfl hok hacc
          (by simp only [decide_eq_true_eq]; omega)
    · intro nx hk h
      cases nx with
      | none => exact chain_nil
      | some n =>
        simp only [Option.some.sizeOf_spec] at hk
        rcases okStep4_cases (by simpa [okNext4] using h) with ⟨h1, h2⟩ | ⟨p, nx', rfl, hp, hnx⟩
        · have := sizeOf_next_lt n
          exact chain_cons (stepOK_simple ok (simpleStep_cases h1)) (ih.chain n.next (by omega) h2)
        · simp only [Node.unary.sizeOf_spec, Option.some.sizeOf_spec] at hk
          exact chain_cons (stepOK_filter ok p nx' (ih.pred p (by omega) hp)) (ih.chain nx' (by omega) hnx)

/-- the round trip for an expression at the top level -/
theorem roundtrip_expr {n : Node} (hn : ExprOK o n) (hv : validate n = true) (lax : Bool) :
    ∃ txt, Print.toString o.isPrint ⟨n, lax, false⟩ = some txt ∧
      ∀ bytes, decodeAll bytes = txt.map Src.ch → parse o bytes = .ok ⟨n, lax, false⟩ := by
  obtain ⟨txt, tk, ts, hpr, hseg, hst, _, _, hunit⟩ := hn true
  obtain ⟨_, hha⟩ := hunit (Or.inl rfl)
  have hm := predStart_mode hst
  have key : ∀ f, 16 * (ts.length + 1) + 8 ≤ f →
      ∃ txt' toks', txt' = modeTxt lax ++ txt ∧ Lexes o txt' toks' ∧
        toks'.length ≤ txt'.length ∧ toks'.length ≤ ts.length + 2 ∧
        RunsV (StE o toks') (parseBody o f) (lax, false, evOf n) (StE o []) := by
    intro f hf'
    obtain ⟨f', rfl⟩ : ∃ f', f = f' + 3 := ⟨f - 3, by omega⟩
    refine body_mode ok lax hseg hm.1 hm.2 ⟨.expr (evOf n) .stop, [], ?_, RunsV.pure _⟩
    have := hha (f' + 2) .top [] (.expr (evOf n) .stop) (StE o []) (by omega) rfl (by decide) ?_
    · simpa using this
    · rw [exprTail_eq]
      rstep (arith_nil f' (evOf n) [] rfl rfl)
      exact (exprK_end (f' + 1) .top (by decide) (evOf n) [] (Or.inr rfl)).toE
  obtain ⟨txt', _, htxt', _, _, _, _⟩ := key _ (Nat.le_refl _)
  refine ⟨txt', by rw [htxt']; exact toString_eq _ _ _ _ _ hpr, ?_⟩
  intro bytes hb
  have hl : txt'.length ≤ bytes.length := by
    have := decodeAll_length bytes
    rw [hb] at this
    simpa using this
  have hlen : txt.length ≤ txt'.length := by rw [htxt']; simp
  have hts : ts.length + 1 ≤ txt.length := hseg.1.2.1
  obtain ⟨txt'', toks', htxt'', hlex, hlen1, hlen2, hr⟩ := key (fuelFor bytes) (by unfold fuelFor; omega)
  subst htxt''
  subst htxt'
  exact parse_of_body bytes _ toks' lax false (evOf n) hb hlex hr hv

end

/-- stage 4: a valid tree that is a stage-4 predicate (`pred = true`) or a stage-4 expression
    (`pred = false`), in either mode -/
def RT4 (o : Oracles) (a : AST) : Bool :=
  validate a.root && (if a.pred then okPred4 o a.root else okExpr4 o a.root)

section
variable {o : Oracles}

/-- **Stage 4.** -/
theorem roundtrip_stage4' (ok : OrOK o) (a : AST) (h : RT4 o a = true) :
    ∃ txt, Print.toString o.isPrint a = some txt ∧
      ∀ bytes, decodeAll bytes = txt.map Src.ch → parse o bytes = .ok a := by
  obtain ⟨root, lax, pred⟩ := a
  simp only [RT4, Bool.and_eq_true] at h
  obtain ⟨hv, hr⟩ := h
  cases pred with
  | true =>
    simp only [if_true] at hr
    exact roundtrip_pred ok ((allOK4 ok _).pred root (Nat.le_refl _) hr) hv lax
  | false =>
    simp only [Bool.false_eq_true, if_false] at hr
    exact roundtrip_expr ok ((allOK4 ok _).expr root (Nat.le_refl _) hr) hv lax

end

/-! ## The classes are nested: stage 2 ⊆ stage 3 ⊆ stage 4 -/

theorem noNulB_of {s : List Char} (h : NoNul s) : noNulB s = true := by
  simp only [noNulB, List.all_eq_true]
  intro c hc
  simpa using h c hc

theorem simpleStep_okStep4 {o : Oracles} {n : Node} (h : simpleStep n = true) (hn : okNext4 o n.next = true) :
    okStep4 o n = true := by
  cases simpleStep_cases h <;> simp_all [okStep4, simpleStep, Node.next]

theorem simpleStep_okStep3 {o : Oracles} {n : Node} (h : simpleStep n = true) (hn : okNext3 o n.next = true) :
    okStep3 o n = true := by
  cases simpleStep_cases h <;> simp_all [okStep3, simpleStep, Node.next]

structure Sub34 (o : Oracles) (k : Nat) : Prop where
  opd : ∀ n : Node, sizeOf n ≤ k → okOpd3 o n = true → okExpr4 o n = true
  pred : ∀ p : Node, sizeOf p ≤ k → okPred3 o p = true → okPred4 o p = true
  next : ∀ nx : Option Node, sizeOf nx ≤ k → okNext3 o nx = true → okNext4 o nx = true

theorem intOK_litOK {i : Int} (h : intOK i = true) : litOK i = true := by
  simp only [intOK, litOK, Bool.and_eq_true, decide_eq_true_eq] at h ⊢
  omega

theorem sub34 (o : Oracles) : ∀ k, Sub34 o k := by
  intro k
  induction k with
  | zero =>
    refine ⟨?_, ?_, ?_⟩
    · intro n hk _; have := sizeOf_node_pos n; omega
    · intro n hk _; have := sizeOf_node_pos n; omega
    · intro nx hk _
      cases nx with
      | none => rfl
      | some n => simp at hk
  | succ k ih =>
    refine ⟨?_, ?_, ?_⟩
    · intro n hk h
      cases okOpd3_cases h with
      | const c nx hc hnx =>
        simp only [Node.const.sizeOf_spec] at hk
        simp [okExpr4, hc, ih.next nx (by omega) hnx]
      | str s nx hs hnx =>
        simp only [Node.str.sizeOf_spec] at hk
        simp [okExpr4, noNulB_of hs, ih.next nx (by omega) hnx]
      | var s nx hs hnx =>
        simp only [Node.var.sizeOf_spec] at hk
        simp [okExpr4, noNulB_of hs, ih.next nx (by omega) hnx]
      | int i hi => simp [okExpr4, intOK_litOK hi]
    · intro p hk h
      cases okPred3_cases h with
      | cmp op l r hop hl hr =>
        simp only [Node.binary.sizeOf_spec, Option.some.sizeOf_spec] at hk
        simp [okPred4, hop, ih.opd l (by omega) hl, ih.opd r (by omega) hr]
      | logic op l r hop hl hr =>
        simp only [Node.binary.sizeOf_spec, Option.some.sizeOf_spec] at hk
        have hnc : isCmp op = false := by cases op <;> simp [isLogic] at hop <;> rfl
        simp [okPred4, hop, hnc, ih.pred l (by omega) hl, ih.pred r (by omega) hr]
      | starts l s hl hs =>
        simp only [Node.binary.sizeOf_spec, Option.some.sizeOf_spec] at hk
        simp [okPred4, isCmp, isLogic, strOrVar?, noNulB_of hs, ih.opd l (by omega) hl]
      | startsVar l s hl hs =>
        simp only [Node.binary.sizeOf_spec, Option.some.sizeOf_spec] at hk
        simp [okPred4, isCmp, isLogic, strOrVar?, noNulB_of hs, ih.opd l (by omega) hl]
      | not q hq =>
        simp only [Node.unary.sizeOf_spec, Option.some.sizeOf_spec] at hk
        simp [okPred4, ih.pred q (by omega) hq]
      | exists_ x hx =>
        simp only [Node.unary.sizeOf_spec, Option.some.sizeOf_spec] at hk
        simp [okPred4, ih.opd x (by omega) hx]
      | isUnknown q hq =>
        simp only [Node.unary.sizeOf_spec, Option.some.sizeOf_spec] at hk
        simp [okPred4, ih.pred q (by omega) hq]
      | regex x pat fl hx hp hfl hok hacc =>
        simp only [Node.regex.sizeOf_spec] at hk
        simp [okPred4, ih.opd x (by omega) hx, noNulB_of hp, hok, hacc]
    · intro nx hk h
      cases nx with
      | none => rfl
      | some n =>
        simp only [Option.some.sizeOf_spec] at hk
        rcases okStep3_cases (by simpa [okNext3] using h) with ⟨h1, h2⟩ | ⟨p, nx', rfl, hp, hnx⟩
        · have := sizeOf_next_lt n
          simp only [okNext4]
          exact simpleStep_okStep4 h1 (ih.next n.next (by omega) h2)
        · simp only [Node.unary.sizeOf_spec, Option.some.sizeOf_spec] at hk
          simp [okNext4, okStep4, ih.pred p (by omega) hp, ih.next nx' (by omega) hnx]

/-- stage 3 is part of stage 4 -/
theorem RT3_RT4 (o : Oracles) (a : AST) (h : RT3 o a = true) : RT4 o a = true := by
  obtain ⟨root, lax, pred⟩ := a
  simp only [RT3, RT4, Bool.and_eq_true] at h ⊢
  refine ⟨h.1, ?_⟩
  cases pred with
  | true => simpa using (sub34 o _).pred root (Nat.le_refl _) (by simpa using h.2)
  | false => simpa using (sub34 o _).opd root (Nat.le_refl _) (by simpa using h.2)

structure Sub23 (o : Oracles) (k : Nat) : Prop where
  opd : ∀ n : Node, sizeOf n ≤ k → okOpd n = true → okOpd3 o n = true
  pred : ∀ p : Node, sizeOf p ≤ k → okPred p = true → okPred3 o p = true
  next : ∀ nx : Option Node, sizeOf nx ≤ k → okNext nx = true → okNext3 o nx = true

theorem sub23 (o : Oracles) : ∀ k, Sub23 o k := by
  intro k
  induction k with
  | zero =>
    refine ⟨?_, ?_, ?_⟩
    · intro n hk _; have := sizeOf_node_pos n; omega
    · intro n hk _; have := sizeOf_node_pos n; omega
    · intro nx hk _
      cases nx with
      | none => rfl
      | some n => simp at hk
  | succ k ih =>
    refine ⟨?_, ?_, ?_⟩
    · intro n hk h
      cases okOpd_cases h with
      | const c nx hc hnx =>
        simp only [Node.const.sizeOf_spec] at hk
        simp [okOpd3, hc, ih.next nx (by omega) hnx]
      | str s nx hs hnx =>
        simp only [Node.str.sizeOf_spec] at hk
        simp [okOpd3, noNulB_of hs, ih.next nx (by omega) hnx]
      | int i hi => simp [okOpd3, hi]
    · intro p hk h
      cases okPred_cases h with
      | cmp op l r hop hl hr =>
        simp only [Node.binary.sizeOf_spec, Option.some.sizeOf_spec] at hk
        simp [okPred3, hop, ih.opd l (by omega) hl, ih.opd r (by omega) hr]
      | logic op l r hop hl hr =>
        simp only [Node.binary.sizeOf_spec, Option.some.sizeOf_spec] at hk
        have hnc : isCmp op = false := by cases op <;> simp [isLogic] at hop <;> rfl
        simp [okPred3, hop, hnc, ih.pred l (by omega) hl, ih.pred r (by omega) hr]
      | starts l s hl hs =>
        simp only [Node.binary.sizeOf_spec, Option.some.sizeOf_spec] at hk
        simp [okPred3, isCmp, isLogic, strOrVar?, noNulB_of hs, ih.opd l (by omega) hl]
      | not q hq =>
        simp only [Node.unary.sizeOf_spec, Option.some.sizeOf_spec] at hk
        simp [okPred3, ih.pred q (by omega) hq]
      | exists_ x hx =>
        simp only [Node.unary.sizeOf_spec, Option.some.sizeOf_spec] at hk
        simp [okPred3, ih.opd x (by omega) hx]
      | isUnknown q hq =>
        simp only [Node.unary.sizeOf_spec, Option.some.sizeOf_spec] at hk
        simp [okPred3, ih.pred q (by omega) hq]
    · intro nx hk h
      cases nx with
      | none => rfl
      | some n =>
        simp only [Option.some.sizeOf_spec] at hk
        rcases okStep_cases (by simpa [okNext] using h) with ⟨h1, h2⟩ | ⟨p, nx', rfl, hp, hnx⟩
        · have := sizeOf_next_lt n
          simp only [okNext3]
          exact simpleStep_okStep3 h1 (ih.next n.next (by omega) h2)
        · simp only [Node.unary.sizeOf_spec, Option.some.sizeOf_spec] at hk
          simp [okNext3, okStep3, ih.pred p (by omega) hp, ih.next nx' (by omega) hnx]

/-- stage 2 is part of stage 3 -/
theorem RT2_RT3 (o : Oracles) (a : AST) (h : RT2 a = true) : RT3 o a = true := by
  obtain ⟨root, lax, pred⟩ := a
  simp only [RT2, RT3, Bool.and_eq_true, Bool.not_eq_true'] at h ⊢
  obtain ⟨⟨hp, hv⟩, hr⟩ := h
  try simp only at hp hv hr
  subst hp
  refine ⟨hv, ?_⟩
  simp only [Bool.false_eq_true, if_false]
  split at hr
  · rename_i nx
    simp [okOpd3, isOpdConst, (sub23 o _).next nx (Nat.le_refl _) hr]
  · simp at hr

/-! ## Stage 5: `.time()` family and `.decimal()` -/

def isTimeOp (op : UnOp) : Bool := op == .time || op == .timeTZ || op == .timestamp || op == .timestampTZ

def timeName : UnOp → List Char
  | .time => ['t', 'i', 'm', 'e']
  | .timeTZ => ['t', 'i', 'm', 'e', '_', 't', 'z']
  | .timestamp => ['t', 'i', 'm', 'e', 's', 't', 'a', 'm', 'p']
  | _ => ['t', 'i', 'm', 'e', 's', 't', 'a', 'm', 'p', '_', 't', 'z']

def timeKind : UnOp → Tok
  | .time => .time
  | .timeTZ => .timeTz
  | .timestamp => .timestamp
  | _ => .timestampTz

def tTime (op : UnOp) : TT := (timeKind op, timeName op)

theorem time_facts {op : UnOp} (h : isTimeOp op = true) :
    precisionOp (timeKind op) = some op ∧ timeKind op ≠ .star ∧ timeKind op ≠ .any ∧
      isPlainKeyName (timeKind op) = false ∧ methodOf (timeKind op) = none ∧ timeKind op ≠ .decimal ∧
      timeKind op ≠ .date ∧ timeKind op ≠ .datetime ∧ timeKind op ≠ .stop ∧
      Print.unStr op = '.' :: timeName op ∧
      ∃ c w, timeName op = c :: w ∧ (c :: w, timeKind op) ∈ kwList := by
  cases op <;> simp [isTimeOp] at h <;>
    exact ⟨rfl, by decide, by decide, by decide, by decide, by decide, by decide, by decide, by decide, by decide,
      _, _, rfl, by decide⟩

section
variable {o : Oracles}

/-- `.time()` and friends, without precision -/
theorem accOp_time0 (f : Nat) (op : UnOp) (hop : isTimeOp op = true) (rest : List TT) :
    RunsV (StP o (tDot :: tTime op :: tLp :: tRp :: rest)) (accessorOp o (f + 1) .dot) (.unary op none none)
      (StE o rest) := by
  have hf := time_facts hop
  rw [accessorOp]
  rstep (consume_spec _ _)
  simp only [reduceCtorEq, ↓reduceIte]
  rstep (peek_cons _ _)
  simp only [tTime, hf.2.1, hf.2.2.1, hf.2.2.2.1, hf.2.2.2.2.1, hf.2.2.2.2.2.1, hf.2.2.2.2.2.2.1, hf.2.2.2.2.2.2.2.1,
    hf.1, ↓reduceIte, Bool.false_eq_true]
  rstep (consume_spec _ _)
  rstep (peek_cons _ _)
  simp only [tLp, ↓reduceIte]
  rstep (consume_spec _ _)
  rstep (peek_cons _ _)
  simp only [tRp, reduceCtorEq, ↓reduceIte]
  rstep (expect_spec _ _ _).ofE
  exact RunsV.pure _

/-- `.time(p)` and friends -/
theorem accOp_time1 (f : Nat) (op : UnOp) (hop : isTimeOp op = true) (p : Int) (hp : intOK p = true)
    (rest : List TT) :
    RunsV (StP o (tDot :: tTime op :: tLp :: tInt p.toNat :: tRp :: rest)) (accessorOp o (f + 1) .dot)
      (.unary op (some (.integer p none)) none) (StE o rest) := by
  have hf := time_facts hop
  obtain ⟨h1, h2⟩ := intOK_toNat hp
  rw [accessorOp]
  rstep (consume_spec _ _)
  simp only [reduceCtorEq, ↓reduceIte]
  rstep (peek_cons _ _)
  simp only [tTime, hf.2.1, hf.2.2.1, hf.2.2.2.1, hf.2.2.2.2.1, hf.2.2.2.2.2.1, hf.2.2.2.2.2.2.1, hf.2.2.2.2.2.2.2.1,
    hf.1, ↓reduceIte, Bool.false_eq_true]
  rstep (consume_spec _ _)
  rstep (peek_cons _ _)
  simp only [tLp, ↓reduceIte]
  rstep (consume_spec _ _)
  rstep (peek_cons _ _)
  simp only [tInt, ↓reduceIte]
  rstep (consume_spec _ _)
  rw [newInteger_toDigits _ h2]
  rstep (RunsV.pure _)
  rstep (expect_spec _ _ _)
  exact RunsV.pure' (by simp [h1]) (fun _ h => h)

/-! ### `.decimal(…)` -/

def tDecimal : TT := (.decimal, ['d', 'e', 'c', 'i', 'm', 'a', 'l'])

/-- the tokens of one signed integer argument -/
def csvToks (i : Int) : List TT := if i < 0 then [tMinus, tInt i.natAbs] else [tInt i.natAbs]

theorem csvToks_head (i : Int) : ∃ tk ts, csvToks i = tk :: ts ∧ (tk.1 = .int ∨ tk.1 = .minus) ∧ tk.1 ≠ .rparen := by
  unfold csvToks
  split
  · exact ⟨tMinus, _, rfl, Or.inr rfl, by decide⟩
  · exact ⟨tInt _, _, rfl, Or.inl rfl, by simp [tInt]⟩

/-- one argument of `.decimal(…)` -/
theorem csvElem_spec (i : Int) (hi : litOK i = true) (rest : List TT) :
    RunsV (StP o (csvToks i ++ rest)) (csvElem o (hd (csvToks i))) (.integer i none) (StE o rest) := by
  simp only [litOK, Bool.and_eq_true, decide_eq_true_eq] at hi
  unfold csvToks
  split
  · rename_i hneg
    simp only [hd, List.cons_append, List.nil_append, tMinus]
    rw [csvElem]
    simp only [reduceCtorEq, ↓reduceIte]
    rstep (consume_spec _ _)
    rstep (peek_cons _ _)
    simp only [tInt, ne_eq, not_true_eq_false, ↓reduceIte]
    rstep (consume_spec _ _)
    rw [newInteger_toDigits _ (by omega)]
    rstep (RunsV.pure _)
    try simp only [reduceCtorEq, ↓reduceIte]
    unfold newUnaryOrNumber
    simp only [Node.next, Option.isNone_none, ↓reduceIte, reduceCtorEq]
    unfold astNewInteger
    rw [negLit_toDigits, parseInt0_neg_toDigits _ (by omega)]
    have e3 : -(i.natAbs : Int) = i := by omega
    rstep (RunsV.pure _)
    exact RunsV.pure' (by simp [e3]) (fun _ h => h)
  · rename_i hneg
    simp only [hd, List.cons_append, List.nil_append, tInt]
    rw [csvElem]
    simp only [↓reduceIte]
    rstep (consume_spec _ _)
    rw [newInteger_toDigits _ (by omega)]
    rstep (RunsV.pure _)
    have e3 : (i.natAbs : Int) = i := by omega
    exact RunsV.pure' (by simp [e3]) (fun _ h => h)

theorem csvMore_nil (f : Nat) (acc : List Node) (rest : List TT) (h : (hd rest).1 ≠ .comma) :
    RunsV (StE o rest) (csvMore o (f + 1) acc) acc (StA o rest) := by
  rw [csvMore]
  rstep (peek_any rest)
  simp only [h, ↓reduceIte]
  exact RunsV.pure _

/-- the argument lists the printer writes: none, one, or two signed integers -/
def decArgsToks : Option Node → Option Node → List TT
  | some (.integer a _), some (.integer b _) => csvToks a ++ tComma :: csvToks b
  | some (.integer a _), none => csvToks a
  | _, _ => []

def okDecArgs : Option Node → Option Node → Bool
  | none, none => true
  | some (.integer a none), none => litOK a
  | some (.integer a none), some (.integer b none) => litOK a && litOK b
  | _, _ => false

theorem accOp_decimal (f : Nat) (l r : Option Node) (h : okDecArgs l r = true) (rest : List TT) :
    RunsV (StP o (tDot :: tDecimal :: tLp :: (decArgsToks l r ++ tRp :: rest))) (accessorOp o (f + 5) .dot)
      (.binary .decimal l r none) (StE o rest) := by
  have pre : ∀ (w : Node) (post : PS → Prop) (ts : List TT),
      RunsV (StE o ts) (do
        let args ← csvList o (f + 4)
        expect o .rparen
        match args with
        | [] => pure (Node.binary .decimal none none none)
        | [a] => pure (.binary .decimal (some a) none none)
        | [a, b] => pure (.binary .decimal (some a) (some b) none)
        | _ => do
          recordError
          pure (.binary .decimal none none none)) w post →
      RunsV (StP o (tDot :: tDecimal :: tLp :: ts)) (accessorOp o (f + 5) .dot) w post := by
    intro w post ts hk
    rw [accessorOp]
    rstep (consume_spec _ _)
    simp only [reduceCtorEq, ↓reduceIte]
    rstep (peek_cons _ _)
    simp only [tDecimal, reduceCtorEq, ↓reduceIte, isPlainKeyName, methodOf, decide_false, Bool.or_self,
      Bool.false_eq_true]
    rstep (consume_spec _ _)
    rstep (peek_cons _ _)
    simp only [tLp, ↓reduceIte]
    rstep (consume_spec _ _)
    exact hk
  apply pre
  unfold okDecArgs at h
  split at h
  · -- no argument
    simp only [decArgsToks, List.nil_append]
    have hc : RunsV (StE o (tRp :: rest)) (csvList o (f + 4)) [] (StA o (tRp :: rest)) := by
      rw [csvList]
      rstep (peek_cons _ _)
      simp only [tRp, reduceCtorEq, decide_false, Bool.or_self, Bool.false_eq_true, ↓reduceIte]
      exact RunsV.pure _
    rstep hc
    rstep (expect_spec _ _ _).ofE
    exact RunsV.pure _
  · -- one argument
    rename_i a
    obtain ⟨tk, ts, htk, hk1, _⟩ := csvToks_head a
    have he := csvElem_spec (o := o) a h (tRp :: rest)
    simp only [decArgsToks]
    rw [htk] at he ⊢
    have hc : RunsV (StE o (tk :: ts ++ tRp :: rest)) (csvList o (f + 4)) [.integer a none] (StA o (tRp :: rest)) := by
      rw [csvList]
      rstep (peek_cons _ _)
      obtain ⟨t, x⟩ := tk
      simp only at hk1
      have : (decide (t = Tok.int) || decide (t = Tok.plus) || decide (t = Tok.minus)) = true := by
        rcases hk1 with h | h <;> subst h <;> rfl
      simp only [this, ↓reduceIte]
      simp only [hd] at he
      rstep he
      exact (csvMore_nil (f + 2) _ _ (by simp [hd, tRp]))
    rstep hc
    rstep (expect_spec _ _ _).ofE
    exact RunsV.pure _
  · -- two arguments
    rename_i a b
    simp only [Bool.and_eq_true] at h
    obtain ⟨tk, ts, htk, hk1, _⟩ := csvToks_head a
    obtain ⟨tk2, ts2, htk2, hk2, _⟩ := csvToks_head b
    have he := csvElem_spec (o := o) a h.1 (tComma :: csvToks b ++ tRp :: rest)
    have he2 := csvElem_spec (o := o) b h.2 (tRp :: rest)
    simp only [decArgsToks]
    rw [htk] at he ⊢
    rw [htk2] at he he2 ⊢
    have hc : RunsV (StE o (tk :: ts ++ tComma :: tk2 :: ts2 ++ tRp :: rest)) (csvList o (f + 4))
        [.integer a none, .integer b none] (StA o (tRp :: rest)) := by
      rw [csvList]
      simp only [List.cons_append, List.append_assoc]
      rstep (peek_cons _ _)
      obtain ⟨t, x⟩ := tk
      simp only at hk1
      have : (decide (t = Tok.int) || decide (t = Tok.plus) || decide (t = Tok.minus)) = true := by
        rcases hk1 with h | h <;> subst h <;> rfl
      simp only [this, ↓reduceIte]
      simp only [hd, List.cons_append, List.append_assoc] at he
      rstep he
      rw [csvMore]
      rstep (peek_cons _ _)
      simp only [tComma, ↓reduceIte]
      rstep (consume_spec _ _)
      rstep (peek_cons _ _)
      obtain ⟨t2, x2⟩ := tk2
      simp only at hk2
      have : (decide (t2 = Tok.int) || decide (t2 = Tok.plus) || decide (t2 = Tok.minus)) = true := by
        rcases hk2 with h | h <;> subst h <;> rfl
      simp only [this, ↓reduceIte]
      simp only [hd, List.cons_append] at he2
      rstep he2
      exact (csvMore_nil (f + 1) _ _ (by simp [hd, tRp]))
    simp only [List.cons_append, List.append_assoc] at hc ⊢
    rstep hc
    rstep (expect_spec _ _ _).ofE
    exact RunsV.pure _
  · simp at h

end

/-! ## Stage 5: the new accessors as `StepOK` -/

theorem formatInt_nonneg {i : Int} (h : intOK i = true) : Decimal.formatInt i = Nat.toDigits 10 i.toNat := by
  simp only [intOK, Bool.and_eq_true, decide_eq_true_eq] at h
  have hneg : ¬ i < 0 := by omega
  have : i.natAbs = i.toNat := by omega
  simp [Decimal.formatInt, Decimal.formatNat, hneg, this]

/-- the text of one signed integer argument -/
def csvTxt (i : Int) : List Char := if i < 0 then '-' :: Nat.toDigits 10 i.natAbs else Nat.toDigits 10 i.natAbs

theorem formatInt_csv (i : Int) : Decimal.formatInt i = csvTxt i := by
  unfold Decimal.formatInt Decimal.formatNat csvTxt
  rfl

section
variable {o : Oracles} (ok : OrOK o)
include ok

theorem seg_csv (i : Int) : Seg o brk (csvTxt i) (csvToks i) := by
  unfold csvTxt csvToks
  split
  · have := Seg.app o (seg2_minus o ok).1 (seg_nat o ok i.natAbs) (fun _ _ => trivial)
    simpa using this
  · exact seg_nat o ok i.natAbs

theorem stepOK_time0 (op : UnOp) (hop : isTimeOp op = true) (nx : Option Node) :
    StepOK o (.unary op none nx) := by
  have hf := time_facts hop
  obtain ⟨c, w, hcw, hkw⟩ := hf.2.2.2.2.2.2.2.2.2.2
  have hseg := seg_dot_kw_call o ok c w (timeKind op) hkw hf.2.2.2.2.2.2.2.2.1
  refine ⟨'.' :: ((c :: w) ++ ['(', ')']), .dot, ['.'], [(timeKind op, c :: w), tLp, tRp], '.', _, ?_, ?_, rfl,
    Or.inr (Or.inl rfl), rfl, ?_⟩
  · intro wp
    have hu := hf.2.2.2.2.2.2.2.2.2.1
    rw [hcw] at hu
    cases op <;> simp [isTimeOp] at hop <;>
      (rw [Print.writeTo]; simp only [Node.next, Print.stringOpt, hu]
       generalize Print.writeNext o.isPrint nx = wn
       cases wn <;> simp)
  · exact (Seg.weak o ok hseg)
  · intro rest f _ hf'
    obtain ⟨f', rfl⟩ : ∃ f', f = f' + 1 := ⟨f - 1, by omega⟩
    have := accOp_time0 (o := o) f' op hop rest
    simp only [tTime, hcw] at this
    exact this

theorem stepOK_time1 (op : UnOp) (hop : isTimeOp op = true) (p : Int) (hp : intOK p = true) (nx : Option Node) :
    StepOK o (.unary op (some (.integer p none)) nx) := by
  have hf := time_facts hop
  obtain ⟨c, w, hcw, hkw⟩ := hf.2.2.2.2.2.2.2.2.2.2
  obtain ⟨c', w', h1, h2⟩ := kw_shape (c :: w, timeKind op) hkw
  injection h1 with h1a h1b
  subst h1a
  have hd' : isDecimalR (some c) = false := (isLow_facts c h2).2.2.2.2
  have hseg : Seg o CT ('.' :: ((c :: w) ++ '(' :: (Nat.toDigits 10 p.toNat ++ [')'])))
      [tDot, (timeKind op, c :: w), tLp, tInt p.toNat, tRp] := by
    have h3 := Seg.app_cons o (seg_nat o ok p.toNat) (seg_rp o ok) brk_rp
    have h4 := Seg.app o (seg_lp o ok) h3 (fun _ _ => trivial)
    have h5 := Seg.app_cons o (seg_kw o ok c w (timeKind op) hkw hf.2.2.2.2.2.2.2.2.1) h4
      (identCont_punct o ok '(' (by decide))
    have h6 := Seg.app_cons o (seg_dot o ok) h5 hd'
    simpa using h6
  refine ⟨'.' :: ((c :: w) ++ '(' :: (Nat.toDigits 10 p.toNat ++ [')'])), .dot, ['.'],
    [(timeKind op, c :: w), tLp, tInt p.toNat, tRp], '.', _, ?_, ?_, rfl, Or.inr (Or.inl rfl), rfl, ?_⟩
  · intro wp
    have hu := hf.2.2.2.2.2.2.2.2.2.1
    rw [hcw] at hu
    have hfi := formatInt_nonneg hp
    cases op <;> simp [isTimeOp] at hop <;>
      (rw [Print.writeTo]; simp only [Node.next, Print.stringOpt, Print.simpleString?, hu, hfi]
       generalize Print.writeNext o.isPrint nx = wn
       cases wn <;> simp)
  · exact (Seg.weak o ok hseg)
  · intro rest f _ hf'
    obtain ⟨f', rfl⟩ : ∃ f', f = f' + 1 := ⟨f - 1, by omega⟩
    have := accOp_time1 (o := o) f' op hop p hp rest
    simp only [tTime, hcw] at this
    exact this

/-- the text of the arguments of `.decimal(…)` -/
def decArgsTxt : Option Node → Option Node → List Char
  | some (.integer a _), some (.integer b _) => csvTxt a ++ ',' :: csvTxt b
  | some (.integer a _), none => csvTxt a
  | _, _ => []

theorem seg_decArgs (l r : Option Node) (h : okDecArgs l r = true) :
    Seg o brk (decArgsTxt l r) (decArgsToks l r) := by
  unfold okDecArgs at h
  split at h
  · exact Seg.nil o _
  · exact seg_csv ok _
  · rename_i a b
    have h1 := Seg.app o (seg_comma o ok) (seg_csv ok b) (fun _ _ => trivial)
    have h2 := Seg.app_cons o (seg_csv ok a) h1 (Or.inr (Or.inr (Or.inr (Or.inr (Or.inl rfl)))))
    simpa [decArgsTxt, decArgsToks] using h2
  · simp at h

theorem decArgsToks_length (l r : Option Node) : (decArgsToks l r).length ≤ 5 := by
  unfold decArgsToks
  split <;> simp [csvToks] <;> (repeat' split) <;> simp

theorem stepOK_decimal (l r nx : Option Node) (h : okDecArgs l r = true) :
    StepOK o (.binary .decimal l r nx) := by
  have hs := seg_decArgs ok l r h
  have hseg : Seg o CT ('.' :: 'd' :: 'e' :: 'c' :: 'i' :: 'm' :: 'a' :: 'l' :: '(' :: (decArgsTxt l r ++ [')']))
      (tDot :: tDecimal :: tLp :: (decArgsToks l r ++ [tRp])) := by
    have h3 := Seg.app_cons o hs (seg_rp o ok) brk_rp
    have h4 := Seg.app o (seg_lp o ok) h3 (fun _ _ => trivial)
    have h5 := Seg.app_cons o (seg_kw o ok 'd' ['e', 'c', 'i', 'm', 'a', 'l'] .decimal (by decide) (by decide)) h4
      (identCont_punct o ok '(' (by decide))
    have h6 := Seg.app_cons o (seg_dot o ok) h5 (by decide)
    simpa [tDecimal] using h6
  refine ⟨_, .dot, ['.'], tDecimal :: tLp :: (decArgsToks l r ++ [tRp]), '.', _, ?_, Seg.weak o ok hseg, rfl,
    Or.inr (Or.inl rfl), rfl, ?_⟩
  · intro wp
    have e : ".decimal(".toList = ['.', 'd', 'e', 'c', 'i', 'm', 'a', 'l', '('] := by decide
    unfold okDecArgs at h
    split at h
    · rw [Print.writeTo]; simp only [Node.next, Print.stringOpt, e, decArgsTxt]
      generalize Print.writeNext o.isPrint nx = wn
      cases wn <;> simp
    · rw [Print.writeTo]; simp only [Node.next, Print.stringOpt, Print.simpleString?, e, decArgsTxt, formatInt_csv]
      generalize Print.writeNext o.isPrint nx = wn
      cases wn <;> simp
    · rw [Print.writeTo]; simp only [Node.next, Print.stringOpt, Print.simpleString?, e, decArgsTxt, formatInt_csv]
      generalize Print.writeNext o.isPrint nx = wn
      cases wn <;> simp
    · simp at h
  · intro rest f _ hf'
    simp only [List.length_cons, List.length_append, List.length_nil] at hf'
    obtain ⟨f', rfl⟩ : ∃ f', f = f' + 5 := ⟨f - 5, by omega⟩
    have := accOp_decimal (o := o) f' l r h rest
    simpa [Node.setNext, tDot] using this

end

/-! ## Stage 5: subscripts with arbitrary expressions -/

/-- the part of `indexList` after one element has been built -/
def indexK (o : Oracles) (f : Nat) (acc : List Node) (elem : Node) : P (List Node) := do
  let (t3, _) ← peek o
  if t3 = .comma then do
    consume
    let t4 ← peek o
    if t4.1 = .stop then syn
    else indexList o f t4 (acc ++ [elem])
  else if t3 = .rbrack then do
    consume
    pure (acc ++ [elem])
  else syn

/-- the part of `indexList` after the first bound and its arithmetic -/
def indexElemK (o : Oracles) (f : Nat) (acc : List Node) (e : EV) (t2 : Tok) : P (List Node) :=
  if t2 = .to then do
    consume
    let u2 ← parseUnary o f
    let (e2, _) ← arithLoop o f u2
    indexK o f acc (Node.binary .subscript (some e.node) (some e2.node) none)
  else indexK o f acc (Node.binary .subscript (some e.node) none none)

theorem indexList_eq (o : Oracles) (f : Nat) (t : TT) (acc : List Node) :
    indexList o (f + 1) t acc
      = (parseUnaryT o f t >>= fun u => arithLoop o f u >>= fun p => indexElemK o f acc p.1 p.2) := by
  rw [indexList]
  rfl

section
variable {o : Oracles}

theorem indexK_last (f : Nat) (acc : List Node) (elem : Node) (rest : List TT) :
    RunsV (StA o (tRb :: rest)) (indexK o f acc elem) (acc ++ [elem]) (StE o rest) := by
  unfold indexK
  rstep (peek_cons _ _)
  simp only [tRb, reduceCtorEq, ↓reduceIte]
  rstep (consume_spec _ _)
  exact RunsV.pure _

theorem indexK_more (f : Nat) (acc : List Node) (elem : Node) (tk : TT) (more : List TT) (htk : tk.1 ≠ .stop)
    (w : List Node) (post : PS → Prop)
    (h : RunsV (StP o (tk :: more)) (indexList o f tk (acc ++ [elem])) w post) :
    RunsV (StA o (tComma :: tk :: more)) (indexK o f acc elem) w post := by
  unfold indexK
  rstep (peek_cons _ _)
  simp only [tComma, ↓reduceIte]
  rstep (consume_spec _ _)
  rstep (peek_cons _ _)
  simp only [htk, ↓reduceIte]
  exact h

/-- `indexList` on the tokens of one subscript goes on with `indexK` -/
def SubRun (o : Oracles) (s : Node) (tk : TT) (ts : List TT) : Prop :=
  ∀ f acc more (w : List Node) (post : PS → Prop), 16 * (ts.length + 1) + 8 ≤ f →
    ((hd more).1 = .comma ∨ (hd more).1 = .rbrack) →
    RunsV (StA o more) (indexK o f acc s) w post →
    RunsV (StP o (tk :: ts ++ more)) (indexList o (f + 1) tk acc) w post

theorem sepFollow {t : Tok} (h : t = .comma ∨ t = .rbrack) : EFollow t ∧ t ≠ .to := by
  rcases h with h | h <;> subst h <;> exact ⟨⟨rfl, by decide, rfl, rfl⟩, by decide⟩

/-- the head unit with `parseUnaryT`, then the loop -/
theorem expr_fullT {e : Node} {tk : TT} {ts : List TT} {p q : Prop} (h : ESpec o e tk ts p q)
    (g : Nat) (rest : List TT) (hg : 16 * (ts.length + 1) + 8 ≤ g) (hfol : EFollow (hd rest).1) :
    ∃ (u : EV) (mid : List TT),
      RunsV (StP o (tk :: ts ++ rest)) (parseUnaryT o g tk) u (StA o mid) ∧
      RunsV (StA o mid) (arithLoop o g u) (evOf e, (hd rest).1) (StA o rest) := by
  obtain ⟨⟨x, tsH, M, hts, hmh, hopd, _, hl2, _⟩, _, _⟩ := h
  subst hts
  simp only [List.length_append] at hg
  have hm := hmh rest hfol.1 hfol.2.1
  have hrun := hopd g (M ++ rest) (by omega) hm.1 hm.2
  refine ⟨evOf x, M ++ rest, by simpa using hrun, ?_⟩
  refine hl2 g rest _ _ (by omega) hfol.1 hfol.2.1 hfol.2.2.2 ?_
  intro g1 h1 h2
  obtain ⟨g2, rfl⟩ : ∃ g2, g1 = g2 + 1 := ⟨g1 - 1, by omega⟩
  exact arith_nil g2 _ rest hfol.2.2.1 hfol.2.2.2

/-- a single bound -/
theorem subRun_one {l : Node} {tk : TT} {ts : List TT} {p q : Prop} (hl : ESpec o l tk ts p q) :
    SubRun o (.binary .subscript (some l) none none) tk ts := by
  intro f acc more w post hf hsep hk
  have hs := sepFollow hsep
  obtain ⟨u, mid, h1, h2⟩ := expr_fullT hl f more hf hs.1
  rw [indexList_eq]
  rstep h1
  rstep h2
  simp only [indexElemK, hs.2, ↓reduceIte, evOf_node]
  exact hk

/-- a range `l to r` -/
theorem subRun_two {l r : Node} {tkl tkr : TT} {tsl tsr : List TT} {p q p' q' : Prop}
    (hl : ESpec o l tkl tsl p q) (hr : ESpec o r tkr tsr p' q') :
    SubRun o (.binary .subscript (some l) (some r) none) tkl (tsl ++ tTo :: tkr :: tsr) := by
  intro f acc more w post hf hsep hk
  simp only [List.length_cons, List.length_append] at hf
  have hs := sepFollow hsep
  obtain ⟨u, mid, h1, h2⟩ := expr_fullT hl f (tTo :: tkr :: (tsr ++ more)) (by omega) ⟨rfl, by simp [hd, tTo], rfl, rfl⟩
  obtain ⟨u2, mid2, h3, h4⟩ := expr_full hr f more (by omega) hs.1
  rw [indexList_eq]
  simp only [List.cons_append, List.append_assoc] at h1 ⊢
  rstep h1
  rstep h2
  simp only [hd, tTo, indexElemK, ↓reduceIte, evOf_node]
  rstep (consume_spec _ _)
  simp only [List.cons_append] at h3
  rstep h3
  rstep h4
  exact hk

end

/-- a subscript: text, tokens, and `indexList` on them -/
def SubOK (o : Oracles) (s : Node) : Prop :=
  ∃ (txt : List Char) (tk : TT) (ts : List TT),
    Print.writeTo o.isPrint s false false = some txt ∧ Seg o brk txt (tk :: ts) ∧ isPredStart tk.1 = true ∧
    SubRun o s tk ts

theorem predStart_sub {t : Tok} (h : isPredStart t = true) : t ≠ .star ∧ t ≠ .stop := by
  constructor <;> (intro hh; subst hh; revert h; decide)

section
variable {o : Oracles} (ok : OrOK o)
include ok

theorem subOK_one (l : Node) (hl : ExprOK o l) : SubOK o (.binary .subscript (some l) none none) := by
  obtain ⟨txt, tk, ts, hpr, hseg, hst, hsp⟩ := hl false
  refine ⟨txt, tk, ts, ?_, hseg.1, hst, subRun_one hsp⟩
  simp [Print.writeTo, Print.writeOpd, Print.writeNext, hpr]

theorem subOK_two (l r : Node) (hl : ExprOK o l) (hr : ExprOK o r) :
    SubOK o (.binary .subscript (some l) (some r) none) := by
  obtain ⟨ltxt, tkl, tsl, hprl, hsegl, hstl, hspl⟩ := hl false
  obtain ⟨rtxt, tkr, tsr, hprr, hsegr, _, hspr⟩ := hr false
  refine ⟨ltxt ++ ' ' :: 't' :: 'o' :: ' ' :: rtxt, tkl, tsl ++ tTo :: tkr :: tsr, ?_, ?_, hstl, subRun_two hspl hspr⟩
  · have e : " to ".toList = [' ', 't', 'o', ' '] := by decide
    simp [Print.writeTo, Print.writeOpd, Print.writeNext, hprl, hprr, e]
  · have h2 := Seg.app_cons o (seg_sp_to o ok) hsegr.2 (identCont_punct o ok ' ' (by decide))
    have h3 := Seg.app_cons o hsegl.1 h2 brk_sp
    simpa using h3

end

/-! ### the whole index list -/

section
variable {o : Oracles}

/-- all subscripts of a list: text, tokens, and `indexList` -/
def SubsOK (o : Oracles) (subs : List Node) : Prop :=
  ∃ (txt : List Char) (tk : TT) (ts : List TT),
    Print.writeSubs o.isPrint subs true = some txt ∧
    Print.writeSubs o.isPrint subs false = some (',' :: txt) ∧
    Seg o brk txt (tk :: ts) ∧ isPredStart tk.1 = true ∧
    ∀ f acc rest, 16 * (ts.length + 1) + 8 ≤ f →
      RunsV (StP o (tk :: ts ++ tRb :: rest)) (indexList o (f + 1) tk acc) (acc ++ subs) (StE o rest)

theorem subsOK_of (ok : OrOK o) : ∀ (subs : List Node), subs ≠ [] → (∀ s ∈ subs, SubOK o s) → SubsOK o subs := by
  intro subs
  induction subs with
  | nil => intro h; exact absurd rfl h
  | cons s ss ih =>
    intro _ hs
    obtain ⟨txt, tk, ts, hpr, hseg, hst, hrun⟩ := hs s (by simp)
    cases ss with
    | nil =>
      refine ⟨txt, tk, ts, by simp [Print.writeSubs, hpr], by simp [Print.writeSubs, hpr], hseg, hst, ?_⟩
      intro f acc rest hf
      exact hrun f acc (tRb :: rest) _ _ hf (Or.inr rfl) (indexK_last f acc s rest)
    | cons s2 ss2 =>
      obtain ⟨txt2, tk2, ts2, hpr2a, hpr2b, hseg2, hst2, hrun2⟩ :=
        ih (by simp) (fun x hx => hs x (by simp at hx ⊢; right; exact hx))
      refine ⟨txt ++ ',' :: txt2, tk, ts ++ tComma :: tk2 :: ts2, ?_, ?_, ?_, hst, ?_⟩
      · rw [Print.writeSubs]; simp [hpr, hpr2b]
      · rw [Print.writeSubs]; simp [hpr, hpr2b]
      · have h2 := Seg.app o (seg_comma o ok) hseg2 (fun _ _ => trivial)
        have h3 := Seg.app_cons o hseg h2 (Or.inr (Or.inr (Or.inr (Or.inr (Or.inl rfl)))))
        simpa using h3
      · intro f acc rest hf
        simp only [List.length_cons, List.length_append] at hf
        obtain ⟨f', rfl⟩ : ∃ f', f = f' + 1 := ⟨f - 1, by omega⟩
        have h2 := hrun2 f' (acc ++ [s]) rest (by omega)
        have h3 := indexK_more (o := o) (f' + 1) acc s tk2 (ts2 ++ tRb :: rest) (predStart_sub hst2).2 _ _
          (by simpa using h2)
        have := hrun (f' + 1) acc (tComma :: tk2 :: (ts2 ++ tRb :: rest)) _ _ (by omega) (Or.inl rfl) h3
        simpa using this

/-- `[s₁,…,sₙ]` as an accessor -/
theorem stepOK_index5 (ok : OrOK o) (subs : List Node) (nx : Option Node) (hne : subs ≠ [])
    (hs : ∀ s ∈ subs, SubOK o s) : StepOK o (.arrayIndex subs nx) := by
  obtain ⟨txt, tk, ts, hpr, _, hseg, hst, hrun⟩ := subsOK_of ok subs hne hs
  have hss := predStart_sub hst
  refine ⟨'[' :: (txt ++ [']']), .lbrack, ['['], tk :: ts ++ [tRb], '[', _, ?_, ?_, rfl,
    Or.inr (Or.inr (Or.inl rfl)), rfl, ?_⟩
  · intro wp
    rw [Print.writeTo]; simp only [Node.next, hpr]
    generalize Print.writeNext o.isPrint nx = w
    cases w <;> simp
  · have h1 := Seg.app_cons o hseg (seg_rb o ok) (Or.inr (Or.inr (Or.inr (Or.inl rfl))))
    have h2 := Seg.app o (seg_lb o ok) h1 (fun _ _ => trivial)
    have := h2.mono o (C' := brkS) (fun _ _ => trivial)
    simpa [tLb] using this
  · intro rest f _ hf
    simp only [List.length_cons, List.length_append, List.length_nil] at hf
    obtain ⟨f', rfl⟩ : ∃ f', f = f' + 2 := ⟨f - 2, by omega⟩
    have h1 := hrun f' [] rest (by omega)
    obtain ⟨t, x⟩ := tk
    simp only at hss
    rw [accessorOp]
    simp only [List.cons_append, List.append_assoc, List.nil_append]
    rstep (consume_spec _ _)
    simp only [reduceCtorEq, ↓reduceIte]
    rstep (peek_cons _ _)
    simp only [hss.1, hss.2, ↓reduceIte]
    simp only [List.cons_append, List.nil_append] at h1
    rstep h1
    exact RunsV.pure _

end

/-! ## Stage 5: an integer literal with accessors — `(1).abs()`, `(-2)."k"` -/

section
variable {o : Oracles}

theorem linkNodes_int (i : Int) (n : Node) (L : List Node) (hL : chainOf L = n.next) :
    linkNodes (evOf (.integer i none)) ([n.setNext none] ++ L) = evOf (.integer i (some n)) := by
  simp only [List.singleton_append, linkNodes, chainOf, hL, setNext_setNext, setNext_next]
  rfl

/-- after `(`: the literal, `)`, and its accessors -/
theorem parenTail_lit_chain (i : Int) (n : Node) {tk0 : TT} {ts0 : List TT} {p q : Prop}
    (hsp : ESpec o (.integer i none) tk0 ts0 p q)
    {t : Tok} {x : List Char} {ts ctoks : List TT} {L : List Node}
    (hacc : isAccessorStart t = true)
    (hop : ∀ rest f, (hd rest).1 ≠ .lbrace → 16 * (ts.length + 1) + 1 ≤ f →
      RunsV (StP o ((t, x) :: ts ++ rest)) (accessorOp o f t) (n.setNext none) (StE o rest))
    (hheadT : HeadT ctoks) (hL : chainOf L = n.next)
    (hloop : ∀ f head ops rest, 16 * ctoks.length + 2 ≤ f → isAccessorStart (hd rest).1 = false →
      (hd rest).1 ≠ .lbrace →
      RunsV (StE o (ctoks ++ rest)) (accessorLoop o f head ops) (linkNodes head (ops ++ L)) (StA o rest))
    (F : Nat) (ctx : Ctx) (hctx : ctx ≠ .pred) (rest : List TT)
    (hF : 16 * (ts0.length + ts.length + ctoks.length + 3) + 8 ≤ F + 2)
    (ha : isAccessorStart (hd rest).1 = false) (hb : (hd rest).1 ≠ .lbrace) :
    RunsV (StE o (tk0 :: ts0 ++ tRp :: (t, x) :: (ts ++ (ctoks ++ rest)))) (parenTail o (F + 3) ctx)
      (.expr (evOf (.integer i (some n)))) (StA o rest) := by
  rw [parenTail]
  have h1 := atom_of_expr hsp F ctx (tRp :: (t, x) :: (ts ++ (ctoks ++ rest))) (.expr (evOf (.integer i none)) .rparen)
    (StA o (tRp :: (t, x) :: (ts ++ (ctoks ++ rest)))) (by omega) ⟨rfl, by simp [hd, tRp], rfl, rfl⟩
    (exprK_end F ctx hctx _ (tRp :: (t, x) :: (ts ++ (ctoks ++ rest))) (Or.inl rfl))
  rstep h1
  simp only [ne_eq, not_true_eq_false, ↓reduceIte]
  rstep (consume_spec _ _)
  rstep (peek_cons _ _)
  simp only [hacc, ↓reduceIte]
  have h2 := hop (ctoks ++ rest) (F + 2) (hheadT.lbrace hb) (by omega)
  simp only [List.cons_append] at h2
  rstep h2
  have h3 := hloop (F + 2) (evOf (.integer i none)) [n.setNext none] rest (by omega) ha hb
  rstep h3
  exact RunsV.pure' (by rw [linkNodes_int i n L hL]) (fun _ h => h)

end

section
variable {o : Oracles} (ok : OrOK o)
include ok

/-- an integer literal (of either sign) with accessors: printed `(i)` followed by the accessors -/
theorem exprOK_intChain (i : Int) (n : Node) (hlit : ExprOK o (.integer i none)) (hs : StepOK o n)
    (hc : ChainOK o n.next) : ExprOK o (.integer i (some n)) := by
  obtain ⟨txt0, tk0, ts0, hpr0, hseg0, _, hsp⟩ := hlit false
  obtain ⟨stxt, t, x, ts, c, cs, hw, hseg, hcs, hbc, hacc, hop⟩ := hs
  obtain ⟨ctxt, ctoks, L, hw', hseg', hhead, hheadT, hL, hloop⟩ := hc
  have htxt0 : txt0 = Decimal.formatInt i := by
    have : Print.writeTo o.isPrint (.integer i none) false false = some (Decimal.formatInt i) := by
      simp [Print.writeTo, Print.writeNext, Print.parenIf]
    rw [this] at hpr0
    injection hpr0 with h
    exact h.symm
  have hopd : OpdSpec o (.integer i (some n)) tLp (tk0 :: ts0 ++ tRp :: (t, x) :: (ts ++ ctoks)) := by
    intro f rest hf ha hb
    simp only [List.length_cons, List.length_append] at hf
    obtain ⟨F, rfl⟩ : ∃ F, f = F + 4 := ⟨f - 4, by omega⟩
    rw [parseUnaryT]
    simp only [tLp, reduceCtorEq, ↓reduceIte]
    simp only [List.cons_append, List.append_assoc]
    rstep (consume_spec _ _)
    rstep (parenTail_lit_chain i n hsp hacc hop hheadT hL hloop F .parenE (by decide) rest (by omega) ha hb)
    exact RunsV.pure _
  have hha : HeadA o (.integer i (some n)) tLp (tk0 :: ts0 ++ tRp :: (t, x) :: (ts ++ ctoks)) := by
    intro f ctx rest w post hf ha hb hk
    simp only [List.length_cons, List.length_append] at hf
    obtain ⟨F, rfl⟩ : ∃ F, f = F + 3 := ⟨f - 3, by omega⟩
    rw [parseAtom]
    simp only [List.cons_append, List.append_assoc]
    rstep (peek_cons _ _)
    simp only [tLp, reduceCtorEq, ↓reduceIte]
    rstep (consume_spec _ _)
    rstep (parenTail_lit_chain i n hsp hacc hop hheadT hL hloop F .paren (by decide) rest (by omega) ha hb)
    exact hk
  intro wp
  refine ⟨'(' :: (txt0 ++ ')' :: (stxt ++ ctxt)), tLp, tk0 :: ts0 ++ tRp :: (t, x) :: (ts ++ ctoks), ?_, ?_, rfl,
    espec_unit hopd hha _ _⟩
  · rw [Print.writeTo]
    simp [Print.writeNext, hw true, hw', Print.parenIf, htxt0]
  · have h1 := Seg.app o hseg hseg' hhead
    have h2 := Seg.app_cons o (seg_rp o ok) (by rw [hcs] at h1; exact h1) trivial
    have h3 := Seg.app_cons o hseg0.1 h2 brk_rp
    have h4 := Seg2.app o (seg2_lp o ok) h3 (fun _ _ => trivial)
    rw [hcs]
    simpa using h4

end

/-! ## Stage 5: the class with general subscripts, `.time()` family, `.decimal()` -/

mutual
  /-- an expression: an operand of stage 3, a negative integer literal, a sign applied to an
      expression that is not a number literal, or `+ - * / %` between expressions -/
  def okExpr5 (o : Oracles) : Node → Bool
    | .const k nx => (isOpdConst k || k == .last) && okNext5 o nx
    | .str s nx => noNulB s && okNext5 o nx
    | .var s nx => noNulB s && okNext5 o nx
    | .integer i none => litOK i
    | .integer i (some n) => litOK i && okStep5 o n
    | .unary op (some x) none => isSign op && okExpr5 o x && notNumLit x
    | .binary op (some l) (some r) none => isArith op && okExpr5 o l && okExpr5 o r
    | _ => false
  def okPred5 (o : Oracles) : Node → Bool
    | .binary op (some l) (some r) none =>
      if isCmp op then okExpr5 o l && okExpr5 o r
      else if isLogic op then okPred5 o l && okPred5 o r
      else if op = .startsWith then
        okExpr5 o l && (match strOrVar? r with | some (_, s) => noNulB s | none => false)
      else false
    | .unary .not (some p) none => okPred5 o p
    | .unary .exists (some x) none => okExpr5 o x
    | .unary .isUnknown (some p) none => okPred5 o p
    | .regex x pat fl none => okExpr5 o x && noNulB pat && okFlags fl && o.regexAccepts pat fl
    | _ => false
  /-- one subscript: `e` or `e to e'` with expressions (in which `last` may occur) -/
  def okSub5 (o : Oracles) : Node → Bool
    | .binary .subscript (some l) none none => okExpr5 o l
    | .binary .subscript (some l) (some r) none => okExpr5 o l && okExpr5 o r
    | _ => false
  def okSubs5 (o : Oracles) : List Node → Bool
    | [] => true
    | s :: ss => okSub5 o s && okSubs5 o ss
  def okStep5 (o : Oracles) : Node → Bool
    | .unary .filter (some p) nx => okPred5 o p && okNext5 o nx
    | .arrayIndex subs nx => !subs.isEmpty && okSubs5 o subs && okNext5 o nx
    | .key s nx => noNulB s && okNext5 o nx
    | .const .anyKey nx => okNext5 o nx
    | .const .anyArray nx => okNext5 o nx
    | .any a b nx => lvlOK a && lvlOK b && okNext5 o nx
    | .method _ nx => okNext5 o nx
    | .unary .datetime (some (.str t none)) nx => noNulB t && okNext5 o nx
    | .unary op none nx => (op == .date || op == .datetime || isTimeOp op) && okNext5 o nx
    | .unary op (some (.integer p none)) nx => isTimeOp op && intOK p && okNext5 o nx
    | .binary .decimal l r nx => okDecArgs l r && okNext5 o nx
    | _ => false
  def okNext5 (o : Oracles) : Option Node → Bool
    | none => true
    | some n => okStep5 o n
end

inductive StepShape5 (o : Oracles) : Node → Prop
  | simple (n : Node) (h : StepShape n) (hnx : okNext5 o n.next = true) : StepShape5 o n
  | filter (p : Node) (nx : Option Node) (hp : okPred5 o p = true) (hnx : okNext5 o nx = true) :
      StepShape5 o (.unary .filter (some p) nx)
  | index (subs : List Node) (nx : Option Node) (hne : subs ≠ []) (hs : okSubs5 o subs = true)
      (hnx : okNext5 o nx = true) : StepShape5 o (.arrayIndex subs nx)
  | time0 (op : UnOp) (nx : Option Node) (hop : isTimeOp op = true) (hnx : okNext5 o nx = true) :
      StepShape5 o (.unary op none nx)
  | time1 (op : UnOp) (p : Int) (nx : Option Node) (hop : isTimeOp op = true) (hp : intOK p = true)
      (hnx : okNext5 o nx = true) : StepShape5 o (.unary op (some (.integer p none)) nx)
  | decimal (l r nx : Option Node) (h : okDecArgs l r = true) (hnx : okNext5 o nx = true) :
      StepShape5 o (.binary .decimal l r nx)

theorem okStep5_cases {o : Oracles} {n : Node} (h : okStep5 o n = true) : StepShape5 o n := by
  unfold okStep5 at h
  split at h
  · simp only [Bool.and_eq_true] at h; exact .filter _ _ h.1 h.2
  · simp only [Bool.and_eq_true, Bool.not_eq_true', List.isEmpty_eq_false_iff] at h
    exact .index _ _ h.1.1 h.1.2 h.2
  · simp only [Bool.and_eq_true] at h; exact .simple _ (.key _ _ (noNul_of_B h.1)) h.2
  · exact .simple _ (.anyKey _) h
  · exact .simple _ (.anyArray _) h
  · simp only [Bool.and_eq_true] at h; exact .simple _ (.any _ _ _ h.1.1 h.1.2) h.2
  · exact .simple _ (.method _ _) h
  · simp only [Bool.and_eq_true] at h; exact .simple _ (.datetime1 _ _ (noNul_of_B h.1)) h.2
  · rename_i op nx
    simp only [Bool.and_eq_true, Bool.or_eq_true, beq_iff_eq] at h
    rcases h.1 with (h1 | h1) | h1
    · subst h1; exact .simple _ (.date _) h.2
    · subst h1; exact .simple _ (.datetime0 _) h.2
    · exact .time0 _ _ h1 h.2
  · simp only [Bool.and_eq_true] at h; exact .time1 _ _ _ h.1.1 h.1.2 h.2
  · simp only [Bool.and_eq_true] at h; exact .decimal _ _ _ h.1 h.2
  · simp at h

inductive ExprShape5 (o : Oracles) : Node → Prop
  | const (k : Const) (nx : Option Node) (hk : isOpdConst k = true) (h : okNext5 o nx = true) : ExprShape5 o (.const k nx)
  | last (nx : Option Node) (h : okNext5 o nx = true) : ExprShape5 o (.const .last nx)
  | str (s : List Char) (nx : Option Node) (hs : NoNul s) (h : okNext5 o nx = true) : ExprShape5 o (.str s nx)
  | var (s : List Char) (nx : Option Node) (hs : NoNul s) (h : okNext5 o nx = true) : ExprShape5 o (.var s nx)
  | nat (i : Int) (h : intOK i = true) : ExprShape5 o (.integer i none)
  | neg (i : Int) (h : negOK i = true) : ExprShape5 o (.integer i none)
  | intChain (i : Int) (n : Node) (hi : litOK i = true) (hn : okStep5 o n = true) : ExprShape5 o (.integer i (some n))
  | sign (op : UnOp) (x : Node) (hop : isSign op = true) (hx : okExpr5 o x = true) (hn : notNumLit x = true) :
      ExprShape5 o (.unary op (some x) none)
  | arith (op : BinOp) (l r : Node) (hop : isArith op = true) (hl : okExpr5 o l = true) (hr : okExpr5 o r = true) :
      ExprShape5 o (.binary op (some l) (some r) none)

theorem okExpr5_cases {o : Oracles} {n : Node} (h : okExpr5 o n = true) : ExprShape5 o n := by
  unfold okExpr5 at h
  split at h
  · rename_i k nx
    simp only [Bool.and_eq_true, Bool.or_eq_true, beq_iff_eq] at h
    rcases h.1 with h1 | h1
    · exact .const _ _ h1 h.2
    · subst h1; exact .last _ h.2
  · simp only [Bool.and_eq_true] at h; exact .str _ _ (noNul_of_B h.1) h.2
  · simp only [Bool.and_eq_true] at h; exact .var _ _ (noNul_of_B h.1) h.2
  · rename_i i
    simp only [litOK, Bool.and_eq_true, decide_eq_true_eq] at h
    by_cases hi : 0 ≤ i
    · exact .nat i (by simp only [intOK, Bool.and_eq_true, decide_eq_true_eq]; omega)
    · exact .neg i (by simp only [negOK, Bool.and_eq_true, decide_eq_true_eq]; omega)
  · simp only [Bool.and_eq_true] at h; exact .intChain _ _ h.1 h.2
  · simp only [Bool.and_eq_true] at h; exact .sign _ _ h.1.1 h.1.2 h.2
  · simp only [Bool.and_eq_true] at h; exact .arith _ _ _ h.1.1 h.1.2 h.2
  · simp at h

theorem exprPrio5 {o : Oracles} {e : Node} (h : ExprShape5 o e) :
    3 ≤ Print.priority e ∧ Print.priority e ≤ 6 ∧ (isBin e = true → Print.priority e ≤ 4) ∧
      (isAddLevel e = true → Print.priority e = 3) := by
  cases h with
  | const => refine ⟨?_, ?_, ?_, ?_⟩ <;> simp [Print.priority, isBin, isAddLevel]
  | last => refine ⟨?_, ?_, ?_, ?_⟩ <;> simp [Print.priority, isBin, isAddLevel]
  | str => refine ⟨?_, ?_, ?_, ?_⟩ <;> simp [Print.priority, isBin, isAddLevel]
  | var => refine ⟨?_, ?_, ?_, ?_⟩ <;> simp [Print.priority, isBin, isAddLevel]
  | nat => refine ⟨?_, ?_, ?_, ?_⟩ <;> simp [Print.priority, isBin, isAddLevel]
  | neg => refine ⟨?_, ?_, ?_, ?_⟩ <;> simp [Print.priority, isBin, isAddLevel]
  | intChain => refine ⟨?_, ?_, ?_, ?_⟩ <;> simp [Print.priority, isBin, isAddLevel]
  | sign op x hop _ _ =>
    cases op <;> simp [isSign] at hop <;>
      (refine ⟨?_, ?_, ?_, ?_⟩ <;> simp [Print.priority, Print.unPriority, isBin, isAddLevel])
  | arith op l r hop _ _ =>
    cases op <;> simp [isArith] at hop <;>
      (refine ⟨?_, ?_, ?_, ?_⟩ <;> simp [Print.priority, Print.binPriority, isBin, isAddLevel])

inductive PredShape5 (o : Oracles) : Node → Prop
  | cmp (op : BinOp) (l r : Node) (hop : isCmp op = true) (hl : okExpr5 o l = true) (hr : okExpr5 o r = true) :
      PredShape5 o (.binary op (some l) (some r) none)
  | logic (op : BinOp) (l r : Node) (hop : isLogic op = true) (hl : okPred5 o l = true) (hr : okPred5 o r = true) :
      PredShape5 o (.binary op (some l) (some r) none)
  | starts (l : Node) (s : List Char) (isVar : Bool) (hl : okExpr5 o l = true) (hs : NoNul s) :
      PredShape5 o (.binary .startsWith (some l) (some (if isVar then .var s none else .str s none)) none)
  | not (p : Node) (h : okPred5 o p = true) : PredShape5 o (.unary .not (some p) none)
  | exists_ (x : Node) (h : okExpr5 o x = true) : PredShape5 o (.unary .exists (some x) none)
  | isUnknown (p : Node) (h : okPred5 o p = true) : PredShape5 o (.unary .isUnknown (some p) none)
  | regex (x : Node) (pat : List Char) (fl : Nat) (hx : okExpr5 o x = true) (hp : NoNul pat) (hfl : fl < 32)
      (hok : okFlags fl = true) (hacc : o.regexAccepts pat fl = true) : PredShape5 o (.regex x pat fl none)

theorem okPred5_cases {o : Oracles} {p : Node} (h : okPred5 o p = true) : PredShape5 o p := by
  unfold okPred5 at h
  split at h
  · rename_i op l r
    split at h
    · rename_i hc; simp only [Bool.and_eq_true] at h; exact .cmp op l r hc h.1 h.2
    · split at h
      · rename_i hc; simp only [Bool.and_eq_true] at h; exact .logic op l r hc h.1 h.2
      · split at h
        · rename_i hc
          subst hc
          simp only [Bool.and_eq_true] at h
          obtain ⟨h1, h2⟩ := h
          split at h2
          · rename_i b s hs
            rcases strOrVar?_some hs with ⟨hb, hr⟩ | ⟨hb, hr⟩
            · rw [hr]; exact .starts l s false h1 (noNul_of_B h2)
            · rw [hr]; exact .starts l s true h1 (noNul_of_B h2)
          · simp at h2
        · simp at h
  · exact .not _ h
  · exact .exists_ _ h
  · exact .isUnknown _ h
  · rename_i x pat fl
    simp only [Bool.and_eq_true] at h
    obtain ⟨⟨⟨h1, h2⟩, h3⟩, h4⟩ := h
    have hfl : fl < 32 := by
      simp only [okFlags, Bool.and_eq_true, decide_eq_true_eq] at h3
      exact h3.1
    exact .regex x pat fl h1 (noNul_of_B h2) hfl h3 h4
  · simp at h

theorem prio_facts5 {o : Oracles} {p : Node} (h : PredShape5 o p) :
    decide (Print.priority p ≤ Print.binPriority .and) = isAndOr p ∧
      decide (Print.priority p ≤ Print.binPriority .or) = isOr p := by
  cases h with
  | cmp op l r hop _ _ => cases op <;> simp [isCmp] at hop <;> exact ⟨rfl, rfl⟩
  | logic op l r hop _ _ => cases op <;> simp [isLogic] at hop <;> exact ⟨rfl, rfl⟩
  | starts l s isVar => exact ⟨rfl, rfl⟩
  | not => exact ⟨rfl, rfl⟩
  | exists_ => exact ⟨rfl, rfl⟩
  | isUnknown => exact ⟨rfl, rfl⟩
  | regex => exact ⟨rfl, rfl⟩

/-! ## Stage 5: the induction -/

structure AllOK5 (o : Oracles) (k : Nat) : Prop where
  expr : ∀ n : Node, sizeOf n ≤ k → okExpr5 o n = true → ExprOK o n
  pred : ∀ p : Node, sizeOf p ≤ k → okPred5 o p = true → PredOK o p
  step : ∀ n : Node, sizeOf n ≤ k → okStep5 o n = true → StepOK o n
  chain : ∀ nx : Option Node, sizeOf nx ≤ k → okNext5 o nx = true → ChainOK o nx

theorem okStep5_next {o : Oracles} {n : Node} (h : okStep5 o n = true) : okNext5 o n.next = true := by
  cases okStep5_cases h with
  | simple _ _ hnx => exact hnx
  | filter _ _ _ hnx => exact hnx
  | index _ _ _ _ hnx => exact hnx
  | time0 _ _ _ hnx => exact hnx
  | time1 _ _ _ _ _ hnx => exact hnx
  | decimal _ _ _ _ hnx => exact hnx

theorem okSubs5_mem {o : Oracles} : ∀ (subs : List Node), okSubs5 o subs = true → ∀ s ∈ subs, okSub5 o s = true := by
  intro subs
  induction subs with
  | nil => intro _ s hs; simp at hs
  | cons a ss ih =>
    intro h s hs
    simp only [okSubs5, Bool.and_eq_true] at h
    simp only [List.mem_cons] at hs
    rcases hs with rfl | hs
    · exact h.1
    · exact ih h.2 s hs

theorem okSub5_cases {o : Oracles} {s : Node} (h : okSub5 o s = true) :
    (∃ l, s = .binary .subscript (some l) none none ∧ okExpr5 o l = true) ∨
    (∃ l r, s = .binary .subscript (some l) (some r) none ∧ okExpr5 o l = true ∧ okExpr5 o r = true) := by
  unfold okSub5 at h
  split at h
  · exact Or.inl ⟨_, rfl, h⟩
  · simp only [Bool.and_eq_true] at h; exact Or.inr ⟨_, _, rfl, h.1, h.2⟩
  · simp at h

section
variable {o : Oracles} (ok : OrOK o)
include ok

/-- `last` (valid inside subscripts only) with its accessors -/
theorem exprOK_last {nx : Option Node} (hc : ChainOK o nx) : ExprOK o (.const .last nx) := by
  intro wp
  obtain ⟨ctxt, ctoks, hw, hcseg, hhead, hrun⟩ := unaryT_chain' (o := o) tLast (.const .last none) rfl hc
  have hopd : OpdSpec o (.const .last nx) tLast ctoks := by
    intro f rest hf h1 h2
    exact hrun f rest (by omega) h1 h2
  refine ⟨lastTxt ++ ctxt, tLast, ctoks, ?_, ?_, rfl,
    espec_unit hopd (headA_of_opdSpec hopd (by decide) (by decide) (by decide) (by decide)) _ _⟩
  · rw [Print.writeTo]; simp [hw, Print.constStr, lastTxt]
  · have h1 := (seg2_kw o ok 'l' ['a', 's', 't'] .last (by decide) (by decide)).mono o
      (C' := brkS) (fun _ h => brkS_identCont o ok h)
    have := Seg2.app o h1 hcseg hhead
    simpa [lastTxt, tLast] using this

theorem allOK5 : ∀ k, AllOK5 o k := by
  intro k
  induction k with
  | zero =>
    refine ⟨?_, ?_, ?_, ?_⟩
    · intro n hk _; have := sizeOf_node_pos n; omega
    · intro n hk _; have := sizeOf_node_pos n; omega
    · intro n hk _; have := sizeOf_node_pos n; omega
    · intro nx hk _
      cases nx with
      | none => exact chain_nil
      | some n => simp at hk
  | succ k ih =>
    refine ⟨?_, ?_, ?_, ?_⟩
    · intro n hk h
      cases okExpr5_cases h with
      | const c nx hc hnx =>
        simp only [Node.const.sizeOf_spec] at hk
        exact exprOK_opd ok (opdOK_const ok c hc (ih.chain nx (by omega) hnx))
      | last nx hnx =>
        simp only [Node.const.sizeOf_spec] at hk
        exact exprOK_last ok (ih.chain nx (by omega) hnx)
      | str s nx hs hnx =>
        simp only [Node.str.sizeOf_spec] at hk
        exact exprOK_opd ok (opdOK_str ok s hs (ih.chain nx (by omega) hnx))
      | var s nx hs hnx =>
        simp only [Node.var.sizeOf_spec] at hk
        exact exprOK_opd ok (opdOK_var ok s hs (ih.chain nx (by omega) hnx))
      | nat i hi => exact exprOK_opd ok (opdOK_int ok i hi)
      | neg i hi => exact exprOK_neg ok i hi
      | intChain i n hi hn =>
        simp only [Node.integer.sizeOf_spec, Option.some.sizeOf_spec] at hk
        have hlt := sizeOf_next_lt n
        have hlit : ExprOK o (.integer i none) := by
          simp only [litOK, Bool.and_eq_true, decide_eq_true_eq] at hi
          by_cases h0 : 0 ≤ i
          · exact exprOK_opd ok (opdOK_int ok i (by simp only [intOK, Bool.and_eq_true, decide_eq_true_eq]; omega))
          · exact exprOK_neg ok i (by simp only [negOK, Bool.and_eq_true, decide_eq_true_eq]; omega)
        exact exprOK_intChain ok i n hlit (ih.step n (by omega) hn) (ih.chain n.next (by omega) (okStep5_next hn))
      | sign op x hop hx hn =>
        simp only [Node.unary.sizeOf_spec, Option.some.sizeOf_spec] at hk
        have hp := exprPrio5 (okExpr5_cases hx)
        refine exprOK_sign ok op x hop (ih.expr x (by omega) hx) hn ?_
        rw [sign_prio hop]
        cases hb : isBin x with
        | false => exact Or.inr rfl
        | true => left; have := hp.2.2.1 hb; simp only [decide_eq_true_eq]; omega
      | arith op l r hop hl hr =>
        simp only [Node.binary.sizeOf_spec, Option.some.sizeOf_spec] at hk
        have hpl := exprPrio5 (okExpr5_cases hl)
        have hpr := exprPrio5 (okExpr5_cases hr)
        rcases arith_split hop with hm | ha
        · refine exprOK_mul ok op l r hm (ih.expr l (by omega) hl) (ih.expr r (by omega) hr) ?_ ?_
          · rw [mul_prio hm]
            cases hb : isBin l with
            | false => exact Or.inr rfl
            | true => left; have := hpl.2.2.1 hb; simp only [decide_eq_true_eq]; omega
          · rw [mul_prio hm]
            cases hb : isBin r with
            | false => exact Or.inr rfl
            | true => left; have := hpr.2.2.1 hb; simp only [decide_eq_true_eq]; omega
        · refine exprOK_add ok op l r ha (ih.expr l (by omega) hl) (ih.expr r (by omega) hr) ?_ ?_
          · rw [add_prio ha]
            cases hb : isAddLevel l with
            | false => exact Or.inr rfl
            | true => left; have := hpl.2.2.2 hb; simp only [decide_eq_true_eq]; omega
          · rw [add_prio ha]
            cases hb : isAddLevel r with
            | false => exact Or.inr rfl
            | true => left; have := hpr.2.2.2 hb; simp only [decide_eq_true_eq]; omega
    · intro p hk h
      cases okPred5_cases h with
      | cmp op l r hop hl hr =>
        simp only [Node.binary.sizeOf_spec, Option.some.sizeOf_spec] at hk
        have hpl := exprPrio5 (okExpr5_cases hl)
        have hpr := exprPrio5 (okExpr5_cases hr)
        refine predOK_cmpE ok op l r hop (ih.expr l (by omega) hl) (ih.expr r (by omega) hr) ?_ ?_
        · rw [cmp_prio hop]; simp only [decide_eq_false_iff_not]; omega
        · rw [cmp_prio hop]; simp only [decide_eq_false_iff_not]; omega
      | logic op l r hop hl hr =>
        simp only [Node.binary.sizeOf_spec, Option.some.sizeOf_spec] at hk
        exact predOK_logic ok op l r hop (prio_facts5 (okPred5_cases hl)) (prio_facts5 (okPred5_cases hr))
          (ih.pred l (by omega) hl) (ih.pred r (by omega) hr)
      | starts l s isVar hl hs =>
        simp only [Node.binary.sizeOf_spec, Option.some.sizeOf_spec] at hk
        have hpl := exprPrio5 (okExpr5_cases hl)
        refine predOK_startsE ok l s isVar (ih.expr l (by omega) hl) hs ?_
        have : Print.binPriority .startsWith = 2 := rfl
        rw [this]; simp only [decide_eq_false_iff_not]; omega
      | not q hq =>
        simp only [Node.unary.sizeOf_spec, Option.some.sizeOf_spec] at hk
        exact predOK_not ok q (ih.pred q (by omega) hq)
      | exists_ x hx =>
        simp only [Node.unary.sizeOf_spec, Option.some.sizeOf_spec] at hk
        exact predOK_existsE ok x (ih.expr x (by omega) hx)
      | isUnknown q hq =>
        simp only [Node.unary.sizeOf_spec, Option.some.sizeOf_spec] at hk
        exact predOK_isUnknown ok q (ih.pred q (by omega) hq)
      | regex x pat fl hx hp hfl hok hacc =>
        simp only [Node.regex.sizeOf_spec] at hk
        have hpx := exprPrio5 (okExpr5_cases hx)
        exact predOK_regexE ok x pat fl (ih.expr x (by omega) hx) hp hfl hok hacc
          (by simp only [decide_eq_true_eq]; omega)
    · intro n hk h
      cases okStep5_cases h with
      | simple _ hs hnx => exact stepOK_simple ok hs
      | filter p nx' hp hnx =>
        simp only [Node.unary.sizeOf_spec, Option.some.sizeOf_spec] at hk
        exact stepOK_filter ok p nx' (ih.pred p (by omega) hp)
      | index subs nx' hne hs hnx =>
        simp only [Node.arrayIndex.sizeOf_spec] at hk
        refine stepOK_index5 ok subs nx' hne ?_
        intro s hsm
        have hlt := List.sizeOf_lt_of_mem hsm
        rcases okSub5_cases (okSubs5_mem subs hs s hsm) with ⟨l, rfl, hl⟩ | ⟨l, r, rfl, hl, hr⟩
        · simp only [Node.binary.sizeOf_spec, Option.some.sizeOf_spec] at hlt
          exact subOK_one ok l (ih.expr l (by omega) hl)
        · simp only [Node.binary.sizeOf_spec, Option.some.sizeOf_spec] at hlt
          exact subOK_two ok l r (ih.expr l (by omega) hl) (ih.expr r (by omega) hr)
      | time0 op nx' hop hnx => exact stepOK_time0 ok op hop nx'
      | time1 op p nx' hop hp hnx => exact stepOK_time1 ok op hop p hp nx'
      | decimal l r nx' hd' hnx => exact stepOK_decimal ok l r nx' hd'
    · intro nx hk h
      cases nx with
      | none => exact chain_nil
      | some n =>
        simp only [Option.some.sizeOf_spec] at hk
        have hs : okStep5 o n = true := by simpa [okNext5] using h
        have hlt := sizeOf_next_lt n
        have hstep : StepOK o n := ih.step n (by omega) hs
        exact chain_cons hstep (ih.chain n.next (by omega) (okStep5_next hs))

end

/-- stage 5: a valid tree that is a stage-5 predicate (`pred = true`) or a stage-5 expression
    (`pred = false`), in either mode -/
def RT5 (o : Oracles) (a : AST) : Bool :=
  validate a.root && (if a.pred then okPred5 o a.root else okExpr5 o a.root)

section
variable {o : Oracles}

/-- **Stage 5.** -/
theorem roundtrip_stage5' (ok : OrOK o) (a : AST) (h : RT5 o a = true) :
    ∃ txt, Print.toString o.isPrint a = some txt ∧
      ∀ bytes, decodeAll bytes = txt.map Src.ch → parse o bytes = .ok a := by
  obtain ⟨root, lax, pred⟩ := a
  simp only [RT5, Bool.and_eq_true] at h
  obtain ⟨hv, hr⟩ := h
  cases pred with
  | true =>
    simp only [if_true] at hr
    exact roundtrip_pred ok ((allOK5 ok _).pred root (Nat.le_refl _) hr) hv lax
  | false =>
    simp only [Bool.false_eq_true, if_false] at hr
    exact roundtrip_expr ok ((allOK5 ok _).expr root (Nat.le_refl _) hr) hv lax

end

/-! ## Stage 4 ⊆ stage 5 -/

theorem okIdx_okExpr5 (o : Oracles) {l : Node} (h : okIdx l = true) : okExpr5 o l = true := by
  rcases okIdx_cases h with ⟨i, rfl, hi⟩ | rfl
  · simp [okExpr5, intOK_litOK hi]
  · simp [okExpr5, okNext5]

theorem okSub_okSub5 (o : Oracles) {s : Node} (h : okSub s = true) : okSub5 o s = true := by
  obtain ⟨l, r, rfl, hl, hr⟩ := okSub_cases h
  cases r with
  | none => simp [okSub5, okIdx_okExpr5 o hl]
  | some r => simp [okSub5, okIdx_okExpr5 o hl, okIdx_okExpr5 o (hr r rfl)]

theorem okSubs5_of (o : Oracles) : ∀ (subs : List Node), (∀ s ∈ subs, okSub s = true) → okSubs5 o subs = true := by
  intro subs
  induction subs with
  | nil => intro _; rfl
  | cons a ss ih =>
    intro h
    simp [okSubs5, okSub_okSub5 o (h a (by simp)), ih (fun s hs => h s (by simp [hs]))]

theorem simpleStep_okStep5 {o : Oracles} {n : Node} (h : simpleStep n = true) (hn : okNext5 o n.next = true) :
    okStep5 o n = true := by
  cases simpleStep_cases h with
  | index subs nx hne hs =>
    simp only [Node.next] at hn
    simp [okStep5, hne, okSubs5_of o subs hs, hn]
  | key s nx hs => simp_all [okStep5, simpleStep, Node.next]
  | anyKey nx => simp_all [okStep5, simpleStep, Node.next]
  | anyArray nx => simp_all [okStep5, simpleStep, Node.next]
  | any a b nx ha hb => simp_all [okStep5, simpleStep, Node.next]
  | method m nx => simp_all [okStep5, simpleStep, Node.next]
  | date nx => simp_all [okStep5, simpleStep, Node.next]
  | datetime0 nx => simp_all [okStep5, simpleStep, Node.next]
  | datetime1 t nx ht => simp_all [okStep5, simpleStep, Node.next]

structure Sub45 (o : Oracles) (k : Nat) : Prop where
  expr : ∀ n : Node, sizeOf n ≤ k → okExpr4 o n = true → okExpr5 o n = true
  pred : ∀ p : Node, sizeOf p ≤ k → okPred4 o p = true → okPred5 o p = true
  next : ∀ nx : Option Node, sizeOf nx ≤ k → okNext4 o nx = true → okNext5 o nx = true

theorem sub45 (o : Oracles) : ∀ k, Sub45 o k := by
  intro k
  induction k with
  | zero =>
    refine ⟨?_, ?_, ?_⟩
    · intro n hk _; have := sizeOf_node_pos n; omega
    · intro n hk _; have := sizeOf_node_pos n; omega
    · intro nx hk _
      cases nx with
      | none => rfl
      | some n => simp at hk
  | succ k ih =>
    refine ⟨?_, ?_, ?_⟩
    · intro n hk h
      cases okExpr4_cases h with
      | const c nx hc hnx =>
        simp only [Node.const.sizeOf_spec] at hk
        simp [okExpr5, hc, ih.next nx (by omega) hnx]
      | str s nx hs hnx =>
        simp only [Node.str.sizeOf_spec] at hk
        simp [okExpr5, noNulB_of hs, ih.next nx (by omega) hnx]
      | var s nx hs hnx =>
        simp only [Node.var.sizeOf_spec] at hk
        simp [okExpr5, noNulB_of hs, ih.next nx (by omega) hnx]
      | nat i hi => simp [okExpr5, intOK_litOK hi]
      | neg i hi =>
        have : litOK i = true := by
          simp only [negOK, litOK, Bool.and_eq_true, decide_eq_true_eq] at hi ⊢; omega
        simp [okExpr5, this]
      | sign op x hop hx hn =>
        simp only [Node.unary.sizeOf_spec, Option.some.sizeOf_spec] at hk
        simp [okExpr5, hop, hn, ih.expr x (by omega) hx]
      | arith op l r hop hl hr =>
        simp only [Node.binary.sizeOf_spec, Option.some.sizeOf_spec] at hk
        simp [okExpr5, hop, ih.expr l (by omega) hl, ih.expr r (by omega) hr]
    · intro p hk h
      cases okPred4_cases h with
      | cmp op l r hop hl hr =>
        simp only [Node.binary.sizeOf_spec, Option.some.sizeOf_spec] at hk
        simp [okPred5, hop, ih.expr l (by omega) hl, ih.expr r (by omega) hr]
      | logic op l r hop hl hr =>
        simp only [Node.binary.sizeOf_spec, Option.some.sizeOf_spec] at hk
        have hnc : isCmp op = false := by cases op <;> simp [isLogic] at hop <;> rfl
        simp [okPred5, hop, hnc, ih.pred l (by omega) hl, ih.pred r (by omega) hr]
      | starts l s isVar hl hs =>
        simp only [Node.binary.sizeOf_spec, Option.some.sizeOf_spec] at hk
        cases isVar <;> simp [okPred5, isCmp, isLogic, strOrVar?, noNulB_of hs, ih.expr l (by omega) hl]
      | not q hq =>
        simp only [Node.unary.sizeOf_spec, Option.some.sizeOf_spec] at hk
        simp [okPred5, ih.pred q (by omega) hq]
      | exists_ x hx =>
        simp only [Node.unary.sizeOf_spec, Option.some.sizeOf_spec] at hk
        simp [okPred5, ih.expr x (by omega) hx]
      | isUnknown q hq =>
        simp only [Node.unary.sizeOf_spec, Option.some.sizeOf_spec] at hk
        simp [okPred5, ih.pred q (by omega) hq]
      | regex x pat fl hx hp hfl hok hacc =>
        simp only [Node.regex.sizeOf_spec] at hk
        simp [okPred5, ih.expr x (by omega) hx, noNulB_of hp, hok, hacc]
    · intro nx hk h
      cases nx with
      | none => rfl
      | some n =>
        simp only [Option.some.sizeOf_spec] at hk
        rcases okStep4_cases (by simpa [okNext4] using h) with ⟨h1, h2⟩ | ⟨p, nx', rfl, hp, hnx⟩
        · have := sizeOf_next_lt n
          simp only [okNext5]
          exact simpleStep_okStep5 h1 (ih.next n.next (by omega) h2)
        · simp only [Node.unary.sizeOf_spec, Option.some.sizeOf_spec] at hk
          simp [okNext5, okStep5, ih.pred p (by omega) hp, ih.next nx' (by omega) hnx]

/-- stage 4 is part of stage 5 -/
theorem RT4_RT5 (o : Oracles) (a : AST) (h : RT4 o a = true) : RT5 o a = true := by
  obtain ⟨root, lax, pred⟩ := a
  simp only [RT4, RT5, Bool.and_eq_true] at h ⊢
  refine ⟨h.1, ?_⟩
  cases pred with
  | true => simpa using (sub45 o _).pred root (Nat.le_refl _) (by simpa using h.2)
  | false => simpa using (sub45 o _).expr root (Nat.le_refl _) (by simpa using h.2)

end RoundTrip
end Sqljson
